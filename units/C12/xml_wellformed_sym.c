/* C12, BOUNDED symbolic units (mode "bounded", "level": "other"): the REAL aws_xml_parse / s_node_next_sibling /
 * aws_xml_node_traverse / aws_xml_node_as_body / s_advance_to_closing_tag / s_load_node_decl of source/xml_parser.c
 * (+ the real byte_buf.c, array_list.c) run by CBMC on documents of a fixed small SHAPE.  Plain assume/assert harness (no
 * contracts are applied): every loop is unwound, unwinding assertions prove the unwinding bounds sufficient.
 *
 * What is CONCRETE (enumerated by loops of the harness, so that the layout of the document and with it the control flow
 * of the parser stay concrete for symbolic execution - with a symbolic layout every pointer of the parser becomes
 * symbolic and the formula explodes: 7M variables / no answer in 20 min for the smallest shape): the element names, the
 * number/form of the attributes, the text lengths, the program (per element: descend, read body or skip), max_depth.
 * What is SYMBOLIC (decided by the SAT back end for every value at once): every text byte (any value but '<'), every
 * attribute name/value byte (any value that is not markup), the preamble content.
 * (A symbolic body-or-descend choice was tried: it works on the unchanged code, where both paths leave the parser in the
 * same state, but a defect that makes the two paths diverge leaves a symbolic parser state and the run times out instead
 * of reporting the violation.)
 *
 * The generator records, per element, where its name, attributes and body lie (the "generating tree").  The callback
 * compares what the parser reports with that tree at the moment of the report:
 *   - the report arrives as the pos-th callback, pos = number of elements the program reaches before it in document
 *     order (exactly once, document order), and only for elements the program reaches,
 *   - at the right depth, name view == exactly the name bytes in the document (pointer + length),
 *   - attribute count, and every attribute's name/value view == exactly those bytes (quotes stripped),
 *   - a requested body == exactly the bytes between start and end tag,
 *   - aws_xml_parse returns success and the number of callbacks == number of elements the program reaches.
 * Shapes (VERIF_XML_SHAPE):
 *   1 "siblings"  <N0 A0>T<N1 A1>T</N1>T<N2 A2>T</N2>T</N0>
 *   2 "nested"    <N0 A0>T<N1 A1>T<N2 A2>T</N2>T</N1>T</N0>
 *   3 "attrlimit" <N0>T<N1 k=fv ... (9, 10 or 11 attributes)>T</N1>T</N0>
 *   4 "preamble"  v P v P w <N0 A0>T</N0>  (v = nothing | one text byte in front of each statement)     P = nothing | <?p?> | <?p> | <!p> (p: one byte, not '<' or '>'); w = nothing | one byte that is not '<'
 *   5 "attrs"     <N0 A A A>T</N0>         0..3 attributes, each quoted or not
 * Ni in {a, ab, b}; T = 0 or 1 text byte; A = nothing | " k=fv" | " k=\"f\"" (k, f symbolic bytes; an unquoted value ends
 * in the fixed letter v because the parser branches on the last byte of a start tag: '/' would make it self-closing).
 * Rejection harness: the same generator with a defect switched on - one closing tag left out, or a max_depth option below
 * what the program descends to (11 attributes: shape 3); aws_xml_parse must then return AWS_OP_ERR.
 * Environment stubs: malloc allocator, error slot, no logger; aws_fatal_assert = assert(0).
 * memchr (libc, ASSUMED; CBMC has no model of it): reference loop that skips the comparison of a generator byte with a
 * byte it was assumed not to be; harness h_memchr_model checks it against the plain loop for every content. */
#include "contracts/xml_parser.h" /* only for the ghost names that overlay/xml_parser.loops, byte_buf.loops mention */
#include <stdlib.h>

#ifndef VERIF_XML_SHAPE
#    define VERIF_XML_SHAPE 1
#endif
#define NEL 3
#define ATTR_CAP 11
#if VERIF_XML_SHAPE == 3
#    define DOCMAX (4 + 1 + 3 + 11 * 5 + 1 + 1 + 5 + 1 + 5)
#    define AMAX 10
#    define NUSED 2
#    define MAXDEPTH 1
#elif VERIF_XML_SHAPE == 4
#    define DOCMAX (5 + 5 + 1 + (3 + 6 + 1 + 5) + 1)
#    define AMAX 1
#    define NUSED 1
#    define MAXDEPTH 0
#elif VERIF_XML_SHAPE == 5
#    define DOCMAX ((3 + 3 * 6 + 1 + 5) + 1)
#    define AMAX 3
#    define NUSED 1
#    define MAXDEPTH 0
#else
#    define DOCMAX (3 * (3 + 6 + 1 + 5) + 5)
#    define AMAX 1
#    define NUSED 3
#    if VERIF_XML_SHAPE == 2
#        define MAXDEPTH 2
#    else
#        define MAXDEPTH 1
#    endif
#endif

static uint8_t r_doc[DOCMAX];
static size_t r_len;
/* bit ch of r_excl[i]: byte i is a free byte of the generator that was ASSUMED not to be the searched byte ch */
static uint8_t r_excl[DOCMAX];
enum { CH_LT, CH_GT, CH_SP, CH_EQ, N_CH };
static const uint8_t CH_BYTE[N_CH] = {'<', '>', ' ', '='};

void aws_raise_error_private(int err) { g_last_error = err; g_raise_count++; }
int aws_last_error(void) { return g_last_error; }
void aws_fatal_assert(const char *cond_str, const char *file, int line) {
    (void)cond_str; (void)file; (void)line;
    __CPROVER_assert(0, "aws_fatal_assert reachable (abort on input)");
    __CPROVER_assume(0);
}
struct aws_logger *aws_logger_get(void) { return NULL; }
void *aws_mem_acquire(struct aws_allocator *a, size_t n) { (void)a; void *p = malloc(n); __CPROVER_assume(p != NULL); return p; }
void aws_mem_release(struct aws_allocator *a, void *p) { (void)a; free(p); }
int aws_mem_realloc(struct aws_allocator *a, void **p, size_t o, size_t n) {
    (void)a;
    void *q = malloc(n); __CPROVER_assume(q != NULL);
    if (*p) { memcpy(q, *p, o < n ? o : n); free(*p); }
    *p = q;
    return 0;
}
void aws_secure_zero(void *p, size_t n) { memset(p, 0, n); }

/* ASSUMED (libc): memchr = its reference loop.  On the document the comparison of a FREE byte with a byte it was assumed
 * not to be (r_excl, see put_free) is skipped: symex cannot use the assumption, and a symbolic outcome there would make
 * every later pointer of the parser symbolic.  put_free asserts that the declaration is true of the byte. */
void *memchr(const void *s, int c, size_t n) {
    const uint8_t *p = (const uint8_t *)s;
    int ch = (uint8_t)c == '<' ? CH_LT : (uint8_t)c == '>' ? CH_GT : (uint8_t)c == ' ' ? CH_SP : (uint8_t)c == '=' ? CH_EQ : N_CH;
    bool in_doc = __CPROVER_same_object(s, r_doc);
    size_t off = __CPROVER_POINTER_OFFSET(s);
    for (size_t i = 0; i < n; ++i) {
        if (in_doc && ch != N_CH && off + i < DOCMAX && ((r_excl[off + i] >> ch) & 1)) {
            continue; /* this byte is known not to be c */
        }
        if (p[i] == (uint8_t)c) {
            return (void *)(p + i);
        }
    }
    return NULL;
}

uint8_t g_va, g_vb; /* ghosts named by loop contracts of other modules' overlays */
#include "source/byte_buf.c"
#include "source/array_list.c"
#include "source/xml_parser.c"

enum { ACT_DESCEND, ACT_BODY, ACT_SKIP };
enum { DEFECT_NONE, DEFECT_NO_CLOSE, DEFECT_DEPTH };
enum { AK_NONE, AK_PLAIN, AK_QUOTED };

struct el {
    int nm;                 /* 0 "a", 1 "ab", 2 "b" (concrete) */
    int depth, parent;
    size_t name_at, name_len;
    size_t nattr, ak[ATTR_CAP], av[ATTR_CAP], avlen[ATTR_CAP];
    size_t body_at, body_end;
    bool skip, body;        /* the action as two flags (skip; else body or descend) */
    int act;                /* the action of the program on this element (concrete) */
    bool reached;           /* every ancestor is descended into */
    int pos;                /* number of reached elements before this one in document order */
};
static struct el r_el[NEL];
static int r_defect, r_defect_el;
static int r_nreach;
static bool r_check;        /* acceptance harnesses: compare each report with the generating tree */
static int r_seen;          /* number of callbacks so far */
static int r_cnt[4];        /* number of callbacks per depth */
static bool r_too_deep;
static bool r_root_done;

static void put(uint8_t c) {
    __CPROVER_assert(r_len < DOCMAX, "generator: document fits its array");
    r_doc[r_len] = c;
    r_excl[r_len] = 0;
    r_len++;
}
#define EX(ch) (1u << (ch))
static void put_free(uint8_t c, uint8_t excl) {
    __CPROVER_assert(!((excl & EX(CH_LT)) && c == '<') && !((excl & EX(CH_GT)) && c == '>') && !((excl & EX(CH_SP)) && c == ' ') &&
                         !((excl & EX(CH_EQ)) && c == '='),
                     "memchr model: a free byte is none of the searched bytes it was declared not to be");
    put(c);
    r_excl[r_len - 1] = excl;
}
static void put_name(int nm) {
    if (nm != 2) put('a');
    if (nm != 0) put('b');
}
static void put_attr_byte(void) {
    uint8_t c = nondet_u8();
    __CPROVER_assume(c != ' ' && c != '=' && c != '<' && c != '>' && c != '/' && c != '"');
    put_free(c, EX(CH_LT) | EX(CH_GT) | EX(CH_SP) | EX(CH_EQ));
}
static void put_text(int n) {
    for (int i = 0; i < n; ++i) {
        uint8_t c = nondet_u8();
        __CPROVER_assume(c != '<');
        put_free(c, EX(CH_LT));
    }
}
/* kinds[k]: AK_PLAIN " k=fv", AK_QUOTED " k=\"f\"" */
static void put_open(int i, int nm, int depth, int parent, int action, int nattr, const int *kinds) {
    bool skip = action == ACT_SKIP;
    struct el *e = &r_el[i];
    e->nm = nm;
    e->depth = depth;
    e->parent = parent;
    e->skip = skip;
    e->body = action == ACT_BODY;
    e->act = skip ? ACT_SKIP : (e->body ? ACT_BODY : ACT_DESCEND);
    put('<');
    e->name_at = r_len;
    put_name(nm);
    e->name_len = nm == 1 ? 2 : 1;
    e->nattr = (size_t)nattr;
    for (int k = 0; k < nattr; ++k) {
        put(' ');
        e->ak[k] = r_len;
        put_attr_byte();
        put('=');
        if (kinds[k] == AK_QUOTED) {
            put('"');
            e->av[k] = r_len;
            e->avlen[k] = 1;
            put_attr_byte();
            put('"');
        } else {
            e->av[k] = r_len;
            e->avlen[k] = 2;
            put_attr_byte();
            put('v');
        }
    }
    put('>');
    e->body_at = r_len;
}
static void put_close(int i) {
    struct el *e = &r_el[i];
    e->body_end = r_len;
    if (r_defect == DEFECT_NO_CLOSE && r_defect_el == i) return; /* the closing tag is left out */
    put('<'); put('/');
    put_name(e->nm);
    put('>');
}
/* kind 0: nothing, 1: <?p?>, 2: <?p>, 3: <!p> */
static void put_preamble_statement(int kind) {
    if (kind == 0) return;
    uint8_t p = nondet_u8();
    __CPROVER_assume(p != '>' && p != '<');
    put('<');
    put(kind == 3 ? '!' : '?');
    put_free(p, EX(CH_GT) | EX(CH_LT));
    if (kind == 1) put('?');
    put('>');
}
static void finish_generation(void) {
    /* which elements the program reaches, and as the how-manieth callback */
    r_nreach = 0;
    for (int i = 0; i < NUSED; ++i) {
        struct el *e = &r_el[i];
        e->reached = e->parent < 0 || (r_el[e->parent].reached && r_el[e->parent].act == ACT_DESCEND);
        e->pos = r_nreach;
        if (e->reached) r_nreach++;
    }
}

static int on_node(struct aws_xml_node *node, void *ud);

/* the element a callback at this depth is about: by depth and order of arrival at that depth */
static int visit(struct aws_xml_node *node, int depth) {
    int nth = r_cnt[depth]++;
    int k = r_seen++;
#if VERIF_XML_SHAPE == 2
    int id = depth;
    bool exists = nth == 0;
#else
    int id = depth + nth;
    bool exists = depth == 0 ? nth == 0 : (depth == 1 && nth < NUSED - 1);
#endif
    if (!exists) {
        if (r_check) __CPROVER_assert(0, "no callback beyond the elements of the document (exactly once, nothing extra)");
        return AWS_OP_SUCCESS;
    }
    const struct el *e = &r_el[id];
    if (r_check) {
        struct aws_byte_cursor name = aws_xml_node_get_name(node);
        __CPROVER_assert(e->reached, "only elements the program reaches are reported");
        __CPROVER_assert(k == e->pos, "reported as the k-th callback, k = number of reached elements before it (document order, exactly once)");
        __CPROVER_assert(depth == e->depth, "element reported at the right depth");
        __CPROVER_assert(name.ptr == r_doc + e->name_at, "name view starts at the element's name in the document");
        __CPROVER_assert(name.len == e->name_len, "exact element name (length)");
        size_t na = aws_xml_node_get_num_attributes(node);
        __CPROVER_assert(na == e->nattr, "exact attribute count");
        for (size_t a = 0; a < AMAX; ++a) {
            if (a < na && a < e->nattr) {
                struct aws_xml_attribute at = aws_xml_node_get_attribute(node, a);
                __CPROVER_assert(at.name.ptr == r_doc + e->ak[a] && at.name.len == 1, "attribute name view is exactly the name in the document");
                __CPROVER_assert(at.value.ptr == r_doc + e->av[a] && at.value.len == e->avlen[a], "attribute value view is exactly the value in the document (quotes stripped)");
            }
        }
    }
    if (e->skip) {
        return AWS_OP_SUCCESS;
    }
    if (e->body) {
        struct aws_byte_cursor body;
        int rc = aws_xml_node_as_body(node, &body);
        if (r_check) {
            __CPROVER_assert(rc == AWS_OP_SUCCESS, "body of a well-formed element is delivered");
            __CPROVER_assert(body.len == e->body_end - e->body_at, "body length is exactly the distance between start and end tag");
            __CPROVER_assert(body.ptr == r_doc + e->body_at, "body starts right behind the start tag");
        }
        return rc;
    } else {
        int rc = aws_xml_node_traverse(node, on_node, (void *)(size_t)(depth + 1));
        if (r_check) __CPROVER_assert(rc == AWS_OP_SUCCESS, "traversal of a well-formed element succeeds");
        return rc;
    }
}
/* ONE callback function (so that the indirect calls of the parser have a single target for symex); the depth travels in
 * user_data.  The root's user_data comes back out of the parser's callback stack (heap): it is compared, not used. */
static int on_node(struct aws_xml_node *node, void *ud) {
    int depth;
    if (!r_root_done) {
        r_root_done = true;
        __CPROVER_assert(ud == NULL, "the root callback receives the user_data of the options");
        depth = 0;
    } else {
        depth = (int)(size_t)ud;
    }
    if (depth > MAXDEPTH) {
        r_too_deep = true;
        if (r_check) __CPROVER_assert(0, "no element is reported below the leaves of the document");
        return AWS_OP_SUCCESS;
    }
    return visit(node, depth);
}

static struct aws_allocator s_alloc;
static int run_parse(size_t max_depth) {
    struct aws_xml_parser_options o;
    AWS_ZERO_STRUCT(o);
    o.doc = aws_byte_cursor_from_array(r_doc, r_len);
    o.max_depth = max_depth;
    o.on_root_encountered = on_node;
    o.user_data = NULL;
    r_root_done = false;
    r_seen = 0;
    r_cnt[0] = r_cnt[1] = r_cnt[2] = r_cnt[3] = 0;
    r_too_deep = false;
    g_last_error = 0;
    g_raise_count = 0;
    return aws_xml_parse(&s_alloc, &o);
}

/* ---------------------------------------------------------------- enumeration of the concrete part (shapes 1, 2) */
#ifndef NM0_LO /* range of the root's name (units split the enumeration by it) */
#    define NM0_LO 0
#    define NM0_HI 2
#endif
#ifndef NM1_LO
#    define NM1_LO 0
#    define NM1_HI 2
#endif
/* layout variants {attribute forms, text slots}: attribute form per element in base 3, e0 + 3 * e1 + 9 * e2 (AK_NONE /
 * AK_PLAIN / AK_QUOTED); one text byte in slot s when bit s is set (5 slots) */
#define AP(e0, e1, e2) ((e0) + 3 * (e1) + 9 * (e2))
#ifndef VARIANTS
#    ifdef VERIF_XML_THOROUGH /* every presence pattern of attributes x {no text, text everywhere, text in slots 1 and 3} */
#        define VARIANTS {{AP(0,0,0), 0x00}, {AP(1,0,0), 0x00}, {AP(0,2,0), 0x00}, {AP(1,2,0), 0x00}, {AP(0,0,1), 0x00}, {AP(1,0,1), 0x00}, {AP(0,2,1), 0x00}, {AP(1,2,1), 0x00}, \
                          {AP(0,0,0), 0x1f}, {AP(2,0,0), 0x1f}, {AP(0,1,0), 0x1f}, {AP(2,1,0), 0x1f}, {AP(0,0,2), 0x1f}, {AP(2,0,2), 0x1f}, {AP(0,1,2), 0x1f}, {AP(2,1,2), 0x1f}, \
                          {AP(0,0,0), 0x0a}, {AP(1,0,0), 0x0a}, {AP(0,2,0), 0x0a}, {AP(1,2,0), 0x0a}, {AP(0,0,1), 0x0a}, {AP(1,0,1), 0x0a}, {AP(0,2,1), 0x0a}, {AP(1,2,1), 0x0a}}
#    else /* quick: no attributes + text everywhere; attributes everywhere + no text */
#        define VARIANTS {{AP(0,0,0), 0x1f}, {AP(1,2,1), 0x00}}
#    endif
#endif
static const int VARIANT[][2] = VARIANTS;
#define N_VARIANT ((int)(sizeof(VARIANT) / sizeof(VARIANT[0])))

#if VERIF_XML_SHAPE == 1 || VERIF_XML_SHAPE == 2
static void generate_tree(const int *nm, int apat, int tpat, const int *action) {
    int kind[3][1] = {{apat % 3}, {apat / 3 % 3}, {apat / 9 % 3}};
#    define OPEN(i, depth, parent) put_open(i, nm[i], depth, parent, action[i], kind[i][0] != AK_NONE, kind[i])
#    define TEXT(s) put_text((tpat >> (s)) & 1)
    r_len = 0;
#    if VERIF_XML_SHAPE == 1
    OPEN(0, 0, -1); TEXT(0);
    OPEN(1, 1, 0); TEXT(1); put_close(1); TEXT(2);
    OPEN(2, 1, 0); TEXT(3); put_close(2); TEXT(4);
    put_close(0);
#    else
    OPEN(0, 0, -1); TEXT(0);
    OPEN(1, 1, 0); TEXT(1);
    OPEN(2, 2, 1); TEXT(2); put_close(2); TEXT(3);
    put_close(1); TEXT(4);
    put_close(0);
#    endif
    finish_generation();
}
#    if VERIF_XML_SHAPE == 1
static const int PARENT[3] = {-1, 0, 0};
#    else
static const int PARENT[3] = {-1, 0, 1};
#    endif
/* a program is redundant when it gives an element below a non-descended one anything but the canonical "descend" (that
 * element is never looked at) */
static bool redundant(const int *action) {
    for (int i = 1; i < 3; ++i) {
        bool looked_at = true;
        for (int p = PARENT[i]; p >= 0; p = PARENT[p])
            if (action[p] != ACT_DESCEND) looked_at = false;
        if (!looked_at && action[i] != ACT_DESCEND) return true;
    }
    return false;
}

/* max_depth is concrete (a symbolic limit makes "limit exceeded" a path of every traversal for symex, and the merged
 * parser state symbolic): 0 = default limit (20), or the smallest limit the document stays below */
static void accept_case(size_t max_depth) {
    int rc = run_parse(max_depth);
    __CPROVER_assert(rc == AWS_OP_SUCCESS, "well-formed document within the limits is accepted");
    __CPROVER_assert(r_seen == r_nreach, "every element the program reaches is reported (exactly once: count)");
    /* reachability of the interesting programs (after the parse: the path through the parser is feasible); only those
     * the enumeration of this unit contains */
    if (r_el[0].act == ACT_DESCEND) CANARY("descend into the root");
#    if NM0_LO == 0
    if (r_el[0].act == ACT_BODY && r_el[0].nm == 0 && r_el[1].nm == 1) CANARY("body read of <a> whose child is <ab> (name extends its own)");
    if (r_el[0].act == ACT_SKIP && r_el[0].nm == 0 && r_el[1].nm == 1) CANARY("skip of <a> whose child is <ab>");
#    endif
#    ifdef HAVE_ATTR_VARIANT
    if (r_el[0].act == ACT_BODY && r_el[0].nm == r_el[1].nm && r_el[1].nattr > 0) CANARY("body read of an element whose child has the same name and attributes");
#    endif
#    if VERIF_XML_SHAPE == 1
    if (r_el[0].act == ACT_DESCEND && r_el[1].act == ACT_SKIP && r_el[2].act == ACT_BODY) CANARY("first child skipped, second child read");
#    else
    if (r_el[0].act == ACT_DESCEND && r_el[1].act == ACT_DESCEND && r_el[2].act == ACT_DESCEND) CANARY("descended to the innermost element");
    if (r_el[0].act == ACT_DESCEND && r_el[1].act == ACT_BODY && r_el[1].nm == 0 && r_el[2].nm == 1) CANARY("body read of a child <a> whose child is <ab>");
    if (r_el[0].act == ACT_DESCEND && r_el[1].act == ACT_SKIP && r_el[1].nm == 0 && r_el[2].nm == 1) CANARY("skip of a child <a> whose child is <ab>");
#    endif
}

void h_accept(void) {
    GHOST_RESET_COMMON();
    r_defect = DEFECT_NONE;
    r_check = true;
    int nm[3];
    for (nm[0] = NM0_LO; nm[0] <= NM0_HI; ++nm[0])
        for (nm[1] = NM1_LO; nm[1] <= NM1_HI; ++nm[1])
            for (nm[2] = 0; nm[2] < 3; ++nm[2])
                for (int v = 0; v < N_VARIANT; ++v)
                    for (int prog = 0; prog < 27; ++prog) {
                        int action[3] = {prog % 3, prog / 3 % 3, prog / 9};
                        if (redundant(action)) continue;
                        generate_tree(nm, VARIANT[v][0], VARIANT[v][1], action);
                        accept_case(0);
                        if (prog == 0) { /* everything descended into */
                            generate_tree(nm, VARIANT[v][0], VARIANT[v][1], action);
                            accept_case(MAXDEPTH + 2);
                            CANARY("accepted with the tightest depth limit");
                        }
                    }
}

/* ---------------------------------------------------------------- rejection: a closing tag left out / depth limit exceeded */
static void reject_case(size_t max_depth) {
    int rc = run_parse(max_depth);
    __CPROVER_assert(rc == AWS_OP_ERR, "document without a closing tag / beyond the depth limit is rejected with an error");
    __CPROVER_assert(g_raise_count > 0 && g_last_error != 0, "an error code is registered");
}
/* The programs of the rejection harness are CONCRETE (after a defect the body and the descend path leave the parser in
 * different states; merged, they would make the rest of the run symbolic): every ancestor of the defective element d is
 * descended into, d itself is skipped / read / descended into (all three), the remaining elements take one action each that
 * rotates with the names and d. */
void h_reject(void) {
    GHOST_RESET_COMMON();
    r_check = false;
    int nm[3];
    for (nm[0] = NM0_LO; nm[0] <= NM0_HI; ++nm[0])
        for (nm[1] = NM1_LO; nm[1] <= NM1_HI; ++nm[1])
            for (nm[2] = 0; nm[2] < 3; ++nm[2]) {
                int v = (nm[0] + nm[1] + nm[2]) % N_VARIANT; /* one layout variant per combination of names */
                /* (a) the closing tag of element d is missing; the program reaches element d */
                for (int d = 0; d < NUSED; ++d)
                    for (int act_d = ACT_DESCEND; act_d <= ACT_SKIP; ++act_d) {
                        int action[3];
                        for (int i = 0; i < 3; ++i) action[i] = (nm[0] + nm[1] + nm[2] + d + i) % 3;
                        for (int p = PARENT[d]; p >= 0; p = PARENT[p]) action[p] = ACT_DESCEND;
                        action[d] = act_d;
                        r_defect = DEFECT_NO_CLOSE;
                        r_defect_el = d;
                        generate_tree(nm, VARIANT[v][0], VARIANT[v][1], action);
                        __CPROVER_assert(r_el[d].reached, "harness: the defective element is reached");
                        reject_case(0);
                        if (d == 0) CANARY("root without closing tag rejected");
                        if (d == NUSED - 1 && act_d == ACT_DESCEND) CANARY("last element without closing tag, descended into, rejected");
                        if (d == NUSED - 1 && act_d == ACT_SKIP) CANARY("last element without closing tag, skipped, rejected");
                    }
                /* (b) max_depth = m, every element descended into: the traversal of the element at depth m - 1 is refused */
                for (size_t m = 1; m <= MAXDEPTH + 1; ++m) {
                    int action[3] = {ACT_DESCEND, ACT_DESCEND, ACT_DESCEND};
                    r_defect = DEFECT_DEPTH;
                    generate_tree(nm, VARIANT[v][0], VARIANT[v][1], action);
                    reject_case(m);
                    if (m == MAXDEPTH + 1) CANARY("depth limit exceeded at the innermost element rejected");
                }
            }
}
#endif

/* ---------------------------------------------------------------- attribute limit: 9, 10 (accepted, all reported), 11 (rejected) */
#if VERIF_XML_SHAPE == 3
void h_attr_limit(void) {
    GHOST_RESET_COMMON();
    r_defect = DEFECT_NONE;
    int kinds[ATTR_CAP] = {AK_PLAIN, AK_PLAIN, AK_PLAIN, AK_PLAIN, AK_PLAIN, AK_PLAIN, AK_PLAIN, AK_PLAIN, AK_PLAIN, AK_PLAIN, AK_PLAIN};
    for (int nm1 = 0; nm1 < 2; ++nm1)
        for (int n = 9; n <= 11; ++n)
            for (int act1 = ACT_DESCEND; act1 <= ACT_SKIP; ++act1) {
                r_len = 0;
                            put_open(0, 0, 0, -1, ACT_DESCEND, 0, kinds);
                put_text(1);
                put_open(1, nm1, 1, 0, act1, n, kinds);
                put_text(1);
                put_close(1);
                put_close(0);
                finish_generation();
                r_check = n <= 10; /* 11: nothing is compared, the result decides */
                int rc = run_parse(0);
                if (n <= 10) {
                    __CPROVER_assert(rc == AWS_OP_SUCCESS, "element with 9 or 10 attributes is accepted");
                    __CPROVER_assert(r_seen == 2, "both elements reported");
                    if (n == 10) CANARY("10 attributes accepted and reported"); else CANARY("9 attributes accepted and reported");
                } else {
                    __CPROVER_assert(rc == AWS_OP_ERR, "element with 11 attributes is rejected with an error");
                    __CPROVER_assert(g_raise_count > 0 && g_last_error != 0, "an error code is registered");
                    __CPROVER_assert(r_seen == 1, "the element with 11 attributes is not reported at all");
                    CANARY("11 attributes rejected");
                }
            }
}
#endif

/* ---------------------------------------------------------------- preamble statements and leading text */
#if VERIF_XML_SHAPE == 4
void h_preamble(void) {
    GHOST_RESET_COMMON();
    r_defect = DEFECT_NONE;
    r_check = true;
    int kinds[1] = {AK_QUOTED};
    for (int p1 = 0; p1 < 4; ++p1)
        for (int p2 = 0; p2 < 4; ++p2) {
            if (p1 == 0 && p2 != 0) continue; /* same documents as (p2, nothing) */
            for (int lead = 0; lead < 2; ++lead)
#ifdef VERIF_XML_PRE /* unit sym_preamble_lead: one text byte in front of each preamble statement (e.g. white space before <?xml) */
              for (int pre = 1; pre < 2; ++pre) {
                if (!p1 || p1 == 2 || p2 == 1 || p2 == 2) continue;
                for (int nm0 = 0; nm0 < 1; ++nm0)
                    for (int act0 = ACT_DESCEND; act0 <= ACT_DESCEND; ++act0) {
#else
              for (int pre = 0; pre < 1; ++pre) {
                for (int nm0 = 0; nm0 < 2; ++nm0)
                    for (int act0 = ACT_DESCEND; act0 <= ACT_SKIP; ++act0) {
#endif
                        r_len = 0;
                        put_text(pre);
                        put_preamble_statement(p1);
                        if (p2) put_text(pre);
                        put_preamble_statement(p2);
                        put_text(lead);
                        put_open(0, nm0, 0, -1, act0, (p1 + nm0) & 1, kinds);
                        put_text(1);
                        put_close(0);
                        finish_generation();
                        int rc = run_parse(0);
                        __CPROVER_assert(rc == AWS_OP_SUCCESS, "document with preamble statements is accepted");
                        __CPROVER_assert(r_seen == 1, "the root element is reported exactly once");
#ifdef VERIF_XML_PRE
                        if (pre && !lead) CANARY("bytes in front of the preamble, root directly behind it");
#else
                        if (p1 && p2) CANARY("two preamble statements skipped");
                        if (!p1 && !lead) CANARY("no preamble");
#endif
                    }
              }
        }
}
#endif

/* ---------------------------------------------------------------- attribute forms on one element */
#if VERIF_XML_SHAPE == 5
void h_attrs(void) {
    GHOST_RESET_COMMON();
    r_defect = DEFECT_NONE;
    r_check = true;
    for (int n = 0; n <= 3; ++n)
        for (int q = 0; q < (1 << n); ++q)
            for (int nm0 = 0; nm0 < 2; ++nm0)
                for (int act0 = ACT_DESCEND; act0 <= ACT_SKIP; ++act0) {
                        int t = (n + nm0) & 1; /* text empty or one byte */
                        int kinds[3] = {(q & 1) ? AK_QUOTED : AK_PLAIN, (q & 2) ? AK_QUOTED : AK_PLAIN, (q & 4) ? AK_QUOTED : AK_PLAIN};
                        r_len = 0;
                                            put_open(0, nm0, 0, -1, act0, n, kinds);
                        put_text(t);
                        put_close(0);
                        finish_generation();
                        int rc = run_parse(0);
                        __CPROVER_assert(rc == AWS_OP_SUCCESS, "element with 0..3 attributes is accepted");
                        __CPROVER_assert(r_seen == 1, "the element is reported exactly once");
                        if (n == 3 && q == 5) CANARY("three attributes, quoted / plain / quoted");
                        if (n == 0) CANARY("no attribute");
                    }
}
#endif

/* ---------------------------------------------------------------- memchr with exclusion knowledge against the plain loop */
static void *memchr_plain(const void *s, int c, size_t n) {
    const uint8_t *p = (const uint8_t *)s;
    for (size_t i = 0; i < n; ++i) {
        if (p[i] == (uint8_t)c) {
            return (void *)(p + i);
        }
    }
    return NULL;
}
void h_memchr_model(void) {
    r_len = nondet_size_t();
    __CPROVER_assume(r_len <= DOCMAX);
    for (size_t i = 0; i < DOCMAX; ++i) {
        r_doc[i] = nondet_u8();
        r_excl[i] = nondet_u8(); /* any declaration of excluded bytes that is true of the content */
        for (int ch = 0; ch < N_CH; ++ch) __CPROVER_assume(!((r_excl[i] >> ch) & 1) || r_doc[i] != CH_BYTE[ch]);
    }
    size_t off = nondet_size_t(), n = nondet_size_t();
    __CPROVER_assume(off <= r_len && n <= r_len - off);
    uint8_t c = nondet_u8();
    void *want = memchr_plain(r_doc + off, c, n);
    void *got = memchr(r_doc + off, c, n);
    __CPROVER_assert(got == want, "memchr that skips excluded bytes == plain reference loop (first occurrence or NULL)");
    if (got) CANARY("found"); else CANARY("not found");
}
