/* C12, BOUNDED symbolic units (mode "bounded", "level": "other"): the REAL aws_xml_parse / s_node_next_sibling /
 * aws_xml_node_traverse / aws_xml_node_as_body / s_advance_to_closing_tag / s_load_node_decl of source/xml_parser.c
 * (+ the real byte_buf.c, array_list.c) run by CBMC on a SYMBOLIC document of a fixed small SHAPE.  Plain assume/assert
 * harness (no contracts are applied): every loop is unwound, unwinding assertions prove the unwinding bounds sufficient.
 *
 * The document is generated into a byte array from nondeterministic choices; the generator also records, per element,
 * where its name, attributes and body lie (the "generating tree").  The callbacks compare what the parser reports with
 * that tree at the moment of the report:
 *   - the report arrives as the r_pos[id]-th callback = number of elements the program reaches before it in document
 *     order (exactly once, document order), and only for elements the program reaches,
 *   - at the right depth, name view == exactly the name bytes in the document (pointer + length),
 *   - attribute count, and every attribute's name/value view == exactly those bytes (quotes stripped),
 *   - a requested body == exactly the bytes between start and end tag,
 *   - aws_xml_parse returns success and the number of callbacks == number of elements the program reaches.
 * Shapes (VERIF_XML_SHAPE):
 *   1 "siblings"  <N0 A0>T<N1 A1>T</N1>T<N2 A2>T</N2>T</N0>
 *   2 "nested"    <N0 A0>T<N1 A1>T<N2 A2>T</N2>T</N1>T</N0>
 *   3 "attrs"     <N0>T<N1 k=v ... (9, 10 or 11 attributes)>T</N1>T</N0>
 *   4 "preamble"  P P w <N0 A0>T</N0>      P = nothing | <?p?> | <?p> | <!p> ; w = nothing | one byte that is not '<'
 * Ni in {a, ab, b}; T = 0..MAXT text bytes, any value but '<'; Ai = 0..MAXA attributes " k=v" or " k=\"v\"" with k, v one
 * byte each, any value that is not markup (' ', '=', '<', '>', '/', '"'); p any byte but '>'.
 * Per-element action in {descend, read body, skip}, chosen nondeterministically (leaves may be "descended" too); ROOT_ACTS
 * restricts the action of the root per unit (the formula is much smaller when the root's action is known to symex).
 * Rejection harness: the same generator with a defect switched on - one closing tag left out, or a max_depth option below
 * what the program descends to (11 attributes: shape 3); aws_xml_parse must then return AWS_OP_ERR.
 * Environment stubs: malloc allocator, error slot, no logger; aws_fatal_assert = assert(0).
 * memchr (libc, ASSUMED; CBMC has no model of it): on the document it is answered from "next occurrence" tables that are
 * computed once per document; harness h_memchr_model checks the tables against the reference loop for every document
 * content, offset, length and each of the four bytes the parser searches for ('<', '>', ' ', '='). */
#include "contracts/xml_parser.h" /* only for the ghost names that overlay/xml_parser.loops, byte_buf.loops mention */
#include <stdlib.h>

#ifndef VERIF_XML_SHAPE
#    define VERIF_XML_SHAPE 1
#endif
#ifndef MAXT
#    define MAXT 1 /* text bytes per text slot */
#endif
#ifndef MAXA
#    define MAXA 1 /* attributes per element (shapes 1, 2, 4) */
#endif
#ifndef ROOT_ACTS
#    define ROOT_ACTS 0 /* 0: the root's action is any of the three; 1: descend; 2: read body or skip */
#endif
#define NEL 3
#define ATTR_CAP 11
#if VERIF_XML_SHAPE == 3
#    define DOCMAX (4 + MAXT + 3 + 11 * 4 + 1 + MAXT + 5 + MAXT + 5)
#    define AMAX 10
#    define NUSED 2
#elif VERIF_XML_SHAPE == 4
#    define DOCMAX (5 + 5 + 1 + (3 + MAXA * 6 + 1 + 5) + MAXT)
#    define AMAX MAXA
#    define NUSED 1
#else
#    define DOCMAX (3 * (3 + MAXA * 6 + 1 + 5) + 5 * MAXT)
#    define AMAX MAXA
#    define NUSED 3
#endif
#if VERIF_XML_SHAPE == 2
#    define MAXDEPTH 2
#elif VERIF_XML_SHAPE == 4
#    define MAXDEPTH 0
#else
#    define MAXDEPTH 1
#endif

static uint8_t r_doc[DOCMAX];
static size_t r_len;
/* next occurrence tables: r_next[c][i] = smallest j >= i with r_doc[j] == byte c, or DOCMAX when there is none below r_len */
enum { CH_LT, CH_GT, CH_SP, CH_EQ, N_CH };
static const uint8_t CH_BYTE[N_CH] = {'<', '>', ' ', '='};
static uint8_t r_next[N_CH][DOCMAX + 1];
static bool r_tables;

void aws_raise_error_private(int err) { g_last_error = err; g_raise_count++; }
int aws_last_error(void) { return g_last_error; }
void aws_fatal_assert(const char *cond_str, const char *file, int line) {
    (void)cond_str; (void)file; (void)line;
    __CPROVER_assert(0, "aws_fatal_assert reachable (abort on input)");
    __CPROVER_assume(0);
}
struct aws_logger *aws_logger_get(void) { return NULL; }
void *aws_mem_acquire(struct aws_allocator *a, size_t n) { (void)a; void *p = malloc(n); __CPROVER_assume(p != NULL); return p; }
void aws_mem_release(struct aws_allocator *a, void *p) { (void)a; free(p); }
int aws_mem_realloc(struct aws_allocator *a, void **p, size_t o, size_t n) {
    (void)a;
    void *q = malloc(n); __CPROVER_assume(q != NULL);
    if (*p) { memcpy(q, *p, o < n ? o : n); free(*p); }
    *p = q;
    return 0;
}
void aws_secure_zero(void *p, size_t n) { memset(p, 0, n); }

static void *memchr_reference(const void *s, int c, size_t n) {
    const uint8_t *p = (const uint8_t *)s;
    for (size_t i = 0; i < n; ++i) {
        if (p[i] == (uint8_t)c) {
            return (void *)(p + i);
        }
    }
    return NULL;
}
static void *memchr_tables(const void *s, int c, size_t n) {
    size_t off = __CPROVER_POINTER_OFFSET(s);
    __CPROVER_assert(off <= r_len && n <= r_len - off, "memchr model: the searched range lies inside the document");
    int ch = (uint8_t)c == '<' ? CH_LT : (uint8_t)c == '>' ? CH_GT : (uint8_t)c == ' ' ? CH_SP : CH_EQ;
    size_t q = r_next[ch][off];
    return q - off < n ? (void *)(r_doc + q) : NULL;
}
void *memchr(const void *s, int c, size_t n) {
    bool known = (uint8_t)c == '<' || (uint8_t)c == '>' || (uint8_t)c == ' ' || (uint8_t)c == '=';
    if (r_tables && known && __CPROVER_same_object(s, r_doc)) {
        return memchr_tables(s, c, n);
    }
    __CPROVER_assert(!r_tables, "memchr model: every search of the parser is one of '<' '>' ' ' '=' inside the document");
    return memchr_reference(s, c, n);
}
static void build_tables(void) {
    for (int ch = 0; ch < N_CH; ++ch) {
        r_next[ch][DOCMAX] = DOCMAX;
        for (size_t i = DOCMAX; i-- > 0;) {
            r_next[ch][i] = (i < r_len && r_doc[i] == CH_BYTE[ch]) ? (uint8_t)i : r_next[ch][i + 1];
        }
    }
    r_tables = true;
}

uint8_t g_va, g_vb; /* ghosts named by loop contracts of other modules' overlays */
#include "source/byte_buf.c"
#include "source/array_list.c"
#include "source/xml_parser.c"

enum { ACT_DESCEND, ACT_BODY, ACT_SKIP };
enum { DEFECT_NONE, DEFECT_NO_CLOSE, DEFECT_DEPTH };

struct el {
    int nm;                 /* 0 "a", 1 "ab", 2 "b" */
    int depth, parent;
    size_t name_at, name_len;
    size_t nattr, ak[ATTR_CAP], av[ATTR_CAP];
    size_t body_at, body_end;
    int act;
    bool reached;           /* every ancestor is descended into */
    int pos;                /* number of reached elements before this one in document order */
};
static struct el r_el[NEL];
static int r_defect, r_defect_el;
static int r_nreach;
static bool r_check;        /* acceptance harnesses: compare each report with the generating tree */
static int r_seen;          /* number of callbacks so far */
static int r_cnt[4];        /* number of callbacks per depth */
static bool r_too_deep;

static void put(uint8_t c) {
    __CPROVER_assert(r_len < DOCMAX, "generator: document fits its array");
    r_doc[r_len] = c;
    r_len++;
}
static void put_name(int nm) {
    if (nm != 2) put('a');
    if (nm != 0) put('b');
}
static uint8_t attr_byte(void) {
    uint8_t c = nondet_u8();
    __CPROVER_assume(c != ' ' && c != '=' && c != '<' && c != '>' && c != '/' && c != '"');
    return c;
}
static void put_text(void) {
    size_t n = nondet_size_t();
    __CPROVER_assume(n <= MAXT);
    for (size_t i = 0; i < MAXT; ++i) {
        if (i < n) {
            uint8_t c = nondet_u8();
            __CPROVER_assume(c != '<');
            put(c);
        }
    }
}
static void put_open(int i, int depth, int parent, size_t min_attr, size_t max_attr, bool quotes) {
    struct el *e = &r_el[i];
    e->nm = nondet_int();
    __CPROVER_assume(e->nm >= 0 && e->nm <= 2);
    e->depth = depth;
    e->parent = parent;
    e->act = nondet_int();
    __CPROVER_assume(e->act >= ACT_DESCEND && e->act <= ACT_SKIP);
#if ROOT_ACTS == 1
    if (i == 0) e->act = ACT_DESCEND;
#elif ROOT_ACTS == 2
    if (i == 0) e->act = nondet_bool() ? ACT_BODY : ACT_SKIP;
#endif
    put('<');
    e->name_at = r_len;
    put_name(e->nm);
    e->name_len = e->nm == 1 ? 2 : 1;
    e->nattr = nondet_size_t();
    __CPROVER_assume(e->nattr >= min_attr && e->nattr <= max_attr);
    for (size_t k = 0; k < max_attr; ++k) {
        if (k < e->nattr) {
            bool quoted = quotes && nondet_bool();
            put(' ');
            e->ak[k] = r_len;
            put(attr_byte());
            put('=');
            if (quoted) put('"');
            e->av[k] = r_len;
            put(attr_byte());
            if (quoted) put('"');
        }
    }
    put('>');
    e->body_at = r_len;
}
static void put_close(int i) {
    struct el *e = &r_el[i];
    e->body_end = r_len;
    if (r_defect == DEFECT_NO_CLOSE && r_defect_el == i) return; /* the closing tag is left out */
    put('<'); put('/');
    put_name(e->nm);
    put('>');
}
static void put_preamble_statement(void) {
    if (nondet_bool()) {
        uint8_t p = nondet_u8();
        __CPROVER_assume(p != '>');
        put('<');
        put(nondet_bool() ? '?' : '!');
        put(p);
        if (nondet_bool()) put('?');
        put('>');
    }
}

static void generate(size_t min_attr1, size_t max_attr1) {
    r_len = 0;
    r_tables = false;
#if VERIF_XML_SHAPE == 1
    put_open(0, 0, -1, 0, MAXA, true); put_text();
    put_open(1, 1, 0, 0, MAXA, true); put_text(); put_close(1); put_text();
    put_open(2, 1, 0, 0, MAXA, true); put_text(); put_close(2); put_text();
    put_close(0);
    (void)min_attr1; (void)max_attr1;
#elif VERIF_XML_SHAPE == 2
    put_open(0, 0, -1, 0, MAXA, true); put_text();
    put_open(1, 1, 0, 0, MAXA, true); put_text();
    put_open(2, 2, 1, 0, MAXA, true); put_text(); put_close(2); put_text();
    put_close(1); put_text();
    put_close(0);
    (void)min_attr1; (void)max_attr1;
#elif VERIF_XML_SHAPE == 3
    put_open(0, 0, -1, 0, 0, false); put_text();
    put_open(1, 1, 0, min_attr1, max_attr1, false); put_text(); put_close(1); put_text();
    put_close(0);
#else
    put_preamble_statement();
    put_preamble_statement();
    if (nondet_bool()) {
        uint8_t w = nondet_u8();
        __CPROVER_assume(w != '<');
        put(w);
    }
    put_open(0, 0, -1, 0, MAXA, true); put_text();
    put_close(0);
    (void)min_attr1; (void)max_attr1;
#endif
    build_tables();
    /* which elements the program reaches, and as the how-manieth callback */
    r_nreach = 0;
    for (int i = 0; i < NUSED; ++i) {
        struct el *e = &r_el[i];
        e->reached = e->parent < 0 || (r_el[e->parent].reached && r_el[e->parent].act == ACT_DESCEND);
        e->pos = r_nreach;
        if (e->reached) r_nreach++;
    }
}

static int on_node(struct aws_xml_node *node, void *ud);
static bool r_root_done;

/* the element a callback at this depth is about: by depth and order of arrival at that depth */
static int visit(struct aws_xml_node *node, int depth) {
    int nth = r_cnt[depth]++;
    int k = r_seen++;
#if VERIF_XML_SHAPE == 2
    int id = depth;
    bool exists = nth == 0;
#else
    int id = depth + nth;
    bool exists = depth == 0 ? nth == 0 : (depth == 1 && nth < NUSED - 1);
#endif
    if (!exists) {
        if (r_check) __CPROVER_assert(0, "no callback beyond the elements of the document (exactly once, nothing extra)");
        return AWS_OP_SUCCESS;
    }
    const struct el *e = &r_el[id];
    if (r_check) {
        struct aws_byte_cursor name = aws_xml_node_get_name(node);
        __CPROVER_assert(e->reached, "only elements the program reaches are reported");
        __CPROVER_assert(k == e->pos, "reported as the k-th callback, k = number of reached elements before it (document order, exactly once)");
        __CPROVER_assert(depth == e->depth, "element reported at the right depth");
        __CPROVER_assert(name.ptr == r_doc + e->name_at, "name view starts at the element's name in the document");
        __CPROVER_assert(name.len == e->name_len, "exact element name (length)");
        size_t na = aws_xml_node_get_num_attributes(node);
        __CPROVER_assert(na == e->nattr, "exact attribute count");
        for (size_t a = 0; a < AMAX; ++a) {
            if (a < na && a < e->nattr) {
                struct aws_xml_attribute at = aws_xml_node_get_attribute(node, a);
                __CPROVER_assert(at.name.ptr == r_doc + e->ak[a] && at.name.len == 1, "attribute name view is exactly the name in the document");
                __CPROVER_assert(at.value.ptr == r_doc + e->av[a] && at.value.len == 1, "attribute value view is exactly the value in the document (quotes stripped)");
            }
        }
    }
    if (e->act == ACT_BODY && !(ROOT_ACTS == 1 && depth == 0)) {
        struct aws_byte_cursor body;
        int rc = aws_xml_node_as_body(node, &body);
        if (r_check) {
            __CPROVER_assert(rc == AWS_OP_SUCCESS, "body of a well-formed element is delivered");
            __CPROVER_assert(body.len == e->body_end - e->body_at, "body length is exactly the distance between start and end tag");
            __CPROVER_assert(body.ptr == r_doc + e->body_at, "body starts right behind the start tag");
        }
        return rc;
    }
    if (e->act == ACT_DESCEND && !(ROOT_ACTS == 2 && depth == 0)) {
        int rc = aws_xml_node_traverse(node, on_node, (void *)(size_t)(depth + 1));
        if (r_check) __CPROVER_assert(rc == AWS_OP_SUCCESS, "traversal of a well-formed element succeeds");
        return rc;
    }
    return AWS_OP_SUCCESS;
}
/* ONE callback function (so that the indirect calls of the parser have a single target for symex); the depth travels in
 * user_data.  The root's user_data comes back out of the parser's callback stack (heap): it is compared, not used. */
static int on_node(struct aws_xml_node *node, void *ud) {
    int depth;
    if (!r_root_done) {
        r_root_done = true;
        __CPROVER_assert(ud == NULL, "the root callback receives the user_data of the options");
        depth = 0;
    } else {
        depth = (int)(size_t)ud;
    }
    if (depth > MAXDEPTH) {
        r_too_deep = true;
        if (r_check) __CPROVER_assert(0, "no element is reported below the leaves of the document");
        return AWS_OP_SUCCESS;
    }
    return visit(node, depth);
}

static struct aws_allocator s_alloc;
static int run_parse(size_t max_depth) {
    struct aws_xml_parser_options o;
    AWS_ZERO_STRUCT(o);
    o.doc = aws_byte_cursor_from_array(r_doc, r_len);
    o.max_depth = max_depth;
    o.on_root_encountered = on_node;
    r_root_done = false;
    o.user_data = NULL;
    r_seen = 0;
    r_cnt[0] = r_cnt[1] = r_cnt[2] = r_cnt[3] = 0;
    r_too_deep = false;
    return aws_xml_parse(&s_alloc, &o);
}

/* ---------------------------------------------------------------- acceptance: shapes 1, 2, 4 */
void h_accept(void) {
    GHOST_RESET_COMMON();
    r_defect = DEFECT_NONE;
    r_check = true;
    generate(0, 0);
    size_t max_depth = nondet_size_t();
    __CPROVER_assume(max_depth == 0 || max_depth > NEL); /* default limit (20) or any limit the document stays below */
    int rc = run_parse(max_depth);
    __CPROVER_assert(rc == AWS_OP_SUCCESS, "well-formed document within the limits is accepted");
    __CPROVER_assert(r_seen == r_nreach, "every element the program reaches is reported (exactly once: count)");
    /* reachability of the interesting programs (after the parse: the path through the parser is feasible) */
#if VERIF_XML_SHAPE == 4
    if (r_doc[0] == '<' && r_doc[1] == '?' && r_el[0].name_at >= 9) CANARY("two preamble statements skipped");
    if (r_el[0].name_at == 1) CANARY("no preamble");
#else
    if (r_el[0].act == ACT_DESCEND) CANARY("descend into the root");
    if (r_el[0].act == ACT_BODY && r_el[0].nm == 0 && r_el[1].nm == 1) CANARY("body read of <a> whose child is <ab> (name extends its own)");
    if (r_el[0].act == ACT_SKIP && r_el[0].nm == 0 && r_el[1].nm == 1) CANARY("skip of <a> whose child is <ab>");
    if (r_el[0].act == ACT_BODY && r_el[0].nm == r_el[1].nm && r_el[1].nattr > 0) CANARY("body read of an element whose child has the same name and attributes");
#    if VERIF_XML_SHAPE == 1
    if (r_el[0].act == ACT_DESCEND && r_el[1].act == ACT_SKIP && r_el[1].nm == 0 && r_el[2].nm == 1 && r_el[2].act == ACT_BODY) CANARY("first child <a> skipped, second child <ab> read");
#    else
    if (r_el[0].act == ACT_DESCEND && r_el[1].act == ACT_DESCEND && r_el[2].act == ACT_DESCEND) CANARY("descended to the innermost element");
    if (r_el[0].act == ACT_DESCEND && r_el[1].act == ACT_BODY && r_el[1].nm == 0 && r_el[2].nm == 1) CANARY("body read of a child <a> whose child is <ab>");
    if (r_el[0].act == ACT_DESCEND && r_el[1].act == ACT_SKIP && r_el[1].nm == 0 && r_el[2].nm == 1) CANARY("skip of a child <a> whose child is <ab>");
#    endif
#endif
}

/* ---------------------------------------------------------------- rejection: a closing tag left out / depth limit exceeded */
void h_reject(void) {
    GHOST_RESET_COMMON();
    r_check = false;
    r_defect = nondet_bool() ? DEFECT_NO_CLOSE : DEFECT_DEPTH;
    r_defect_el = nondet_int();
    __CPROVER_assume(r_defect_el >= 0 && r_defect_el < NUSED);
    generate(0, 0);
    /* the defect must lie where the program looks: the element without closing tag is reached; resp. an element at depth
     * d is reached and descended into while max_depth <= d + 1 */
    bool looked_at = false;
    size_t max_depth = 0;
    if (r_defect == DEFECT_NO_CLOSE) {
        looked_at = r_el[r_defect_el].reached;
    } else {
        max_depth = nondet_size_t();
        __CPROVER_assume(max_depth >= 1 && max_depth <= NEL);
        for (int i = 0; i < NUSED; ++i)
            if (r_el[i].reached && r_el[i].act == ACT_DESCEND && (size_t)r_el[i].depth + 1 >= max_depth) looked_at = true;
    }
    __CPROVER_assume(looked_at);
    int rc = run_parse(max_depth);
    __CPROVER_assert(rc == AWS_OP_ERR, "document without a closing tag / beyond the depth limit is rejected with an error");
    __CPROVER_assert(g_raise_count > 0 && g_last_error != 0, "an error code is registered");
    if (r_defect == DEFECT_NO_CLOSE && r_defect_el == 0) CANARY("root without closing tag rejected");
    if (r_defect == DEFECT_NO_CLOSE && r_defect_el == NUSED - 1 && r_el[NUSED - 1].act == ACT_DESCEND) CANARY("last element without closing tag, descended into, rejected");
    if (r_defect == DEFECT_DEPTH && max_depth == NEL) CANARY("depth limit exceeded rejected");
}

/* ---------------------------------------------------------------- attribute limit: 9, 10 (accepted, all reported), 11 (rejected) */
void h_attr_limit(void) {
    GHOST_RESET_COMMON();
    r_defect = DEFECT_NONE;
    generate(9, 11);
    r_check = r_el[1].nattr <= 10; /* 11: nothing is compared, the result decides */
    int rc = run_parse(0);
    if (r_el[1].nattr <= 10) {
        __CPROVER_assert(rc == AWS_OP_SUCCESS, "element with 9 or 10 attributes is accepted");
        __CPROVER_assert(r_seen == 2, "both elements reported");
        if (r_el[1].nattr == 10) CANARY("10 attributes accepted and reported"); else CANARY("9 attributes accepted and reported");
    } else {
        __CPROVER_assert(rc == AWS_OP_ERR, "element with 11 attributes is rejected with an error");
        __CPROVER_assert(r_seen == 1, "the element with 11 attributes is not reported at all");
        CANARY("11 attributes rejected");
    }
}

/* ---------------------------------------------------------------- the memchr tables against the reference loop */
void h_memchr_model(void) {
    r_len = nondet_size_t();
    __CPROVER_assume(r_len <= DOCMAX);
    for (size_t i = 0; i < DOCMAX; ++i) r_doc[i] = nondet_u8();
    build_tables();
    size_t off = nondet_size_t(), n = nondet_size_t();
    __CPROVER_assume(off <= r_len && n <= r_len - off);
    int ch = nondet_int();
    __CPROVER_assume(ch >= 0 && ch < N_CH);
    void *want = memchr_reference(r_doc + off, CH_BYTE[ch], n);
    void *got = memchr(r_doc + off, CH_BYTE[ch], n);
    __CPROVER_assert(got == want, "table-driven memchr == reference loop (first occurrence or NULL)");
    if (got) CANARY("found"); else CANARY("not found");
}
