/* C12 bounded stand-in (native, "level": "other"): exhaustive enumeration of small WELL-FORMED documents of the dialect
 * (explicit start and end tags, text without markup) x every per-node choice of callback action (descend / read body /
 * skip), run through the REAL aws_xml_parse / aws_xml_node_traverse / aws_xml_node_as_body / s_advance_to_closing_tag /
 * s_load_node_decl of $REPO/source/xml_parser.c (+ byte_buf.c, array_list.c), and compared with the generating tree:
 *   - every element the program reaches is reported exactly once, in document order, at the right depth, with its name,
 *   - a requested body is exactly the text between the start and the end tag,
 *   - skipped elements do not disturb their following siblings,
 *   - the parse succeeds (the document is well-formed and within every limit).
 * Bound: token sequences of at most NTOK tokens over {<a> <ab> <b> <ba> x </>}, i.e. at most 4 elements, nesting depth <= 4,
 * names drawn from {a, ab, b, ba} so that names repeat, nest inside themselves and are prefixes of one another; root body
 * <= 14 bytes.  Environment stubs: malloc allocator, an error slot, no logger.
 * Output protocol of the driver: "CASES n", "FAIL ..." lines; exit 1 when a case failed.
 * An attribute pass runs <a k..=v..><b k..=v..>t</b></a> with 0..10 attributes on each element (exact count, names, values;
 * values with and without quotes) and 11 attributes (must be refused).
 * A second pass adds self-closing elements (<a/>); they are outside the stated dialect, deviations are printed as NOTE. */
#include <aws/common/byte_buf.h>
#include <aws/common/xml_parser.h>
#include <stdarg.h>
#include <stdio.h>
#include <stdlib.h>
#include <string.h>

/* ---------------- environment ---------------- */
static int s_last_error;
void aws_raise_error_private(int err) { s_last_error = err; }
int aws_last_error(void) { return s_last_error; }
void aws_fatal_assert(const char *cond_str, const char *file, int line) {
    printf("FAIL fatal assert reached: %s (%s:%d)\n", cond_str, file, line);
    printf("CASES 1\n");
    exit(1);
}
struct aws_logger *aws_logger_get(void) { return NULL; }
void *aws_mem_acquire(struct aws_allocator *a, size_t n) { (void)a; void *p = malloc(n); if (!p) abort(); return p; }
void aws_mem_release(struct aws_allocator *a, void *p) { (void)a; free(p); }
int aws_mem_realloc(struct aws_allocator *a, void **p, size_t o, size_t n) { (void)a; (void)o; void *q = realloc(*p, n); if (!q) abort(); *p = q; return 0; }
void aws_secure_zero(void *p, size_t n) { memset(p, 0, n); }
static struct aws_allocator s_alloc;

/* ---------------- generating tree ---------------- */
#define NTOK 8
#define MAXN 5
enum { T_A, T_AB, T_B, T_BA, T_TEXT, T_CLOSE, T_SELF_A, T_SELF_AB, N_TOK_KINDS };
static const char *const NAMES[] = {"a", "ab", "b", "ba"};
struct node {
    int parent, depth, name, nchild, child[MAXN], selfclose;
    size_t name_at, body_at, body_end;
};
static char doc[128];
static size_t doc_len;
static struct node nd[MAXN];
static int nn;

static void put(const char *s) { size_t n = strlen(s); memcpy(doc + doc_len, s, n); doc_len += n; }

/* build document + tree from a token sequence; returns 0 if the sequence is not one well-formed document */
static int build(const int *tok, int ntok) {
    int stack[MAXN + 1], sp = 0;
    doc_len = 0; nn = 0;
    for (int i = 0; i < ntok; ++i) {
        int t = tok[i];
        if (sp == 0 && i > 0) return 0;            /* something behind the root element */
        if (t == T_TEXT) { if (sp == 0) return 0; put("x"); continue; }
        if (t == T_CLOSE) {
            if (sp == 0) return 0;
            struct node *n = &nd[stack[--sp]];
            n->body_end = doc_len;
            put("</"); put(NAMES[n->name]); put(">");
            continue;
        }
        if (nn == MAXN) return 0;
        int self = (t == T_SELF_A || t == T_SELF_AB);
        if (self && sp == 0) return 0;
        struct node *n = &nd[nn];
        memset(n, 0, sizeof(*n));
        n->name = t == T_SELF_A ? 0 : t == T_SELF_AB ? 1 : t;
        n->selfclose = self;
        n->parent = sp ? stack[sp - 1] : -1;
        n->depth = sp;
        if (sp) { struct node *p = &nd[stack[sp - 1]]; p->child[p->nchild++] = nn; }
        put("<"); n->name_at = doc_len; put(NAMES[n->name]);
        if (self) { put("/>"); n->body_at = n->body_end = doc_len; }
        else { put(">"); n->body_at = doc_len; stack[sp++] = nn; }
        nn++;
    }
    if (sp != 0 || nn == 0) return 0;
    if (nd[0].body_end - nd[0].body_at > 14) return 0;
    return 1;
}

/* ---------------- program (per-node action) and event comparison ---------------- */
enum { ACT_DESCEND, ACT_BODY, ACT_SKIP, N_ACT };
static int act[MAXN];
struct event { int node, depth; int has_body; size_t body_at, body_len; };
static struct event expect_ev[MAXN], seen_ev[4 * MAXN];
static int n_expect, n_seen;
static const char *why;

static void expect_visit(int i) {
    struct event *e = &expect_ev[n_expect++];
    e->node = i; e->depth = nd[i].depth; e->has_body = 0;
    if (act[i] == ACT_BODY) { e->has_body = 1; e->body_at = nd[i].body_at; e->body_len = nd[i].body_end - nd[i].body_at; }
    if (act[i] == ACT_DESCEND) for (int c = 0; c < nd[i].nchild; ++c) expect_visit(nd[i].child[c]);
}

static const char *base;
static int on_node(struct aws_xml_node *node, void *ud) {
    int depth = (int)(size_t)ud;
    struct aws_byte_cursor name = aws_xml_node_get_name(node);
    int id = -1;
    for (int i = 0; i < nn; ++i) if ((const char *)name.ptr == base + nd[i].name_at) id = i;
    if (n_seen == 4 * MAXN) { why = "too many callbacks"; return AWS_OP_ERR; }
    struct event *e = &seen_ev[n_seen++];
    e->node = id; e->depth = depth; e->has_body = 0;
    if (id < 0) { why = "callback for something that is not an element of the document"; return AWS_OP_SUCCESS; }
    size_t want = strlen(NAMES[nd[id].name]);
    if (!nd[id].selfclose && (name.len != want || memcmp(name.ptr, NAMES[nd[id].name], want))) why = "wrong element name";
    if (act[id] == ACT_BODY) {
        struct aws_byte_cursor body;
        if (aws_xml_node_as_body(node, &body)) { why = "aws_xml_node_as_body failed on a well-formed element"; return AWS_OP_ERR; }
        e->has_body = 1; e->body_len = body.len;
        e->body_at = body.len ? (size_t)((const char *)body.ptr - base) : nd[id].body_at;
        return AWS_OP_SUCCESS;
    }
    if (act[id] == ACT_DESCEND) {
        if (aws_xml_node_traverse(node, on_node, (void *)(size_t)(depth + 1))) { if (!why) why = "aws_xml_node_traverse failed on a well-formed element"; return AWS_OP_ERR; }
    }
    return AWS_OP_SUCCESS;
}

static unsigned long n_cases, n_fail, n_note, n_fail_docs;
static char last_fail_doc[128];

static void run_program(int with_self) {
    n_expect = 0; n_seen = 0; why = NULL;
    expect_visit(0);
    char *exact = malloc(doc_len); /* exact-size copy: a sanitizer build sees any over-read */
    memcpy(exact, doc, doc_len);
    base = exact;
    struct aws_xml_parser_options o = {.doc = aws_byte_cursor_from_array(exact, doc_len), .on_root_encountered = on_node, .user_data = (void *)0};
    s_last_error = 0;
    int rc = aws_xml_parse(&s_alloc, &o);
    if (!why && rc != AWS_OP_SUCCESS) why = "well-formed document rejected";
    if (!why && n_seen != n_expect) why = n_seen < n_expect ? "an element was not reported" : "an element was reported more than once / extra callbacks";
    for (int i = 0; !why && i < n_expect; ++i) {
        if (seen_ev[i].node != expect_ev[i].node) why = "elements reported out of document order";
        else if (seen_ev[i].depth != expect_ev[i].depth) why = "element reported at the wrong depth";
        else if (expect_ev[i].has_body && (seen_ev[i].body_len != expect_ev[i].body_len || seen_ev[i].body_at != expect_ev[i].body_at)) why = "body is not the text between start and end tag";
    }
    n_cases++;
    if (why) {
        char prog[MAXN + 1];
        for (int i = 0; i < nn; ++i) prog[i] = "DBS"[act[i]];
        prog[nn] = 0;
        if (with_self) {
            if (n_note++ < 12) printf("NOTE (self-closing element, outside the dialect) doc=[%.*s] actions=%s rc=%d err=%d: %s\n", (int)doc_len, doc, prog, rc, s_last_error, why);
        } else {
            int newdoc = strlen(last_fail_doc) != doc_len || memcmp(last_fail_doc, doc, doc_len);
            if (newdoc) { memcpy(last_fail_doc, doc, doc_len); last_fail_doc[doc_len] = 0; n_fail_docs++; }
            if (n_fail++ < 25) printf("FAIL doc=[%.*s] actions(per element in document order: D descend, B body, S skip)=%s rc=%d err=%d: %s\n", (int)doc_len, doc, prog, rc, s_last_error, why);
        }
    }
    free(exact);
}

static void all_programs(int i, int with_self) {
    if (i == nn) { run_program(with_self); return; }
    for (int a = 0; a < N_ACT; ++a) {
        if (nd[i].selfclose && a == ACT_DESCEND) continue; /* nothing to descend into */
        act[i] = a;
        all_programs(i + 1, with_self);
    }
}

static void enumerate(int ntok, int with_self) {
    int tok[NTOK] = {0};
    int kinds = with_self ? N_TOK_KINDS : T_SELF_A;
    for (;;) {
        int has_self = 0;
        for (int i = 0; i < ntok; ++i) if (tok[i] >= T_SELF_A) has_self = 1;
        if (has_self == with_self && build(tok, ntok)) all_programs(0, with_self);
        int k = ntok - 1;
        while (k >= 0 && ++tok[k] == kinds) tok[k--] = 0;
        if (k < 0) break;
    }
}


/* ---------------- attribute pass: 0..10 attributes on the root and on a child, exact names and values; 11 must be refused ---------------- */
static int s_attr_n[2], s_attr_bad;
static int on_attr_node(struct aws_xml_node *node, void *ud) {
    int which = (int)(size_t)ud;
    size_t n = aws_xml_node_get_num_attributes(node);
    if ((int)n != s_attr_n[which]) { s_attr_bad = 1; printf("FAIL attribute pass: element %d reports %zu attributes, document has %d\n", which, n, s_attr_n[which]); fflush(stdout); }
    for (size_t i = 0; i < n && i < 10; ++i) {
        struct aws_xml_attribute a = aws_xml_node_get_attribute(node, i);
        char kn[8], vn[8];
        snprintf(kn, sizeof kn, "k%d%zu", which, i);
        snprintf(vn, sizeof vn, "v%zu", i);
        if (!aws_byte_cursor_eq_c_str(&a.name, kn) || !aws_byte_cursor_eq_c_str(&a.value, vn)) {
            s_attr_bad = 1;
            printf("FAIL attribute pass: attribute %zu of element %d is %.*s=%.*s, expected %s=%s\n", i, which, (int)a.name.len, a.name.ptr, (int)a.value.len, a.value.ptr, kn, vn);
            fflush(stdout);
        }
    }
    if (which == 0) return aws_xml_node_traverse(node, on_attr_node, (void *)(size_t)1);
    return AWS_OP_SUCCESS;
}
static void attribute_pass(void) {
    for (int n0 = 0; n0 <= 11; ++n0) for (int n1 = 0; n1 <= 11; ++n1) {
        if (n0 == 11 && n1 != 0) continue;
        char d[600]; size_t len = 0;
        len += (size_t)snprintf(d + len, sizeof d - len, "<a");
        for (int i = 0; i < n0; ++i) len += (size_t)snprintf(d + len, sizeof d - len, i % 2 ? " k0%d=\"v%d\"" : " k0%d=v%d", i, i);
        len += (size_t)snprintf(d + len, sizeof d - len, "><b");
        for (int i = 0; i < n1; ++i) len += (size_t)snprintf(d + len, sizeof d - len, i % 2 ? " k1%d=v%d" : " k1%d=\"v%d\"", i, i);
        len += (size_t)snprintf(d + len, sizeof d - len, ">t</b></a>");
        char *exact = malloc(len); memcpy(exact, d, len);
        s_attr_n[0] = n0; s_attr_n[1] = n1; s_attr_bad = 0;
        struct aws_xml_parser_options o = {.doc = aws_byte_cursor_from_array(exact, len), .on_root_encountered = on_attr_node, .user_data = (void *)0};
        s_last_error = 0;
        int rc = aws_xml_parse(&s_alloc, &o);
        int over = n0 > 10 || n1 > 10;
        n_cases++;
        if (!over && rc != AWS_OP_SUCCESS) { s_attr_bad = 1; printf("FAIL attribute pass: document with %d/%d attributes rejected (rc=%d err=%d)\n", n0, n1, rc, s_last_error); }
        if (over && rc == AWS_OP_SUCCESS) { s_attr_bad = 1; printf("FAIL attribute pass: document with %d/%d attributes (limit 10) accepted instead of rejected\n", n0, n1); }
        if (s_attr_bad) n_fail++;
        free(exact);
    }
}

int main(void) {
    for (int n = 2; n <= NTOK; ++n) enumerate(n, 0);
    unsigned long base_cases = n_cases;
    for (int n = 3; n <= 6; ++n) enumerate(n, 1);
    attribute_pass();
    printf("explicit-tag dialect: %lu (document, program) cases, %lu failed in %lu distinct documents; self-closing pass: %lu cases, %lu deviations\n",
           base_cases, n_fail, n_fail_docs, n_cases - base_cases, n_note);
    printf("CASES %lu\n", n_cases);
    return n_fail ? 1 : 0;
}
