/* Proof units for C06 (priority queue): contracts + the REAL source/priority_queue.c, source/array_list.c and the
 * inline array-list functions.  Compiled per element size (-DVERIF_ITEM_SIZE=8 | 136) and queue bound (-DVERIF_PQ_N=7 | 15).
 *
 * Bounded units: the harness builds an arbitrary queue state with concrete objects (storage of nondeterministic
 * capacity and contents, static or dynamic, handle array absent or present with an arbitrary assignment of pool handles
 * to slots); the contract's `requires` cuts the state space down to the representation invariant.  DFCC then checks the
 * real body against ensures + frame.  The sift loops, the clear loop, the 128-byte-slice loop of the element swap and
 * aws_is_mem_zeroed are unwound completely for the bound (unwinding assertions on). */
#define VERIF_TRACK_ERRORS
#include "contracts/priority_queue.h"
#include "source/array_list.c"
#include "source/priority_queue.c"

/* AWS_FATAL_PRECONDITION/-ASSERT and abort(): reaching them from a valid state is a failed obligation
 * ("the library does not abort on valid input"), not a silently pruned path */
void aws_fatal_assert(const char *cond_str, const char *file, int line) {
    (void)cond_str; (void)file; (void)line;
    __CPROVER_assert(0, "aws_fatal_assert reached: the library would abort");
    __CPROVER_assume(0);
}
void abort(void) {
    __CPROVER_assert(0, "abort() reached: the library would abort");
    __CPROVER_assume(0);
}

#define PQ_GHOSTS() do { AL_GHOST_RESET(); g_on = true; g_pj = nondet_size_t(); g_ck = nondet_u8(); g_cb = nondet_u8(); g_cnt = nondet_size_t(); \
        g_ki = nondet_size_t(); g_ki_key = nondet_u8(); g_ki_b = nondet_u8(); g_ki_bp = nondet_ptr(); \
        g_h = nondet_size_t(); g_h_idx = nondet_size_t(); g_h_inq = nondet_bool(); g_h_key = nondet_u8(); g_h_b = nondet_u8(); \
        g_r_key = nondet_u8(); g_r_b = nondet_u8(); g_moved = nondet_bool(); \
        g_last_error = nondet_int(); g_raise_count = nondet_int(); } while (0)

/* arbitrary queue state (shape only; heap order, handle indices, witnesses come from the requires clauses).
 * g_rank[], g_nodes[] and the storage contents are nondeterministic. */
static void pq_build(struct aws_priority_queue *q) {
    size_t len = nondet_size_t(), cap = nondet_size_t(), bpcap = nondet_size_t();
    bool dyn = nondet_bool(), live = nondet_bool();
    __CPROVER_assume(len <= PQN && len <= cap && cap <= PQ_CAPMAX && (dyn || cap >= 1));
    q->pred = pq_rank_cmp;
    q->container.alloc = dyn ? &g_pq_alloc : NULL;
    q->container.item_size = ISZ;
    q->container.length = len;
    q->container.current_size = cap * ISZ;
    q->container.data = cap ? malloc(cap * ISZ) : NULL;
    __CPROVER_assume(cap == 0 || q->container.data != NULL);
    if (dyn && live) {
        __CPROVER_assume(bpcap >= 1 && len <= bpcap && bpcap <= PQ_CAPMAX);
        struct aws_priority_queue_node **bp = malloc(bpcap * PQ_PSZ);
        __CPROVER_assume(bp != NULL);
        for (size_t i = 0; i < PQN; i++) {
            if (i < len) {
                size_t h = nondet_size_t();
                bp[i] = h < PQK ? &g_nodes[h] : NULL;
            }
        }
        q->backpointers.alloc = &g_pq_alloc;
        q->backpointers.item_size = PQ_PSZ;
        q->backpointers.length = len;
        q->backpointers.current_size = bpcap * PQ_PSZ;
        q->backpointers.data = bp;
    } else {
        q->backpointers.alloc = NULL;
        q->backpointers.item_size = 0;
        q->backpointers.length = 0;
        q->backpointers.current_size = 0;
        q->backpointers.data = NULL;
    }
}

/* ---------------------------------------------------------------- internal mechanisms */
void h_swap(void) {
    struct aws_priority_queue q; size_t a = nondet_size_t(), b = nondet_size_t();
    PQ_GHOSTS(); pq_build(&q);
    s_swap(&q, a, b);
    if (a == b) CANARY("same slot"); else if (q.backpointers.data == NULL) CANARY("no handle array");
    else if (g_h_inq && g_h_idx == a) CANARY("ghost handle swapped"); else CANARY("handle array");
}
void h_sift_down(void) {
    struct aws_priority_queue q; size_t root = nondet_size_t();
    PQ_GHOSTS(); pq_build(&q);
    bool r = s_sift_down(&q, root);
    if (!r) CANARY("stayed"); else if (root == 0 && q.container.length == PQN) CANARY("moved from the root of a full tree"); else CANARY("moved");
}
void h_sift_up(void) {
    struct aws_priority_queue q; size_t index = nondet_size_t();
    PQ_GHOSTS(); pq_build(&q);
    bool r = s_sift_up(&q, index);
    if (!r) CANARY("stayed"); else if (index == PQN - 1) CANARY("moved from the last slot"); else CANARY("moved");
}
void h_sift_either(void) {
    struct aws_priority_queue q; size_t index = nondet_size_t();
    PQ_GHOSTS(); pq_build(&q);
    s_sift_either(&q, index);
    if (index == 0) CANARY("root"); else CANARY("inner");
}
void h_remove_node(void) {
    struct aws_priority_queue q; size_t index = nondet_size_t(); uint8_t out[ISZ];
    PQ_GHOSTS(); pq_build(&q);
    int r = s_remove_node(&q, out, index);
    if (q.container.length == 0) CANARY("removed the only element"); else if (index == q.container.length) CANARY("removed the last slot");
    else if (q.backpointers.data != NULL) CANARY("removed an inner slot, handles"); else CANARY("removed an inner slot, no handles");
}

/* ---------------------------------------------------------------- public operations */
void h_pop(void) {
    struct aws_priority_queue q; uint8_t out[ISZ];
    PQ_GHOSTS(); pq_build(&q);
    int r = aws_priority_queue_pop(&q, out);
    if (r != 0) CANARY("empty queue refused"); else if (q.container.length == PQN - 1) CANARY("popped from a full tree");
    else if (g_h_inq && g_h_idx == 0) CANARY("popped the ghost handle's element"); else CANARY("popped");
}
void h_remove(void) {
    struct aws_priority_queue q; uint8_t out[ISZ]; size_t h = nondet_size_t();
    PQ_GHOSTS(); pq_build(&q);
    __CPROVER_assume(h < PQK);
    int r = aws_priority_queue_remove(&q, out, &g_nodes[h]);
    if (r == 0) { if (h == g_h) CANARY("removed the ghost handle's element"); else CANARY("removed another element"); }
    else if (q.backpointers.data == NULL) CANARY("refused: queue never had handles");
    else if (g_nodes[h].current_index == SIZE_MAX) CANARY("refused: stale handle"); else CANARY("refused: index out of range");
}
void h_top(void) {
    struct aws_priority_queue q; void *p;
    PQ_GHOSTS(); pq_build(&q);
    int r = aws_priority_queue_top(&q, &p);
    if (r == 0) CANARY("top"); else CANARY("empty queue refused");
}
void h_push_ref(void) {
    struct aws_priority_queue q; uint8_t in[ISZ]; size_t h = nondet_size_t();
    PQ_GHOSTS(); pq_build(&q);
    struct aws_priority_queue_node *bp = h < PQK ? &g_nodes[h] : NULL;
    bool was_live = q.backpointers.data != NULL, was_full = q.container.length * ISZ == q.container.current_size;
    int r = aws_priority_queue_push_ref(&q, in, bp);
    if (r == 0) {
        if (bp && !was_live && q.container.length > 1) CANARY("first handle arrives in a non-empty queue");
        else if (bp && was_live && was_full) CANARY("handle, storage grew");
        else if (bp) CANARY("handle"); else if (was_live) CANARY("no handle, handle array live"); else CANARY("no handle");
    } else if (was_full) CANARY("full static queue refused"); else CANARY("static queue refused a handle");
}
void h_push(void) {
    struct aws_priority_queue q; uint8_t in[ISZ];
    PQ_GHOSTS(); pq_build(&q);
    bool was_full = q.container.length * ISZ == q.container.current_size;
    int r = aws_priority_queue_push(&q, in);
    if (r != 0) CANARY("full static queue refused"); else if (was_full) CANARY("pushed, storage grew"); else CANARY("pushed");
}
void h_clear(void) {
    struct aws_priority_queue q;
    PQ_GHOSTS(); pq_build(&q);
    aws_priority_queue_clear(&q);
    if (q.backpointers.data == NULL) CANARY("no handle array"); else if (g_h_inq) CANARY("ghost handle invalidated"); else CANARY("handle array");
}
void h_size(void) {
    struct aws_priority_queue q;
    PQ_GHOSTS(); pq_build(&q);
    size_t n = aws_priority_queue_size(&q);
    if (n == 0) CANARY("empty"); else CANARY("non-empty");
}
void h_capacity(void) {
    struct aws_priority_queue q;
    PQ_GHOSTS(); pq_build(&q);
    size_t n = aws_priority_queue_capacity(&q);
    if (n == 0) CANARY("no storage"); else CANARY("storage");
}
void h_clean_up(void) {
    struct aws_priority_queue q;
    PQ_GHOSTS(); pq_build(&q);
    bool was_live = q.backpointers.data != NULL;
    aws_priority_queue_clean_up(&q);
    if (was_live) CANARY("handle array released"); else CANARY("no handle array");
}

/* ---------------------------------------------------------------- loop-free, any size (DFCC allocates the parameters) */
void h_node_init(void) {
    struct aws_priority_queue_node *n;
    PQ_GHOSTS();
    aws_priority_queue_node_init(n);
    CANARY("returned");
}
void h_node_is_in_queue(void) {
    const struct aws_priority_queue_node *n;
    PQ_GHOSTS();
    bool r = aws_priority_queue_node_is_in_queue(n);
    if (r) CANARY("in queue"); else CANARY("not in queue");
}
void h_init_static(void) {
    struct aws_priority_queue *q; void *heap; size_t n, sz; aws_priority_queue_compare_fn *pred;
    PQ_GHOSTS();
    aws_priority_queue_init_static(q, heap, n, sz, pred);
    CANARY("returned");
}
void h_init_dynamic(void) {
    struct aws_priority_queue *q; struct aws_allocator *al; size_t n, sz; aws_priority_queue_compare_fn *pred;
    PQ_GHOSTS();
    int r = aws_priority_queue_init_dynamic(q, al, n, sz, pred);
    if (r == 0) { if (n == 0) CANARY("no initial allocation"); else CANARY("allocated"); } else CANARY("size overflow");
}
