/* Proof units for C06 (priority queue): contracts + the REAL source/priority_queue.c, source/array_list.c and the
 * inline array-list functions.  Compiled per element size (-DVERIF_ITEM_SIZE=8 | 136) and queue bound (-DVERIF_PQ_N=3 | 7 | 15).
 *
 * Bounded units (see the head comment of contracts/priority_queue.h): the harness builds an arbitrary queue state with
 * concrete objects (storage of nondeterministic capacity and contents, static or dynamic, handle array absent or present
 * with an arbitrary assignment of pool handles to slots), assumes the contract's requires clauses (which cut the state
 * space down to the representation invariant and pin the witnesses), calls the REAL function and asserts every ensures
 * clause under its name.  The sift loops, the clear loop, the 128-byte-slice loop of the element swap and
 * aws_is_mem_zeroed are unwound completely for the bound (unwinding assertions on).
 *
 * Every function has one harness per queue MODE (the state space is the union of the modes):
 *   _live   dynamic queue with a handle array
 *   _plain  static or dynamic queue, storage present, no handle array
 *   _nost   dynamic queue that has no storage yet (capacity 0, empty)   (push, pop, top, clear, clean_up, size, capacity)
 * A pointer that may be NULL or an object at a join point (handle array / storage present or not) makes every access
 * through it 20-30 times more expensive in CBMC's encoding, hence one mode per harness. */
#define VERIF_TRACK_ERRORS
#include "contracts/priority_queue.h"
#include "source/array_list.c"

/* Ghost hook (the only instrumentation): the one call of aws_array_list_swap inside s_swap is routed through this
 * function, which calls the REAL aws_array_list_swap with the same arguments and then moves the ghost cursor g_pos as the
 * transposition (a b) does.  The library text is unchanged; no library state is touched.  Whether the real function
 * actually moved the element the cursor points at is CHECKED by the contracts (the cursor slot must hold the ghost
 * element afterwards), so a wrong element swap is not hidden by the hook. */
static void pq_hook_array_list_swap(struct aws_array_list *list, size_t a, size_t b) {
    aws_array_list_swap(list, a, b);
    g_pos = g_pos == a ? b : (g_pos == b ? a : g_pos);
}
#define aws_array_list_swap pq_hook_array_list_swap
#include "source/priority_queue.c"
#undef aws_array_list_swap

/* AWS_FATAL_PRECONDITION/-ASSERT and abort(): reaching them from a valid state is a failed obligation
 * ("the library does not abort on valid input"), not a silently pruned path */
void aws_fatal_assert(const char *cond_str, const char *file, int line) {
    (void)cond_str; (void)file; (void)line;
    __CPROVER_assert(0, "aws_fatal_assert reached: the library would abort");
    __CPROVER_assume(0);
}
void abort(void) {
    __CPROVER_assert(0, "abort() reached: the library would abort");
    __CPROVER_assume(0);
}

/* Executable models of the allocator entry points and of the error slot, equivalent to the contracts in
 * contracts/allocator.h and contracts/common.h (acquire: size > 0, never fails, fresh block with arbitrary contents;
 * release: a block that is still allocated, or NULL).  The units of mode "proof" replace the calls
 * by those contracts instead. */
#define PQ_ALLOC_BYTES (2 * PQN * ISZ) /* largest request a queue within the bound can make (length == capacity < N doubles to < 2N elements) */
void *aws_mem_acquire(struct aws_allocator *allocator, size_t size) {
    __CPROVER_assert(allocator != NULL && size > 0, "aws_mem_acquire: precondition of the allocator contract");
    __CPROVER_assert(size <= PQ_ALLOC_BYTES, "aws_mem_acquire: request within what a queue of this bound can need");
    /* blocks of constant size (a block of symbolic size makes the growing units run out of memory); consequence: a write
     * beyond the requested size but inside the block is not flagged here - growth of the array list is C09's subject */
    void *p = malloc(PQ_ALLOC_BYTES);
    __CPROVER_assume(p != NULL);
    return p;
}
void aws_mem_release(struct aws_allocator *allocator, void *ptr) {
    __CPROVER_assert(allocator != NULL, "aws_mem_release: precondition of the allocator contract");
    free(ptr);
}
void aws_raise_error_private(int err) {
    g_last_error = err;
    g_raise_count++;
}
int aws_last_error(void) {
    return g_last_error;
}

/* ghost witnesses: all arbitrary; the pin clauses of the contract tie them to the pre-state.  Without DFCC, objects of
 * static lifetime start zeroed, so the pool of handles is made arbitrary here. */
#define PQ_GHOSTS() do { AL_GHOST_RESET(); g_on = true; g_desc = nondet_bool(); g_boolcmp = nondet_bool(); g_pj = nondet_size_t(); \
        g_ki = nondet_size_t(); g_pos = nondet_size_t(); g_ki_key = nondet_u8(); g_ki_b = nondet_u8(); g_ki_bp = nondet_ptr(); \
        g_h = nondet_size_t(); g_h_idx = nondet_size_t(); g_h_inq = nondet_bool(); g_h_key = nondet_u8(); g_h_b = nondet_u8(); \
        g_out = nondet_size_t(); g_out_b = nondet_u8(); g_moved = nondet_bool(); \
        g0_raise = nondet_int(); g0_len = nondet_size_t(); g0_cur = nondet_size_t(); g0_bpcur = nondet_size_t(); g0_idx = nondet_size_t(); \
        g0_data = nondet_ptr(); g0_bpdata = nondet_ptr(); g0_alloc = nondet_ptr(); \
        g_last_error = nondet_int(); g_raise_count = nondet_int(); g_phase_post = false; __CPROVER_havoc_object(g_nodes); } while (0)
#define PQ_ASSUME(name, x) __CPROVER_assume(x);
#define PQ_CALLED() (g_phase_post = true) /* VERIF_PQ_HANDLES_APPEAR: from here on PQ_BPA reads the real handle array */
#define PQ_ASSERT(name, x) __CPROVER_assert(x, name);
#define PQ_SKIP(name, x)

/* arbitrary queue state of the given mode (shape only; heap order, handle indices, witnesses come from the requires
 * clauses).  The storage blocks have the maximal size (N elements / N handle slots, contents arbitrary) and the queue's
 * current_size says how much of them it owns (cap <= N), so that the blocks are of constant size for CBMC. */
enum pq_mode { PQ_LIVE, PQ_PLAIN, PQ_NOST };
static void pq_build(struct aws_priority_queue *q, enum pq_mode mode) {
    size_t len = nondet_size_t(), cap = nondet_size_t(), bpcap = nondet_size_t();
    bool dyn = nondet_bool();
    q->pred = pq_rank_cmp;
    q->container.item_size = ISZ;
    if (mode == PQ_NOST) {
        q->container.alloc = &g_pq_alloc;
        q->container.length = 0;
        q->container.current_size = 0;
        q->container.data = NULL;
    } else {
        __CPROVER_assume(len <= PQN && len <= cap && 1 <= cap && cap <= PQ_CAPMAX);
        q->container.alloc = (dyn || mode == PQ_LIVE) ? &g_pq_alloc : NULL;
        q->container.length = len;
        q->container.current_size = cap * ISZ;
        q->container.data = malloc(PQ_CAPMAX * ISZ);
        __CPROVER_assume(q->container.data != NULL);
    }
    if (mode == PQ_LIVE) {
        __CPROVER_assume(bpcap >= 1 && len <= bpcap && bpcap <= PQ_CAPMAX);
        struct aws_priority_queue_node **bp = malloc(PQ_CAPMAX * PQ_PSZ);
        __CPROVER_assume(bp != NULL);
        for (size_t i = 0; i < PQN; i++) {
            if (i < len) {
                size_t h = nondet_size_t();
                bp[i] = h < PQK ? &g_nodes[h] : NULL;
            }
        }
        q->backpointers.alloc = &g_pq_alloc;
        q->backpointers.item_size = PQ_PSZ;
        q->backpointers.length = len;
        q->backpointers.current_size = bpcap * PQ_PSZ;
        q->backpointers.data = bp;
    } else {
        q->backpointers.alloc = NULL;
        q->backpointers.item_size = 0;
        q->backpointers.length = 0;
        q->backpointers.current_size = 0;
        q->backpointers.data = NULL;
    }
}
/* One harness per mode: hb_<f>(mode, q) = build, assume requires, call, assert ensures; the reachability canaries differ
 * per mode and are planted in the harness proper (a canary in a branch that a mode cannot reach would be reported dead). */
#define Q struct aws_priority_queue q

/* ---------------------------------------------------------------- internal mechanisms */
static size_t hb_a, hb_b; /* arguments chosen by the body, for the canaries */
static void hb_swap(enum pq_mode m, struct aws_priority_queue *q) {
    size_t a = nondet_size_t(), b = nondet_size_t();
    PQ_GHOSTS(); pq_build(q, m);
    PQ_C_swap(PQ_ASSUME, PQ_SKIP, q, a, b)
    s_swap(q, a, b);
    PQ_C_swap(PQ_SKIP, PQ_ASSERT, q, a, b)
    hb_a = a; hb_b = b;
}
#define CAN_SWAP if (g_ki == hb_a) CANARY("cursor was on a"); else if (g_ki == hb_b) CANARY("cursor was on b"); else CANARY("cursor elsewhere");
void h_swap_live(void) { Q; hb_swap(PQ_LIVE, &q); CAN_SWAP if (g_h_inq && g_h_idx == hb_a) CANARY("ghost handle was on a"); }
void h_swap_plain(void) { Q; hb_swap(PQ_PLAIN, &q); CAN_SWAP }

static bool hb_sift_down(enum pq_mode m, struct aws_priority_queue *q) {
    size_t root = nondet_size_t(); bool r;
    PQ_GHOSTS(); pq_build(q, m);
    PQ_C_sift_down(PQ_ASSUME, PQ_SKIP, q, root, r)
    r = s_sift_down(q, root);
    PQ_C_sift_down(PQ_SKIP, PQ_ASSERT, q, root, r)
    hb_a = root;
    return r;
}
#if VERIF_PQ_N >= 7
#    define CAN_DEEP_DOWN else if (hb_a == 0 && g_ki == 0 && g_pos > 2) CANARY("moved from the root to the last level");
#    define CAN_DEEP_UP else if (hb_a == PQN - 1 && g_ki == hb_a && g_pos == 0) CANARY("moved from the last slot to the root");
#else
#    define CAN_DEEP_DOWN
#    define CAN_DEEP_UP
#endif
#define CAN_SIFT_DOWN if (!r) CANARY("stayed"); CAN_DEEP_DOWN else CANARY("moved");
void h_sift_down_live(void) { Q; bool r = hb_sift_down(PQ_LIVE, &q); CAN_SIFT_DOWN }
void h_sift_down_plain(void) { Q; bool r = hb_sift_down(PQ_PLAIN, &q); CAN_SIFT_DOWN }

static bool hb_sift_up(enum pq_mode m, struct aws_priority_queue *q) {
    size_t index = nondet_size_t(); bool r;
    PQ_GHOSTS(); pq_build(q, m);
    PQ_C_sift_up(PQ_ASSUME, PQ_SKIP, q, index, r)
    r = s_sift_up(q, index);
    PQ_C_sift_up(PQ_SKIP, PQ_ASSERT, q, index, r)
    hb_a = index;
    return r;
}
#define CAN_SIFT_UP if (!r) CANARY("stayed"); CAN_DEEP_UP else CANARY("moved");
void h_sift_up_live(void) { Q; bool r = hb_sift_up(PQ_LIVE, &q); CAN_SIFT_UP }
void h_sift_up_plain(void) { Q; bool r = hb_sift_up(PQ_PLAIN, &q); CAN_SIFT_UP }

static void hb_sift_either(enum pq_mode m, struct aws_priority_queue *q) {
    size_t index = nondet_size_t();
    PQ_GHOSTS(); pq_build(q, m);
    PQ_C_sift_either(PQ_ASSUME, PQ_SKIP, q, index)
    s_sift_either(q, index);
    PQ_C_sift_either(PQ_SKIP, PQ_ASSERT, q, index)
    hb_a = index;
}
#if VERIF_PQ_N >= 7
#    define CAN_WENT_DOWN else if (g_ki == hb_a && g_pos > hb_a) CANARY("inner, went down");
#else
#    define CAN_WENT_DOWN
#endif
#define CAN_SIFT_EITHER if (hb_a == 0) CANARY("root"); else if (g_ki == hb_a && g_pos < hb_a) CANARY("inner, went up"); \
    CAN_WENT_DOWN else CANARY("inner");
void h_sift_either_live(void) { Q; hb_sift_either(PQ_LIVE, &q); CAN_SIFT_EITHER }
void h_sift_either_plain(void) { Q; hb_sift_either(PQ_PLAIN, &q); CAN_SIFT_EITHER }

static int hb_remove_node(enum pq_mode m, struct aws_priority_queue *q) {
    size_t index = nondet_size_t(); uint8_t out[ISZ]; int r;
    PQ_GHOSTS(); pq_build(q, m);
    PQ_C_remove_node(PQ_ASSUME, PQ_SKIP, q, out, index, r)
    r = s_remove_node(q, out, index);
    PQ_C_remove_node(PQ_SKIP, PQ_ASSERT, q, out, index, r)
    hb_a = index;
    return r;
}
#define CAN_REMOVE_NODE if (q.container.length == 0) CANARY("removed the only element"); \
    else if (hb_a == q.container.length) CANARY("removed the last slot"); else CANARY("removed an inner slot");
void h_remove_node_live(void) { Q; hb_remove_node(PQ_LIVE, &q); CAN_REMOVE_NODE }
void h_remove_node_plain(void) { Q; hb_remove_node(PQ_PLAIN, &q); CAN_REMOVE_NODE }

/* ---------------------------------------------------------------- public operations */
static int hb_pop(enum pq_mode m, struct aws_priority_queue *q) {
    uint8_t out[ISZ]; int r;
    PQ_GHOSTS(); pq_build(q, m);
    PQ_C_pop(PQ_ASSUME, PQ_SKIP, q, out, r)
    r = aws_priority_queue_pop(q, out);
    PQ_C_pop(PQ_SKIP, PQ_ASSERT, q, out, r)
    return r;
}
void h_pop_live(void) { Q; int r = hb_pop(PQ_LIVE, &q);
    if (r != 0) CANARY("empty queue refused"); else if (g0_len == PQN) CANARY("popped from a full tree");
    else if (g_h_inq && g_h_idx == 0) CANARY("popped the ghost handle's element"); else CANARY("popped"); }
void h_pop_plain(void) { Q; int r = hb_pop(PQ_PLAIN, &q);
    if (r != 0) CANARY("empty queue refused"); else if (g0_len == PQN) CANARY("popped from a full tree"); else CANARY("popped"); }
void h_pop_nost(void) { Q; int r = hb_pop(PQ_NOST, &q); if (r != 0) CANARY("empty queue refused"); }

static int hb_remove(enum pq_mode m, struct aws_priority_queue *q) {
    uint8_t out[ISZ]; size_t h = nondet_size_t(); int r;
    PQ_GHOSTS(); pq_build(q, m);
    __CPROVER_assume(h < PQK);
    PQ_C_remove(PQ_ASSUME, PQ_SKIP, q, out, (&g_nodes[h]), r)
    r = aws_priority_queue_remove(q, out, &g_nodes[h]);
    PQ_C_remove(PQ_SKIP, PQ_ASSERT, q, out, (&g_nodes[h]), r)
    hb_a = h;
    return r;
}
void h_remove_live(void) { Q; int r = hb_remove(PQ_LIVE, &q);
    if (r == 0) { if (hb_a == g_h) CANARY("removed the ghost handle's element"); else CANARY("removed another element"); }
    else if (g0_idx == SIZE_MAX) CANARY("refused: stale handle"); else CANARY("refused: index out of range"); }
void h_remove_plain(void) { Q; int r = hb_remove(PQ_PLAIN, &q); if (r != 0) CANARY("refused: queue never had handles"); }

static int hb_top(enum pq_mode m, struct aws_priority_queue *q) {
    void *p; int r;
    PQ_GHOSTS(); pq_build(q, m);
    PQ_C_top(PQ_ASSUME, PQ_SKIP, q, (&p), r)
    r = aws_priority_queue_top(q, &p);
    PQ_C_top(PQ_SKIP, PQ_ASSERT, q, (&p), r)
    return r;
}
void h_top_live(void) { Q; int r = hb_top(PQ_LIVE, &q); if (r == 0) CANARY("top"); else CANARY("empty queue refused"); }
void h_top_plain(void) { Q; int r = hb_top(PQ_PLAIN, &q); if (r == 0) CANARY("top"); else CANARY("empty queue refused"); }
void h_top_nost(void) { Q; int r = hb_top(PQ_NOST, &q); if (r != 0) CANARY("empty queue refused"); }

static struct aws_priority_queue_node *hb_bp;
static int hb_push_ref(enum pq_mode m, struct aws_priority_queue *q) {
    uint8_t in[ISZ]; size_t h = nondet_size_t(); int r;
    PQ_GHOSTS(); pq_build(q, m);
    struct aws_priority_queue_node *bp = h < PQK ? &g_nodes[h] : NULL;
#if defined(VERIF_PQ_NO_HANDLES) && defined(VERIF_PQ_STATIC_HANDLE_ONLY)
    __CPROVER_assume(bp != NULL && q->container.alloc == NULL); /* 136-byte unit: only the refusal of a handle by a static queue (no handle: see push_*) */
#elif defined(VERIF_PQ_NO_HANDLES)
    __CPROVER_assume(bp == NULL || q->container.alloc == NULL); /* the handle array stays absent: no handle, or a static queue (refused) */
#elif defined(VERIF_PQ_HANDLES_APPEAR)
    __CPROVER_assume(bp != NULL && q->container.alloc != NULL); /* the call creates the handle array */
#endif
    PQ_C_push(PQ_ASSUME, PQ_SKIP, q, in, bp, r)
    r = aws_priority_queue_push_ref(q, in, bp);
    PQ_CALLED();
    PQ_C_push(PQ_SKIP, PQ_ASSERT, q, in, bp, r)
    hb_bp = bp;
    return r;
}
void h_push_ref_live(void) { Q; int r = hb_push_ref(PQ_LIVE, &q);
    if (r != 0) return;
    if (hb_bp && PQ_FULL0) CANARY("handle, storage grew"); else if (hb_bp && g_ki == g0_len && g_pos == 0 && g0_len >= 1) CANARY("handle, pushed element went to the root");
    else if (hb_bp) CANARY("handle"); else CANARY("no handle, handle array live"); }
/* queue without handle array: (a) no handle / static queue: stays without (VERIF_PQ_NO_HANDLES); (b) first handle on a
 * dynamic queue: the array is created (VERIF_PQ_HANDLES_APPEAR) */
void h_push_ref_plain(void) { Q; int r = hb_push_ref(PQ_PLAIN, &q);
#ifndef VERIF_PQ_STATIC_HANDLE_ONLY
    if (r == 0) { if (PQ_FULL0) CANARY("no handle, storage grew"); else CANARY("no handle"); } else
#endif
    if (r != 0) { if (PQ_FULL0) CANARY("full static queue refused"); else CANARY("static queue refused a handle"); } }
void h_push_ref_nost(void) { Q; int r = hb_push_ref(PQ_NOST, &q); if (r == 0) CANARY("first element"); }
void h_push_ref_first_plain(void) { Q; int r = hb_push_ref(PQ_PLAIN, &q);
    if (r == 0) { if (g0_len > 1 && g_ki < g0_len) CANARY("first handle arrives in a queue that holds elements"); else if (g0_len == 0) CANARY("first handle, empty queue");
                  else CANARY("first handle"); } }
void h_push_ref_first_nost(void) { Q; int r = hb_push_ref(PQ_NOST, &q); if (r == 0) CANARY("first element with handle"); }

static int hb_push(enum pq_mode m, struct aws_priority_queue *q) {
    uint8_t in[ISZ]; int r;
    PQ_GHOSTS(); pq_build(q, m);
    PQ_C_push(PQ_ASSUME, PQ_SKIP, q, in, PQ_NO_HANDLE, r)
    r = aws_priority_queue_push(q, in);
    PQ_C_push(PQ_SKIP, PQ_ASSERT, q, in, PQ_NO_HANDLE, r)
    return r;
}
void h_push_live(void) { Q; int r = hb_push(PQ_LIVE, &q); if (r == 0) { if (PQ_FULL0) CANARY("pushed, storage grew"); else CANARY("pushed"); } }
void h_push_plain(void) { Q; int r = hb_push(PQ_PLAIN, &q);
    if (r != 0) CANARY("full static queue refused"); else if (PQ_FULL0) CANARY("pushed, storage grew"); else CANARY("pushed"); }
void h_push_nost(void) { Q; int r = hb_push(PQ_NOST, &q); if (r == 0) CANARY("first element"); }

static void hb_clear(enum pq_mode m, struct aws_priority_queue *q) {
    PQ_GHOSTS(); pq_build(q, m);
    PQ_C_clear(PQ_ASSUME, PQ_SKIP, q)
    aws_priority_queue_clear(q);
    PQ_C_clear(PQ_SKIP, PQ_ASSERT, q)
}
void h_clear_live(void) { Q; hb_clear(PQ_LIVE, &q); if (g_h_inq) CANARY("ghost handle invalidated"); else CANARY("ghost handle outside"); }
void h_clear_plain(void) { Q; hb_clear(PQ_PLAIN, &q); if (g0_len > 0) CANARY("cleared"); else CANARY("was empty"); }
void h_clear_nost(void) { Q; hb_clear(PQ_NOST, &q); CANARY("returned"); }

static size_t hb_size(enum pq_mode m, struct aws_priority_queue *q) {
    size_t n;
    PQ_GHOSTS(); pq_build(q, m);
    PQ_C_size(PQ_ASSUME, PQ_SKIP, q, n)
    n = aws_priority_queue_size(q);
    PQ_C_size(PQ_SKIP, PQ_ASSERT, q, n)
    return n;
}
static size_t hb_capacity(enum pq_mode m, struct aws_priority_queue *q) {
    size_t n;
    PQ_GHOSTS(); pq_build(q, m);
    PQ_C_capacity(PQ_ASSUME, PQ_SKIP, q, n)
    n = aws_priority_queue_capacity(q);
    PQ_C_capacity(PQ_SKIP, PQ_ASSERT, q, n)
    return n;
}
void h_size_live(void) { Q; size_t n = hb_size(PQ_LIVE, &q); if (n == 0) CANARY("empty"); else CANARY("non-empty"); }
void h_size_plain(void) { Q; size_t n = hb_size(PQ_PLAIN, &q); if (n == 0) CANARY("empty"); else CANARY("non-empty"); }
void h_size_nost(void) { Q; size_t n = hb_size(PQ_NOST, &q); if (n == 0) CANARY("empty"); }
void h_capacity_live(void) { Q; size_t n = hb_capacity(PQ_LIVE, &q); if (n > 0) CANARY("storage"); }
void h_capacity_plain(void) { Q; size_t n = hb_capacity(PQ_PLAIN, &q); if (n > 0) CANARY("storage"); }
void h_capacity_nost(void) { Q; size_t n = hb_capacity(PQ_NOST, &q); if (n == 0) CANARY("no storage"); }

static void hb_clean_up(enum pq_mode m, struct aws_priority_queue *q) {
    PQ_GHOSTS(); pq_build(q, m);
    PQ_C_clean_up(PQ_ASSUME, PQ_SKIP, q)
    aws_priority_queue_clean_up(q);
    PQ_C_clean_up(PQ_SKIP, PQ_ASSERT, q)
}
void h_clean_up_live(void) { Q; hb_clean_up(PQ_LIVE, &q); CANARY("returned"); }
void h_clean_up_plain(void) { Q; hb_clean_up(PQ_PLAIN, &q); if (g0_alloc) CANARY("dynamic"); else CANARY("static"); }
void h_clean_up_nost(void) { Q; hb_clean_up(PQ_NOST, &q); CANARY("returned"); }

/* ---------------------------------------------------------------- loop-free, any size (mode proof: DFCC allocates the parameters) */
void h_node_init(void) {
    struct aws_priority_queue_node *n;
    AL_GHOST_RESET();
    aws_priority_queue_node_init(n);
    CANARY("returned");
}
void h_node_is_in_queue(void) {
    const struct aws_priority_queue_node *n;
    AL_GHOST_RESET();
    bool r = aws_priority_queue_node_is_in_queue(n);
    if (r) CANARY("in queue"); else CANARY("not in queue");
}
void h_init_static(void) {
    struct aws_priority_queue *q; void *heap; size_t n, sz; aws_priority_queue_compare_fn *pred;
    AL_GHOST_RESET();
    aws_priority_queue_init_static(q, heap, n, sz, pred);
    CANARY("returned");
}
void h_init_dynamic(void) {
    struct aws_priority_queue *q; struct aws_allocator *al; size_t n, sz; aws_priority_queue_compare_fn *pred;
    AL_GHOST_RESET(); g_last_error = nondet_int(); g_raise_count = nondet_int();
    int r = aws_priority_queue_init_dynamic(q, al, n, sz, pred);
    if (r == 0) { if (n == 0) CANARY("no initial allocation"); else CANARY("allocated"); } else CANARY("size overflow");
}
