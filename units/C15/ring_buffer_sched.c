/* BOUNDED stand-in for the "every interleaving" clause of C15 with the REAL bodies of acquire, acquire_up_to and
 * release and an explicit scheduler.  The only accesses to shared state are the atomic loads/stores of head and tail
 * (the releaser performs exactly one: its store of tail), so under sequential consistency every interleaving of one
 * acquiring and one releasing thread is: "some FIFO releases run to completion immediately before / after an atomic
 * operation of the acquirer".  The calls of aws_atomic_{load,store}_ptr_explicit inside source/ring_buffer.c are
 * routed (by #define, the source text is the file in /repo) through hooks that let the releaser run the real
 * aws_ring_buffer_release an arbitrary number of times at these points, then perform the real atomic operation.
 * Bound: RB_K acquire calls, ring size 1..RB_SMAX.  CBMC's own thread support cannot be used: it rejects shared
 * variables of pointer type ("pointer handling for concurrency is unsound").
 * The unbounded argument is the per-call contracts + rely stub (ring_buffer.c); this unit cross-checks on small
 * instances that the schedule model used there leaves nothing out. */
#include "contracts/ring_buffer.h" /* only for the schedule-model predicates ADV / HADV / REL_IN; no contract is applied here */
#include "source/byte_buf.c"

static void *sched_load(volatile const struct aws_atomic_var *var, enum aws_memory_order mo);
static void sched_store(volatile struct aws_atomic_var *var, void *p, enum aws_memory_order mo);
#define aws_atomic_load_ptr_explicit sched_load
#define aws_atomic_store_ptr_explicit sched_store
#include "source/ring_buffer.c"
#undef aws_atomic_load_ptr_explicit
#undef aws_atomic_store_ptr_explicit

#ifndef RB_K
#    define RB_K 3
#endif
#ifndef RB_SMAX
#    define RB_SMAX 4
#endif

void aws_raise_error_private(int err) { g_last_error = err; }

static uint8_t mem[RB_SMAX];
static struct aws_ring_buffer ring;
static size_t S;

/* hand-over channel acquirer -> releaser and the releaser's progress */
static struct aws_byte_buf chan[RB_K];
static size_t c_off[RB_K], c_cap[RB_K];
static int n_sent;         /* buffers handed to the releaser                         */
static int n_rel;          /* buffers released (FIFO)                                */
static int n_rel_at_load;  /* value of n_rel when the running acquire loaded tail    */
static int n_tail_loads;
static bool in_release;
/* cross-check of the schedule model of contracts/ring_buffer.h against what the real release does */
static size_t m_t_entry, m_h_entry, m_t_obs;
#define OFFS(p) ((size_t)__CPROVER_POINTER_OFFSET(p))

static void releaser_runs(void) {
    if (in_release) return;
    in_release = true;
    while (n_rel < n_sent && nondet_bool()) {
        __CPROVER_assert(REL_IN(c_off[n_rel], c_cap[n_rel], OFFS(ring.head.value), OFFS(ring.tail.value)), "sched/model: the FIFO-oldest buffer satisfies release's precondition REL_IN");
        aws_ring_buffer_release(&ring, &chan[n_rel]);
        n_rel++;
    }
    in_release = false;
}
static void *sched_load(volatile const struct aws_atomic_var *var, enum aws_memory_order mo) {
    releaser_runs();
    if (var == &ring.tail) {
        n_rel_at_load = n_rel; n_tail_loads++;
        m_t_obs = OFFS(ring.tail.value);
        __CPROVER_assert(ADV(m_t_entry, m_t_obs, m_h_entry, S), "sched/model: the tail a load observes is an ADV step from the tail at entry");
    }
    return aws_atomic_load_ptr_explicit(var, mo);
}
static void sched_store(volatile struct aws_atomic_var *var, void *p, enum aws_memory_order mo) {
    releaser_runs();
    aws_atomic_store_ptr_explicit(var, p, mo); /* releases after the last store run at the next hook / after the call */
}

void h_sched(void) {
    S = nondet_size_t();
    if (S == 0 || S > RB_SMAX) return;
    n_sent = 0; n_rel = 0; in_release = false;
    ring.allocator = (struct aws_allocator *)nondet_ptr();
    ring.allocation = mem; ring.allocation_end = mem + S;
    ring.head.value = mem; ring.tail.value = mem; /* as left by aws_ring_buffer_init */

    for (int i = 0; i < RB_K; i++) {
        size_t n = nondet_size_t(), mn = nondet_size_t();
        bool exact = nondet_bool();
        if (n > RB_SMAX + 1 || mn > n) continue;
        releaser_runs();
        bool all_released = (n_rel == n_sent);
        int rel_before = n_rel;
        struct aws_byte_buf b;
        n_tail_loads = 0;
        m_t_entry = OFFS(ring.tail.value); m_h_entry = OFFS(ring.head.value);
        int r = exact ? aws_ring_buffer_acquire(&ring, n, &b) : aws_ring_buffer_acquire_up_to(&ring, mn, n, &b);
        releaser_runs(); /* releases between the last store and the return */
        __CPROVER_assert(n_tail_loads == (n == 0 || (!exact && mn == 0) ? 0 : 1), "sched/model: tail is loaded exactly once per call");
        if (n_tail_loads == 1 && !(r == AWS_OP_SUCCESS && m_t_obs == m_h_entry))
            __CPROVER_assert(ADV(m_t_obs, OFFS(ring.tail.value), m_h_entry, S), "sched/model: the tail at return is an ADV step from the observed tail");
        if (r == AWS_OP_SUCCESS && m_t_obs != m_h_entry && OFFS(ring.tail.value) != m_h_entry)
            __CPROVER_assert(HADV(m_h_entry, OFFS(ring.head.value), OFFS(ring.tail.value), S), "sched/model: the head at return is a HADV step from the head at entry");
        if (r == AWS_OP_SUCCESS) {
            __CPROVER_assert(__CPROVER_same_object(b.buffer, mem), "sched: buffer lies in the ring's storage object");
            size_t off = (size_t)__CPROVER_POINTER_OFFSET(b.buffer), cap = b.capacity;
            __CPROVER_assert(off <= S && cap <= S - off, "sched: buffer lies inside the ring's storage");
            __CPROVER_assert(cap >= 1 && (exact ? cap == n : (cap >= mn && cap <= n)), "sched: buffer has the requested size / a size in [min, requested]");
            for (int j = 0; j < n_sent; j++) {
                if (j >= n_rel_at_load)
                    __CPROVER_assert(off + cap <= c_off[j] || c_off[j] + c_cap[j] <= off, "sched: no overlap with a buffer that was not released when tail was read");
            }
            if (n_sent > n_rel_at_load) CANARY("sched: buffer handed out while another one is outstanding");
            if (n_rel_at_load > rel_before) CANARY("sched: a release slipped in between entry and the load of tail");
            if (n_rel > n_rel_at_load) CANARY("sched: a release slipped in after the load of tail");
            if (n_sent >= 1 && off == 0 && c_off[n_sent - 1] != 0) CANARY("sched: wrapped around to the start");
            if (n_sent == RB_K - 1 && all_released && cap == S) CANARY("sched: full capacity after everything was released");
            c_off[n_sent] = off; c_cap[n_sent] = cap; chan[n_sent] = b;
            n_sent++; /* hand over */
            __CPROVER_assert(n_sent == n_rel || ring.head.value != ring.tail.value, "sched: the ring does not look empty while a buffer is outstanding");
        } else {
            if (exact)
                __CPROVER_assert(!(all_released && n >= 1 && n <= S), "sched: nothing outstanding => a request not larger than the ring succeeds");
            else
                __CPROVER_assert(!(all_released && mn >= 1 && mn <= S), "sched: nothing outstanding => an up-to request whose minimum fits succeeds");
            if (n >= 1 && n <= S && n_sent > n_rel) CANARY("sched: refused while something is outstanding");
        }
    }
    releaser_runs();
    if (n_rel == n_sent && n_sent == RB_K) CANARY("sched: all buffers released");
}
