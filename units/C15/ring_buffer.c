/* Proof unit for C15: contracts + the real source/ring_buffer.c (+ byte_buf.c for aws_byte_buf_from_empty_array)
 * + harnesses.  The ring structure itself is owned by the harness (g_rb points to it, so that the rely stubs can tell
 * head from tail); its storage and the destination buffer are allocated by the requires clauses. */
#include "contracts/ring_buffer.h"
#include "source/byte_buf.c"
#include "source/ring_buffer.c"

static struct aws_ring_buffer the_ring;

#define RING_GHOSTS()                                                                                                  \
    do {                                                                                                               \
        RB_GHOST_RESET();                                                                                              \
        struct aws_ring_buffer any_ring;                                                                               \
        the_ring = any_ring;                                                                                           \
        g_rb = &the_ring;                                                                                              \
        g_S = nondet_size_t();                                                                                         \
        g_x = nondet_size_t();                                                                                         \
        r_cap = true;                                                                                                  \
        r_h = nondet_size_t();                                                                                         \
        r_t = nondet_size_t();                                                                                         \
        r_boff = nondet_size_t();                                                                                      \
        r_bcap = nondet_size_t();                                                                                      \
    } while (0)

/* replay witnesses of the scalar call arguments (plain copies of the harness inputs, DESIGN 3.5) */
size_t r_n, r_mn;

void h_acquire(void) {
    struct aws_byte_buf *dest;
    size_t n = nondet_size_t();
    RING_GHOSTS();
    r_n = n;
    int r = aws_ring_buffer_acquire(&the_ring, n, dest);
    if (r == 0) {
        size_t h = POFF(the_ring.head.value), t = POFF(the_ring.tail.value);
        if (t == 0 && h == n) CANARY("acquire ok at start of the ring");
        if (t > h) CANARY("acquire ok, ring now wrapped");
        if (t > 0 && t < h && h - t > n) CANARY("acquire ok after head, unwrapped");
        if (h == g_S) CANARY("acquire ok up to the very end");
    } else {
        if (n == 0) CANARY("acquire refused: zero size"); else CANARY("acquire refused: no room");
    }
}

void h_acquire_up_to(void) {
    struct aws_byte_buf *dest;
    size_t n = nondet_size_t(), mn = nondet_size_t();
    RING_GHOSTS();
    r_n = n; r_mn = mn;
    int r = aws_ring_buffer_acquire_up_to(&the_ring, mn, n, dest);
    if (r == 0) {
        size_t h = POFF(the_ring.head.value), t = POFF(the_ring.tail.value);
        if (t == 0 && h == n) CANARY("up_to: full grant at start of the ring");
        if (t == 0 && h < n) CANARY("up_to: partial grant of an empty ring");
        if (t > h && t - h > 1) CANARY("up_to: ring now wrapped, room left");
        if (t > h && t - h == 1) CANARY("up_to: ring now wrapped, filled up to the slack byte");
        if (t > 0 && t < h && h < g_S) CANARY("up_to: ok after head, unwrapped");
        if (t > 0 && t < h && h == g_S && mn < n) CANARY("up_to: ok up to the very end");
    } else {
        if (n == 0 || mn == 0) CANARY("up_to refused: zero size"); else CANARY("up_to refused: no room");
    }
}

/* ---- one acquire call against a releaser running concurrently: the schedule (which tail each load observes, where
 *      the releaser stands at return) is arbitrary ---- */
#define SCHEDULE() do { g_tobs = nondet_size_t(); g_tobs2 = nondet_size_t(); g_tfin = nondet_size_t(); } while (0)

void h_acquire_interleaved(void) {
    struct aws_byte_buf *dest;
    size_t n = nondet_size_t();
    RING_GHOSTS();
    SCHEDULE();
    r_n = n;
    int r = aws_ring_buffer_acquire(&the_ring, n, dest);
    if (r == 0) {
        size_t h = POFF(the_ring.head.value), t = POFF(the_ring.tail.value);
        if (g_tobs != t && g_tfin == g_tobs) CANARY("interleaved: release seen by the load, none later");
        if (g_tfin != g_tobs) CANARY("interleaved: release after the load");
        if (g_tobs != t && t == 0 && h == n) CANARY("interleaved: ring seen empty only thanks to a concurrent release, reset");
        if (g_tobs == t) CANARY("interleaved: no release before the load");
        if (g_tfin < h && g_tobs > h) CANARY("interleaved: releaser wrapped around during the call");
    } else {
        if (g_tobs != POFF(the_ring.tail.value)) CANARY("interleaved: refused although a release was seen");
        CANARY("interleaved: refused");
    }
}

void h_acquire_up_to_interleaved(void) {
    struct aws_byte_buf *dest;
    size_t n = nondet_size_t(), mn = nondet_size_t();
    RING_GHOSTS();
    SCHEDULE();
    r_n = n; r_mn = mn;
    int r = aws_ring_buffer_acquire_up_to(&the_ring, mn, n, dest);
    if (r == 0) {
        size_t h = POFF(the_ring.head.value), t = POFF(the_ring.tail.value);
        if (g_tobs != t && g_tfin == g_tobs) CANARY("up_to interleaved: release seen by the load, none later");
        if (g_tfin != g_tobs) CANARY("up_to interleaved: release after the load");
        if (g_tobs != t && t == 0 && h <= n) CANARY("up_to interleaved: ring seen empty only thanks to a concurrent release, reset");
        if (g_tobs == t) CANARY("up_to interleaved: no release before the load");
    } else {
        CANARY("up_to interleaved: refused");
    }
}

void h_release(void) {
    struct aws_byte_buf *buf;
    RING_GHOSTS();
    g_hfin = nondet_size_t();
    size_t h0 = POFF(the_ring.head.value);
    aws_ring_buffer_release(&the_ring, buf);
    size_t h = POFF(the_ring.head.value), t = POFF(the_ring.tail.value);
    if (t == h) CANARY("release: ring empty afterwards");
    if (t < h) CANARY("release: unwrapped afterwards");
    if (t > h && t < g_S) CANARY("release: wrapped afterwards");
    if (t == g_S) CANARY("release: tail at the very end");
    if (g_hfin != h) CANARY("release: acquirer moved head meanwhile");
    if (g_hfin < t && h > t) CANARY("release: acquirer wrapped meanwhile");
}

void h_init(void) {
    struct aws_ring_buffer *rb;
    struct aws_allocator *a;
    size_t size = nondet_size_t();
    RB_GHOST_RESET();
    int r = aws_ring_buffer_init(rb, a, size);
    if (r == 0) CANARY("init ok");
}

/* ---- composition, from the CONTRACTS only (every library call below is replaced by its contract):
 *      init, two acquires (exact form, then up-to form), FIFO release of both, and the full capacity is back. ---- */
void h_cycle(void) {
    struct aws_allocator *alloc = (struct aws_allocator *)nondet_ptr();
    size_t S = nondet_size_t(), n1 = nondet_size_t(), m2 = nondet_size_t(), n2 = nondet_size_t();
    struct aws_byte_buf a, b, c;
    RB_GHOST_RESET();
    if (alloc == NULL || S == 0 || S >= RB_MAX_SIZE || m2 > n2) return;
    g_rb = &the_ring; g_S = S; g_x = nondet_size_t();
    if (g_x >= S) return;
    if (aws_ring_buffer_init(&the_ring, alloc, S) != AWS_OP_SUCCESS) return;
    __CPROVER_assert(the_ring.head.value == the_ring.tail.value, "cycle: a new ring has nothing outstanding");

    int r1 = aws_ring_buffer_acquire(&the_ring, n1, &a);
    __CPROVER_assert((r1 == AWS_OP_SUCCESS) == (n1 >= 1 && n1 <= S), "cycle: on a new ring a request succeeds iff it is not larger than the ring");
    if (r1 != AWS_OP_SUCCESS) { CANARY("cycle: first request refused"); return; }
    size_t a_off = POFF(a.buffer), a_cap = a.capacity;
    __CPROVER_assert(a_cap == n1 && a_off + a_cap <= S, "cycle: first buffer has the requested size and lies in the ring");

    int r2 = aws_ring_buffer_acquire_up_to(&the_ring, m2, n2, &b);
    if (r2 == AWS_OP_SUCCESS) {
        size_t b_off = POFF(b.buffer), b_cap = b.capacity;
        __CPROVER_assert(b_cap >= m2 && b_cap <= n2 && b_cap >= 1 && b_off + b_cap <= S, "cycle: second buffer has a size in [min, requested] and lies in the ring");
        __CPROVER_assert(!(INSIDE(g_x, a_off, a_cap) && INSIDE(g_x, b_off, b_cap)), "cycle: the two outstanding buffers do not overlap");
        CANARY("cycle: two buffers outstanding");
    } else {
        CANARY("cycle: second request refused");
    }
    g_hfin = POFF(the_ring.head.value);
    aws_ring_buffer_release(&the_ring, &a);
    if (r2 == AWS_OP_SUCCESS) {
        __CPROVER_assert(the_ring.head.value != the_ring.tail.value, "cycle: ring not empty while the second buffer is out");
        aws_ring_buffer_release(&the_ring, &b);
    }
    __CPROVER_assert(the_ring.head.value == the_ring.tail.value, "cycle: everything released => nothing outstanding");
    int r3 = aws_ring_buffer_acquire(&the_ring, S, &c);
    __CPROVER_assert(r3 == AWS_OP_SUCCESS && c.capacity == S && POFF(c.buffer) == 0, "cycle: everything released => the full capacity is available again");
    CANARY("cycle: full capacity handed out again");
}

/* ---- the same clause for an ARBITRARY valid ring state: releasing the buffer that ends at head (the newest one, so
 *      by FIFO order the last one outstanding) leaves nothing outstanding, and then any request <= S succeeds. ---- */
void h_drain(void) {
    size_t S = nondet_size_t(), h = nondet_size_t(), t = nondet_size_t(), bo = nondet_size_t(), bc = nondet_size_t(), n = nondet_size_t();
    struct aws_byte_buf last, c;
    RB_GHOST_RESET();
    if (S == 0 || S >= RB_MAX_SIZE || h > S || t > S || (h == 0 && t != 0)) return;
    if (bo >= S || bc == 0 || bc > S - bo || bo + bc != h) return; /* [bo, bo+bc) ends at head */
    if (!REL_IN(bo, bc, h, t)) return;
    uint8_t *mem = malloc(S);
    if (!mem) return;
    the_ring.allocator = (struct aws_allocator *)nondet_ptr();
    if (!the_ring.allocator) return;
    the_ring.allocation = mem; the_ring.allocation_end = mem + S;
    the_ring.head.value = mem + h; the_ring.tail.value = mem + t;
    g_rb = &the_ring; g_S = S; g_x = nondet_size_t(); g_hfin = h;
    if (g_x >= S) return;
    last = aws_byte_buf_from_empty_array(mem + bo, bc);
    aws_ring_buffer_release(&the_ring, &last);
    __CPROVER_assert(the_ring.head.value == the_ring.tail.value, "drain: last buffer released => nothing outstanding");
    int r = aws_ring_buffer_acquire(&the_ring, n, &c);
    __CPROVER_assert((r == AWS_OP_SUCCESS) == (n >= 1 && n <= S), "drain: everything released => any request not larger than the ring succeeds");
    if (r == AWS_OP_SUCCESS) {
        __CPROVER_assert(POFF(c.buffer) == 0 && c.capacity == n, "drain: the buffer starts at the beginning of the storage");
        if (n == S) CANARY("drain: full capacity handed out");
        if (t > h) CANARY("drain: from a wrapped state");
        if (t < h) CANARY("drain: from an unwrapped state");
    }
}

/* ---- side conditions of the rely/guarantee composition, as pure lemmas over offsets (no library code involved):
 *      ADV  = steps of the releaser (what acquire relies on, what release guarantees)
 *      HADV = steps of the acquirer (what release relies on, what acquire guarantees) ---- */
void h_rg_lemmas(void) {
    size_t S = nondet_size_t(), h = nondet_size_t(), t = nondet_size_t(), h2 = nondet_size_t(), h3 = nondet_size_t();
    size_t t2 = nondet_size_t(), t3 = nondet_size_t(), x = nondet_size_t(), b = nondet_size_t(), c = nondet_size_t();
    if (S == 0 || h > S || t > S || h2 > S || h3 > S || t2 > S || t3 > S || x >= S) return;
    if (h == 0 && t != 0) return; /* ring invariant */
    if (b >= S || c == 0 || c > S - b) return;
    if (ADV(t, t2, h, S) && ADV(t2, t3, h, S))
        __CPROVER_assert(ADV(t, t3, h, S), "lemma: releaser steps compose (any number of releases is one schedule step)");
    if (ADV(t, t2, h, S) && OUT(x, h, t2))
        __CPROVER_assert(OUT(x, h, t), "lemma: releaser steps only shrink the outstanding set");
    if (ADV(t, t2, h, S))
        __CPROVER_assert(t2 != t ? t2 >= 1 && (h != 0) : 1, "lemma: releaser steps keep the ring invariant");
    if (t != h && HADV(h, h2, t, S) && HADV(h2, h3, t, S))
        __CPROVER_assert(HADV(h, h3, t, S), "lemma: acquirer steps compose");
    if (t != h && HADV(h, h2, t, S) && OUT(x, h, t))
        __CPROVER_assert(OUT(x, h2, t) && h2 != t && h2 >= 1, "lemma: acquirer steps only grow the outstanding set and never make the ring look empty");
    if (t != h && HADV(h, h2, t, S) && ADV(t, t2, h, S))
        __CPROVER_assert(ADV(t, t2, h2, S), "lemma: what the releaser may publish stays admissible while the acquirer moves on");
    if (t != h && HADV(h, h2, t, S) && ADV(t, t2, h, S) && t2 != h)
        __CPROVER_assert(HADV(h, h2, t2, S), "lemma: what the acquirer may publish stays admissible while the releaser moves on");
    if (REL_IN(b, c, h, t)) {
        __CPROVER_assert(t != h && ADV(t, b + c, h, S), "lemma: releasing an outstanding buffer is a releaser step");
        if (HADV(h, h2, t, S))
            __CPROVER_assert(REL_IN(b, c, h2, t), "lemma: release's precondition is stable under acquirer steps");
        CANARY("lemmas: a buffer inside the outstanding region");
    }
    if (t > h) CANARY("lemmas: wrapped state"); 
    if (t < h) CANARY("lemmas: unwrapped state");
}
