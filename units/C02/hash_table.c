/* Proof units for C02: the real source/hash_table.c under the spec of contracts/hash_table.h.
 *
 * Every h_* harness is ONE INDUCTIVE STEP: an ARBITRARY table of HT_NS slots that satisfies ht_inv (not only reachable
 * ones), arbitrary key identities / hash function / destructor configuration / stored pointers -> the real operation
 * -> ht_inv again + the reference-map view changes exactly as stated.  BOUNDED by HT_NS (4; 2 for the 2->4 resize).
 *
 * Compile-time switches (set per unit in units.json):
 *   HT_NS          slots of the pre-state table
 *   HT_NO_ALLOC    the step must not allocate/release: aws_mem_calloc/aws_mem_release are "never reached" obligations
 *                  (units without it link the real source/allocator.c over a calloc/free allocator)
 *   HT_GROW        0: only steps that do not resize   1: only steps that resize
 *   HT_PUT_CASE    0: put on a present key            1: put on an absent key
 *   HT_FOREACH_CASE 0: foreach runs that are never stopped  1: runs stopped by the callback;  HT_FOREACH_MAX: max entries
 */
#include "contracts/hash_table.h"
#include "source/hash_table.c"

#ifdef HT_NO_ALLOC
void *aws_mem_calloc(struct aws_allocator *a, size_t n, size_t s) {
    (void)a; (void)n; (void)s;
    __CPROVER_assert(0, "no allocation in a step that does not resize");
    __CPROVER_assume(0); /* prunes the path AFTER the failed obligation only */
    return NULL;
}
void aws_mem_release(struct aws_allocator *a, void *p) {
    (void)a; (void)p;
    __CPROVER_assert(0, "no release in a step that does not resize or clean up");
    __CPROVER_assume(0);
}
#endif

/* error channel (source/error.c is not part of C02): the thread-local "last error" slot as a ghost variable */
void aws_raise_error_private(int err) {
    g_last_error = err;
    g_raise_count++;
}
int aws_last_error(void) {
    return g_last_error;
}

#define CHECK(c, msg) __CPROVER_assert((c), msg)
#define NO_DESTRUCTOR_CALLS() CHECK(g_dk_calls == 0 && g_dv_calls == 0, "no destructor is called")
#define NO_ALLOCATOR_CALLS() CHECK(g_alloc_calls == 0 && g_release_calls == 0, "nothing allocated or released")

/* an arbitrary slot index (ghost witness for "every stored entry ...") */
static size_t any_slot(void) {
    size_t p = ND_SIZE();
    __CPROVER_assume(p < HT_NS);
    return p;
}

/* ---------------------------------------------------------------- find, entry count */
void h_find(void) {
    ht_model_init();
    struct hash_table_state *st = ht_any_state(HT_NS);
    struct aws_hash_table map = {st};
    const void *key = ht_any_key();
    struct ht_snap snap;
    ht_snapshot(st, HT_NS, &snap);
    size_t idx = sp_find(st, HT_NS, key);
    struct aws_hash_element *el = (struct aws_hash_element *)&vk_alloc;

    int rv = aws_hash_table_find(&map, key, &el);

    CHECK(rv == AWS_OP_SUCCESS, "find: always succeeds");
    CHECK(idx == HT_NONE ? el == NULL : el == &st->slots[idx].element, "find: returns the stored element iff the reference map holds the key");
    CHECK(map.p_impl == st && ht_same(st, HT_NS, &snap), "find: table unchanged");
    NO_DESTRUCTOR_CALLS();
    size_t occ = 0;
    for (size_t i = 0; i < HT_NS; i++)
        if (st->slots[i].hash_code) occ++;
    CHECK(aws_hash_table_get_entry_count(&map) == occ, "get_entry_count: reports the number of stored pairs");
    if (idx == HT_NONE) {
        if (st->entry_count == HT_NS - 1) CANARY("find: absent, table at maximal load");
        else CANARY("find: absent");
    } else {
        size_t home = (size_t)sp_hash(key) & (HT_NS - 1);
        if (idx == home) CANARY("find: found at home slot");
        else if (idx < home) CANARY("find: found after wrap-around");
        else CANARY("find: found displaced");
        if (key == NULL) CANARY("find: NULL key found");
        if (key != NULL && st->slots[idx].element.key != key) CANARY("find: found through an equal but distinct key pointer");
        if (key != NULL && vk_hash_of_id[((const struct vkey *)key)->id] == 0) CANARY("find: found a key whose hash function value is 0");
    }
}

/* ---------------------------------------------------------------- insertion (create / put on an absent key) */
/* post-state has HT_NS or 2*HT_NS slots: dispatch to the constant-bound spec loops */
#define INV_EITHER(s) ((s)->size == HT_NS ? ht_inv((s), HT_NS) : ht_inv((s), 2 * HT_NS))
#define FIND_EITHER(s, k) ((s)->size == HT_NS ? sp_find((s), HT_NS, (k)) : sp_find((s), 2 * HT_NS, (k)))
#define HOLDS_EITHER(s, e) ((s)->size == HT_NS ? sp_holds((s), HT_NS, (e)) : sp_holds((s), 2 * HT_NS, (e)))

#if defined(HT_GROW) && HT_GROW == 0
#    define GROW_CASE(st) __CPROVER_assume((st)->entry_count + 1 <= (st)->max_load)
#elif defined(HT_GROW) && HT_GROW == 1
#    define GROW_CASE(st) __CPROVER_assume((st)->entry_count + 1 > (st)->max_load)
#else
#    define GROW_CASE(st) (void)0
#endif

/* one entry more, table resized exactly when the load limit demands it (old block released once), every stored
 * entry (witness: arbitrary slot p of the pre-state) still stored */
static void check_inserted(struct aws_hash_table *map, struct hash_table_state *st, const struct ht_snap *snap, size_t p) {
    struct hash_table_state *s1 = map->p_impl;
    bool grow = snap->hdr.entry_count + 1 > snap->hdr.max_load;
    if (!grow) {
        CHECK(s1 == st && s1->size == HT_NS && s1->max_load == snap->hdr.max_load, "insert: no resize while the load limit allows one more entry");
        CHECK(g_alloc_calls == 0 && g_release_calls == 0, "insert: nothing allocated or released without resize");
    } else {
        CHECK(s1 != st && s1->size == 2 * HT_NS, "insert: table doubled when the load limit is reached");
        CHECK(g_alloc_calls == 1 && g_release_calls == 1 && g_release_last == st, "insert: one allocation, old slot array released exactly once");
    }
    CHECK(INV_EITHER(s1), "insert: representation invariant holds afterwards");
    CHECK(s1->entry_count == snap->hdr.entry_count + 1, "insert: count incremented");
    CHECK(s1->destroy_key_fn == snap->hdr.destroy_key_fn && s1->destroy_value_fn == snap->hdr.destroy_value_fn, "insert: destructor configuration kept");
    if (snap->slots[p].hash_code) CHECK(HOLDS_EITHER(s1, snap->slots[p]), "insert: every stored entry is still stored (same key pointer, same value)");
}

void h_create(void) {
    ht_model_init();
    struct hash_table_state *st = ht_any_state(HT_NS);
    struct aws_hash_table map = {st};
    const void *key = ht_any_key();
    size_t p = any_slot();
    GROW_CASE(st);
    struct ht_snap snap;
    ht_snapshot(st, HT_NS, &snap);
    size_t idx = sp_find(st, HT_NS, key);
    bool want_elem = ND_BOOL(), want_created = ND_BOOL();
    struct aws_hash_element *el = (struct aws_hash_element *)&vk_alloc;
    int created = 77;

    int rv = aws_hash_table_create(&map, key, want_elem ? &el : NULL, want_created ? &created : NULL);

    struct hash_table_state *s1 = map.p_impl;
    CHECK(rv == AWS_OP_SUCCESS, "create: succeeds");
    NO_DESTRUCTOR_CALLS();
    if (idx != HT_NONE) {
        CHECK(s1 == st && ht_same(st, HT_NS, &snap), "create: existing key leaves the table unchanged");
        CHECK(!want_elem || el == &st->slots[idx].element, "create: existing key returns the stored element");
        CHECK(!want_created || created == 0, "create: was_created == 0 for an existing key");
        NO_ALLOCATOR_CALLS();
        CANARY("create: key existed");
    } else {
        check_inserted(&map, st, &snap, p);
        size_t i1 = FIND_EITHER(s1, key);
        CHECK(i1 != HT_NONE && s1->slots[i1].element.key == key && s1->slots[i1].element.value == NULL, "create: new entry holds the key pointer and a NULL value");
        CHECK(!want_elem || (i1 != HT_NONE && el == &s1->slots[i1].element), "create: returns the new element");
        CHECK(!want_created || created == 1, "create: was_created == 1 for a new key");
#if !defined(HT_GROW) || HT_GROW == 0
        if (s1 == st) {
            if (i1 != HT_NONE && sp_disp(s1, HT_NS, i1) > 0) CANARY("create: new entry displaced");
            else CANARY("create: new entry at home");
            if (i1 != HT_NONE && snap.slots[i1].hash_code != 0) CANARY("create: new entry took the slot of a richer entry (Robin Hood swap)");
        }
#endif
#if !defined(HT_GROW) || HT_GROW == 1
        if (s1 != st) CANARY("create: resized");
#endif
    }
}

void h_put(void) {
    ht_model_init();
    struct hash_table_state *st = ht_any_state(HT_NS);
    struct aws_hash_table map = {st};
    const void *key = ht_any_key();
    void *value = ht_any_value();
    size_t p = any_slot();
    GROW_CASE(st);
    struct ht_snap snap;
    ht_snapshot(st, HT_NS, &snap);
    size_t idx = sp_find(st, HT_NS, key);
#if defined(HT_PUT_CASE) && HT_PUT_CASE == 0
    __CPROVER_assume(idx != HT_NONE);
#elif defined(HT_PUT_CASE) && HT_PUT_CASE == 1
    __CPROVER_assume(idx == HT_NONE);
#endif
    bool want_created = ND_BOOL();
    int created = 77;

    int rv = aws_hash_table_put(&map, key, value, want_created ? &created : NULL);

    struct hash_table_state *s1 = map.p_impl;
    CHECK(rv == AWS_OP_SUCCESS, "put: succeeds");
    size_t i1 = FIND_EITHER(s1, key);
    CHECK(i1 != HT_NONE && s1->slots[i1].element.key == key && s1->slots[i1].element.value == value, "put: the key now maps to the new value, stored under the new key pointer");
#if !defined(HT_PUT_CASE) || HT_PUT_CASE == 0
    if (idx != HT_NONE) {
        CHECK(s1 == st && ht_inv(st, HT_NS) && ht_hdr_same(st, &snap) && st->entry_count == snap.hdr.entry_count, "put: overwrite keeps shape and count");
        CHECK(i1 == idx && st->slots[idx].hash_code == snap.slots[idx].hash_code, "put: overwrite happens in place");
        if (p != idx)
            CHECK(st->slots[p].hash_code == snap.slots[p].hash_code && st->slots[p].element.key == snap.slots[p].element.key &&
                      st->slots[p].element.value == snap.slots[p].element.value, "put: overwrite leaves every other slot unchanged");
        CHECK(!want_created || created == 0, "put: was_created == 0 on overwrite");
        NO_ALLOCATOR_CALLS();
        /* destructors: old key exactly once iff it is a different pointer, old value exactly once */
        bool dk = snap.hdr.destroy_key_fn != NULL && snap.slots[idx].element.key != key;
        CHECK(g_dk_calls == (dk ? 1 : 0) && (!dk || g_dk_last == snap.slots[idx].element.key), "put: overwritten key destroyed exactly once, and only if it is another pointer");
        bool dv = snap.hdr.destroy_value_fn != NULL;
        CHECK(g_dv_calls == (dv ? 1 : 0) && (!dv || g_dv_last == snap.slots[idx].element.value), "put: overwritten value destroyed exactly once");
        if (dk) CANARY("put: overwrite, old key destroyed");
        else if (snap.hdr.destroy_key_fn) CANARY("put: overwrite with the same key pointer, key kept");
        else CANARY("put: overwrite, no key destructor");
    }
#endif
#if !defined(HT_PUT_CASE) || HT_PUT_CASE == 1
    if (idx == HT_NONE) {
        check_inserted(&map, st, &snap, p);
        CHECK(!want_created || created == 1, "put: was_created == 1 for a new key");
        NO_DESTRUCTOR_CALLS();
#    if !defined(HT_GROW) || HT_GROW == 0
        if (s1 == st) CANARY("put: inserted");
#    endif
#    if !defined(HT_GROW) || HT_GROW == 1
        if (s1 != st) CANARY("put: inserted with resize");
#    endif
    }
#endif
}

/* ---------------------------------------------------------------- resize (s_expand_table), HT_NS -> 2*HT_NS */
#ifndef HT_NO_ALLOC
void h_expand(void) {
    ht_model_init();
    struct hash_table_state *st = ht_any_state(HT_NS);
    struct aws_hash_table map = {st};
    size_t p = any_slot();
    struct ht_snap snap;
    ht_snapshot(st, HT_NS, &snap);

    int rv = s_expand_table(&map);

    struct hash_table_state *s1 = map.p_impl;
    CHECK(rv == AWS_OP_SUCCESS, "expand: succeeds");
    CHECK(s1 != st && g_alloc_calls == 1 && g_release_calls == 1 && g_release_last == st, "expand: new slot array, old one released exactly once");
    CHECK(ht_inv(s1, 2 * HT_NS), "expand: representation invariant holds for the doubled table");
    CHECK(s1->entry_count == snap.hdr.entry_count, "expand: count kept");
    CHECK(s1->entry_count + 1 <= s1->max_load, "expand: the doubled table takes one more entry without resizing again");
    CHECK(s1->destroy_key_fn == snap.hdr.destroy_key_fn && s1->destroy_value_fn == snap.hdr.destroy_value_fn, "expand: destructor configuration kept");
    if (snap.slots[p].hash_code) CHECK(sp_holds(s1, 2 * HT_NS, snap.slots[p]), "expand: every stored entry is still stored (same key pointer, same value)");
    NO_DESTRUCTOR_CALLS();
    if (snap.hdr.entry_count == HT_NS - 1) CANARY("expand: full table rehashed");
    else CANARY("expand: rehashed");
}
#endif

/* ---------------------------------------------------------------- remove / remove_element */
/* shared post-condition: one entry fewer, that key gone, every other stored entry still stored */
static void check_removed(struct hash_table_state *st, const struct ht_snap *snap, size_t idx, size_t p) {
    CHECK(ht_inv(st, HT_NS), "removal: representation invariant holds afterwards");
    CHECK(st->entry_count == snap->hdr.entry_count - 1, "removal: count decremented");
    CHECK(sp_find(st, HT_NS, snap->slots[idx].element.key) == HT_NONE, "removal: key no longer present");
    if (p != idx && snap->slots[p].hash_code) CHECK(sp_holds(st, HT_NS, snap->slots[p]), "removal: every other stored entry is still stored (same key pointer, same value)");
}

void h_remove(void) {
    ht_model_init();
    struct hash_table_state *st = ht_any_state(HT_NS);
    struct aws_hash_table map = {st};
    const void *key = ht_any_key();
    size_t p = any_slot();
    struct ht_snap snap;
    ht_snapshot(st, HT_NS, &snap);
    size_t idx = sp_find(st, HT_NS, key);
    bool want_value = ND_BOOL(), want_present = ND_BOOL();
    struct aws_hash_element out = {&vk_alloc, &vk_alloc};
    int present = 77;

    int rv = aws_hash_table_remove(&map, key, want_value ? &out : NULL, want_present ? &present : NULL);

    CHECK(rv == AWS_OP_SUCCESS, "remove: succeeds");
    CHECK(map.p_impl == st && ht_hdr_same(st, &snap), "remove: same slot array, header kept");
    CHECK(!want_present || present == (idx != HT_NONE ? 1 : 0), "remove: was_present reports the reference map");
    NO_ALLOCATOR_CALLS();
    if (idx == HT_NONE) {
        CHECK(ht_same(st, HT_NS, &snap), "remove: absent key leaves the table unchanged");
        NO_DESTRUCTOR_CALLS();
        CANARY("remove: key absent");
    } else {
        check_removed(st, &snap, idx, p);
        if (want_value) {
            CHECK(out.key == snap.slots[idx].element.key && out.value == snap.slots[idx].element.value, "remove: out-parameter receives the stored pair");
            NO_DESTRUCTOR_CALLS();
            CANARY("remove: removed into out-parameter");
        } else {
            bool dk = snap.hdr.destroy_key_fn != NULL, dv = snap.hdr.destroy_value_fn != NULL;
            CHECK(g_dk_calls == (dk ? 1 : 0) && (!dk || g_dk_last == snap.slots[idx].element.key), "remove: stored key destroyed exactly once");
            CHECK(g_dv_calls == (dv ? 1 : 0) && (!dv || g_dv_last == snap.slots[idx].element.value), "remove: stored value destroyed exactly once");
            if (dk && dv) CANARY("remove: removed, both destructors ran");
            else CANARY("remove: removed");
        }
        if (st->slots[idx].hash_code != 0) CANARY("remove: successor shifted back into the freed slot");
    }
}

void h_remove_element(void) {
    ht_model_init();
    struct hash_table_state *st = ht_any_state(HT_NS);
    struct aws_hash_table map = {st};
    size_t idx = any_slot();
    __CPROVER_assume(st->slots[idx].hash_code != 0);
    size_t p = any_slot();
    struct ht_snap snap;
    ht_snapshot(st, HT_NS, &snap);

    int rv = aws_hash_table_remove_element(&map, &st->slots[idx].element);

    CHECK(rv == AWS_OP_SUCCESS, "remove_element: succeeds");
    CHECK(map.p_impl == st && ht_hdr_same(st, &snap), "remove_element: same slot array, header kept");
    check_removed(st, &snap, idx, p);
    NO_DESTRUCTOR_CALLS();
    NO_ALLOCATOR_CALLS();
    if (idx == HT_NS - 1 && st->slots[idx].hash_code != 0) CANARY("remove_element: last slot refilled by backward shift across the wrap-around");
    else CANARY("remove_element: removed");
}

/* ---------------------------------------------------------------- clear / clean_up */
/* watch the key pointer stored in slot p (if any) and an arbitrary value pointer (may be held by several entries) */
static void clear_pre(struct hash_table_state *st, size_t p, size_t *n_wv) {
    if (st->slots[p].hash_code) g_dk_watch = st->slots[p].element.key;
    g_dv_watch = ht_any_value();
    *n_wv = sp_count_value(st, HT_NS, g_dv_watch);
}
static void clear_post_destructors(const struct ht_snap *snap, size_t p, size_t n_wv) {
    bool dk = snap->hdr.destroy_key_fn != NULL, dv = snap->hdr.destroy_value_fn != NULL;
    CHECK(g_dk_calls == (dk ? snap->hdr.entry_count : 0), "clear: key destructor runs once per stored entry (never without one)");
    CHECK(g_dk_hits == (dk && snap->slots[p].hash_code ? 1 : 0), "clear: every stored key pointer destroyed exactly once");
    CHECK(g_dv_calls == (dv ? snap->hdr.entry_count : 0), "clear: value destructor runs once per stored entry (never without one)");
    CHECK(g_dv_hits == (dv ? n_wv : 0), "clear: every value pointer destroyed once per entry holding it");
}
void h_clear(void) {
    ht_model_init();
    struct hash_table_state *st = ht_any_state(HT_NS);
    struct aws_hash_table map = {st};
    size_t p = any_slot();
    struct ht_snap snap;
    ht_snapshot(st, HT_NS, &snap);
    size_t n_wv;
    clear_pre(st, p, &n_wv);

    aws_hash_table_clear(&map);

    CHECK(map.p_impl == st && ht_hdr_same(st, &snap), "clear: same slot array, header kept");
    CHECK(ht_inv(st, HT_NS) && st->entry_count == 0, "clear: empty table satisfying the invariant");
    CHECK(st->slots[p].hash_code == 0, "clear: every slot empty");
    clear_post_destructors(&snap, p, n_wv);
    NO_ALLOCATOR_CALLS();
    if (snap.hdr.entry_count == HT_NS - 1 && snap.hdr.destroy_key_fn && snap.hdr.destroy_value_fn) CANARY("clear: full table, both destructors");
    else if (snap.hdr.entry_count > 0 && !snap.hdr.destroy_key_fn && !snap.hdr.destroy_value_fn) CANARY("clear: no destructors");
    else CANARY("clear: other");
    if (n_wv > 1) CANARY("clear: one value pointer held by several entries");
}
#ifndef HT_NO_ALLOC
void h_clean_up(void) {
    ht_model_init();
    struct hash_table_state *st = ht_any_state(HT_NS);
    struct aws_hash_table map = {st};
    size_t p = any_slot();
    struct ht_snap snap;
    ht_snapshot(st, HT_NS, &snap);
    size_t n_wv;
    clear_pre(st, p, &n_wv);

    aws_hash_table_clean_up(&map);

    CHECK(map.p_impl == NULL, "clean_up: p_impl reset");
    CHECK(g_release_calls == 1 && g_release_last == st && g_alloc_calls == 0, "clean_up: slot array released exactly once");
    clear_post_destructors(&snap, p, n_wv);
    CANARY("clean_up: cleaned");

    aws_hash_table_clean_up(&map); /* documented as idempotent */
    CHECK(map.p_impl == NULL && g_release_calls == 1, "clean_up: second call releases nothing");
    clear_post_destructors(&snap, p, n_wv);
    CANARY("clean_up: second call returned");
}
#endif

/* ---------------------------------------------------------------- iteration: begin / done / next / delete */
void h_iter_begin(void) {
    ht_model_init();
    struct hash_table_state *st = ht_any_state(HT_NS);
    struct aws_hash_table map = {st};
    struct ht_snap snap;
    ht_snapshot(st, HT_NS, &snap);
    size_t p = any_slot();

    struct aws_hash_iter it = aws_hash_iter_begin(&map);

    CHECK(map.p_impl == st && ht_same(st, HT_NS, &snap), "iter_begin: table unchanged");
    CHECK(it_inv(&it, &map, HT_NS), "iter_begin: iterator invariant established (current element is a copy of its slot)");
    CHECK(it.limit == HT_NS, "iter_begin: window is the whole slot array");
    CHECK(it.status != AWS_HASH_ITER_STATUS_DELETE_CALLED, "iter_begin: status is READY or DONE");
    if (st->slots[p].hash_code) CHECK(it_class_of(&it, p) != IT_VISITED, "iter_begin: no stored entry counts as visited");
    CHECK((it.status == AWS_HASH_ITER_STATUS_DONE) == (st->entry_count == 0), "iter_begin: DONE iff the table is empty");
    CHECK(aws_hash_iter_done(&it) == (it.status == AWS_HASH_ITER_STATUS_DONE), "iter_done: true iff status is DONE");
    NO_DESTRUCTOR_CALLS();
    if (it.status == AWS_HASH_ITER_STATUS_DONE) CANARY("iter_begin: empty table");
    else if (it.slot > 0) CANARY("iter_begin: first entry after empty slots");
    else CANARY("iter_begin: first entry in slot 0");
}

/* an arbitrary iterator over `map` satisfying it_inv */
static struct aws_hash_iter any_iter(const struct aws_hash_table *map) {
    struct aws_hash_iter it;
    it.map = map;
    it.slot = ND_SIZE();
    it.limit = ND_SIZE();
    int s = ND_INT();
    __CPROVER_assume(s == AWS_HASH_ITER_STATUS_DONE || s == AWS_HASH_ITER_STATUS_DELETE_CALLED || s == AWS_HASH_ITER_STATUS_READY_FOR_USE);
    it.status = (enum aws_hash_iter_status)s;
    __CPROVER_assume(it.limit <= HT_NS && (it.slot < HT_NS || it.slot == SIZE_MAX || it.slot == it.limit));
    it.element.key = NULL;
    it.element.value = NULL;
    if (it.status == AWS_HASH_ITER_STATUS_READY_FOR_USE && it.slot < HT_NS) it.element = map->p_impl->slots[it.slot].element;
    it.unused_0 = 0;
    it.unused_1 = NULL;
    it.unused_2 = NULL;
    __CPROVER_assume(it_inv(&it, map, HT_NS));
    return it;
}

void h_iter_next(void) {
    ht_model_init();
    struct hash_table_state *st = ht_any_state(HT_NS);
    struct aws_hash_table map = {st};
    struct aws_hash_iter it = any_iter(&map);
    struct ht_snap snap;
    ht_snapshot(st, HT_NS, &snap);
    size_t p = any_slot(); /* an arbitrary stored entry */
    __CPROVER_assume(st->slots[p].hash_code != 0);
    enum it_class c0 = it_class_of(&it, p);
    enum aws_hash_iter_status s0 = it.status;
    size_t limit0 = it.limit;

    aws_hash_iter_next(&it);

    CHECK(map.p_impl == st && ht_same(st, HT_NS, &snap), "iter_next: table unchanged");
    CHECK(it_inv(&it, &map, HT_NS), "iter_next: iterator invariant kept (current element is a copy of its slot)");
    CHECK(it.limit == limit0, "iter_next: window limit kept");
    CHECK(it.status != AWS_HASH_ITER_STATUS_DELETE_CALLED, "iter_next: status is READY or DONE");
    enum it_class c1 = it_class_of(&it, p);
    CHECK(c0 != IT_VISITED || c1 == IT_VISITED, "iter_next: a visited entry is never handed out again");
    CHECK(c0 != IT_CURRENT || c1 == IT_VISITED, "iter_next: the current entry becomes visited");
    CHECK(c0 != IT_PENDING || c1 != IT_VISITED, "iter_next: a pending entry is not skipped");
    CHECK(it.status != AWS_HASH_ITER_STATUS_DONE || c1 == IT_VISITED, "iter_next: DONE only when nothing is pending");
    CHECK(aws_hash_iter_done(&it) == (it.status == AWS_HASH_ITER_STATUS_DONE), "iter_done: true iff status is DONE");
    NO_DESTRUCTOR_CALLS();
    if (s0 == AWS_HASH_ITER_STATUS_DELETE_CALLED && it.status == AWS_HASH_ITER_STATUS_READY_FOR_USE) {
        if (it.slot == 0) CANARY("iter_next: after deleting slot 0 the entry shifted into slot 0 is handed out");
        else CANARY("iter_next: after delete, next entry handed out");
    } else if (s0 == AWS_HASH_ITER_STATUS_READY_FOR_USE && it.status == AWS_HASH_ITER_STATUS_READY_FOR_USE) CANARY("iter_next: advanced");
    else if (s0 == AWS_HASH_ITER_STATUS_DONE) CANARY("iter_next: on a DONE iterator");
    else if (limit0 < HT_NS) CANARY("iter_next: reached a shrunk limit");
    else CANARY("iter_next: reached the end");
}

void h_iter_delete(void) {
    ht_model_init();
    struct hash_table_state *st = ht_any_state(HT_NS);
    struct aws_hash_table map = {st};
    struct aws_hash_iter it = any_iter(&map);
    __CPROVER_assume(it.status == AWS_HASH_ITER_STATUS_READY_FOR_USE);
    bool destroy = ND_BOOL();
    struct ht_snap snap;
    ht_snapshot(st, HT_NS, &snap);
    size_t slot0 = it.slot, limit0 = it.limit;
    size_t p = any_slot(); /* an arbitrary OTHER stored entry */
    __CPROVER_assume(p != it.slot && st->slots[p].hash_code != 0);
    enum it_class c0 = it_class_of(&it, p);

    aws_hash_iter_delete(&it, destroy);

    CHECK(map.p_impl == st && ht_hdr_same(st, &snap), "iter_delete: same slot array, header kept");
    check_removed(st, &snap, slot0, p);
    CHECK(it.status == AWS_HASH_ITER_STATUS_DELETE_CALLED && it_inv(&it, &map, HT_NS), "iter_delete: iterator invariant kept, status DELETE_CALLED");
    size_t p1 = sp_find(st, HT_NS, snap.slots[p].element.key);
    CHECK(p1 != HT_NONE, "iter_delete: every other key still found");
    if (p1 != HT_NONE) {
        enum it_class c1 = it_class_of(&it, p1);
        CHECK(c0 != IT_VISITED || c1 == IT_VISITED, "iter_delete: a visited entry stays visited (no second visit after backward shift / wrap-around)");
        CHECK(c0 != IT_PENDING || c1 == IT_PENDING, "iter_delete: a pending entry stays pending (no skipped entry after backward shift)");
    }
    if (destroy) {
        bool dk = snap.hdr.destroy_key_fn != NULL, dv = snap.hdr.destroy_value_fn != NULL;
        CHECK(g_dk_calls == (dk ? 1 : 0) && (!dk || g_dk_last == snap.slots[slot0].element.key), "iter_delete: key destroyed exactly once when requested");
        CHECK(g_dv_calls == (dv ? 1 : 0) && (!dv || g_dv_last == snap.slots[slot0].element.value), "iter_delete: value destroyed exactly once when requested");
        CANARY("iter_delete: with destruction");
    } else {
        NO_DESTRUCTOR_CALLS();
    }
    NO_ALLOCATOR_CALLS();
    if (it.limit < limit0) {
        if (limit0 < HT_NS) CANARY("iter_delete: limit shrunk again");
        else CANARY("iter_delete: limit shrunk (visited entry shifted across the wrap-around)");
    } else CANARY("iter_delete: limit kept");
    if (slot0 == 0) CANARY("iter_delete: slot 0 deleted (slot underflows)");
    if (c0 == IT_PENDING && p1 != HT_NONE && p1 != p) CANARY("iter_delete: pending entry shifted back");
    if (c0 == IT_VISITED && p1 != HT_NONE && p1 != p) CANARY("iter_delete: visited entry shifted back");
}

/* ---------------------------------------------------------------- foreach (whole run, callback decides per element) */
const void *g_cb_watch;
size_t g_cb_calls, g_cb_hits, g_cb_deletes;
int g_cb_rv_watch;
bool g_cb_stopped, g_cb_error, g_cb_after_stop;
void *g_cb_ctx;
static int foreach_cb(void *ctx, struct aws_hash_element *el) {
    __CPROVER_assert(ctx == g_cb_ctx, "foreach: context handed through");
    if (g_cb_stopped) g_cb_after_stop = true;
    g_cb_calls++;
    int rv = ND_INT();
    __CPROVER_assume((rv & ~7) == 0);
#if defined(HT_FOREACH_CASE) && HT_FOREACH_CASE == 0 /* full runs only: every callback asks to continue */
    __CPROVER_assume((rv & AWS_COMMON_HASH_TABLE_ITER_CONTINUE) && !(rv & AWS_COMMON_HASH_TABLE_ITER_ERROR));
#endif
    if (el->key == g_cb_watch) {
        g_cb_hits++;
        g_cb_rv_watch = rv;
    }
    if (rv & AWS_COMMON_HASH_TABLE_ITER_ERROR) {
        g_cb_error = true;
        g_cb_stopped = true;
    } else {
        if (rv & AWS_COMMON_HASH_TABLE_ITER_DELETE) g_cb_deletes++;
        if (!(rv & AWS_COMMON_HASH_TABLE_ITER_CONTINUE)) g_cb_stopped = true;
    }
    return rv;
}
void h_foreach(void) {
    ht_model_init();
    struct hash_table_state *st = ht_any_state(HT_NS);
    struct aws_hash_table map = {st};
    struct ht_snap snap;
    ht_snapshot(st, HT_NS, &snap);
    size_t p = any_slot(); /* an arbitrary stored entry */
    __CPROVER_assume(st->slots[p].hash_code != 0);
#ifdef HT_FOREACH_MAX /* quick tier: tables holding at most HT_FOREACH_MAX entries */
    __CPROVER_assume(st->entry_count <= HT_FOREACH_MAX);
#endif
    g_cb_watch = st->slots[p].element.key;
    g_cb_calls = g_cb_hits = g_cb_deletes = 0;
    g_cb_rv_watch = 0;
    g_cb_stopped = g_cb_error = g_cb_after_stop = false;
    g_cb_ctx = ht_any_value();

    g_last_error = ND_BOOL() ? 0 : AWS_ERROR_OOM;
    g_raise_count = 0;

    int rv = aws_hash_table_foreach(&map, foreach_cb, g_cb_ctx);

#if defined(HT_FOREACH_CASE) && HT_FOREACH_CASE == 1 /* only runs that are stopped by a callback */
    __CPROVER_assume(g_cb_stopped);
#endif

    CHECK(map.p_impl == st && ht_hdr_same(st, &snap), "foreach: same slot array, header kept");
    CHECK(ht_inv(st, HT_NS), "foreach: representation invariant holds afterwards");
    CHECK(rv == (g_cb_error ? AWS_OP_ERR : AWS_OP_SUCCESS), "foreach: fails iff a callback reported an error");
    CHECK(!g_cb_after_stop, "foreach: no callback after a callback asked to stop");
    CHECK(st->entry_count == snap.hdr.entry_count - g_cb_deletes, "foreach: count reduced by the number of deletions requested");
    CHECK(g_cb_hits <= 1, "foreach: no entry handed out twice");
    bool deleted = g_cb_hits == 1 && (g_cb_rv_watch & AWS_COMMON_HASH_TABLE_ITER_DELETE) && !(g_cb_rv_watch & AWS_COMMON_HASH_TABLE_ITER_ERROR);
    if (deleted) CHECK(sp_find(st, HT_NS, snap.slots[p].element.key) == HT_NONE, "foreach: an entry whose callback asked for deletion is gone");
    else CHECK(sp_holds(st, HT_NS, snap.slots[p]), "foreach: every other entry is still stored");
    CHECK(!g_cb_error || g_last_error != 0, "foreach: an error return leaves an error code behind");
#if !defined(HT_FOREACH_CASE) || HT_FOREACH_CASE == 0
    if (!g_cb_stopped) {
        CHECK(g_cb_calls == snap.hdr.entry_count && g_cb_hits == 1, "foreach: a full run hands out every stored entry exactly once, also across deletions");
        if (g_cb_deletes == snap.hdr.entry_count && g_cb_deletes > 1) CANARY("foreach: full run, every entry deleted");
        else if (g_cb_deletes > 0) CANARY("foreach: full run with deletions");
        else CANARY("foreach: full run");
    }
#endif
#if !defined(HT_FOREACH_CASE) || HT_FOREACH_CASE == 1
    if (g_cb_stopped) {
        if (g_cb_error) CANARY("foreach: stopped by error");
        else CANARY("foreach: stopped by callback");
    }
#endif
    NO_DESTRUCTOR_CALLS();
    NO_ALLOCATOR_CALLS();
}

/* ---------------------------------------------------------------- init (initial sizes) */
#ifndef HT_NO_ALLOC
void h_init(void) {
    ht_model_init();
    struct aws_hash_table map = {NULL};
    size_t size = ND_SIZE();
    __CPROVER_assume(size <= HT_ALLOC_SLOTS && (size > HT_ALLOC_SLOTS / 2 || HT_ALLOC_SLOTS == 2));
    aws_hash_callback_destroy_fn *dk = ND_BOOL() ? vk_destroy_key : NULL;
    aws_hash_callback_destroy_fn *dv = ND_BOOL() ? vk_destroy_value : NULL;

    int rv = aws_hash_table_init(&map, &vk_alloc, size, vk_hash, vk_eq, dk, dv);

    CHECK(rv == AWS_OP_SUCCESS, "init: succeeds");
    struct hash_table_state *s1 = map.p_impl;
    CHECK(s1 != NULL && g_alloc_calls == 1 && g_release_calls == 0, "init: one allocation (vk_calloc checks: exactly header + the smallest power of two >= max(size,2) slots)");
    if (s1 != NULL) {
        CHECK(ht_inv(s1, HT_ALLOC_SLOTS), "init: representation invariant established");
        CHECK(s1->entry_count == 0 && s1->max_load >= 1, "init: empty, and the load limit admits at least one entry");
        CHECK(s1->destroy_key_fn == dk && s1->destroy_value_fn == dv, "init: destructors stored as given");
    }
    NO_DESTRUCTOR_CALLS();
#if HT_ALLOC_SLOTS == 2
    if (size < 2) CANARY("init: size below the minimum of two slots");
    else CANARY("init: size two");
#else
    if (size < HT_ALLOC_SLOTS) CANARY("init: size rounded up to a power of two");
    else CANARY("init: size already a power of two");
#endif
}
#endif

/* all 2^64 requested sizes: slot count and load limit computed by s_update_template_size */
void h_update_template_size(void) {
    struct hash_table_state tmpl;
    tmpl.max_load_factor = 0.95;
    tmpl.size = ND_SIZE();
    tmpl.mask = ND_SIZE();
    tmpl.max_load = ND_SIZE();
    size_t size0 = tmpl.size, mask0 = tmpl.mask, ml0 = tmpl.max_load;
    size_t n = ND_SIZE();

    int rv = s_update_template_size(&tmpl, n);

    size_t want = n < 2 ? 2 : n;
    if (want > ((size_t)1 << 63)) {
        CHECK(rv == AWS_OP_ERR && tmpl.size == size0 && tmpl.mask == mask0 && tmpl.max_load == ml0, "template size: a request above 2^63 slots is refused and changes nothing");
        CANARY("template size: refused");
    } else {
        CHECK(rv == AWS_OP_SUCCESS, "template size: succeeds");
        CHECK(tmpl.size != 0 && (tmpl.size & (tmpl.size - 1)) == 0, "template size: slot count is a power of two");
        CHECK(tmpl.size >= want && (tmpl.size >> 1) < want, "template size: the smallest power of two >= max(requested, 2)");
        CHECK(tmpl.mask == tmpl.size - 1, "template size: mask == size - 1");
        CHECK(tmpl.max_load < tmpl.size, "template size: load limit leaves at least one slot empty");
        CHECK(tmpl.max_load >= tmpl.size / 2, "template size: load limit admits at least half of the slots");
        if (tmpl.size == 2) CANARY("template size: minimum"); else CANARY("template size: computed");
    }
}

/* ---------------------------------------------------------------- swap / move (DFCC contracts, unbounded) */
void h_swap(void) {
    struct aws_hash_table *a, *b;
    aws_hash_table_swap(a, b);
    CANARY("swap: returned");
}
void h_move(void) {
    struct aws_hash_table *to, *from;
    aws_hash_table_move(to, from);
    CANARY("move: returned");
}
