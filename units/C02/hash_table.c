/* Proof units for C02: the real source/hash_table.c under the spec of contracts/hash_table.h.
 * Every h_* harness is one inductive step on an ARBITRARY table of HT_NS slots satisfying ht_inv (bounded: HT_NS). */
#include "contracts/hash_table.h"
#include "source/hash_table.c"

#ifdef HT_NO_ALLOC
/* Units for steps that must not allocate or release (everything except resize and clean-up): the allocator entry points
 * are obligations ("never reached") instead of the real source/allocator.c; the assume(0) only prunes the path after
 * the failed obligation. */
void *aws_mem_calloc(struct aws_allocator *a, size_t n, size_t s) {
    (void)a; (void)n; (void)s;
    __CPROVER_assert(0, "no allocation in a step that does not resize");
    __CPROVER_assume(0);
    return NULL;
}
void aws_mem_release(struct aws_allocator *a, void *p) {
    (void)a; (void)p;
    __CPROVER_assert(0, "no release in a step that does not resize or clean up");
    __CPROVER_assume(0);
}
#endif

#define CHECK(c, msg) __CPROVER_assert((c), msg)
#define NO_DESTRUCTOR_CALLS() CHECK(g_dk_calls == 0 && g_dv_calls == 0, "no destructor is called")

/* ---------------------------------------------------------------- find */
void h_find(void) {
    ht_model_init();
    struct hash_table_state *st = ht_any_state(HT_NS);
    struct aws_hash_table map = {st};
    const void *key = ht_any_key();
    struct ht_snap snap;
    ht_snapshot(st, HT_NS, &snap);
    size_t idx = sp_find(st, HT_NS, key);
    struct aws_hash_element *el = (struct aws_hash_element *)&vk_alloc;

    int rv = aws_hash_table_find(&map, key, &el);

    CHECK(rv == AWS_OP_SUCCESS, "find: always succeeds");
    CHECK(idx == HT_NONE ? el == NULL : el == &st->slots[idx].element, "find: returns the stored element iff the reference map holds the key");
    CHECK(map.p_impl == st && ht_same(st, HT_NS, &snap), "find: table unchanged");
    NO_DESTRUCTOR_CALLS();
    if (idx == HT_NONE) {
        if (st->entry_count == HT_NS - 1) CANARY("find: absent, table at maximal load");
        else CANARY("find: absent");
    } else {
        size_t home = (size_t)sp_hash(key) & (HT_NS - 1);
        if (idx == home) CANARY("find: found at home slot");
        else if (idx < home) CANARY("find: found after wrap-around");
        else CANARY("find: found displaced");
        if (key == NULL) CANARY("find: NULL key found");
        if (key != NULL && st->slots[idx].element.key != key) CANARY("find: found through an equal but distinct key pointer");
    }
}

/* post-state helpers: after create/put the table has HT_NS or 2*HT_NS slots; dispatch to constant-bound spec loops */
#define INV_EITHER(s) ((s)->size == HT_NS ? ht_inv((s), HT_NS) : ht_inv((s), 2 * HT_NS))
#define FIND_EITHER(s, k) ((s)->size == HT_NS ? sp_find((s), HT_NS, (k)) : sp_find((s), 2 * HT_NS, (k)))
#define VIEW_EITHER(s, k) ((s)->size == HT_NS ? sp_view((s), HT_NS, (k)) : sp_view((s), 2 * HT_NS, (k)))

/* HT_GROW: 0 = only steps that do not resize, 1 = only steps that resize, undefined = both */
#if defined(HT_GROW) && HT_GROW == 0
#    define GROW_CASE(st) __CPROVER_assume((st)->entry_count + 1 <= (st)->max_load)
#elif defined(HT_GROW) && HT_GROW == 1
#    define GROW_CASE(st) __CPROVER_assume((st)->entry_count + 1 > (st)->max_load)
#else
#    define GROW_CASE(st) (void)0
#endif

/* shared post-condition of create/put when the key was absent: one entry more, table possibly resized (old block
 * released exactly once), every other pair kept */
static void check_inserted(
    struct aws_hash_table *map, struct hash_table_state *st, const struct ht_snap *snap, const void *key,
    const void *gk, struct ht_view g0) {
    struct hash_table_state *s1 = map->p_impl;
    bool grow = snap->hdr.entry_count + 1 > snap->hdr.max_load;
    if (!grow) {
        CHECK(s1 == st && s1->size == HT_NS && s1->max_load == snap->hdr.max_load, "insert: no resize while the load limit allows one more entry");
        CHECK(g_release_calls == 0, "insert: nothing released without resize");
    } else {
        CHECK(s1 != st && s1->size == 2 * HT_NS, "insert: table doubled when the load limit is reached");
        CHECK(g_release_calls == 1 && g_release_last == st, "insert: old slot array released exactly once");
    }
    CHECK(INV_EITHER(s1), "insert: representation invariant holds afterwards");
    CHECK(s1->entry_count == snap->hdr.entry_count + 1, "insert: count incremented");
    CHECK(s1->destroy_key_fn == snap->hdr.destroy_key_fn && s1->destroy_value_fn == snap->hdr.destroy_value_fn, "insert: destructor configuration kept");
    if (!sp_keq(gk, key)) CHECK(sp_view_eq(VIEW_EITHER(s1, gk), g0), "insert: every other key keeps its presence, key pointer and value");
}

/* ---------------------------------------------------------------- create */
void h_create(void) {
    ht_model_init();
    struct hash_table_state *st = ht_any_state(HT_NS);
    struct aws_hash_table map = {st};
    const void *key = ht_any_key();
    const void *gk = ht_any_key();
    GROW_CASE(st);
    struct ht_snap snap;
    ht_snapshot(st, HT_NS, &snap);
    size_t idx = sp_find(st, HT_NS, key);
    struct ht_view g0 = sp_view(st, HT_NS, gk);
    bool want_elem = nondet_bool(), want_created = nondet_bool();
    struct aws_hash_element *el = (struct aws_hash_element *)&vk_alloc;
    int created = 77;

    int rv = aws_hash_table_create(&map, key, want_elem ? &el : NULL, want_created ? &created : NULL);

    struct hash_table_state *s1 = map.p_impl;
    CHECK(rv == AWS_OP_SUCCESS, "create: succeeds");
    NO_DESTRUCTOR_CALLS();
    if (idx != HT_NONE) {
        CHECK(s1 == st && ht_same(st, HT_NS, &snap), "create: existing key leaves the table unchanged");
        CHECK(!want_elem || el == &st->slots[idx].element, "create: existing key returns the stored element");
        CHECK(!want_created || created == 0, "create: was_created == 0 for an existing key");
        CHECK(g_release_calls == 0, "create: nothing released");
        CANARY("create: key existed");
    } else {
        check_inserted(&map, st, &snap, key, gk, g0);
        size_t i1 = FIND_EITHER(s1, key);
        CHECK(i1 != HT_NONE && s1->slots[i1].element.key == key && s1->slots[i1].element.value == NULL, "create: new entry holds the key pointer and a NULL value");
        CHECK(!want_elem || (i1 != HT_NONE && el == &s1->slots[i1].element), "create: returns the new element");
        CHECK(!want_created || created == 1, "create: was_created == 1 for a new key");
#if !defined(HT_GROW) || HT_GROW == 0
        if (s1 == st) {
            if (i1 != HT_NONE && sp_disp(s1, HT_NS, i1) > 0) CANARY("create: new entry displaced");
            else CANARY("create: new entry at home");
        }
#endif
#if !defined(HT_GROW) || HT_GROW == 1
        if (s1 != st) CANARY("create: resized");
#endif
    }
}

/* ---------------------------------------------------------------- put */
void h_put(void) {
    ht_model_init();
    struct hash_table_state *st = ht_any_state(HT_NS);
    struct aws_hash_table map = {st};
    const void *key = ht_any_key();
    void *value = ht_any_value();
    const void *gk = ht_any_key();
    GROW_CASE(st);
    struct ht_snap snap;
    ht_snapshot(st, HT_NS, &snap);
    size_t idx = sp_find(st, HT_NS, key);
#if defined(HT_PUT_CASE) && HT_PUT_CASE == 0 /* overwrite only */
    __CPROVER_assume(idx != HT_NONE);
#elif defined(HT_PUT_CASE) && HT_PUT_CASE == 1 /* insert only */
    __CPROVER_assume(idx == HT_NONE);
#endif
    struct ht_view k0 = sp_view(st, HT_NS, key);
    struct ht_view g0 = sp_view(st, HT_NS, gk);
    bool want_created = nondet_bool();
    int created = 77;

    int rv = aws_hash_table_put(&map, key, value, want_created ? &created : NULL);

    struct hash_table_state *s1 = map.p_impl;
    CHECK(rv == AWS_OP_SUCCESS, "put: succeeds");
    struct ht_view k1 = VIEW_EITHER(s1, key);
    CHECK(k1.present && k1.key == key && k1.value == value, "put: the key now maps to the new value, stored under the new key pointer");
#if !defined(HT_PUT_CASE) || HT_PUT_CASE == 0
    if (idx != HT_NONE) {
        CHECK(s1 == st && ht_inv(st, HT_NS) && ht_hdr_same(st, &snap) && st->entry_count == snap.hdr.entry_count, "put: overwrite keeps shape and count");
        CHECK(!want_created || created == 0, "put: was_created == 0 on overwrite");
        CHECK(g_release_calls == 0, "put: nothing released");
        if (!sp_keq(gk, key)) CHECK(sp_view_eq(sp_view(st, HT_NS, gk), g0), "put: every other key keeps its presence, key pointer and value");
        /* destructors: old key exactly once iff it is a different pointer, old value exactly once */
        bool dk = snap.hdr.destroy_key_fn != NULL && k0.key != key;
        CHECK(g_dk_calls == (dk ? 1 : 0) && (!dk || g_dk_last == k0.key), "put: overwritten key destroyed exactly once, only if it is another pointer");
        bool dv = snap.hdr.destroy_value_fn != NULL;
        CHECK(g_dv_calls == (dv ? 1 : 0) && (!dv || g_dv_last == k0.value), "put: overwritten value destroyed exactly once");
        if (dk) CANARY("put: overwrite, old key destroyed");
        else CANARY("put: overwrite, key kept");
    }
#endif
#if !defined(HT_PUT_CASE) || HT_PUT_CASE == 1
    if (idx == HT_NONE) {
        check_inserted(&map, st, &snap, key, gk, g0);
        CHECK(!want_created || created == 1, "put: was_created == 1 for a new key");
        NO_DESTRUCTOR_CALLS();
#if !defined(HT_GROW) || HT_GROW == 0
        if (s1 == st) CANARY("put: inserted");
#endif
#if !defined(HT_GROW) || HT_GROW == 1
        if (s1 != st) CANARY("put: inserted with resize");
#endif
    }
#endif
}

/* ---------------------------------------------------------------- remove */
void h_remove(void) {
    ht_model_init();
    struct hash_table_state *st = ht_any_state(HT_NS);
    struct aws_hash_table map = {st};
    const void *key = ht_any_key();
    const void *gk = ht_any_key();
    struct ht_snap snap;
    ht_snapshot(st, HT_NS, &snap);
    struct ht_view k0 = sp_view(st, HT_NS, key);
    struct ht_view g0 = sp_view(st, HT_NS, gk);
    bool want_value = nondet_bool(), want_present = nondet_bool();
    struct aws_hash_element out = {&vk_alloc, &vk_alloc};
    int present = 77;

    int rv = aws_hash_table_remove(&map, key, want_value ? &out : NULL, want_present ? &present : NULL);

    CHECK(rv == AWS_OP_SUCCESS, "remove: succeeds");
    CHECK(map.p_impl == st && ht_hdr_same(st, &snap), "remove: same slot array, header kept");
    CHECK(!want_present || present == (k0.present ? 1 : 0), "remove: was_present reports the reference map");
    if (!k0.present) {
        CHECK(ht_same(st, HT_NS, &snap), "remove: absent key leaves the table unchanged");
        NO_DESTRUCTOR_CALLS();
        CANARY("remove: key absent");
    } else {
        CHECK(ht_inv(st, HT_NS), "remove: representation invariant holds afterwards");
        CHECK(st->entry_count == snap.hdr.entry_count - 1, "remove: count decremented");
        CHECK(sp_find(st, HT_NS, key) == HT_NONE, "remove: key no longer present");
        if (!sp_keq(gk, key)) CHECK(sp_view_eq(sp_view(st, HT_NS, gk), g0), "remove: every other key keeps its presence, key pointer and value");
        if (want_value) {
            CHECK(out.key == k0.key && out.value == k0.value, "remove: out-parameter receives the stored pair");
            NO_DESTRUCTOR_CALLS();
            CANARY("remove: removed into out-parameter");
        } else {
            bool dk = snap.hdr.destroy_key_fn != NULL, dv = snap.hdr.destroy_value_fn != NULL;
            CHECK(g_dk_calls == (dk ? 1 : 0) && (!dk || g_dk_last == k0.key), "remove: key destroyed exactly once");
            CHECK(g_dv_calls == (dv ? 1 : 0) && (!dv || g_dv_last == k0.value), "remove: value destroyed exactly once");
            if (dk && dv) CANARY("remove: removed, both destructors ran");
            else CANARY("remove: removed");
        }
    }
}

/* ---------------------------------------------------------------- resize (s_expand_table), HT_NS -> 2*HT_NS */
#ifndef HT_NO_ALLOC
void h_expand(void) {
    ht_model_init();
    struct hash_table_state *st = ht_any_state(HT_NS);
    struct aws_hash_table map = {st};
    const void *gk = ht_any_key();
    struct ht_snap snap;
    ht_snapshot(st, HT_NS, &snap);
    struct ht_view g0 = sp_view(st, HT_NS, gk);

    int rv = s_expand_table(&map);

    struct hash_table_state *s1 = map.p_impl;
    CHECK(rv == AWS_OP_SUCCESS, "expand: succeeds");
    CHECK(s1 != st && g_release_calls == 1 && g_release_last == st, "expand: new slot array, old one released exactly once");
    CHECK(ht_inv(s1, 2 * HT_NS), "expand: representation invariant holds for the doubled table");
    CHECK(s1->entry_count == snap.hdr.entry_count, "expand: count kept");
    CHECK(s1->entry_count + 1 <= s1->max_load, "expand: the doubled table takes one more entry without resizing again");
    CHECK(s1->destroy_key_fn == snap.hdr.destroy_key_fn && s1->destroy_value_fn == snap.hdr.destroy_value_fn, "expand: destructor configuration kept");
    CHECK(sp_view_eq(sp_view(s1, 2 * HT_NS, gk), g0), "expand: every key keeps its presence, key pointer and value");
    NO_DESTRUCTOR_CALLS();
    if (snap.hdr.entry_count == HT_NS - 1) CANARY("expand: full table rehashed");
    else CANARY("expand: rehashed");
}
#endif

/* ---------------------------------------------------------------- remove_element */
void h_remove_element(void) {
    ht_model_init();
    struct hash_table_state *st = ht_any_state(HT_NS);
    struct aws_hash_table map = {st};
    size_t i = nondet_size_t();
    __CPROVER_assume(i < HT_NS && st->slots[i].hash_code != 0);
    const void *key = st->slots[i].element.key;
    const void *gk = ht_any_key();
    struct ht_snap snap;
    ht_snapshot(st, HT_NS, &snap);
    struct ht_view g0 = sp_view(st, HT_NS, gk);

    int rv = aws_hash_table_remove_element(&map, &st->slots[i].element);

    CHECK(rv == AWS_OP_SUCCESS, "remove_element: succeeds");
    CHECK(map.p_impl == st && ht_hdr_same(st, &snap), "remove_element: same slot array, header kept");
    CHECK(ht_inv(st, HT_NS), "remove_element: representation invariant holds afterwards");
    CHECK(st->entry_count == snap.hdr.entry_count - 1, "remove_element: count decremented");
    CHECK(sp_find(st, HT_NS, key) == HT_NONE, "remove_element: the element's key is no longer present");
    if (!sp_keq(gk, key)) CHECK(sp_view_eq(sp_view(st, HT_NS, gk), g0), "remove_element: every other key keeps its presence, key pointer and value");
    NO_DESTRUCTOR_CALLS();
    if (i == HT_NS - 1 && st->slots[i].hash_code != 0) CANARY("remove_element: last slot refilled by backward shift across the wrap-around");
    else CANARY("remove_element: removed");
}

/* ---------------------------------------------------------------- clear / clean_up */
static void clear_pre(struct hash_table_state *st, const void *gk, struct ht_view *g0, void **wv, size_t *n_wv) {
    *g0 = sp_view(st, HT_NS, gk);
    if (g0->present) g_dk_watch = g0->key; /* watch the ghost key's stored pointer */
    *wv = ht_any_value();                  /* and an arbitrary value pointer (may be stored in several entries) */
    g_dv_watch = *wv;
    *n_wv = sp_count_value(st, HT_NS, *wv);
}
static void clear_post_destructors(const struct ht_snap *snap, struct ht_view g0, size_t n_wv) {
    bool dk = snap->hdr.destroy_key_fn != NULL, dv = snap->hdr.destroy_value_fn != NULL;
    CHECK(g_dk_calls == (dk ? snap->hdr.entry_count : 0), "clear: key destructor runs once per stored entry (never without one)");
    CHECK(g_dk_hits == (dk && g0.present ? 1 : 0), "clear: every stored key pointer destroyed exactly once");
    CHECK(g_dv_calls == (dv ? snap->hdr.entry_count : 0), "clear: value destructor runs once per stored entry (never without one)");
    CHECK(g_dv_hits == (dv ? n_wv : 0), "clear: every value pointer destroyed once per entry holding it");
}
void h_clear(void) {
    ht_model_init();
    struct hash_table_state *st = ht_any_state(HT_NS);
    struct aws_hash_table map = {st};
    const void *gk = ht_any_key();
    struct ht_snap snap;
    ht_snapshot(st, HT_NS, &snap);
    struct ht_view g0;
    void *wv;
    size_t n_wv;
    clear_pre(st, gk, &g0, &wv, &n_wv);

    aws_hash_table_clear(&map);

    CHECK(map.p_impl == st && ht_hdr_same(st, &snap), "clear: same slot array, header kept");
    CHECK(ht_inv(st, HT_NS) && st->entry_count == 0, "clear: empty table satisfying the invariant");
    CHECK(sp_find(st, HT_NS, gk) == HT_NONE, "clear: no key present");
    clear_post_destructors(&snap, g0, n_wv);
    if (snap.hdr.entry_count == HT_NS - 1 && snap.hdr.destroy_key_fn && snap.hdr.destroy_value_fn) CANARY("clear: full table, both destructors");
    else if (snap.hdr.entry_count > 0 && !snap.hdr.destroy_key_fn && !snap.hdr.destroy_value_fn) CANARY("clear: no destructors");
    else CANARY("clear: other");
    if (n_wv > 1) CANARY("clear: one value pointer held by several entries");
}
#ifndef HT_NO_ALLOC
void h_clean_up(void) {
    ht_model_init();
    struct hash_table_state *st = ht_any_state(HT_NS);
    struct aws_hash_table map = {st};
    const void *gk = ht_any_key();
    struct ht_snap snap;
    ht_snapshot(st, HT_NS, &snap);
    struct ht_view g0;
    void *wv;
    size_t n_wv;
    clear_pre(st, gk, &g0, &wv, &n_wv);

    aws_hash_table_clean_up(&map);

    CHECK(map.p_impl == NULL, "clean_up: p_impl reset");
    CHECK(g_release_calls == 1 && g_release_last == st, "clean_up: slot array released exactly once");
    clear_post_destructors(&snap, g0, n_wv);
    CANARY("clean_up: cleaned");

    aws_hash_table_clean_up(&map); /* idempotent */
    CHECK(map.p_impl == NULL && g_release_calls == 1, "clean_up: second call does nothing");
    clear_post_destructors(&snap, g0, n_wv);
    CANARY("clean_up: second call returned");
}
#endif

/* ---------------------------------------------------------------- iteration: begin / done / next / delete */
void h_iter_begin(void) {
    ht_model_init();
    struct hash_table_state *st = ht_any_state(HT_NS);
    struct aws_hash_table map = {st};
    struct ht_snap snap;
    ht_snapshot(st, HT_NS, &snap);
    size_t p = nondet_size_t(); /* an arbitrary stored entry */
    __CPROVER_assume(p < HT_NS);

    struct aws_hash_iter it = aws_hash_iter_begin(&map);

    CHECK(map.p_impl == st && ht_same(st, HT_NS, &snap), "iter_begin: table unchanged");
    CHECK(it_inv(&it, &map, HT_NS), "iter_begin: iterator invariant established");
    CHECK(it.limit == HT_NS, "iter_begin: window is the whole slot array");
    CHECK(it.status != AWS_HASH_ITER_STATUS_DELETE_CALLED, "iter_begin: status is READY or DONE");
    if (st->slots[p].hash_code) CHECK(it_class_of(&it, p) != IT_VISITED, "iter_begin: no stored entry counts as visited");
    CHECK((it.status == AWS_HASH_ITER_STATUS_DONE) == (st->entry_count == 0), "iter_begin: DONE iff the table is empty");
    CHECK(aws_hash_iter_done(&it) == (it.status == AWS_HASH_ITER_STATUS_DONE), "iter_done: true iff status is DONE");
    NO_DESTRUCTOR_CALLS();
    if (it.status == AWS_HASH_ITER_STATUS_DONE) CANARY("iter_begin: empty table");
    else if (it.slot > 0) CANARY("iter_begin: first entry after empty slots");
    else CANARY("iter_begin: first entry in slot 0");
}

/* an arbitrary iterator over `map` satisfying it_inv */
static struct aws_hash_iter any_iter(const struct aws_hash_table *map) {
    struct aws_hash_iter it;
    it.map = map;
    it.slot = nondet_size_t();
    it.limit = nondet_size_t();
    int s = nondet_int();
    __CPROVER_assume(s == AWS_HASH_ITER_STATUS_DONE || s == AWS_HASH_ITER_STATUS_DELETE_CALLED || s == AWS_HASH_ITER_STATUS_READY_FOR_USE);
    it.status = (enum aws_hash_iter_status)s;
    __CPROVER_assume(it.limit <= HT_NS && (it.slot < HT_NS || it.slot == SIZE_MAX || it.slot == it.limit));
    it.element.key = NULL;
    it.element.value = NULL;
    if (it.status == AWS_HASH_ITER_STATUS_READY_FOR_USE && it.slot < HT_NS) it.element = map->p_impl->slots[it.slot].element;
    it.unused_0 = 0;
    it.unused_1 = NULL;
    it.unused_2 = NULL;
    __CPROVER_assume(it_inv(&it, map, HT_NS));
    return it;
}

void h_iter_next(void) {
    ht_model_init();
    struct hash_table_state *st = ht_any_state(HT_NS);
    struct aws_hash_table map = {st};
    struct aws_hash_iter it = any_iter(&map);
    struct ht_snap snap;
    ht_snapshot(st, HT_NS, &snap);
    size_t p = nondet_size_t(); /* an arbitrary stored entry */
    __CPROVER_assume(p < HT_NS && st->slots[p].hash_code != 0);
    enum it_class c0 = it_class_of(&it, p);
    enum aws_hash_iter_status s0 = it.status;
    size_t limit0 = it.limit;

    aws_hash_iter_next(&it);

    CHECK(map.p_impl == st && ht_same(st, HT_NS, &snap), "iter_next: table unchanged");
    CHECK(it_inv(&it, &map, HT_NS), "iter_next: iterator invariant kept");
    CHECK(it.limit == limit0, "iter_next: window limit kept");
    CHECK(it.status != AWS_HASH_ITER_STATUS_DELETE_CALLED, "iter_next: status is READY or DONE");
    enum it_class c1 = it_class_of(&it, p);
    CHECK(c0 != IT_VISITED || c1 == IT_VISITED, "iter_next: a visited entry is never handed out again");
    CHECK(c0 != IT_CURRENT || c1 == IT_VISITED, "iter_next: the current entry becomes visited");
    CHECK(c0 != IT_PENDING || c1 != IT_VISITED, "iter_next: a pending entry is not skipped");
    CHECK(it.status != AWS_HASH_ITER_STATUS_DONE || c1 == IT_VISITED, "iter_next: DONE only when nothing is pending");
    CHECK(aws_hash_iter_done(&it) == (it.status == AWS_HASH_ITER_STATUS_DONE), "iter_done: true iff status is DONE");
    NO_DESTRUCTOR_CALLS();
    if (s0 == AWS_HASH_ITER_STATUS_DELETE_CALLED && it.status == AWS_HASH_ITER_STATUS_READY_FOR_USE) {
        if (it.slot == 0) CANARY("iter_next: after deleting slot 0 the entry shifted into slot 0 is handed out");
        else CANARY("iter_next: after delete, next entry handed out");
    } else if (s0 == AWS_HASH_ITER_STATUS_READY_FOR_USE && it.status == AWS_HASH_ITER_STATUS_READY_FOR_USE) CANARY("iter_next: advanced");
    else if (s0 == AWS_HASH_ITER_STATUS_DONE) CANARY("iter_next: on a DONE iterator");
    else if (limit0 < HT_NS) CANARY("iter_next: reached a shrunk limit");
    else CANARY("iter_next: reached the end");
}

void h_iter_delete(void) {
    ht_model_init();
    struct hash_table_state *st = ht_any_state(HT_NS);
    struct aws_hash_table map = {st};
    struct aws_hash_iter it = any_iter(&map);
    __CPROVER_assume(it.status == AWS_HASH_ITER_STATUS_READY_FOR_USE);
    bool destroy = nondet_bool();
    struct ht_snap snap;
    ht_snapshot(st, HT_NS, &snap);
    struct aws_hash_element cur = it.element;
    size_t slot0 = it.slot, limit0 = it.limit;
    size_t p = nondet_size_t(); /* an arbitrary OTHER stored entry */
    __CPROVER_assume(p < HT_NS && p != it.slot && st->slots[p].hash_code != 0);
    struct aws_hash_element ge = st->slots[p].element;
    enum it_class c0 = it_class_of(&it, p);

    aws_hash_iter_delete(&it, destroy);

    CHECK(map.p_impl == st && ht_hdr_same(st, &snap), "iter_delete: same slot array, header kept");
    CHECK(ht_inv(st, HT_NS), "iter_delete: representation invariant holds afterwards");
    CHECK(st->entry_count == snap.hdr.entry_count - 1, "iter_delete: count decremented");
    CHECK(sp_find(st, HT_NS, cur.key) == HT_NONE, "iter_delete: the current entry is gone");
    CHECK(it.status == AWS_HASH_ITER_STATUS_DELETE_CALLED && it_inv(&it, &map, HT_NS), "iter_delete: iterator invariant kept, status DELETE_CALLED");
    size_t p1 = sp_find(st, HT_NS, ge.key);
    CHECK(p1 != HT_NONE && st->slots[p1].element.key == ge.key && st->slots[p1].element.value == ge.value, "iter_delete: every other entry kept");
    if (p1 != HT_NONE) {
        enum it_class c1 = it_class_of(&it, p1);
        CHECK(c0 != IT_VISITED || c1 == IT_VISITED, "iter_delete: a visited entry stays visited (no double visit after backward shift / wrap)");
        CHECK(c0 != IT_PENDING || c1 == IT_PENDING, "iter_delete: a pending entry stays pending (no skipped entry after backward shift)");
    }
    if (destroy) {
        bool dk = snap.hdr.destroy_key_fn != NULL, dv = snap.hdr.destroy_value_fn != NULL;
        CHECK(g_dk_calls == (dk ? 1 : 0) && (!dk || g_dk_last == cur.key), "iter_delete: key destroyed exactly once when requested");
        CHECK(g_dv_calls == (dv ? 1 : 0) && (!dv || g_dv_last == cur.value), "iter_delete: value destroyed exactly once when requested");
        CANARY("iter_delete: with destruction");
    } else {
        NO_DESTRUCTOR_CALLS();
    }
    if (it.limit < limit0) {
        if (limit0 < HT_NS) CANARY("iter_delete: limit shrunk again");
        else CANARY("iter_delete: limit shrunk (visited entry shifted across the wrap-around)");
    } else CANARY("iter_delete: limit kept");
    if (slot0 == 0) CANARY("iter_delete: slot 0 deleted (slot underflows)");
    if (c0 == IT_PENDING && p1 != HT_NONE && p1 != p) CANARY("iter_delete: pending entry shifted back");
    if (c0 == IT_VISITED && p1 != HT_NONE && p1 != p) CANARY("iter_delete: visited entry shifted back");
}
