/* Proof units for C02: the real source/hash_table.c under the spec of contracts/hash_table.h.
 * Every h_* harness is one inductive step on an ARBITRARY table of HT_NS slots satisfying ht_inv (bounded: HT_NS). */
#include "contracts/hash_table.h"
#include "source/hash_table.c"

#define CHECK(c, msg) __CPROVER_assert((c), msg)
#define NO_DESTRUCTOR_CALLS() CHECK(g_dk_calls == 0 && g_dv_calls == 0, "no destructor is called")

/* ---------------------------------------------------------------- find */
void h_find(void) {
    ht_model_init();
    struct hash_table_state *st = ht_any_state(HT_NS);
    struct aws_hash_table map = {st};
    const void *key = ht_any_key();
    struct ht_snap snap;
    ht_snapshot(st, HT_NS, &snap);
    size_t idx = sp_find(st, HT_NS, key);
    struct aws_hash_element *el = (struct aws_hash_element *)&vk_alloc;

    int rv = aws_hash_table_find(&map, key, &el);

    CHECK(rv == AWS_OP_SUCCESS, "find: always succeeds");
    CHECK(idx == HT_NONE ? el == NULL : el == &st->slots[idx].element, "find: returns the stored element iff the reference map holds the key");
    CHECK(map.p_impl == st && ht_same(st, HT_NS, &snap), "find: table unchanged");
    NO_DESTRUCTOR_CALLS();
    if (idx == HT_NONE) {
        if (st->entry_count == HT_NS - 1) CANARY("find: absent, table at maximal load");
        else CANARY("find: absent");
    } else {
        size_t home = (size_t)sp_hash(key) & (HT_NS - 1);
        if (idx == home) CANARY("find: found at home slot");
        else if (idx < home) CANARY("find: found after wrap-around");
        else CANARY("find: found displaced");
        if (key == NULL) CANARY("find: NULL key found");
        if (key != NULL && st->slots[idx].element.key != key) CANARY("find: found through an equal but distinct key pointer");
    }
}

/* post-state helpers: after create/put the table has HT_NS or 2*HT_NS slots; dispatch to constant-bound spec loops */
#define INV_EITHER(s) ((s)->size == HT_NS ? ht_inv((s), HT_NS) : ht_inv((s), 2 * HT_NS))
#define FIND_EITHER(s, k) ((s)->size == HT_NS ? sp_find((s), HT_NS, (k)) : sp_find((s), 2 * HT_NS, (k)))
#define VIEW_EITHER(s, k) ((s)->size == HT_NS ? sp_view((s), HT_NS, (k)) : sp_view((s), 2 * HT_NS, (k)))

/* HT_GROW: 0 = only steps that do not resize, 1 = only steps that resize, undefined = both */
#if defined(HT_GROW) && HT_GROW == 0
#    define GROW_CASE(st) __CPROVER_assume((st)->entry_count + 1 <= (st)->max_load)
#elif defined(HT_GROW) && HT_GROW == 1
#    define GROW_CASE(st) __CPROVER_assume((st)->entry_count + 1 > (st)->max_load)
#else
#    define GROW_CASE(st) (void)0
#endif

/* shared post-condition of create/put when the key was absent: one entry more, table possibly resized (old block
 * released exactly once), every other pair kept */
static void check_inserted(
    struct aws_hash_table *map, struct hash_table_state *st, const struct ht_snap *snap, const void *key,
    const void *gk, struct ht_view g0) {
    struct hash_table_state *s1 = map->p_impl;
    bool grow = snap->hdr.entry_count + 1 > snap->hdr.max_load;
    if (!grow) {
        CHECK(s1 == st && s1->size == HT_NS && s1->max_load == snap->hdr.max_load, "insert: no resize while the load limit allows one more entry");
        CHECK(g_release_calls == 0, "insert: nothing released without resize");
    } else {
        CHECK(s1 != st && s1->size == 2 * HT_NS, "insert: table doubled when the load limit is reached");
        CHECK(g_release_calls == 1 && g_release_last == st, "insert: old slot array released exactly once");
    }
    CHECK(INV_EITHER(s1), "insert: representation invariant holds afterwards");
    CHECK(s1->entry_count == snap->hdr.entry_count + 1, "insert: count incremented");
    CHECK(s1->destroy_key_fn == snap->hdr.destroy_key_fn && s1->destroy_value_fn == snap->hdr.destroy_value_fn, "insert: destructor configuration kept");
    if (!sp_keq(gk, key)) CHECK(sp_view_eq(VIEW_EITHER(s1, gk), g0), "insert: every other key keeps its presence, key pointer and value");
}

/* ---------------------------------------------------------------- create */
void h_create(void) {
    ht_model_init();
    struct hash_table_state *st = ht_any_state(HT_NS);
    struct aws_hash_table map = {st};
    const void *key = ht_any_key();
    const void *gk = ht_any_key();
    GROW_CASE(st);
    struct ht_snap snap;
    ht_snapshot(st, HT_NS, &snap);
    size_t idx = sp_find(st, HT_NS, key);
    struct ht_view g0 = sp_view(st, HT_NS, gk);
    bool want_elem = nondet_bool(), want_created = nondet_bool();
    struct aws_hash_element *el = (struct aws_hash_element *)&vk_alloc;
    int created = 77;

    int rv = aws_hash_table_create(&map, key, want_elem ? &el : NULL, want_created ? &created : NULL);

    struct hash_table_state *s1 = map.p_impl;
    CHECK(rv == AWS_OP_SUCCESS, "create: succeeds");
    NO_DESTRUCTOR_CALLS();
    if (idx != HT_NONE) {
        CHECK(s1 == st && ht_same(st, HT_NS, &snap), "create: existing key leaves the table unchanged");
        CHECK(!want_elem || el == &st->slots[idx].element, "create: existing key returns the stored element");
        CHECK(!want_created || created == 0, "create: was_created == 0 for an existing key");
        CHECK(g_release_calls == 0, "create: nothing released");
        CANARY("create: key existed");
    } else {
        check_inserted(&map, st, &snap, key, gk, g0);
        size_t i1 = FIND_EITHER(s1, key);
        CHECK(i1 != HT_NONE && s1->slots[i1].element.key == key && s1->slots[i1].element.value == NULL, "create: new entry holds the key pointer and a NULL value");
        CHECK(!want_elem || (i1 != HT_NONE && el == &s1->slots[i1].element), "create: returns the new element");
        CHECK(!want_created || created == 1, "create: was_created == 1 for a new key");
        if (s1 == st) {
            if (i1 != HT_NONE && sp_disp(s1, HT_NS, i1) > 0) CANARY("create: new entry displaced");
            else CANARY("create: new entry at home");
        } else {
            CANARY("create: resized");
        }
    }
}

/* ---------------------------------------------------------------- put */
void h_put(void) {
    ht_model_init();
    struct hash_table_state *st = ht_any_state(HT_NS);
    struct aws_hash_table map = {st};
    const void *key = ht_any_key();
    void *value = ht_any_value();
    const void *gk = ht_any_key();
    GROW_CASE(st);
    struct ht_snap snap;
    ht_snapshot(st, HT_NS, &snap);
    size_t idx = sp_find(st, HT_NS, key);
    struct ht_view k0 = sp_view(st, HT_NS, key);
    struct ht_view g0 = sp_view(st, HT_NS, gk);
    bool want_created = nondet_bool();
    int created = 77;

    int rv = aws_hash_table_put(&map, key, value, want_created ? &created : NULL);

    struct hash_table_state *s1 = map.p_impl;
    CHECK(rv == AWS_OP_SUCCESS, "put: succeeds");
    struct ht_view k1 = VIEW_EITHER(s1, key);
    CHECK(k1.present && k1.key == key && k1.value == value, "put: the key now maps to the new value, stored under the new key pointer");
    if (idx != HT_NONE) {
        CHECK(s1 == st && ht_inv(st, HT_NS) && ht_hdr_same(st, &snap) && st->entry_count == snap.hdr.entry_count, "put: overwrite keeps shape and count");
        CHECK(!want_created || created == 0, "put: was_created == 0 on overwrite");
        CHECK(g_release_calls == 0, "put: nothing released");
        if (!sp_keq(gk, key)) CHECK(sp_view_eq(sp_view(st, HT_NS, gk), g0), "put: every other key keeps its presence, key pointer and value");
        /* destructors: old key exactly once iff it is a different pointer, old value exactly once */
        bool dk = snap.hdr.destroy_key_fn != NULL && k0.key != key;
        CHECK(g_dk_calls == (dk ? 1 : 0) && (!dk || g_dk_last == k0.key), "put: overwritten key destroyed exactly once, only if it is another pointer");
        bool dv = snap.hdr.destroy_value_fn != NULL;
        CHECK(g_dv_calls == (dv ? 1 : 0) && (!dv || g_dv_last == k0.value), "put: overwritten value destroyed exactly once");
        if (dk) CANARY("put: overwrite, old key destroyed");
        else CANARY("put: overwrite, key kept");
    } else {
        check_inserted(&map, st, &snap, key, gk, g0);
        CHECK(!want_created || created == 1, "put: was_created == 1 for a new key");
        NO_DESTRUCTOR_CALLS();
        if (s1 == st) CANARY("put: inserted");
        else CANARY("put: inserted with resize");
    }
}

/* ---------------------------------------------------------------- remove */
void h_remove(void) {
    ht_model_init();
    struct hash_table_state *st = ht_any_state(HT_NS);
    struct aws_hash_table map = {st};
    const void *key = ht_any_key();
    const void *gk = ht_any_key();
    struct ht_snap snap;
    ht_snapshot(st, HT_NS, &snap);
    struct ht_view k0 = sp_view(st, HT_NS, key);
    struct ht_view g0 = sp_view(st, HT_NS, gk);
    bool want_value = nondet_bool(), want_present = nondet_bool();
    struct aws_hash_element out = {&vk_alloc, &vk_alloc};
    int present = 77;

    int rv = aws_hash_table_remove(&map, key, want_value ? &out : NULL, want_present ? &present : NULL);

    CHECK(rv == AWS_OP_SUCCESS, "remove: succeeds");
    CHECK(map.p_impl == st && ht_hdr_same(st, &snap), "remove: same slot array, header kept");
    CHECK(!want_present || present == (k0.present ? 1 : 0), "remove: was_present reports the reference map");
    if (!k0.present) {
        CHECK(ht_same(st, HT_NS, &snap), "remove: absent key leaves the table unchanged");
        NO_DESTRUCTOR_CALLS();
        CANARY("remove: key absent");
    } else {
        CHECK(ht_inv(st, HT_NS), "remove: representation invariant holds afterwards");
        CHECK(st->entry_count == snap.hdr.entry_count - 1, "remove: count decremented");
        CHECK(sp_find(st, HT_NS, key) == HT_NONE, "remove: key no longer present");
        if (!sp_keq(gk, key)) CHECK(sp_view_eq(sp_view(st, HT_NS, gk), g0), "remove: every other key keeps its presence, key pointer and value");
        if (want_value) {
            CHECK(out.key == k0.key && out.value == k0.value, "remove: out-parameter receives the stored pair");
            NO_DESTRUCTOR_CALLS();
            CANARY("remove: removed into out-parameter");
        } else {
            bool dk = snap.hdr.destroy_key_fn != NULL, dv = snap.hdr.destroy_value_fn != NULL;
            CHECK(g_dk_calls == (dk ? 1 : 0) && (!dk || g_dk_last == k0.key), "remove: key destroyed exactly once");
            CHECK(g_dv_calls == (dv ? 1 : 0) && (!dv || g_dv_last == k0.value), "remove: value destroyed exactly once");
            if (dk && dv) CANARY("remove: removed, both destructors ran");
            else CANARY("remove: removed");
        }
    }
}
