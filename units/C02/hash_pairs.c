/* C02, clause "the library's own hash/equality pairs: equal keys always hash equally" - the part CBMC can decide.
 *
 * "eq(a,b) ==> hash(a) == hash(b)" for the lookup3-based pairs is an equivalence between two runs of hashlittle2
 * (three different code paths, selected by the ALIGNMENT of the key).  SAT does not decide that in useful time
 * (13-byte keys: no answer in 10 min with MiniSat, CaDiCaL, Kissat, Z3; 3-byte keys: 54 s), so it is split:
 *   (1) here, for every key up to HP_MAXLEN bytes: each equality callback answers "equal" EXACTLY when the two keys have
 *       the same length and the same bytes (same bytes up to ASCII case for the ignore-case pair) - so equality never
 *       looks at anything the hash does not look at, and never ignores anything the hash depends on;
 *   (2) hash_pairs_native.c (bounded native differential run): keys with the same bytes hash equally at every pair of
 *       alignments / storage locations, lengths 0..64;
 *   (3) here, complete: the pointer and uint64 pairs, empty keys (NULL or non-NULL pointer, every alignment), and the
 *       ignore-case pair on all 2^16 one-byte key pairs (and all two-byte key pairs, bounded unit).
 */
#include "contracts/common.h"
#include <aws/common/hash_table.h>
#include <aws/common/string.h>
#include "source/hash_table.c"
#include "source/byte_buf.c"
#include "source/string.c"

#ifndef HP_MAXLEN
#    define HP_MAXLEN 13
#endif
#define HP_ROOM (HP_MAXLEN + 4)
#define CHECK(c, msg) __CPROVER_assert((c), msg)

void aws_raise_error_private(int err) {
    g_last_error = err;
}

static uint8_t sp_lower(uint8_t c) {
    return (c >= 'A' && c <= 'Z') ? (uint8_t)(c + ('a' - 'A')) : c;
}
static bool same_bytes(const uint8_t *a, size_t la, const uint8_t *b, size_t lb, bool fold) {
    if (la != lb) return false;
    for (size_t i = 0; i < HP_MAXLEN; i++)
        if (i < la && (fold ? sp_lower(a[i]) != sp_lower(b[i]) : a[i] != b[i])) return false;
    return true;
}

/* aws_byte_cursor_eq and aws_byte_cursor_eq_ignore_case (the equality halves of the two cursor pairs) */
void h_eq_exact_cursor(void) {
    uint8_t A[HP_ROOM], B[HP_ROOM];
    size_t oa = nondet_size_t(), ob = nondet_size_t(), la = nondet_size_t(), lb = nondet_size_t();
    __CPROVER_assume(oa < 4 && ob < 4 && la <= HP_MAXLEN && lb <= HP_MAXLEN);
    struct aws_byte_cursor ca = {la, A + oa}, cb = {lb, B + ob};
    if (la == 0 && nondet_bool()) ca.ptr = NULL;
    if (lb == 0 && nondet_bool()) cb.ptr = NULL;

    bool eq = aws_byte_cursor_eq(&ca, &cb);
    bool eq_ic = aws_byte_cursor_eq_ignore_case(&ca, &cb);

    CHECK(eq == same_bytes(A + oa, la, B + ob, lb, false), "aws_byte_cursor_eq: true exactly for equal length and equal bytes");
    CHECK(eq_ic == same_bytes(A + oa, la, B + ob, lb, true), "aws_byte_cursor_eq_ignore_case: true exactly for equal length and bytes equal up to ASCII case");
    if (eq && la == HP_MAXLEN) CANARY("eq: equal keys of maximal length");
    if (!eq && eq_ic) CANARY("eq: equal up to case only");
    if (!eq_ic && la == lb) CANARY("eq: different bytes");
    if (la != lb) CANARY("eq: different lengths");
}

/* aws_hash_callback_string_eq (aws_string_eq) */
struct hp_string {
    struct aws_string s;
    uint8_t more[HP_MAXLEN + 4];
};
void h_eq_exact_string(void) {
    struct hp_string SA, SB;
    size_t la = nondet_size_t(), lb = nondet_size_t();
    __CPROVER_assume(la <= HP_MAXLEN && lb <= HP_MAXLEN);
    *(size_t *)&SA.s.len = la;
    *(size_t *)&SB.s.len = lb;
    const struct aws_string *a = &SA.s, *b = nondet_bool() ? &SB.s : &SA.s;

    bool eq = aws_hash_callback_string_eq(a, b);

    CHECK(eq == same_bytes(aws_string_bytes(a), a->len, aws_string_bytes(b), b->len, false), "aws_string_eq: true exactly for equal length and equal bytes");
    if (eq && a != b && la == HP_MAXLEN) CANARY("eq: equal distinct strings");
    if (eq && a == b) CANARY("eq: same string object");
    if (!eq) CANARY("eq: different strings");
}

/* aws_hash_callback_c_str_eq, and the length aws_hash_c_string hashes (strlen) */
void h_eq_exact_c_str(void) {
    char A[HP_ROOM + 1], B[HP_ROOM + 1];
    size_t oa = nondet_size_t(), ob = nondet_size_t(), la = nondet_size_t(), lb = nondet_size_t();
    __CPROVER_assume(oa < 4 && ob < 4 && la <= HP_MAXLEN && lb <= HP_MAXLEN);
    for (size_t i = 0; i < HP_MAXLEN; i++) {
        __CPROVER_assume(!(i < la) || A[oa + i] != 0);
        __CPROVER_assume(!(i < lb) || B[ob + i] != 0);
    }
    __CPROVER_assume(A[oa + la] == 0 && B[ob + lb] == 0);

    bool eq = aws_hash_callback_c_str_eq(A + oa, B + ob);

    CHECK(eq == same_bytes((const uint8_t *)A + oa, la, (const uint8_t *)B + ob, lb, false), "c_str_eq: true exactly for equal strings");
    if (eq && la == HP_MAXLEN) CANARY("eq: equal strings of maximal length");
    if (!eq && la == lb) CANARY("eq: different bytes");
    if (la != lb) CANARY("eq: different lengths");
}

/* aws_hash_ptr / aws_ptr_eq and aws_hash_uint64_t_by_identity / aws_hash_compare_uint64_t_eq: complete */
void h_pair_ptr_u64(void) {
    const void *p = nondet_ptr(), *q = p;
    if (nondet_bool()) {
        q = nondet_ptr();
        __CPROVER_assume(q != p);
    }
    bool eq = aws_ptr_eq(p, q);
    CHECK(eq == (p == q), "aws_ptr_eq: pointer identity");
    CHECK(!eq || aws_hash_ptr(p) == aws_hash_ptr(q), "identical pointers hash equally");
    uint64_t x = nondet_u64(), y = x;
    if (nondet_bool()) {
        y = nondet_u64();
        __CPROVER_assume(y != x);
    }
    bool eq2 = aws_hash_compare_uint64_t_eq(&x, &y);
    CHECK(eq2 == (x == y), "uint64 equality: value identity");
    CHECK(!eq2 || aws_hash_uint64_t_by_identity(&x) == aws_hash_uint64_t_by_identity(&y), "equal uint64 keys hash equally");
    if (eq) CANARY("pair: equal pointers"); else CANARY("pair: different pointers");
    if (eq2) CANARY("pair: equal uint64"); else CANARY("pair: different uint64");
}

/* aws_hash_byte_cursor_ptr_ignore_case / aws_byte_cursor_eq_ignore_case on short keys: complete for the stated length */
#ifndef HP_CI_LEN
#    define HP_CI_LEN 1
#endif
void h_pair_ignore_case_short(void) {
    uint8_t A[HP_CI_LEN], B[HP_CI_LEN];
    struct aws_byte_cursor ca = {HP_CI_LEN, A}, cb = {HP_CI_LEN, B};

    bool eq = aws_byte_cursor_eq_ignore_case(&ca, &cb);
    uint64_t ha = aws_hash_byte_cursor_ptr_ignore_case(&ca);
    uint64_t hb = aws_hash_byte_cursor_ptr_ignore_case(&cb);

    CHECK(!eq || ha == hb, "byte cursors equal up to case hash equally");
    if (eq && A[0] != B[0]) CANARY("pair: equal up to case, different bytes");
    if (!eq) CANARY("pair: different keys");
}

/* empty keys: a zero-length cursor may carry NULL or any pointer; all of them are equal and must hash equally */
void h_pair_empty(void) {
    uint8_t A[8], B[8];
    size_t oa = nondet_size_t(), ob = nondet_size_t();
    __CPROVER_assume(oa < 4 && ob < 4);
    struct aws_byte_cursor ca = {0, nondet_bool() ? NULL : A + oa}, cb = {0, nondet_bool() ? NULL : B + ob};

    CHECK(aws_byte_cursor_eq(&ca, &cb), "empty byte cursors are equal");
    CHECK(aws_hash_byte_cursor_ptr(&ca) == aws_hash_byte_cursor_ptr(&cb), "empty byte cursors hash equally (NULL or not, any alignment)");
    CHECK(aws_byte_cursor_eq_ignore_case(&ca, &cb), "empty byte cursors are equal ignoring case");
    CHECK(aws_hash_byte_cursor_ptr_ignore_case(&ca) == aws_hash_byte_cursor_ptr_ignore_case(&cb), "empty byte cursors hash equally ignoring case");
    A[oa] = 0;
    B[ob] = 0;
    CHECK(aws_hash_callback_c_str_eq(A + oa, B + ob), "empty C strings are equal");
    CHECK(aws_hash_c_string(A + oa) == aws_hash_c_string(B + ob), "empty C strings hash equally");
    if (ca.ptr == NULL && cb.ptr != NULL) CANARY("pair: NULL vs non-NULL empty cursor");
    if (ca.ptr != NULL && cb.ptr != NULL && (oa & 3) != (ob & 3)) CANARY("pair: empty cursors at different alignments");
}
