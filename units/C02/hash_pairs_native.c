/* C02 "equal keys hash equally" for the lookup3-based pairs: BOUNDED NATIVE differential run (mode "native").
 * CBMC cannot decide the equivalence of two hashlittle2 runs (see hash_pairs.c), so the real functions are compiled
 * and run: for every length 0..MAXLEN, every pair of alignments 0..3 x 0..3 and REPS pseudo-random contents
 *   - the same bytes at two different addresses/alignments  -> real eq says "equal" and the two real hashes agree
 *     (aws_hash_byte_cursor_ptr/aws_byte_cursor_eq, aws_hash_c_string/aws_hash_callback_c_str_eq,
 *      aws_hash_string/aws_hash_callback_string_eq)
 *   - the same bytes with random ASCII case flips            -> aws_byte_cursor_eq_ignore_case says "equal" and
 *     aws_hash_byte_cursor_ptr_ignore_case agrees
 *   - one byte changed                                        -> eq says "different" (no claim about the hashes)
 * plus aws_hash_ptr/aws_ptr_eq and aws_hash_uint64_t_by_identity/aws_hash_compare_uint64_t_eq on random values.
 * Prints "CASES n" and one "FAIL ..." line per violation; exit 1 on any failure.  Seeded by argv[1] (VERIF_SEED). */
#include <stdio.h>
#include <stdlib.h>
#include <string.h>

/* quote-includes so that the driver's mutant overlay (-iquote <overlay>) takes precedence over /repo; lookup3.inl is
 * pulled in first for the same reason (its include guard makes the later <...> include in hash_table.c a no-op) */
#include <aws/common/common.h>
/* the overlay copies carry loop-contract clauses (for CBMC); they have no run-time meaning */
#define __CPROVER_assigns(...)
#define __CPROVER_loop_invariant(...)
#define __CPROVER_decreases(...)
#include "include/aws/common/private/lookup3.inl"
#include "source/hash_table.c"
#include "source/byte_buf.c"
#include "source/string.c"

/* externals of the three files that this driver never reaches on the paths it runs (allocation only for aws_string) */
void aws_raise_error_private(int err) { (void)err; }
int aws_last_error(void) { return 0; }
void aws_fatal_assert(const char *c, const char *f, int l) { fprintf(stderr, "fatal assert %s %s:%d\n", c, f, l); abort(); }
void *aws_mem_acquire(struct aws_allocator *a, size_t n) { (void)a; void *p = malloc(n); if (!p) abort(); return p; }
void *aws_mem_calloc(struct aws_allocator *a, size_t n, size_t m) { (void)a; void *p = calloc(n, m); if (!p) abort(); return p; }
int aws_mem_realloc(struct aws_allocator *a, void **p, size_t o, size_t n) { (void)a; (void)o; *p = realloc(*p, n); return 0; }
void aws_mem_release(struct aws_allocator *a, void *p) { (void)a; free(p); }
void aws_secure_zero(void *p, size_t n) { memset(p, 0, n); }
int aws_array_list_ensure_capacity(struct aws_array_list *l, size_t i) { (void)l; (void)i; abort(); }

#define MAXLEN 64
static uint64_t rng_state;
static uint64_t rnd(void) {
    rng_state ^= rng_state << 13;
    rng_state ^= rng_state >> 7;
    rng_state ^= rng_state << 17;
    return rng_state;
}
static long cases, fails;
static void fail(const char *what, size_t len, int oa, int ob, const uint8_t *bytes) {
    fails++;
    if (fails > 20) return;
    printf("FAIL %s len=%zu align_a=%d align_b=%d bytes=", what, len, oa, ob);
    for (size_t i = 0; i < len && i < 24; i++) printf("%02x", bytes[i]);
    printf("\n");
}

int main(int argc, char **argv) {
    rng_state = 0x9E3779B97F4A7C15ull ^ (argc > 1 ? strtoull(argv[1], NULL, 10) * 0x2545F4914F6CDD1Dull : 0);
    if (!rng_state) rng_state = 1;
    int reps = (argc > 2 && !strcmp(argv[2], "thorough")) ? 4000 : 200;
    struct aws_allocator alloc = {0};
    /* 8-byte aligned backing stores: the offset decides the alignment class hashlittle2 sees */
    uint64_t SA[(MAXLEN + 16) / 8 + 1], SB[(MAXLEN + 16) / 8 + 1];
    uint8_t *A0 = (uint8_t *)SA, *B0 = (uint8_t *)SB;

    for (size_t len = 0; len <= MAXLEN; len++)
        for (int oa = 0; oa < 4; oa++)
            for (int ob = 0; ob < 4; ob++)
                for (int r = 0; r < reps; r++) {
                    uint8_t *a = A0 + oa, *b = B0 + ob;
                    memset(SA, 0xAA, sizeof SA);
                    memset(SB, 0x55, sizeof SB); /* different garbage around the keys: the masked over-read must not matter */
                    for (size_t i = 0; i < len; i++) a[i] = b[i] = (uint8_t)rnd();
                    struct aws_byte_cursor ca = {len, a}, cb = {len, b};
                    /* byte cursor pair */
                    cases++;
                    if (!aws_byte_cursor_eq(&ca, &cb)) fail("byte_cursor_eq says different for equal bytes", len, oa, ob, a);
                    else if (aws_hash_byte_cursor_ptr(&ca) != aws_hash_byte_cursor_ptr(&cb)) fail("equal byte cursors hash differently", len, oa, ob, a);
                    /* ignore-case pair: flip the case of random ASCII letters in b */
                    cases++;
                    for (size_t i = 0; i < len; i++)
                        if (((b[i] >= 'a' && b[i] <= 'z') || (b[i] >= 'A' && b[i] <= 'Z')) && (rnd() & 1)) b[i] ^= 0x20;
                    if (!aws_byte_cursor_eq_ignore_case(&ca, &cb)) fail("eq_ignore_case says different for case variants", len, oa, ob, a);
                    else if (aws_hash_byte_cursor_ptr_ignore_case(&ca) != aws_hash_byte_cursor_ptr_ignore_case(&cb)) fail("case variants hash differently", len, oa, ob, a);
                    memcpy(b, a, len);
                    /* C string pair: no NUL inside, NUL at the end */
                    cases++;
                    for (size_t i = 0; i < len; i++)
                        if (a[i] == 0) a[i] = b[i] = 1;
                    a[len] = b[len] = 0;
                    if (!aws_hash_callback_c_str_eq(a, b)) fail("c_str_eq says different for equal strings", len, oa, ob, a);
                    else if (aws_hash_c_string(a) != aws_hash_c_string(b)) fail("equal C strings hash differently", len, oa, ob, a);
                    /* aws_string pair: two heap strings with the same bytes */
                    if (oa == 0 && ob == 0) {
                        cases++;
                        struct aws_string *s1 = aws_string_new_from_array(&alloc, a, len);
                        struct aws_string *s2 = aws_string_new_from_array(&alloc, b, len);
                        if (!aws_hash_callback_string_eq(s1, s2)) fail("string_eq says different for equal strings", len, oa, ob, a);
                        else if (aws_hash_string(s1) != aws_hash_string(s2)) fail("equal aws_strings hash differently", len, oa, ob, a);
                        else if (aws_hash_string(s1) != aws_hash_byte_cursor_ptr(&ca)) fail("aws_string and byte cursor with the same bytes hash differently", len, oa, ob, a);
                        free(s1);
                        free(s2);
                    }
                    /* one byte changed: equality must notice */
                    if (len > 0) {
                        cases++;
                        size_t k = rnd() % len;
                        b[k] ^= (uint8_t)(1u << (rnd() % 8));
                        if (b[k] == 0) b[k] = (uint8_t)(a[k] ^ 0x40);
                        if (aws_byte_cursor_eq(&ca, &cb)) fail("byte_cursor_eq says equal for different bytes", len, oa, ob, a);
                        if (aws_hash_callback_c_str_eq(a, b)) fail("c_str_eq says equal for different strings", len, oa, ob, a);
                    }
                }
    /* empty keys: NULL pointer vs any pointer */
    for (int oa = 0; oa < 4; oa++) {
        struct aws_byte_cursor cn = {0, NULL}, ca = {0, A0 + oa};
        cases++;
        if (!aws_byte_cursor_eq(&cn, &ca)) fail("byte_cursor_eq says different for empty keys", 0, -1, oa, A0);
        else if (aws_hash_byte_cursor_ptr(&cn) != aws_hash_byte_cursor_ptr(&ca)) fail("empty byte cursors (NULL / non-NULL) hash differently", 0, -1, oa, A0);
        if (!aws_byte_cursor_eq_ignore_case(&cn, &ca)) fail("eq_ignore_case says different for empty keys", 0, -1, oa, A0);
        else if (aws_hash_byte_cursor_ptr_ignore_case(&cn) != aws_hash_byte_cursor_ptr_ignore_case(&ca)) fail("empty byte cursors (NULL / non-NULL) hash differently ignoring case", 0, -1, oa, A0);
    }
    /* pointer and uint64 pairs */
    for (int r = 0; r < 20000; r++) {
        uint64_t x = rnd(), y = (r & 1) ? x : rnd();
        const void *p = (const void *)(uintptr_t)x, *q = (const void *)(uintptr_t)y;
        cases++;
        if (aws_ptr_eq(p, q) != (x == y)) fail("aws_ptr_eq is not identity", 8, 0, 0, (const uint8_t *)&x);
        if (aws_ptr_eq(p, q) && aws_hash_ptr(p) != aws_hash_ptr(q)) fail("identical pointers hash differently", 8, 0, 0, (const uint8_t *)&x);
        if (aws_hash_compare_uint64_t_eq(&x, &y) != (x == y)) fail("uint64 eq is not identity", 8, 0, 0, (const uint8_t *)&x);
        if (aws_hash_compare_uint64_t_eq(&x, &y) && aws_hash_uint64_t_by_identity(&x) != aws_hash_uint64_t_by_identity(&y)) fail("equal uint64 hash differently", 8, 0, 0, (const uint8_t *)&x);
    }
    printf("CASES %ld\n", cases);
    return fails ? 1 : 0;
}
