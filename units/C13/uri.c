/* Proof unit for C13: contracts + the real source/uri.c (and source/byte_buf.c for the helpers it calls). */
#include "contracts/uri.h"
#include "source/byte_buf.c"
#include "source/uri.c"

#define GHOSTS() do { GHOST_RESET(); g_on = true; g_k = nondet_size_t(); g_old = nondet_u8(); g_j = nondet_size_t(); g_src = nondet_u8(); } while (0)

void h_to_upper_hex(void) { GHOST_RESET();
    uint8_t v;
    uint8_t r = s_to_uppercase_hex(v);
    if (r <= '9') CANARY("digit"); else CANARY("letter");
}
void h_path_char(void) {
    struct aws_byte_buf *b; uint8_t v;
    GHOSTS();
    s_unchecked_append_canonicalized_path_character(b, v);
    if (v == '/') CANARY("slash kept"); else if (v == '%') CANARY("escaped"); else if (v == 'a') CANARY("alnum kept");
}
void h_param_char(void) {
    struct aws_byte_buf *b; uint8_t v;
    GHOSTS();
    s_raw_append_canonicalized_param_character(b, v);
    if (v == '/') CANARY("slash escaped"); else if (v == '~') CANARY("tilde kept"); else if (v == 'a') CANARY("alnum kept");
}

#define GHOSTS_ENC() do { GHOSTS(); g_ecnt = 0; g_ei = nondet_size_t(); } while (0)
void h_encode_path(void) {
    struct aws_byte_buf *b; const struct aws_byte_cursor *c;
    GHOSTS_ENC();
    int r = aws_byte_buf_append_encoding_uri_path(b, c);
    if (r == 0) CANARY("encoded"); else CANARY("refused");
}
void h_encode_param(void) {
    struct aws_byte_buf *b; const struct aws_byte_cursor *c;
    GHOSTS_ENC();
    int r = aws_byte_buf_append_encoding_uri_param(b, c);
    if (r == 0) CANARY("encoded"); else CANARY("refused");
}
