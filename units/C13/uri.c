/* Proof unit for C13: contracts + the real source/uri.c (and source/byte_buf.c for the helpers it calls). */
#include "contracts/uri.h"
/* body for the plain (bounded/complete) harness units; the contract units replace the call by its contract instead */
void aws_raise_error_private(int err) { g_last_error = err; g_raise_count++; }
#include "source/byte_buf.c"
/* ghost instrumentation of the per-byte call in s_encode_cursor_to_buffer (the macro only fires where the parameter name
 * is followed by '(' , i.e. at the call; the recording functions write nothing but the ghost struct g_e) */
#define append_canonicalized_character(b, v) ENC_GHOST_HOOK(append_canonicalized_character, b, v)
#include "source/uri.c"
#undef append_canonicalized_character

/* replay variables (DESIGN 3.5): plain copies of the harness inputs of the bounded/complete units below, read back from the
 * counterexample trace by the driver and handed to replay/uri_replay.c; they take no part in any obligation */
size_t r_n, r_pre;
uint64_t r_in;
uint8_t r_v;
bool r_path;

#define GHOSTS() do { GHOST_RESET(); g_on = true; g_k = nondet_size_t(); g_old = nondet_u8(); g_j = nondet_size_t(); g_src = nondet_u8(); } while (0)

void h_to_upper_hex(void) { GHOST_RESET();
    uint8_t v;
    uint8_t r = s_to_uppercase_hex(v);
    if (r <= '9') CANARY("digit"); else CANARY("letter");
}
void h_path_char(void) {
    struct aws_byte_buf *b; uint8_t v;
    GHOSTS();
    s_unchecked_append_canonicalized_path_character(b, v);
    if (v == '/') CANARY("slash kept"); else if (v == '%') CANARY("escaped"); else if (v == 'a') CANARY("alnum kept");
}
void h_param_char(void) {
    struct aws_byte_buf *b; uint8_t v;
    GHOSTS();
    s_raw_append_canonicalized_param_character(b, v);
    if (v == '/') CANARY("slash escaped"); else if (v == '~') CANARY("tilde kept"); else if (v == 'a') CANARY("alnum kept");
}

#define GHOSTS_ENC() do { GHOSTS(); g_e.cnt = 0; g_e.i = nondet_size_t(); } while (0)
void h_encode_path(void) {
    struct aws_byte_buf *b; const struct aws_byte_cursor *c;
    GHOSTS_ENC();
    int r = aws_byte_buf_append_encoding_uri_path(b, c);
#ifdef VERIF_ENC_HUGE
    if (r != 0) CANARY("refused");
#else
    if (r == 0) CANARY("encoded"); /* refusal needs 3*len to overflow: unit encode_huge */
#endif
}
void h_encode_param(void) {
    struct aws_byte_buf *b; const struct aws_byte_cursor *c;
    GHOSTS_ENC();
    int r = aws_byte_buf_append_encoding_uri_param(b, c);
#ifdef VERIF_ENC_HUGE
    if (r != 0) CANARY("refused");
#else
    if (r == 0) CANARY("encoded");
#endif
}

/* ------------------------------------------------------------------ per-byte round trip (complete: all 256 bytes, both encoders)
 * encode one byte with the real per-byte encoder, check the class of what was produced, decode it with the real decoder. */
static struct aws_allocator s_unused_allocator; /* reserve functions insist on a non-NULL allocator; never called: capacity suffices */
#define IS_ALLOWED_OUT(c, path) (SPEC_UNRESERVED(c) || ((path) && (c) == '/'))
void h_char_roundtrip(void) {
    GHOST_RESET(); g_e.cnt = 0; g_e.i = nondet_size_t();
    uint8_t v = nondet_u8();
    bool path = nondet_bool();
    r_v = v; r_path = path;
    uint8_t enc[3];
    struct aws_byte_buf b = {.buffer = enc, .len = 0, .capacity = 3, .allocator = &s_unused_allocator};
    if (path) s_unchecked_append_canonicalized_path_character(&b, v); else s_raw_append_canonicalized_param_character(&b, v);
    __CPROVER_assert(b.len == 1 || b.len == 3, "one byte or one escape");
    if (b.len == 1) {
        __CPROVER_assert(enc[0] == v && IS_ALLOWED_OUT(v, path), "kept bytes are unreserved characters (or '/' in a path)");
    } else {
        __CPROVER_assert(!IS_ALLOWED_OUT(v, path), "only bytes outside the kept class are escaped");
        __CPROVER_assert(enc[0] == '%' && SPEC_IS_HEXU(enc[1]) && SPEC_IS_HEXU(enc[2]), "escape is '%' and two upper-case hex digits");
    }
    uint8_t dec[3];
    struct aws_byte_buf o = {.buffer = dec, .len = 0, .capacity = 3, .allocator = &s_unused_allocator};
    struct aws_byte_cursor c = {.ptr = enc, .len = b.len};
    int r = aws_byte_buf_append_decoding_uri(&o, &c);
    __CPROVER_assert(r == AWS_OP_SUCCESS && o.len == 1 && dec[0] == v, "decoding the encoding of a byte gives the byte back");
    if (b.len == 1) CANARY("kept"); else CANARY("escaped");
}

/* ------------------------------------------------------------------ whole strings, BOUNDED (input <= ENC_N bytes, all byte values,
 * every starting length 0..ENC_PRE of the output buffer): layout against the specification, then decode gives the input back */
#ifndef ENC_N
#define ENC_N 4
#endif
#define ENC_PRE 3
void h_encode_decode_bounded(void) {
    GHOST_RESET(); g_e.cnt = 0; g_e.i = nondet_size_t();
    bool path = nondet_bool();
    uint8_t in[ENC_N];
    size_t n = nondet_size_t(); __CPROVER_assume(n <= ENC_N);
    uint8_t out[ENC_PRE + 3 * ENC_N], out0[ENC_PRE];
    size_t pre = nondet_size_t(); __CPROVER_assume(pre <= ENC_PRE);
    for (size_t i = 0; i < ENC_PRE; i++) out0[i] = out[i];
    struct aws_byte_buf b = {.buffer = out, .len = pre, .capacity = ENC_PRE + 3 * ENC_N, .allocator = &s_unused_allocator};
    struct aws_byte_cursor c = {.ptr = in, .len = n}; /* the NULL/0 view is exercised natively (native_roundtrips) */
    r_n = n; r_pre = pre; r_path = path;
    r_in = (uint64_t)in[0] | ((uint64_t)in[1] << 8) | ((uint64_t)in[2] << 16) | ((uint64_t)in[3] << 24);
    int r = path ? aws_byte_buf_append_encoding_uri_path(&b, &c) : aws_byte_buf_append_encoding_uri_param(&b, &c);
    __CPROVER_assert(r == AWS_OP_SUCCESS && b.buffer == out && b.capacity == ENC_PRE + 3 * ENC_N, "encoder succeeds in place when 3n bytes are free");
    /* specification: byte by byte */
    size_t pos = pre;
    for (size_t i = 0; i < ENC_N; i++) {
        if (i < n) {
            if (IS_ALLOWED_OUT(in[i], path)) {
                __CPROVER_assert(pos < b.len && out[pos] == in[i], "kept byte copied");
                pos += 1;
            } else {
                __CPROVER_assert(pos + 2 < b.len && out[pos] == '%' && out[pos + 1] == SPEC_HEXU(in[i] >> 4) && out[pos + 2] == SPEC_HEXU(in[i] & 0x0F), "escaped byte is %XX, upper case");
                pos += 3;
            }
        }
    }
    __CPROVER_assert(b.len == pos, "new length = old length + sum of the widths");
    for (size_t i = 0; i < ENC_PRE; i++) __CPROVER_assert(i >= pre || out[i] == out0[i], "bytes below the old length untouched");
    /* decode */
    uint8_t dec[ENC_N];
    struct aws_byte_buf o = {.buffer = dec, .len = 0, .capacity = ENC_N, .allocator = &s_unused_allocator};
    struct aws_byte_cursor e = {.ptr = out + pre, .len = b.len - pre};
    /* the decoder reserves as many bytes as its INPUT has, which may exceed ENC_N: give it room */
    uint8_t dec_big[3 * ENC_N];
    o.buffer = dec_big; o.capacity = 3 * ENC_N;
    int r2 = aws_byte_buf_append_decoding_uri(&o, &e);
    __CPROVER_assert(r2 == AWS_OP_SUCCESS && o.len == n, "decode succeeds and yields n bytes");
    for (size_t i = 0; i < ENC_N; i++) __CPROVER_assert(i >= n || dec_big[i] == in[i], "decode(encode(x)) == x");
    if (n == ENC_N) CANARY("full length"); else if (n == 0) CANARY("empty"); else CANARY("short");
}

void h_decode(void) {
    struct aws_byte_buf *b; const struct aws_byte_cursor *c;
    GHOSTS();
    int r = aws_byte_buf_append_decoding_uri(b, c);
    if (r == 0) CANARY("decoded"); else CANARY("refused");
}

/* ------------------------------------------------------------------ decoder against a reference decoder, BOUNDED (input <= DEC_N bytes) */
#ifndef DEC_N
#define DEC_N 6
#endif
#define REF_ISHEX(c) (((c) >= '0' && (c) <= '9') || ((c) >= 'a' && (c) <= 'f') || ((c) >= 'A' && (c) <= 'F'))
#define REF_HEXVAL(c) ((uint8_t)((c) <= '9' ? (c) - '0' : ((c) | 0x20) - 'a' + 10))
void h_decode_bounded(void) {
    GHOST_RESET();
    uint8_t in[DEC_N];
    size_t n = nondet_size_t(); __CPROVER_assume(n <= DEC_N);
    uint8_t out[2 + DEC_N];
    size_t pre = nondet_size_t(); __CPROVER_assume(pre <= 2);
    uint8_t o0 = out[0], o1 = out[1];
    struct aws_byte_buf o = {.buffer = out, .len = pre, .capacity = 2 + DEC_N, .allocator = &s_unused_allocator};
    struct aws_byte_cursor c = {.ptr = in, .len = n};
    r_n = n; r_pre = pre;
    r_in = (uint64_t)in[0] | ((uint64_t)in[1] << 8) | ((uint64_t)in[2] << 16) | ((uint64_t)in[3] << 24) | ((uint64_t)in[4] << 32) | ((uint64_t)in[5] << 40);
    int r = aws_byte_buf_append_decoding_uri(&o, &c);
    /* reference: RFC 3986 2.1 pct-encoded = "%" HEXDIG HEXDIG; everything else is literal */
    uint8_t ref[DEC_N]; size_t m = 0; bool ok = true;
    for (size_t i = 0; i < DEC_N;) {
        if (i >= n || !ok) break;
        if (in[i] != '%') { ref[m++] = in[i]; i += 1; }
        else if (i + 2 < n && REF_ISHEX(in[i + 1]) && REF_ISHEX(in[i + 2])) { ref[m++] = (uint8_t)((REF_HEXVAL(in[i + 1]) << 4) | REF_HEXVAL(in[i + 2])); i += 3; }
        else ok = false;
    }
    __CPROVER_assert((r == AWS_OP_SUCCESS) == ok, "decode succeeds exactly when every '%' is followed by two hex digits");
    if (ok) {
        __CPROVER_assert(o.len == pre + m, "decoded length");
        for (size_t i = 0; i < DEC_N; i++) __CPROVER_assert(i >= m || out[pre + i] == ref[i], "decoded bytes equal the reference");
    }
    __CPROVER_assert((pre < 1 || out[0] == o0) && (pre < 2 || out[1] == o1) && o.buffer == out, "bytes below the old length untouched");
    if (!ok) CANARY("malformed refused"); else if (m < n) CANARY("escape decoded"); else CANARY("literal");
}

/* ------------------------------------------------------------------ query-string iteration: one step, unbounded
 * (contract in contracts/uri.h; next_split and memchr replaced by their contracts, loop contract for the skipping loop).
 * The query string (any length, any bytes) and the param (zeroed / a previous pair) are built by the contract's requires;
 * g_qs_s == 0 identifies the first call (a resume starts at offset >= 1). */
void h_query_next_param(void) {
    GHOSTS();
    g_qw = nondet_size_t(); g_qs_s = nondet_size_t(); g_mm = nondet_size_t();
    struct aws_byte_cursor q;
    struct aws_uri_param *p;
    bool r = aws_query_string_next_param(q, p);
    if (g_qs_s == 0) { if (r) CANARY("first call: pair"); else CANARY("first call: nothing (empty or only '&')"); }
    else { if (r) CANARY("resume: next pair"); else CANARY("resume: end"); }
}
