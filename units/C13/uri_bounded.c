/* BOUNDED stand-in (never counted as proved) for "a text assembled from components parses back to exactly those components":
 * the real state machine of source/uri.c on a text of at most TEXT_MAX bytes that the harness assembles from symbolic
 * components (symbolic lengths within small limits, symbolic bytes restricted only by "the component does not contain its
 * own terminator").  libc memchr is modelled by its textbook definition (a loop), the decimal port parser is the real one.
 * Outside the statement and excluded: a text WITHOUT scheme in which some ':' is directly followed by '/' (the parser reads
 * the first such ':' as the scheme delimiter by design; a scheme-less "URI" is an extension of RFC 3986 anyway). */
#include "contracts/uri.h"
void aws_raise_error_private(int err) { g_last_error = err; g_raise_count++; }
/* ASSUMED: libc memchr = first occurrence */
void *memchr(const void *s, int c, size_t n) {
    for (size_t i = 0; i < n; i++) if (((const uint8_t *)s)[i] == (uint8_t)c) return (void *)((const uint8_t *)s + i);
    return NULL;
}
#include "source/byte_buf.c"
#include "source/uri.c"

#define TEXT_MAX 20
#define IS(c, set3) ((c) == set3[0] || (c) == set3[1] || (c) == set3[2])
static uint8_t text[TEXT_MAX];
static size_t tn;
/* replay variables (DESIGN 3.5): the assembled text / the query string, little endian in 64-bit words; plain copies read back
 * from the counterexample trace and handed to replay/uri_replay.c, no part in any obligation */
size_t r_tn, r_n;
uint64_t r_tw0, r_tw1, r_tw2, r_q;
#define R_PACK(a, from, cnt, i) ((i) < (cnt) ? ((uint64_t)(a)[(from) + (i)] << (8 * (i))) : (uint64_t)0)
#define R_WORD(a, from, cnt) (R_PACK(a, from, cnt, 0) | R_PACK(a, from, cnt, 1) | R_PACK(a, from, cnt, 2) | R_PACK(a, from, cnt, 3) | \
                              R_PACK(a, from, cnt, 4) | R_PACK(a, from, cnt, 5) | R_PACK(a, from, cnt, 6) | R_PACK(a, from, cnt, 7))
static void put(uint8_t c) { __CPROVER_assume(tn < TEXT_MAX); text[tn++] = c; }
/* appends a component of symbolic length <= max whose bytes avoid the given characters; returns its length */
static size_t put_comp(size_t max, bool no_colon, bool no_slash, bool no_qmark, bool no_at, bool no_rbr, bool digits) {
    size_t len = nondet_size_t(); __CPROVER_assume(len <= max);
    for (size_t i = 0; i < 2; i++) {
        if (i < len) {
            uint8_t c = nondet_u8();
            __CPROVER_assume(!(no_colon && c == ':') && !(no_slash && c == '/') && !(no_qmark && c == '?') && !(no_at && c == '@') && !(no_rbr && c == ']'));
            __CPROVER_assume(!digits || (c >= '0' && c <= '9'));
            put(c);
        }
    }
    return len;
}
#define VIEW_IS(v, off, n) ((v).len == (n) && ((n) == 0 && (v).ptr == NULL ? true : (v).ptr == text + (off)))
#define VIEW_AT(v, off, n) ((v).len == (n) && (v).ptr == text + (off))

void h_parse_assembled(void) {
    GHOST_RESET();
    tn = 0;
    bool has_scheme = nondet_bool(), has_ui = nondet_bool(), has_pw = nondet_bool(), v6 = nondet_bool(), has_port = nondet_bool(), has_path = nondet_bool(), has_q = nondet_bool();
    /* scheme "://" */
    size_t sch_len = 0;
    if (has_scheme) { sch_len = put_comp(1, true, true, true, true, false, false); __CPROVER_assume(sch_len > 0); put(':'); put('/'); put('/'); }
    size_t auth_off = tn;
    /* [ user [ ":" password ] "@" ] */
    size_t user_off = tn, user_len = 0, pw_off = 0, pw_len = 0;
    if (has_ui) {
        user_len = put_comp(1, true, true, true, true, false, false);
        if (has_pw) { put(':'); pw_off = tn; pw_len = put_comp(1, false, true, true, true, false, false); }
        put('@');
    }
    size_t ui_len = has_ui ? tn - 1 - user_off : 0;
    /* host | "[" v6 "]" */
    size_t host_off, host_len;
    if (v6) { put('['); host_off = tn; host_len = put_comp(2, false, true, true, true, true, false); put(']'); }
    else { host_off = tn; host_len = put_comp(2, true, true, true, true, false, false); __CPROVER_assume(host_len == 0 || text[host_off] != '['); }
    /* [ ":" port ] */
    size_t port_len = 0; uint32_t port = 0;
    if (has_port) { put(':'); size_t po = tn; port_len = put_comp(2, false, false, false, false, false, true);
        for (size_t i = 0; i < 2; i++) if (i < port_len) port = port * 10 + (uint32_t)(text[po + i] - '0'); }
    size_t auth_len = tn - auth_off;
    /* [ "/" segment ] */
    size_t path_off = tn, path_len = 0;
    if (has_path) { put('/'); path_len = 1 + put_comp(1, false, false, true, false, false, false); }
    /* [ "?" query ] : any bytes */
    size_t q_off = 0, q_len = 0;
    if (has_q) { put('?'); q_off = tn; q_len = put_comp(2, false, false, false, false, false, false); }
    __CPROVER_assume(tn > 0);
    /* outside the statement: a scheme-less text in which a ':' is directly followed by '/' (read as a scheme delimiter by design) */
    if (!has_scheme) for (size_t i = 0; i + 1 < TEXT_MAX; i++) __CPROVER_assume(!(i + 1 < tn && text[i] == ':' && text[i + 1] == '/'));
    /* an authority must not be completely empty together with an empty rest (MALFORMED by design) */
    __CPROVER_assume(auth_len > 0 || has_path || has_q);

    r_tn = tn; r_tw0 = R_WORD(text, 0, 8); r_tw1 = R_WORD(text, 8, 8); r_tw2 = R_WORD(text, 16, TEXT_MAX - 16);
    struct aws_uri u;
    memset(&u, 0, sizeof u);
    u.uri_str.buffer = text; u.uri_str.len = tn; u.uri_str.capacity = TEXT_MAX; u.uri_str.allocator = NULL;
    /* the state machine of s_init_from_uri_str, written out (its loop and dispatch table are unit init_from_uri_str) */
    struct uri_parser p = {.uri = &u, .state = ON_SCHEME};
    struct aws_byte_cursor cur = aws_byte_cursor_from_buf(&u.uri_str);
    s_parse_scheme(&p, &cur);
    if (p.state == ON_AUTHORITY) s_parse_authority(&p, &cur);
    if (p.state == ON_PATH) s_parse_path(&p, &cur);
    if (p.state == ON_QUERY_STRING) s_parse_query_string(&p, &cur);
    int r = p.state == FINISHED ? AWS_OP_SUCCESS : AWS_OP_ERR;

    /* the known class: empty path and a '/' inside the query */
    bool q_has_slash = false;
    for (size_t i = 0; i < 2; i++) if (i < q_len && text[q_off + i] == '/') q_has_slash = true;
    if (!has_path && has_q && q_has_slash) {
        __CPROVER_assert(r == AWS_OP_SUCCESS && u.authority.len == auth_len && u.path.len == 0 && VIEW_AT(u.query_string, q_off, q_len),
                         "RFC 3986 3.2: a '?' before the first '/' terminates the authority (query without path)");
        CANARY("query with slash, no path");
        return;
    }
    __CPROVER_assert(r == AWS_OP_SUCCESS, "a text assembled from well-formed components is accepted");
    if (r != AWS_OP_SUCCESS) return;
    __CPROVER_assert(has_scheme ? VIEW_AT(u.scheme, 0, sch_len) : (u.scheme.len == 0), "scheme");
    __CPROVER_assert(VIEW_AT(u.authority, auth_off, auth_len), "authority");
    __CPROVER_assert(has_ui ? (VIEW_AT(u.userinfo, user_off, ui_len) && VIEW_AT(u.user, user_off, user_len)) : (u.userinfo.len == 0 && u.user.len == 0 && u.password.len == 0), "user-info and user");
    __CPROVER_assert(!(has_ui && has_pw) || VIEW_AT(u.password, pw_off, pw_len), "password");
    __CPROVER_assert(!(has_ui && !has_pw) || u.password.len == 0, "no password");
    __CPROVER_assert(auth_len == 0 ? u.host_name.len == 0 : VIEW_AT(u.host_name, host_off, host_len), "host (without brackets)");
    __CPROVER_assert(u.port == port, "port value");
    __CPROVER_assert(has_path ? VIEW_AT(u.path, path_off, path_len) : u.path.len == 0, "path");
    __CPROVER_assert(has_q ? VIEW_AT(u.query_string, q_off, q_len) : u.query_string.len == 0, "query");
    __CPROVER_assert((has_path || has_q) ? VIEW_AT(u.path_and_query, path_off, tn - path_off) : u.path_and_query.len == 0, "path_and_query");
    __CPROVER_assert(u.uri_str.buffer == text && u.uri_str.len == tn, "text kept");
    if (has_scheme && has_ui && has_pw && v6 && has_port && has_path && has_q) CANARY("all components"); 
    if (!has_scheme && !has_ui && !v6 && !has_port && !has_path && !has_q) CANARY("host only");
    if (v6 && !has_port) CANARY("bracketed host without port");
}

/* ------------------------------------------------------------------ query-string iteration, BOUNDED: every query string of at most
 * QN bytes (all byte values): the iterator yields exactly the non-empty '&'-separated pieces, once each, in order, split at
 * their first '='; the list form holds the same pairs. */
#include "source/array_list.c"
#ifndef QN
#define QN 5
#endif
void h_query_bounded(void) {
    GHOST_RESET();
    /* one addressable byte after the view (as for a view into a C string or into a URI followed by anything): after the
     * last piece aws_byte_cursor_next_split forms end+1 before comparing it with end, which CBMC flags as pointer arithmetic
     * outside the object when the view ends exactly at the end of its object (C01 discusses and covers that case) */
    uint8_t q[QN + 1];
    size_t n = nondet_size_t(); __CPROVER_assume(n <= QN);
    struct aws_byte_cursor qc = {.ptr = q, .len = n};
    r_n = n; r_q = R_WORD(q, 0, QN);
    /* reference: split on '&', drop empty pieces, split each at its first '=' */
    size_t ko[QN], kl[QN], vo[QN], vl[QN], m = 0;
    size_t start = 0;
    for (size_t j = 0; j <= QN; j++) {
        if (j <= n && (j == n || q[j] == '&')) {
            if (j > start) {
                size_t e = start; bool found = false;
                for (size_t t = 0; t < QN; t++) if (!found && t >= start && t < j) { if (q[t] == '=') { found = true; e = t; } }
                if (!found) e = j;
                ko[m] = start; kl[m] = e - start; vo[m] = found ? e + 1 : j; vl[m] = found ? j - e - 1 : 0; m++;
            }
            start = j + 1;
        }
    }
    /* iterator */
    struct aws_uri_param p; memset(&p, 0, sizeof p);
    size_t k = 0;
    for (size_t it = 0; it <= QN; it++) {
        if (k <= it - 0 && k == it) {
            bool more = aws_query_string_next_param(qc, &p);
            __CPROVER_assert(more == (k < m), "the iterator yields exactly as many pairs as there are non-empty pieces");
            if (!more) break;
            __CPROVER_assert(p.key.ptr == q + ko[k] && p.key.len == kl[k] && p.value.ptr == q + vo[k] && p.value.len == vl[k], "pair k = k-th non-empty piece, split at its first '='");
            k++;
        }
    }
    /* list form */
    struct aws_uri_param st[QN]; struct aws_array_list l;
    aws_array_list_init_static(&l, st, QN, sizeof(struct aws_uri_param));
    int r = aws_query_string_params(qc, &l);
    __CPROVER_assert(r == AWS_OP_SUCCESS && aws_array_list_length(&l) == m, "list form has the same number of pairs");
    for (size_t i = 0; i < QN; i++) if (i < m) __CPROVER_assert(st[i].key.ptr == q + ko[i] && st[i].key.len == kl[i] && st[i].value.ptr == q + vo[i] && st[i].value.len == vl[i], "list element i = pair i");
    if (m == 0) CANARY("no pairs"); else if (m == 1) CANARY("one pair"); else CANARY("several pairs");
}
