/* Bounded NATIVE stand-in for the end-to-end clauses of C13 (never counted as proved): compiled with cc against the real
 * sources and run.  Enumerates component combinations over a small alphabet that contains every delimiter, assembles the
 * text, parses it with the real aws_uri_init_parse and compares every component view (content AND position inside the
 * object's own copy) with the generating component; does the same through the real builder (snprintf of the port
 * included); checks query iteration against the list form and a reference splitter; encodes/decodes against a reference.
 * Prints "CASES n" and "FAIL ..." lines (driver convention). */
#include <aws/common/uri.h>
#include <aws/common/array_list.h>
#include <inttypes.h>
#include <stdio.h>
#include <string.h>
#include <stdlib.h>

/* environment stubs so that the driver links against the few real translation units it exercises (uri.c, byte_buf.c,
 * array_list.c, allocator.c, error.c, math.c) instead of the whole library */
void aws_fatal_assert(const char *cond, const char *file, int line) { printf("FAIL aws_fatal_assert(%s) at %s:%d\n", cond, file, line); fflush(stdout); abort(); }
void aws_secure_zero(void *p, size_t n) { volatile unsigned char *v = p; while (n--) *v++ = 0; }

static unsigned long g_cases, g_fails, g_qslash; static char g_qslash_example[128];
static struct aws_allocator *A;
#define FAIL(...) do { if (g_fails++ < 40) { printf("FAIL "); printf(__VA_ARGS__); printf("\n"); } } while (0)

static int cur_is(const struct aws_byte_cursor *c, const char *s) {
    size_t n = strlen(s);
    return c->len == n && (n == 0 || memcmp(c->ptr, s, n) == 0);
}
static int inside(const struct aws_uri *u, const struct aws_byte_cursor *c) {
    if (c->ptr == NULL) return c->len == 0;
    return c->ptr >= u->uri_str.buffer && c->ptr + c->len <= u->uri_str.buffer + u->uri_str.len;
}
struct comps { const char *scheme, *user, *pass, *host; int has_userinfo, has_pass, v6, has_port; const char *port_text; uint32_t port; const char *path, *query; int has_query; };

static void check_parsed(const struct aws_uri *u, const struct comps *k, const char *text, const char *how) {
    char hostbuf[64];
    if (!cur_is(&u->scheme, k->scheme)) FAIL("%s \"%s\": scheme \"%.*s\" != \"%s\"", how, text, (int)u->scheme.len, u->scheme.ptr, k->scheme);
    if (!cur_is(&u->host_name, k->host)) FAIL("%s \"%s\": host \"%.*s\" != \"%s\"", how, text, (int)u->host_name.len, u->host_name.ptr, k->host);
    if (u->port != (k->has_port ? k->port : 0)) FAIL("%s \"%s\": port %u != %u", how, text, u->port, k->port);
    if (!cur_is(&u->path, k->path)) FAIL("%s \"%s\": path \"%.*s\" != \"%s\"", how, text, (int)u->path.len, u->path.ptr, k->path);
    if (!cur_is(&u->query_string, k->has_query ? k->query : "")) FAIL("%s \"%s\": query \"%.*s\" != \"%s\"", how, text, (int)u->query_string.len, u->query_string.ptr, k->query);
    if (k->has_userinfo) {
        if (!cur_is(&u->user, k->user)) FAIL("%s \"%s\": user \"%.*s\" != \"%s\"", how, text, (int)u->user.len, u->user.ptr, k->user);
        if (!cur_is(&u->password, k->has_pass ? k->pass : "")) FAIL("%s \"%s\": password \"%.*s\" != \"%s\"", how, text, (int)u->password.len, u->password.ptr, k->pass);
    } else if (u->userinfo.len || u->user.len || u->password.len) FAIL("%s \"%s\": user-info reported but absent", how, text);
    (void)hostbuf;
    const struct aws_byte_cursor *vs[] = {&u->scheme, &u->authority, &u->userinfo, &u->user, &u->password, &u->host_name, &u->path, &u->query_string, &u->path_and_query};
    for (unsigned i = 0; i < sizeof(vs) / sizeof(vs[0]); i++) if (!inside(u, vs[i])) FAIL("%s \"%s\": view %u outside uri_str", how, text, i);
    if (u->uri_str.len != strlen(text) || memcmp(u->uri_str.buffer, text, u->uri_str.len)) FAIL("%s \"%s\": uri_str is not a copy of the text", how, text);
    /* path_and_query = path [ "?" query ] */
    size_t pq = strlen(k->path) + (k->has_query ? 1 + strlen(k->query) : 0);
    if (u->path_and_query.len != pq && !(pq == 0 && u->path_and_query.len == 0)) FAIL("%s \"%s\": path_and_query length %zu != %zu", how, text, u->path_and_query.len, pq);
}

static void assemble(const struct comps *k, char *out, size_t cap) {
    size_t n = 0;
    n += (size_t)snprintf(out + n, cap - n, "%s%s", k->scheme, k->scheme[0] ? "://" : "");
    if (k->has_userinfo) n += (size_t)snprintf(out + n, cap - n, "%s%s%s@", k->user, k->has_pass ? ":" : "", k->has_pass ? k->pass : "");
    n += (size_t)snprintf(out + n, cap - n, k->v6 ? "[%s]" : "%s", k->host);
    if (k->has_port) n += (size_t)snprintf(out + n, cap - n, ":%s", k->port_text);
    n += (size_t)snprintf(out + n, cap - n, "%s", k->path);
    if (k->has_query) n += (size_t)snprintf(out + n, cap - n, "?%s", k->query);
}

static void run_parse_cases(int thorough) {
    static const char *schemes[] = {"", "http", "a", "s3+x.y-z"};
    static const char *users[] = {"u", "", "user%40x"};
    static const char *passes[] = {"p", "", "p:q"};
    static const char *hosts[] = {"h", "", "example.com", "a-b.c"};
    static const char *hosts6[] = {"::1", "2001:db8::ff00:42:8329", "fe80::1%25eth0"};
    static const struct { const char *t; uint32_t v; } ports[] = {{"0", 0}, {"80", 80}, {"65535", 65535}, {"65536", 65536}, {"4294967295", 4294967295u}, {"0080", 80}, {"", 0}};
    static const char *paths[] = {"", "/", "/a", "/a/b/", "/a:b@c", "/%2F/x"};
    static const char *queries[] = {"", "k=v", "a=1&b=2", "x", "k=v=w&&", "r=/home", "a?b=c", "t=a:b@c/"};
    for (unsigned si = 0; si < 4; si++) for (int ui = -1; ui < 3; ui++) for (int pi = -1; pi < (ui < 0 ? 0 : 3); pi++)
    for (unsigned hi = 0; hi < 7; hi++) for (int poi = -1; poi < 7; poi++) for (unsigned pai = 0; pai < 6; pai++) for (int qi = -1; qi < 8; qi++) {
        struct comps k; memset(&k, 0, sizeof k);
        k.scheme = schemes[si];
        k.has_userinfo = ui >= 0; k.user = ui >= 0 ? users[ui] : ""; k.has_pass = pi >= 0; k.pass = pi >= 0 ? passes[pi] : "";
        k.v6 = hi >= 4; k.host = k.v6 ? hosts6[hi - 4] : hosts[hi];
        k.has_port = poi >= 0; k.port_text = poi >= 0 ? ports[poi].t : ""; k.port = poi >= 0 ? ports[poi].v : 0;
        k.path = paths[pai]; k.has_query = qi >= 0; k.query = qi >= 0 ? queries[qi] : "";
        if (!thorough && ((si + hi + pai) % 2) && ui > 0) continue; /* quick tier: thin out */
        /* the text must not be empty, and an authority-less text is outside the grammar the parser implements */
        char text[256]; assemble(&k, text, sizeof text);
        if (!text[0]) continue;
        /* scheme-less texts are ambiguous when a ':' followed by '/' occurs later (the first such ':' is taken as the scheme
         * delimiter: documented behaviour of the parser, not covered by the statement's "scheme absent" case) */
        if (!k.scheme[0]) { const char *c = strchr(text, ':'); if (c && c[1] == '/') continue; }
        /* empty host and nothing else in the authority: "http:///p" has an empty authority, fine; but a completely empty
         * authority-and-path text after the scheme is MALFORMED by design */
        struct aws_uri u; struct aws_byte_cursor tc = aws_byte_cursor_from_c_str(text);
        g_cases++;
        int r = aws_uri_init_parse(&u, A, &tc);
        int empty_rest = !k.has_userinfo && !k.host[0] && !k.v6 && !k.has_port && !k.path[0] && !k.has_query;
        if (empty_rest) { if (r == 0) { FAIL("parse \"%s\": accepted although nothing follows the scheme", text); aws_uri_clean_up(&u);} continue; }
        if (k.has_port && k.port_text[0] && strtoull(k.port_text, NULL, 10) > 4294967295ull) { if (r == 0) { FAIL("parse \"%s\": port beyond 2^32-1 accepted", text); aws_uri_clean_up(&u);} continue; }
        /* one class, reported once: empty path and a query that contains '/' (RFC 3986 allows '/' in a query) */
        if (!k.path[0] && k.has_query && strchr(k.query, '/')) {
            int wrong = r != 0 || !cur_is(&u.host_name, k.host) || !cur_is(&u.path, "") || !cur_is(&u.query_string, k.query);
            if (wrong) { if (!g_qslash++) snprintf(g_qslash_example, sizeof g_qslash_example, "%s", text); if (r == 0) aws_uri_clean_up(&u); continue; }
        }
        if (r != 0) { FAIL("parse \"%s\": refused", text); continue; }
        check_parsed(&u, &k, text, "parse");
        aws_uri_clean_up(&u);
    }
    /* ports beyond 2^32-1 */
    static const char *bad[] = {"http://h:4294967296/", "http://h:99999999999999999999/", "http://h:8x/", "http://[::1/", "", "http://"};
    for (unsigned i = 0; i < 6; i++) { struct aws_uri u; struct aws_byte_cursor tc = aws_byte_cursor_from_c_str(bad[i]); g_cases++;
        if (aws_uri_init_parse(&u, A, &tc) == 0) { FAIL("parse \"%s\": accepted", bad[i]); aws_uri_clean_up(&u); } }
}

static void run_builder_cases(int thorough) {
    static const char *schemes[] = {"", "https", "x"};
    static const char *hosts[] = {"h", "example.com", "[::1]", "u:p@host", "[2001:db8::1]"};
    static const char *hostnames[] = {"h", "example.com", "::1", "host", "2001:db8::1"};
    static const uint32_t ports[] = {0, 1, 9, 10, 80, 443, 65535, 65536, 99999, 100000, 999999999u, 1000000000u, 4294967294u, 4294967295u};
    static const char *paths[] = {"", "/", "/a/b"};
    static const char *queries[] = {"", "k=v", "a=1&b=2&c", "r=/x"};
    for (unsigned si = 0; si < 3; si++) for (unsigned hi = 0; hi < 5; hi++) for (unsigned poi = 0; poi < 14; poi++) for (unsigned pai = 0; pai < 3; pai++)
    for (unsigned qi = 0; qi < 4; qi++) for (int list_form = 0; list_form < 2; list_form++) {
        if (!thorough && (poi % 3) && (si + hi) % 2) continue;
        struct aws_uri_builder_options o; memset(&o, 0, sizeof o);
        o.scheme = aws_byte_cursor_from_c_str(schemes[si]); o.host_name = aws_byte_cursor_from_c_str(hosts[hi]); o.port = ports[poi];
        o.path = aws_byte_cursor_from_c_str(paths[pai]);
        struct aws_array_list params; struct aws_uri_param ps[8]; size_t np = 0; char qcopy[64];
        if (list_form) {
            aws_array_list_init_static(&params, ps, 8, sizeof(struct aws_uri_param));
            strcpy(qcopy, queries[qi]);
            struct aws_byte_cursor qc = aws_byte_cursor_from_c_str(qcopy);
            if (aws_query_string_params(qc, &params)) { FAIL("builder: list form of \"%s\" failed", qcopy); continue; }
            np = aws_array_list_length(&params);
            o.query_params = &params;
        } else o.query_string = aws_byte_cursor_from_c_str(queries[qi]);
        struct aws_uri u; g_cases++;
        int qslash = paths[pai][0] == 0 && strchr(queries[qi], '/') != NULL;
        int r = aws_uri_init_from_builder_options(&u, A, &o);
        char expect[256]; size_t n = 0;
        n += (size_t)snprintf(expect + n, sizeof expect - n, "%s%s%s", schemes[si], schemes[si][0] ? "://" : "", hosts[hi]);
        if (ports[poi]) n += (size_t)snprintf(expect + n, sizeof expect - n, ":%" PRIu32, ports[poi]);
        n += (size_t)snprintf(expect + n, sizeof expect - n, "%s", paths[pai]);
        if (list_form) { n += (size_t)snprintf(expect + n, sizeof expect - n, "?");
            for (size_t i = 0; i < np; i++) n += (size_t)snprintf(expect + n, sizeof expect - n, "%.*s=%.*s%s", (int)ps[i].key.len, ps[i].key.ptr, (int)ps[i].value.len, ps[i].value.ptr, i + 1 < np ? "&" : ""); }
        else if (queries[qi][0]) n += (size_t)snprintf(expect + n, sizeof expect - n, "?%s", queries[qi]);
        if (r != 0) { if (qslash) { if (!g_qslash++) snprintf(g_qslash_example, sizeof g_qslash_example, "%s", expect); } else FAIL("builder \"%s\": refused", expect); continue; }
        /* an EMPTY parameter list: the builder appends a '?' that its size estimate did not count; it is kept or silently
         * dropped depending on the slack left by the port estimate.  Both texts parse back to the same components. */
        if (list_form && np == 0 && u.uri_str.len + 1 == n && memcmp(u.uri_str.buffer, expect, n - 1) == 0) n -= 1;
        if (u.uri_str.len != n || memcmp(u.uri_str.buffer, expect, n)) FAIL("builder: text \"%.*s\" != \"%s\" (an append was dropped or truncated)", (int)u.uri_str.len, u.uri_str.buffer, expect);
        if (!cur_is(&u.scheme, schemes[si])) FAIL("builder \"%s\": scheme", expect);
        if (!qslash && !cur_is(&u.host_name, hostnames[hi])) FAIL("builder \"%s\": host \"%.*s\"", expect, (int)u.host_name.len, u.host_name.ptr);
        if (u.port != ports[poi]) FAIL("builder \"%s\": port %u", expect, u.port);
        /* a query with '/' and an empty path is the known authority defect: reported by the parse cases, not again here */
        if (qslash) { if (!cur_is(&u.path, paths[pai]) && !g_qslash++) snprintf(g_qslash_example, sizeof g_qslash_example, "%s", expect); }
        else {
            if (!cur_is(&u.path, paths[pai])) FAIL("builder \"%s\": path \"%.*s\"", expect, (int)u.path.len, u.path.ptr);
            if (!list_form && !cur_is(&u.query_string, queries[qi])) FAIL("builder \"%s\": query \"%.*s\"", expect, (int)u.query_string.len, u.query_string.ptr);
        }
        const struct aws_byte_cursor *vs[] = {&u.scheme, &u.authority, &u.userinfo, &u.user, &u.password, &u.host_name, &u.path, &u.query_string, &u.path_and_query};
        for (unsigned i = 0; i < 9; i++) if (!inside(&u, vs[i])) FAIL("builder \"%s\": view %u outside uri_str", expect, i);
        aws_uri_clean_up(&u);
    }
}

/* all query strings over {a,=,&} up to length L: iteration vs reference vs list form */
static void run_query_cases(int L) {
    static const char alpha[] = "a=&b";
    char q[16];
    for (int len = 0; len <= L; len++) {
        unsigned long total = 1; for (int i = 0; i < len; i++) total *= 4;
        for (unsigned long code = 0; code < total; code++) {
            unsigned long c = code; for (int i = 0; i < len; i++) { q[i] = alpha[c % 4]; c /= 4; } q[len] = 0;
            g_cases++;
            /* reference */
            struct { size_t ko, kl, vo, vl; } ref[16]; size_t nref = 0;
            for (size_t i = 0; i <= (size_t)len;) { size_t j = i; while (j < (size_t)len && q[j] != '&') j++;
                if (j > i) { size_t e = i; while (e < j && q[e] != '=') e++; ref[nref].ko = i; ref[nref].kl = e - i; ref[nref].vo = e < j ? e + 1 : j; ref[nref].vl = e < j ? j - e - 1 : 0; nref++; }
                i = j + 1; }
            struct aws_byte_cursor qc = aws_byte_cursor_from_array(q, (size_t)len);
            struct aws_uri_param p; memset(&p, 0, sizeof p); size_t n = 0;
            while (aws_query_string_next_param(qc, &p)) {
                if (n >= nref) { FAIL("query \"%s\": more pairs than the reference", q); break; }
                if ((size_t)(p.key.ptr - (uint8_t *)q) != ref[n].ko || p.key.len != ref[n].kl || (size_t)(p.value.ptr - (uint8_t *)q) != ref[n].vo || p.value.len != ref[n].vl)
                    FAIL("query \"%s\": pair %zu differs from the reference", q, n);
                n++;
                if (n > 16) break;
            }
            if (n != nref) FAIL("query \"%s\": %zu pairs, reference %zu", q, n, nref);
            struct aws_array_list l; struct aws_uri_param st[16]; aws_array_list_init_static(&l, st, 16, sizeof(struct aws_uri_param));
            if (aws_query_string_params(qc, &l)) FAIL("query \"%s\": list form failed", q);
            if (aws_array_list_length(&l) != nref) FAIL("query \"%s\": list form has %zu pairs, reference %zu", q, aws_array_list_length(&l), nref);
            for (size_t i = 0; i < aws_array_list_length(&l) && i < nref; i++)
                if ((size_t)(st[i].key.ptr - (uint8_t *)q) != ref[i].ko || st[i].key.len != ref[i].kl || (size_t)(st[i].value.ptr - (uint8_t *)q) != ref[i].vo || st[i].value.len != ref[i].vl)
                    FAIL("query \"%s\": list element %zu differs", q, i);
        }
    }
}

/* encode / decode against a reference, all strings over a 6-byte alphabet up to length L, several starting lengths */
static void run_codec_cases(int L) {
    static const uint8_t alpha[] = {'a', '/', '%', '~', 0x00, 0xFF, ' ', 'Z', '-', '?'};
    const unsigned K = 10;
    for (int len = 0; len <= L; len++) {
        unsigned long total = 1; for (int i = 0; i < len; i++) total *= K;
        for (unsigned long code = 0; code < total; code++) for (int path = 0; path < 2; path++) for (size_t pre = 0; pre < 3; pre++) {
            uint8_t in[8]; unsigned long c = code; for (int i = 0; i < len; i++) { in[i] = alpha[c % K]; c /= K; }
            g_cases++;
            char ref[64]; size_t rn = 0;
            for (int i = 0; i < len; i++) { uint8_t b = in[i];
                int keep = (b >= 'a' && b <= 'z') || (b >= 'A' && b <= 'Z') || (b >= '0' && b <= '9') || b == '-' || b == '_' || b == '.' || b == '~' || (path && b == '/');
                if (keep) ref[rn++] = (char)b; else rn += (size_t)sprintf(ref + rn, "%%%02X", b); }
            struct aws_byte_buf out; aws_byte_buf_init(&out, A, pre + (code % 3)); memset(out.buffer, 'P', out.capacity); out.len = pre < out.capacity ? pre : out.capacity; size_t l0 = out.len;
            struct aws_byte_cursor ic = aws_byte_cursor_from_array(in, (size_t)len);
            int r = path ? aws_byte_buf_append_encoding_uri_path(&out, &ic) : aws_byte_buf_append_encoding_uri_param(&out, &ic);
            if (r) FAIL("encode refused");
            else {
                if (out.len != l0 + rn || memcmp(out.buffer + l0, ref, rn)) FAIL("encode(len %d, code %lu, path %d): differs from the reference", len, code, path);
                for (size_t i = 0; i < l0; i++) if (out.buffer[i] != 'P') FAIL("encode: earlier byte %zu changed", i);
                /* decode APPENDS: start from a buffer that already holds `pre` bytes */
                struct aws_byte_buf dec; aws_byte_buf_init(&dec, A, pre + 1); memset(dec.buffer, 'Q', dec.capacity); dec.len = pre;
                struct aws_byte_cursor ec = aws_byte_cursor_from_array(out.buffer + l0, out.len - l0);
                if (aws_byte_buf_append_decoding_uri(&dec, &ec) || dec.len != pre + (size_t)len || memcmp(dec.buffer + pre, in, (size_t)len)) FAIL("decode(encode(x)) != x (len %d, code %lu, %zu bytes before)", len, code, pre);
                for (size_t i = 0; i < pre && i < dec.len; i++) if (dec.buffer[i] != 'Q') FAIL("decode: earlier byte %zu changed", i);
                aws_byte_buf_clean_up(&dec);
            }
            aws_byte_buf_clean_up(&out);
        }
    }
}

/* the NULL/0 view (excluded from the contract units, see contracts/uri.h) */
static void run_null_view(void) {
    struct aws_byte_cursor nul = {0, NULL};
    for (int which = 0; which < 3; which++) for (size_t pre = 0; pre < 3; pre++) {
        struct aws_byte_buf b; aws_byte_buf_init(&b, A, 4); memset(b.buffer, 'P', 4); b.len = pre; g_cases++;
        int r = which == 0 ? aws_byte_buf_append_encoding_uri_path(&b, &nul) : which == 1 ? aws_byte_buf_append_encoding_uri_param(&b, &nul) : aws_byte_buf_append_decoding_uri(&b, &nul);
        if (r || b.len != pre || b.capacity != 4 || memcmp(b.buffer, "PPPP", 4)) FAIL("NULL/0 view: codec %d changed the buffer or failed", which);
        aws_byte_buf_clean_up(&b);
    }
}

int main(int argc, char **argv) {
    int thorough = argc > 2 && strcmp(argv[2], "thorough") == 0;
    A = aws_default_allocator();
    run_null_view();
    run_parse_cases(thorough);
    run_builder_cases(thorough);
    run_query_cases(thorough ? 8 : 6);
    run_codec_cases(thorough ? 5 : 4);
    if (g_qslash) { g_fails++; printf("FAIL authority not ended by the first '?': %lu texts with an empty path and a '/' inside the query are mis-parsed, e.g. \"%s\"\n", g_qslash, g_qslash_example); }
    printf("CASES %lu\n", g_cases);
    if (g_fails > 40) printf("FAIL ... and %lu more\n", g_fails - 40);
    return g_fails ? 1 : 0;
}
