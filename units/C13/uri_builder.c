/* Proof unit for C13: the URI builder (aws_uri_init_from_builder_options) with a query STRING (query_params == NULL).
 * What is decided: the size estimate covers every append for every combination of present/absent parts, i.e. the text
 * handed to the parser has exactly the length of the concatenation - no append (whose result the builder ignores) can fail
 * silently - and the result is that of the state machine on this text.  The re-parse is the contract of
 * s_init_from_uri_str (unit init_from_uri_str). */
#define VERIF_TRACK_ERRORS
#include "contracts/uri.h"
#include <stdio.h>
/* ASSUMED contract of snprintf(buf, 11, "%" PRIu32, port) (used as snprintf/uri_snprintf_contract): between 1 and 10
 * decimal digits (stated for one arbitrary position g_sw) and a terminating NUL.
 * WHICH digits is not modelled (the value round trip is exercised by the native unit). */
size_t g_port_digits;
int uri_snprintf_contract(char *s, size_t n, const char *fmt, ...)
__CPROVER_requires(n >= 11 && __CPROVER_w_ok(s, n))
__CPROVER_assigns(__CPROVER_object_upto(s, 11), g_port_digits)
__CPROVER_ensures(g_port_digits >= 1 && g_port_digits <= 10 && __CPROVER_return_value == (int)g_port_digits)
__CPROVER_ensures(s[g_port_digits] == 0)
__CPROVER_ensures(g_sw < g_port_digits ==> s[g_sw] >= '0' && s[g_sw] <= '9')
;
#include "source/byte_buf.c"
#include "source/uri.c"
#include "contracts/uri_parser.h"

#define B_SCHEME(o) ((o)->scheme.len ? (o)->scheme.len + 3 : (size_t)0)
#define B_PORT_EST(o) ((o)->port ? (size_t)11 : (size_t)0)
#define B_PORT(o) ((o)->port ? 1 + g_port_digits : (size_t)0)
#define B_QUERY(o) ((o)->query_string.len ? (o)->query_string.len + 1 : (size_t)0)
#define B_PART_OK(c) (((c).len == 0 && (c).ptr == NULL) || __CPROVER_is_fresh((c).ptr, (c).len))
#define B_SMALL ((size_t)1 << 40)
int aws_uri_init_from_builder_options(struct aws_uri *uri, struct aws_allocator *allocator, struct aws_uri_builder_options *options)
__CPROVER_requires(__CPROVER_is_fresh(uri, sizeof(*uri)) && allocator != NULL && __CPROVER_is_fresh(options, sizeof(*options)))
__CPROVER_requires(options->query_params == NULL)
__CPROVER_requires(B_PART_OK(options->scheme) && B_PART_OK(options->host_name) && B_PART_OK(options->path) && B_PART_OK(options->query_string))
/* tool limit (object sizes), not a property of the code */
__CPROVER_requires(options->scheme.len < B_SMALL && options->host_name.len < B_SMALL && options->path.len < B_SMALL && options->query_string.len < B_SMALL)
__CPROVER_requires(!g_mc_on)
__CPROVER_assigns(*uri, g_last_error, g_raise_count, g_mc_n, __CPROVER_object_whole(g_mc), g_pu.ptr, g_pu.len, g_pu.calls, g_port_digits)
__CPROVER_ensures(RET == AWS_OP_SUCCESS || RET == AWS_OP_ERR)
/* the text that was parsed is exactly as long as the concatenation of the parts: no append was refused */
__CPROVER_ensures(RET == AWS_OP_SUCCESS ==> uri->uri_str.len == B_SCHEME(options) + options->host_name.len + B_PORT(options) + options->path.len + B_QUERY(options))
/* and the estimate was not smaller */
__CPROVER_ensures(RET == AWS_OP_SUCCESS ==> uri->uri_str.capacity == B_SCHEME(options) + options->host_name.len + B_PORT_EST(options) + options->path.len + B_QUERY(options))
__CPROVER_ensures(RET == AWS_OP_SUCCESS ==> uri->self_size == sizeof(struct aws_uri) && uri->allocator == allocator && ALL_UVIEWS_IN(uri))
__CPROVER_ensures(RET == AWS_OP_ERR ==> ALL_UVIEWS_ZERO(uri) && uri->uri_str.buffer == NULL && uri->uri_str.len == 0)
;

void h_builder(void) {
    struct aws_uri *uri; struct aws_allocator *a; struct aws_uri_builder_options *o;
    GHOST_RESET(); g_mc_on = false; g_mc_n = 0; g_pu.calls = 0;
    int r = aws_uri_init_from_builder_options(uri, a, o);
    if (r == 0) CANARY("built and parsed"); else CANARY("malformed");
}
