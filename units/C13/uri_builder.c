/* Proof unit for C13: the URI builder (aws_uri_init_from_builder_options) with a query STRING (query_params == NULL).
 * What is decided: the size estimate covers every append for every combination of present/absent parts, i.e. the text
 * handed to the parser has exactly the length of the concatenation - no append (whose result the builder ignores) can fail
 * silently - and the result is that of the state machine on this text.  The re-parse is the contract of
 * s_init_from_uri_str (unit init_from_uri_str). */
#define VERIF_TRACK_ERRORS
#include "contracts/uri.h"
#include <stdio.h>
/* ASSUMED model of snprintf(buf, 11, "%" PRIu32, port): between 1 and 10 decimal digits and a terminating NUL.  WHICH
 * digits is not modelled (the value round trip is exercised by the native unit).  DFCC cannot instrument variadic
 * functions, so the one call in uri.c is redirected textually to this non-variadic model. */
size_t g_port_digits;
static int uri_port_to_text(char *s, size_t n, uint32_t port) {
    (void)port;
    __CPROVER_assert(n >= 11 && __CPROVER_w_ok(s, n), "snprintf: room for 10 digits and the NUL");
    size_t d = nondet_size_t();
    __CPROVER_assume(d >= 1 && d <= 10);
    for (size_t i = 0; i < 10; i++) {
        if (i < d) { char c; __CPROVER_assume(c >= '0' && c <= '9'); s[i] = c; }
    }
    s[d] = 0;
    g_port_digits = d;
    return (int)d;
}
#define snprintf(buf, n, fmt, val) uri_port_to_text((buf), (n), (val))
#include "source/byte_buf.c"
#include "source/uri.c"
#undef snprintf
#include "contracts/uri_parser.h"

#define B_SCHEME(o) ((o)->scheme.len ? (o)->scheme.len + 3 : (size_t)0)
#define B_PORT_EST(o) ((o)->port ? (size_t)11 : (size_t)0)
#define B_PORT(o) ((o)->port ? 1 + g_port_digits : (size_t)0)
#define B_QUERY(o) ((o)->query_string.len ? (o)->query_string.len + 1 : (size_t)0)
#define B_PART_OK(c) (((c).len == 0 && (c).ptr == NULL) || __CPROVER_is_fresh((c).ptr, (c).len))
#define B_SMALL ((size_t)1 << 40)
int aws_uri_init_from_builder_options(struct aws_uri *uri, struct aws_allocator *allocator, struct aws_uri_builder_options *options)
__CPROVER_requires(__CPROVER_is_fresh(uri, sizeof(*uri)) && allocator != NULL && __CPROVER_is_fresh(options, sizeof(*options)))
__CPROVER_requires(options->query_params == NULL)
__CPROVER_requires(B_PART_OK(options->scheme) && B_PART_OK(options->host_name) && B_PART_OK(options->path) && B_PART_OK(options->query_string))
/* tool limit (object sizes), not a property of the code */
__CPROVER_requires(options->scheme.len < B_SMALL && options->host_name.len < B_SMALL && options->path.len < B_SMALL && options->query_string.len < B_SMALL)
__CPROVER_requires(!g_mc_on)
__CPROVER_assigns(*uri, g_last_error, g_raise_count, g_mc_n, __CPROVER_object_whole(g_mc), g_pu.ptr, g_pu.len, g_pu.calls, g_port_digits)
__CPROVER_ensures(RET == AWS_OP_SUCCESS || RET == AWS_OP_ERR)
/* the text that was parsed is exactly as long as the concatenation of the parts: no append was refused */
__CPROVER_ensures(RET == AWS_OP_SUCCESS ==> uri->uri_str.len == B_SCHEME(options) + options->host_name.len + B_PORT(options) + options->path.len + B_QUERY(options))
/* and the estimate was not smaller */
__CPROVER_ensures(RET == AWS_OP_SUCCESS ==> uri->uri_str.capacity == B_SCHEME(options) + options->host_name.len + B_PORT_EST(options) + options->path.len + B_QUERY(options))
__CPROVER_ensures(RET == AWS_OP_SUCCESS ==> uri->self_size == sizeof(struct aws_uri) && uri->allocator == allocator && ALL_UVIEWS_IN(uri))
__CPROVER_ensures(RET == AWS_OP_ERR ==> ALL_UVIEWS_ZERO(uri) && uri->uri_str.buffer == NULL && uri->uri_str.len == 0)
;

void h_builder(void) {
    struct aws_uri *uri; struct aws_allocator *a; struct aws_uri_builder_options *o;
    GHOST_RESET(); g_mc_on = false; g_mc_n = 0; g_pu.calls = 0;
    int r = aws_uri_init_from_builder_options(uri, a, o);
    if (r == 0) CANARY("built and parsed"); else CANARY("malformed");
}
