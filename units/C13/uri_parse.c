/* Proof unit for C13/C04: the URI parser of the real source/uri.c under contract.
 * The state-function contracts need the private struct uri_parser, so contracts/uri_parser.h comes AFTER the source. */
#define VERIF_TRACK_ERRORS
#include "contracts/uri.h"
#include "source/byte_buf.c"
#include "source/uri.c"
#include "contracts/uri_parser.h"

#define GHOSTS_P() do { GHOST_RESET(); g_m = nondet_size_t(); g_pu_ok = nondet_bool(); g_pu_val = nondet_u64(); g_pu_calls = 0; } while (0)

void h_parse_scheme(void) {
    struct uri_parser *p; struct aws_byte_cursor *s;
    GHOSTS_P();
    s_parse_scheme(p, s);
    if (g_raise_count == 1) CANARY("malformed scheme"); else if (FIRST(':') == NONE) CANARY("no colon"); else CANARY("colon");
}
void h_parse_path(void) {
    struct uri_parser *p; struct aws_byte_cursor *s;
    GHOSTS_P();
    s_parse_path(p, s);
    if (FIRST('?') == NONE) CANARY("path only"); else CANARY("path then query");
}
void h_parse_query(void) {
    struct uri_parser *p; struct aws_byte_cursor *s;
    GHOSTS_P();
    s_parse_query_string(p, s);
    CANARY("returned");
}
void h_parse_authority(void) {
    struct uri_parser *p; struct aws_byte_cursor *s;
    GHOSTS_P();
    s_parse_authority(p, s);
    if (g_raise_count > 0) { if (g_pu_calls == 1) CANARY("bad port"); else CANARY("malformed"); }
    else if (g_pu_calls == 1) CANARY("port parsed");
    else CANARY("no port text");
}
