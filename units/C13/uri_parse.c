/* Proof unit for C13/C04: the URI parser of the real source/uri.c under contract.
 * The state-function contracts need the private struct uri_parser, so contracts/uri_parser.h comes AFTER the source. */
#define VERIF_TRACK_ERRORS
#define VERIF_URI_MEMCHR_MODEL
#include "contracts/uri.h"
#include "source/byte_buf.c"
#include "source/uri.c"
#include "contracts/uri_parser.h"

#define GHOSTS_P() do { GHOST_RESET(); g_mc_on = true; g_mc_n = 0; g_pu.ok = nondet_bool(); g_pu.val = nondet_u64(); g_pu.calls = 0; } while (0)

void h_parse_scheme(void) {
    struct uri_parser *p; struct aws_byte_cursor *s;
    GHOSTS_P();
    s_parse_scheme(p, s);
    if (g_raise_count == 1) CANARY("malformed scheme"); else if (MC(0) == NONE) CANARY("no colon"); else CANARY("colon");
}
void h_parse_path(void) {
    struct uri_parser *p; struct aws_byte_cursor *s;
    GHOSTS_P();
    s_parse_path(p, s);
    if (MC(0) == NONE) CANARY("path only"); else CANARY("path then query");
}
void h_parse_query(void) {
    struct uri_parser *p; struct aws_byte_cursor *s;
    GHOSTS_P();
    s_parse_query_string(p, s);
    CANARY("returned");
}
void h_parse_authority(void) {
    struct uri_parser *p; struct aws_byte_cursor *s;
    GHOSTS_P();
    s_parse_authority(p, s);
    if (g_raise_count > 0) { if (g_pu.calls == 1) CANARY("bad port"); else CANARY("malformed"); }
    else if (g_pu.calls == 1) CANARY("port parsed");
    else CANARY("no port text");
}

/* ------------------------------------------------------------------ exact specification of s_parse_authority.
 * Harness-evaluated (locals), equivalent to a contract: arbitrary text of arbitrary length, arbitrary prior contents of the
 * aws_uri; the searches are answered by the memchr model (any first-occurrence results), the port value by the ghost
 * outcome g_pu.  Every component is checked against the search results it must follow from, in both directions. */
#define VIEW_EQ(v, off, n) ((v).ptr == text + (off) && (v).len == (n))
#define VIEW_KEPT(f) (u.f.ptr == u0.f.ptr && u.f.len == u0.f.len)
#define SEARCH_IS(k, ch, off, n) (g_mc[k].c == (ch) && g_mc[k].s == text + (off) && g_mc[k].len == (n))
#define CHECK(cond, msg) __CPROVER_assert(cond, msg)
/* replay variables (DESIGN 3.5): length of the text, the logged searches (character, result) and the ghost outcome of the
 * number parser; plain copies made right after the call, read back from the counterexample trace and handed to
 * replay/uri_replay.c (which rebuilds a text with exactly these first occurrences); no part in any obligation */
size_t r_n, r_mcn, r_mcr0, r_mcr1, r_mcr2, r_mcr3, r_mcr4, r_mcr5;
uint8_t r_mcc0, r_mcc1, r_mcc2, r_mcc3, r_mcc4, r_mcc5;
bool r_pu_ok;
uint64_t r_pu_val;
void h_parse_authority_exact(void) {
    GHOSTS_P();
    size_t n = nondet_size_t();
    __CPROVER_assume(n < VERIF_HUGE);
    uint8_t *text = n ? malloc(n) : NULL;
    __CPROVER_assume(n == 0 || text != NULL);
    struct aws_uri u;
    struct aws_uri u0 = u;
    struct uri_parser p;
    p.uri = &u;
    p.state = ON_AUTHORITY;
    struct aws_byte_cursor str = {.len = n, .ptr = text};
    int raise0 = g_raise_count;

    s_parse_authority(&p, &str);

    r_n = n; r_mcn = g_mc_n; r_pu_ok = g_pu.ok; r_pu_val = g_pu.val;
    r_mcc0 = g_mc[0].c; r_mcr0 = g_mc[0].res; r_mcc1 = g_mc[1].c; r_mcr1 = g_mc[1].res; r_mcc2 = g_mc[2].c; r_mcr2 = g_mc[2].res;
    r_mcc3 = g_mc[3].c; r_mcr3 = g_mc[3].res; r_mcc4 = g_mc[4].c; r_mcr4 = g_mc[4].res; r_mcc5 = g_mc[5].c; r_mcr5 = g_mc[5].res;
    int raised = g_raise_count - raise0;
    bool err = p.state == ERROR;
    /* frame: nothing but the authority-related fields */
    CHECK(p.uri == &u && u.self_size == u0.self_size && u.allocator == u0.allocator && u.uri_str.buffer == u0.uri_str.buffer &&
          u.uri_str.len == u0.uri_str.len && u.uri_str.capacity == u0.uri_str.capacity && u.uri_str.allocator == u0.uri_str.allocator &&
          VIEW_KEPT(scheme) && VIEW_KEPT(query_string), "frame: scheme, query string, uri_str and header fields untouched");
    CHECK(err ? (raised >= 1 && g_last_error == AWS_ERROR_MALFORMED_INPUT_STRING) : raised == 0, "ERROR state <=> MALFORMED_INPUT_STRING raised");
    CHECK(g_mc_n >= 2 && SEARCH_IS(0, '/', 0, n) && SEARCH_IS(1, '?', 0, n), "first '/' and first '?' searched over the whole remaining text");
    size_t SL = g_mc[0].res, QM = g_mc[1].res;
    if (n == 0) {
        CHECK(err && raised == 1 && g_mc_n == 2, "empty text is MALFORMED");
        CHECK(str.ptr == text && str.len == 0 && VIEW_KEPT(authority) && VIEW_KEPT(userinfo) && VIEW_KEPT(user) && VIEW_KEPT(password) &&
              VIEW_KEPT(host_name) && VIEW_KEPT(path) && VIEW_KEPT(path_and_query) && u.port == u0.port, "empty text: nothing stored");
        CANARY("empty");
        return;
    }
    size_t A = u.authority.len;
    bool slash_first = SL != NONE && (QM == NONE || SL < QM);
    CHECK(u.authority.ptr == text && A == (slash_first ? SL : (QM != NONE ? QM : n)), "authority = text up to the first '/' or '?', whichever comes first, else all of it");
    CHECK((QM == NONE || A <= QM) && (SL == NONE || A <= SL), "RFC 3986 3.2: a '?' before the first '/' terminates the authority (query without path)");
    CHECK(str.ptr == text + A && str.len == n - A, "cursor advanced by exactly the authority");
    if (A == n) {
        CHECK(u.path.ptr == NULL && u.path.len == 0 && u.path_and_query.ptr == NULL && u.path_and_query.len == 0, "no path: path views reset to NULL/0");
    } else {
        CHECK(VIEW_KEPT(path) && VIEW_KEPT(path_and_query), "path views left to the later states");
    }
    CHECK(err || p.state == (A == n ? FINISHED : (slash_first ? ON_PATH : ON_QUERY_STRING)), "next state follows the delimiter found");
    if (A == 0) {
        CHECK(g_mc_n == 2 && !err && VIEW_KEPT(userinfo) && VIEW_KEPT(user) && VIEW_KEPT(password) && VIEW_KEPT(host_name) && u.port == u0.port,
              "empty authority: user-info, host and port untouched, no error");
        CANARY("empty authority");
        return;
    }
    /* user-info */
    CHECK(g_mc_n >= 3 && SEARCH_IS(2, '@', 0, A), "first '@' searched over the authority");
    size_t AT = g_mc[2].res;
    size_t K = 3;
    if (AT == NONE) {
        CHECK(VIEW_KEPT(userinfo) && VIEW_KEPT(user) && VIEW_KEPT(password), "no '@': user-info views untouched");
    } else {
        CHECK(g_mc_n >= 4 && SEARCH_IS(3, ':', 0, AT), "first ':' searched over the user-info");
        size_t UC = g_mc[3].res;
        K = 4;
        CHECK(VIEW_EQ(u.userinfo, 0, AT), "user-info = authority up to the first '@'");
        CHECK(VIEW_EQ(u.user, 0, UC == NONE ? AT : UC), "user = user-info up to its first ':'");
        CHECK(UC == NONE ? VIEW_KEPT(password) : VIEW_EQ(u.password, UC + 1, AT - UC - 1), "password = user-info after its first ':'");
    }
    size_t R0 = AT == NONE ? 0 : AT + 1; /* host[:port] = text[R0, A) */
    size_t RL = A - R0;
    bool v6 = RL > 0 && text[R0] == '[';
    size_t PS = R0, BR = NONE;
    if (v6) {
        CHECK(g_mc_n >= K + 1 && SEARCH_IS(K, ']', R0, RL), "bracketed host: first ']' searched over host[:port]");
        BR = g_mc[K].res;
        if (BR == NONE) {
            CHECK(g_mc_n == K + 1 && err && raised == 1 && VIEW_KEPT(host_name) && u.port == u0.port && g_pu.calls == 0, "'[' without ']' is MALFORMED; host and port untouched");
            CANARY("unclosed bracket");
            return;
        }
        PS = R0 + BR;
        K = K + 1;
    }
    CHECK(g_mc_n == K + 1 && SEARCH_IS(K, ':', PS, A - PS), "port delimiter: first ':' of host[:port], from the closing bracket on for a bracketed host");
    size_t PC = g_mc[K].res;
    if (PC == NONE) {
        CHECK(u.port == 0 && !err && g_pu.calls == 0, "no ':' => port 0, no error");
        if (!v6) CHECK(VIEW_EQ(u.host_name, R0, RL), "host = all of host[:port]");
        else if (BR == RL - 1) CHECK(VIEW_EQ(u.host_name, R0 + 1, RL - 2), "bracketed host = text between the brackets");
        if (v6) CANARY("bracketed host without port"); else CANARY("host without port");
        return;
    }
    size_t PCA = PS + PC; /* index of the port delimiter */
    if (!v6) CHECK(VIEW_EQ(u.host_name, R0, PCA - R0), "host = host[:port] up to the first ':'");
    else if (PC == 1) CHECK(VIEW_EQ(u.host_name, R0 + 1, BR - 1), "bracketed host = text between the brackets");
    size_t PL = A - PCA - 1;
    if (PL == 0) {
        CHECK(u.port == 0 && !err && g_pu.calls == 0, "empty port text => port 0, no error, number parser not called");
        CANARY("empty port");
        return;
    }
    CHECK(g_pu.calls == 1 && g_pu.ptr == text + PCA + 1 && g_pu.len == PL, "number parser called once on exactly the text after the port delimiter");
    if (g_pu.ok && g_pu.val <= UINT32_MAX) {
        CHECK(u.port == (uint32_t)g_pu.val && !err, "port = parsed value");
        if (v6) CANARY("bracketed host with port"); else CANARY("host with port");
    } else {
        CHECK(err && u.port == u0.port && raised == (g_pu.ok ? 1 : 2), "unparsable port or port > 2^32-1 is MALFORMED; port untouched");
        if (g_pu.ok) CANARY("port too large"); else CANARY("port not a number");
    }
}

/* ------------------------------------------------------------------ the state machine (state functions replaced by their contracts) */
void h_init_from_uri_str(void) {
    struct aws_uri *uri;
    GHOST_RESET(); g_mc_on = false; g_mc_n = 0; g_pu.ok = nondet_bool(); g_pu.val = nondet_u64(); g_pu.calls = 0;
    /* DFCC leaves every mutable static nondeterministic: the dispatch table of uri.c is written by nobody (assumption) */
    s_states[ON_SCHEME] = s_parse_scheme; s_states[ON_AUTHORITY] = s_parse_authority; s_states[ON_PATH] = s_parse_path; s_states[ON_QUERY_STRING] = s_parse_query_string;
    int r = s_init_from_uri_str(uri);
    if (r == 0) CANARY("parsed"); else CANARY("malformed");
}
void h_init_parse(void) {
    struct aws_uri *uri; struct aws_allocator *a; const struct aws_byte_cursor *text;
    GHOST_RESET(); g_mc_on = false; g_mc_n = 0; g_pu.calls = 0;
    g_on = true; g_j = nondet_size_t(); g_src = nondet_u8(); g_k = nondet_size_t(); g_old = nondet_u8();
    s_states[ON_SCHEME] = s_parse_scheme; s_states[ON_AUTHORITY] = s_parse_authority; s_states[ON_PATH] = s_parse_path; s_states[ON_QUERY_STRING] = s_parse_query_string;
    int r = aws_uri_init_parse(uri, a, text);
    if (r == 0) CANARY("parsed"); else CANARY("malformed");
}
