/* C17 native bounded stand-in (never counted as proved): the REAL tracer (source/memtrace.c) over the REAL hash table,
 * priority queue and allocator entry points, driven through the PUBLIC api (aws_mem_acquire/calloc/realloc/release on
 * the tracing allocator) with seeded pseudo-random histories, against a reference list of live blocks:
 *   after every operation   aws_mem_tracer_bytes == sum of requested sizes of live blocks,  aws_mem_tracer_count == their
 *   number (0 / 0 at level NONE and after everything is released);  contents survive realloc up to min(old,new);
 *   calloc memory is zero;  aws_mem_tracer_dump changes neither number (with a log sink that formats every line).
 * Quantified over (bounded): levels NONE/BYTES/STACKS x frames_per_stack {0,1,2,3,8,200} x backtrace depths 1..fps+2 (own
 * aws_backtrace so that the "fewer frames than skipped" cases occur) x 4 wrapped-allocator shapes (with/without
 * mem_realloc / mem_calloc, realloc moving always or only when growing) x histories of 400 operations over <= 24 live
 * blocks, realloc growing / shrinking / same size / to zero / from NULL.  Plus a 4-thread run on one tracer (each thread
 * its own blocks; schedule left to the OS: a smoke test, NOT a proof about interleavings).
 * Output: "CASES n", "FAIL ..." lines; exit 1 on any FAIL.  Built with ASan + UBSan. */
#include <aws/common/allocator.h>
#include <aws/common/logging.h>
#include <aws/common/system_info.h>

#include <pthread.h>
#include <stdarg.h>
#include <stdio.h>
#include <stdlib.h>
#include <string.h>

static unsigned long long s_cases;
static int s_failed;
#define CHECK(c, ...)                                                                                                  \
    do {                                                                                                               \
        __atomic_fetch_add(&s_cases, 1, __ATOMIC_RELAXED);                                                             \
        if (!(c)) {                                                                                                    \
            s_failed = 1;                                                                                              \
            printf("FAIL " __VA_ARGS__);                                                                               \
            printf("\n");                                                                                              \
        }                                                                                                              \
    } while (0)

/* ---- pieces of the library this unit replaces (platform / process-global services) ---- */
void aws_secure_zero(void *p, size_t n) {
    if (p && n) {
        memset(p, 0, n);
    }
}
void aws_fatal_assert(const char *cond, const char *file, int line) {
    printf("FAIL fatal assert %s at %s:%d\n", cond, file, line);
    fflush(stdout);
    abort();
}
long (*g_numa_num_configured_nodes_ptr)(void) = NULL;
int (*g_numa_node_of_cpu_ptr)(int cpu) = NULL;

/* scripted backtrace: depth and the identity of the "call site" are chosen by the test */
static __thread size_t t_bt_depth = 5;
static __thread uintptr_t t_bt_site = 1;
static int s_bt_available = 1;
size_t aws_backtrace(void **frames, size_t num) {
    if (!s_bt_available) {
        return 0;
    }
    size_t n = t_bt_depth < num ? t_bt_depth : num;
    for (size_t i = 0; i < n; i++) {
        frames[i] = (void *)(0x10000 * t_bt_site + 16 * i + 8);
    }
    return n;
}
char **aws_backtrace_symbols(void *const *frames, size_t depth) {
    /* one block: pointer array followed by the strings (released by the caller with the default allocator) */
    size_t bytes = depth * sizeof(char *) + depth * 32 + 1;
    char **arr = aws_mem_calloc(aws_default_allocator(), 1, bytes);
    char *text = (char *)(arr + depth);
    for (size_t i = 0; i < depth; i++) {
        arr[i] = text + 32 * i;
        snprintf(arr[i], 32, "frame_%p", frames[i]);
    }
    return arr;
}

/* log sink that really formats (so the arguments the dump passes are exercised) */
static size_t s_log_lines;
static int s_log(struct aws_logger *l, enum aws_log_level lv, aws_log_subject_t s, const char *fmt, ...) {
    (void)l; (void)lv; (void)s;
    char buf[8192];
    va_list ap;
    va_start(ap, fmt);
    vsnprintf(buf, sizeof(buf), fmt, ap);
    va_end(ap);
    __atomic_fetch_add(&s_log_lines, 1, __ATOMIC_RELAXED);
    return AWS_OP_SUCCESS;
}
static enum aws_log_level s_level(struct aws_logger *l, aws_log_subject_t s) {
    (void)l; (void)s;
    return AWS_LL_TRACE;
}
static void s_log_clean(struct aws_logger *l) { (void)l; }
static struct aws_logger_vtable s_log_vt = {.log = s_log, .get_log_level = s_level, .clean_up = s_log_clean};
static struct aws_logger s_logger = {.vtable = &s_log_vt};
static int s_logger_on = 1;
struct aws_logger *aws_logger_get(void) { return s_logger_on ? &s_logger : NULL; }

/* ---- the wrapped allocator: checks what the tracer hands down ---- */
struct blk_hdr {
    size_t size;
    unsigned long long magic;
};
#define MAGIC 0xC17C17C17C17ULL
static size_t s_inner_live, s_inner_bytes;
static int s_moves_always;
static void *w_acquire(struct aws_allocator *a, size_t n) {
    (void)a;
    struct blk_hdr *h = malloc(sizeof(*h) + n);
    h->size = n;
    h->magic = MAGIC;
    memset(h + 1, 0xEE, n);
    __atomic_fetch_add(&s_inner_live, 1, __ATOMIC_SEQ_CST);
    __atomic_fetch_add(&s_inner_bytes, n, __ATOMIC_SEQ_CST);
    return h + 1;
}
static void w_release(struct aws_allocator *a, void *p) {
    (void)a;
    struct blk_hdr *h = (struct blk_hdr *)p - 1;
    CHECK(h->magic == MAGIC, "wrapped allocator got a pointer it never handed out (%p)", p);
    h->magic = 0;
    __atomic_fetch_sub(&s_inner_live, 1, __ATOMIC_SEQ_CST);
    __atomic_fetch_sub(&s_inner_bytes, h->size, __ATOMIC_SEQ_CST);
    free(h);
}
static void *w_calloc(struct aws_allocator *a, size_t n, size_t m) {
    void *p = w_acquire(a, n * m);
    memset(p, 0, n * m);
    return p;
}
static void *w_realloc(struct aws_allocator *a, void *p, size_t o, size_t n) {
    if (p == NULL) {
        return w_acquire(a, n);
    }
    struct blk_hdr *h = (struct blk_hdr *)p - 1;
    CHECK(h->magic == MAGIC, "wrapped realloc got a foreign pointer");
    CHECK(h->size == o, "wrapped realloc: old size %zu passed down, block has %zu", o, h->size);
    if (n <= o && !s_moves_always) {
        __atomic_fetch_sub(&s_inner_bytes, o - n, __ATOMIC_SEQ_CST);
        h->size = n;
        return p;
    }
    void *q = w_acquire(a, n);
    memcpy(q, p, o < n ? o : n);
    w_release(a, p);
    return q;
}
static struct aws_allocator s_wrapped;
static void set_wrapped(int shape) {
    memset(&s_wrapped, 0, sizeof(s_wrapped));
    s_wrapped.mem_acquire = w_acquire;
    s_wrapped.mem_release = w_release;
    s_wrapped.mem_realloc = (shape & 1) ? w_realloc : NULL;
    s_wrapped.mem_calloc = (shape & 2) ? w_calloc : NULL;
    s_moves_always = (shape & 4) != 0;
}

/* ---- pseudo-random source ---- */
static unsigned long long rnd_next(unsigned long long *s) {
    *s ^= *s << 13;
    *s ^= *s >> 7;
    *s ^= *s << 17;
    return *s;
}

/* ---- reference model ---- */
#define MAXLIVE 24
struct live {
    unsigned char *p;
    size_t size;
    unsigned char tag;
};
struct model {
    struct live v[MAXLIVE];
    size_t n;
};
static size_t model_bytes(const struct model *m) {
    size_t s = 0;
    for (size_t i = 0; i < m->n; i++) s += m->v[i].size;
    return s;
}
static void fill(struct live *l) { memset(l->p, l->tag, l->size); }
static int intact(const struct live *l, size_t upto) {
    for (size_t i = 0; i < upto; i++)
        if (l->p[i] != l->tag) return 0;
    return 1;
}

static const char *s_ctx = "";
static void check_numbers(struct aws_allocator *t, int traced, const struct model *m, const char *after, unsigned long long step) {
    size_t eb = traced ? model_bytes(m) : 0, ec = traced ? m->n : 0;
    size_t b = aws_mem_tracer_bytes(t), c = aws_mem_tracer_count(t);
    CHECK(b == eb, "[%s step %llu] after %s: bytes reported %zu, live blocks sum to %zu", s_ctx, step, after, b, eb);
    CHECK(c == ec, "[%s step %llu] after %s: count reported %zu, live blocks %zu", s_ctx, step, after, c, ec);
}

static void history(struct aws_allocator *t, int traced, size_t fps_eff, unsigned long long seed, int steps, struct model *m, int check_each) {
    unsigned long long s = seed * 0x9E3779B97F4A7C15ULL + 1;
    static const size_t sizes[] = {1, 2, 7, 8, 24, 40, 41, 100, 300, 4096};
    for (int k = 0; k < steps; k++) {
        unsigned long long r = rnd_next(&s);
        unsigned op = (unsigned)(r % 16);
        size_t sz = sizes[(r >> 8) % 10];
        t_bt_depth = 1 + (size_t)((r >> 16) % (fps_eff + 3));
        t_bt_site = 1 + (uintptr_t)((r >> 24) % 5);
        const char *what = "";
        if ((op < 4 || m->n == 0) && m->n < MAXLIVE) {
            struct live *l = &m->v[m->n];
            l->size = sz;
            l->tag = (unsigned char)(r >> 32);
            if (op & 1) {
                l->p = aws_mem_acquire(t, sz);
                what = "acquire";
            } else {
                size_t num = (sz % 8 == 0) ? 8 : 1;
                l->p = aws_mem_calloc(t, num, sz / num);
                int zero = 1;
                for (size_t i = 0; i < sz; i++) zero &= (l->p[i] == 0);
                CHECK(zero, "[%s step %d] calloc(%zu,%zu) memory not zero", s_ctx, k, num, sz / num);
                what = "calloc";
            }
            fill(l);
            m->n++;
        } else if (op < 7 && m->n > 0) {
            size_t i = (r >> 40) % m->n;
            CHECK(intact(&m->v[i], m->v[i].size), "[%s step %d] block contents changed before release", s_ctx, k);
            aws_mem_release(t, m->v[i].p);
            m->v[i] = m->v[--m->n];
            what = "release";
        } else if (op < 14 && m->n > 0) {
            size_t i = (r >> 40) % m->n;
            struct live *l = &m->v[i];
            size_t old = l->size, nw;
            switch ((r >> 48) % 6) {
                case 0: nw = old; break;
                case 1: nw = old + 1; break;
                case 2: nw = old > 1 ? old - 1 : 1; break;
                case 3: nw = old / 2 ? old / 2 : 1; break;
                case 4: nw = 0; break;
                default: nw = sz; break;
            }
            void *p = l->p;
            int rc = aws_mem_realloc(t, &p, old, nw);
            CHECK(rc == AWS_OP_SUCCESS, "[%s step %d] realloc failed", s_ctx, k);
            what = nw == 0 ? "realloc to zero" : nw > old ? "realloc grow" : nw < old ? "realloc shrink" : "realloc same";
            if (nw == 0) {
                CHECK(p == NULL, "[%s step %d] realloc to zero left a pointer", s_ctx, k);
                m->v[i] = m->v[--m->n];
            } else {
                l->p = p;
                CHECK(intact(l, old < nw ? old : nw), "[%s step %d] %s %zu -> %zu lost contents", s_ctx, k, what, old, nw);
                l->size = nw;
                fill(l);
            }
        } else if (op == 14 && m->n < MAXLIVE) {
            void *p = NULL; /* realloc from nothing */
            int rc = aws_mem_realloc(t, &p, 0, sz);
            CHECK(rc == AWS_OP_SUCCESS && p != NULL, "[%s step %d] realloc from NULL failed", s_ctx, k);
            struct live *l = &m->v[m->n++];
            l->p = p;
            l->size = sz;
            l->tag = (unsigned char)(r >> 32);
            fill(l);
            what = "realloc from NULL";
        } else {
            size_t b0 = aws_mem_tracer_bytes(t), c0 = aws_mem_tracer_count(t);
            aws_mem_tracer_dump(t);
            if (check_each) { /* single-threaded runs only: other threads move the numbers meanwhile */
                CHECK(aws_mem_tracer_bytes(t) == b0 && aws_mem_tracer_count(t) == c0, "[%s step %d] dump changed the accounting", s_ctx, k);
            }
            what = "dump";
        }
        if (check_each) {
            check_numbers(t, traced, m, what, (unsigned long long)k);
        }
    }
}

static void drain(struct aws_allocator *t, struct model *m) {
    while (m->n) {
        CHECK(intact(&m->v[m->n - 1], m->v[m->n - 1].size), "[%s] contents changed before final release", s_ctx);
        aws_mem_release(t, m->v[--m->n].p);
    }
}

static void run_config(enum aws_mem_trace_level level, size_t fps, int shape, unsigned long long seed, int steps) {
    static char ctx[128];
    snprintf(ctx, sizeof(ctx), "level=%d fps=%zu shape=%d bt=%d seed=%llu", (int)level, fps, shape, s_bt_available, seed);
    s_ctx = ctx;
    set_wrapped(shape);
    size_t live0 = s_inner_live;
    struct aws_allocator *t = aws_mem_tracer_new(&s_wrapped, NULL, level, fps);
    int traced = level != AWS_MEMTRACE_NONE;
    size_t fps_eff = fps == 0 ? 8 : fps > 128 ? 128 : fps;
    struct model m;
    m.n = 0;
    check_numbers(t, traced, &m, "new", 0);
    history(t, traced, fps_eff, seed, steps, &m, 1);
    CHECK(s_inner_live - live0 == m.n, "[%s] wrapped allocator has %zu live blocks, model %zu", s_ctx, s_inner_live - live0, m.n);
    drain(t, &m);
    check_numbers(t, traced, &m, "releasing everything", (unsigned long long)steps);
    CHECK(s_inner_live == live0, "[%s] wrapped allocator still has %zu blocks after everything was released", s_ctx, s_inner_live - live0);
    aws_mem_tracer_dump(t);
    struct aws_allocator *back = aws_mem_tracer_destroy(t);
    CHECK(back == &s_wrapped, "[%s] destroy did not hand back the wrapped allocator", s_ctx);
}

/* ---- several threads on one tracer ---- */
struct targ {
    struct aws_allocator *t;
    unsigned long long seed;
    int steps;
    struct model m;
};
static void *thread_main(void *a) {
    struct targ *x = a;
    history(x->t, 1, 3, x->seed, x->steps, &x->m, 0);
    return NULL;
}
static void run_threads(enum aws_mem_trace_level level, unsigned long long seed, int steps) {
    static char ctx[96];
    snprintf(ctx, sizeof(ctx), "threads level=%d seed=%llu", (int)level, seed);
    s_ctx = ctx;
    set_wrapped(3);
    struct aws_allocator *t = aws_mem_tracer_new(&s_wrapped, NULL, level, 3);
    enum { NT = 4 };
    static struct targ args[NT];
    pthread_t th[NT];
    for (int i = 0; i < NT; i++) {
        args[i].t = t;
        args[i].seed = seed * 31 + (unsigned long long)i;
        args[i].steps = steps;
        args[i].m.n = 0;
        pthread_create(&th[i], NULL, thread_main, &args[i]);
    }
    size_t sum = 0, cnt = 0;
    for (int i = 0; i < NT; i++) {
        pthread_join(th[i], NULL);
        sum += model_bytes(&args[i].m);
        cnt += args[i].m.n;
    }
    CHECK(aws_mem_tracer_bytes(t) == sum, "[%s] bytes %zu after join, live blocks sum to %zu", s_ctx, aws_mem_tracer_bytes(t), sum);
    CHECK(aws_mem_tracer_count(t) == cnt, "[%s] count %zu after join, live blocks %zu", s_ctx, aws_mem_tracer_count(t), cnt);
    for (int i = 0; i < NT; i++) drain(t, &args[i].m);
    CHECK(aws_mem_tracer_bytes(t) == 0 && aws_mem_tracer_count(t) == 0, "[%s] not zero after releasing everything", s_ctx);
    aws_mem_tracer_destroy(t);
}

int main(int argc, char **argv) {
    unsigned long long seed = argc > 1 ? strtoull(argv[1], NULL, 10) : 1;
    int thorough = argc > 2 && strcmp(argv[2], "thorough") == 0;
    int steps = 400, reps = thorough ? 12 : 2;
    static const size_t fpss[] = {0, 1, 2, 3, 8, 200};
    static const int shapes[] = {0, 1, 3, 7}; /* emulated realloc+calloc / realloc only / both / both, realloc always moves */
    for (int rep = 0; rep < reps; rep++) {
        for (int lv = 0; lv <= 2; lv++) {
            for (size_t f = 0; f < sizeof(fpss) / sizeof(fpss[0]); f++) {
                if (lv != 2 && f > 1) continue; /* depth matters at level STACKS only */
                for (size_t sh = 0; sh < 4; sh++) {
                    s_logger_on = (rep + (int)sh) % 2 == 0;
                    run_config((enum aws_mem_trace_level)lv, fpss[f], shapes[sh], seed + 1000ULL * (unsigned)rep + 17ULL * f + sh, steps);
                }
            }
        }
    }
    /* platform without backtrace: STACKS degrades to BYTES */
    s_bt_available = 0;
    run_config(AWS_MEMTRACE_STACKS, 4, 3, seed + 5, steps);
    s_bt_available = 1;
    s_logger_on = 1;
    for (int rep = 0; rep < (thorough ? 20 : 4); rep++) {
        run_threads(rep % 2 ? AWS_MEMTRACE_STACKS : AWS_MEMTRACE_BYTES, seed + (unsigned)rep, 300);
    }
    printf("CASES %llu\n", s_cases);
    printf("log lines formatted: %zu\n", s_log_lines);
    return s_failed ? 1 : 0;
}
