/* Proof unit for aws_mem_tracer_new (C17).  aws_mem_acquire_many is variadic: a variadic function cannot carry a
 * contract, and its real body (va_arg over a symbolic-looking argument block) makes the SAT back end run out of memory
 * (16 GB) even for this two-block call.  The call is therefore redirected, by a function-like macro that is defined
 * AFTER the library headers and BEFORE the real source/memtrace.c, to a fixed-arity declaration with the same argument
 * list, which carries the ASSUMED contract of aws_mem_acquire_many for two blocks (one allocation, second block behind
 * the first at the next multiple of sizeof(intmax_t)).  Everything else is the real code. */
#include "contracts/memtrace.h"

void aws_fatal_assert(const char *cond_str, const char *file, int line) {
    (void)cond_str; (void)file; (void)line;
    __CPROVER_assert(0, "aws_fatal_assert reached: the tracer would abort");
    __CPROVER_assume(0);
}

#define MT_ROUND8(n) (((n) + 7) & ~(size_t)7)
void *mt_acquire_many2(struct aws_allocator *allocator, size_t count, void **p1, size_t s1, void **p2, size_t s2)
__CPROVER_requires(allocator != NULL && count == 2)
__CPROVER_requires(s1 > 0 && s2 > 0 && s1 < ((size_t)1 << 32) && s2 < ((size_t)1 << 32))
__CPROVER_requires(__CPROVER_w_ok(p1, sizeof(*p1)) && __CPROVER_w_ok(p2, sizeof(*p2)))
__CPROVER_assigns(*p1, *p2)
__CPROVER_ensures(__CPROVER_is_fresh(*p1, MT_ROUND8(s1) + MT_ROUND8(s2)))
__CPROVER_ensures(__CPROVER_pointer_equals(*p2, (uint8_t *)*p1 + MT_ROUND8(s1)))
__CPROVER_ensures(__CPROVER_pointer_equals(__CPROVER_return_value, *p1))
;
#define aws_mem_acquire_many(a, n, p1, s1, p2, s2) mt_acquire_many2((a), (n), (void **)(p1), (s1), (void **)(p2), (s2))

#include "source/memtrace.c"
#include "contracts/memtrace_impl.h"

void h_new(void) {
    struct aws_allocator *inner = nondet_ptr();
    enum aws_mem_trace_level level = (enum aws_mem_trace_level)(nondet_u8() % 3);
    size_t fps = nondet_size_t();
    MT_GHOST_RESET();
    g_mt_key = nondet_ptr();
    /* DFCC starts every mutable static with an arbitrary value; the template vtable is file-local and never written by
     * source/memtrace.c, so it has its initialiser's value whenever aws_mem_tracer_new runs */
    s_trace_allocator.mem_acquire = s_trace_mem_acquire;
    s_trace_allocator.mem_release = s_trace_mem_release;
    s_trace_allocator.mem_realloc = s_trace_mem_realloc;
    s_trace_allocator.mem_calloc = s_trace_mem_calloc;
    s_trace_allocator.impl = NULL;
    struct aws_allocator *ta = aws_mem_tracer_new(inner, nondet_ptr(), level, fps);
    __CPROVER_assert(ta != NULL && __CPROVER_rw_ok(ta, sizeof(*ta)), "new: a usable allocator object");
    __CPROVER_assert(ta->mem_acquire == s_trace_mem_acquire && ta->mem_release == s_trace_mem_release &&
                     ta->mem_realloc == s_trace_mem_realloc && ta->mem_calloc == s_trace_mem_calloc,
                     "new: vtable is the tracing one");
    struct alloc_tracer *tr = ta->impl;
    __CPROVER_assert(tr != NULL && __CPROVER_rw_ok(tr, sizeof(*tr)), "new: impl is a tracer object");
    __CPROVER_assert(__CPROVER_POINTER_OFFSET(tr) == 0, "new: tracer is the start of the block (destroy releases it)");
    __CPROVER_assert(__CPROVER_same_object(tr, ta) && __CPROVER_POINTER_OFFSET(ta) >= sizeof(struct alloc_tracer),
                     "new: allocator object lies behind the tracer");
    __CPROVER_assert(tr->traced_allocator == inner, "new: wraps the given allocator");
    __CPROVER_assert(tr->level == ((level == AWS_MEMTRACE_STACKS && !g_mt_bt_avail) ? AWS_MEMTRACE_BYTES : level),
                     "new: level as requested (STACKS clamped without backtrace)");
    if (tr->level != AWS_MEMTRACE_NONE) {
        __CPROVER_assert(MT_ALLOCATED(tr) == 0 && g_mt_sum == 0 && g_mt_count == 0 && !g_mt_present,
                         "new: nothing outstanding, table empty");
        __CPROVER_assert(g_mt_allocs == &tr->allocs && g_mt_mutex == &tr->mutex, "new: tables registered");
        CANARY("new: traced");
    } else {
        CANARY("new: level NONE");
    }
    if (tr->level == AWS_MEMTRACE_STACKS) {
        __CPROVER_assert(tr->frames_per_stack >= 1 && tr->frames_per_stack <= 128 && g_mt_stacks == &tr->stacks, "new: depth 1..128");
        CANARY("new: level STACKS");
    }
}
