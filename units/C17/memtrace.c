/* Proof unit for C17: the real source/memtrace.c between its two contract headers, plus harnesses.
 * aws_fatal_assert is an assert(0) stub: a reachable AWS_FATAL_ASSERT is a failed obligation (the tracer never aborts
 * when the table operations succeed). */
#include "contracts/memtrace.h"

void aws_fatal_assert(const char *cond_str, const char *file, int line) {
    (void)cond_str; (void)file; (void)line;
    __CPROVER_assert(0, "aws_fatal_assert reached: the tracer would abort");
    __CPROVER_assume(0);
}

#include "source/memtrace.c"
#include "contracts/memtrace_impl.h"

#define MT_START()                                                                                                     \
    do {                                                                                                               \
        MT_GHOST_RESET();                                                                                              \
        g_mt_key = nondet_ptr();                                                                                       \
        g_j = nondet_size_t();                                                                                         \
    } while (0)

void h_track(void) {
    struct alloc_tracer *tracer;
    void *ptr = nondet_ptr();
    size_t size = nondet_size_t();
    MT_START();
    g_mt_stack_on = true;
    bool was_key = (ptr == g_mt_key);
    s_alloc_tracer_track(tracer, ptr, size);
    if (g_mt_lock_calls == 0) CANARY("track: level NONE, nothing done");
    if (g_mt_lock_calls == 1) CANARY("track: level BYTES");
    if (g_mt_lock_calls == 2 && g_mt_stack_created) CANARY("track: level STACKS, new stack");
    if (g_mt_lock_calls == 2 && !g_mt_stack_created) CANARY("track: level STACKS, known stack");
    if (g_mt_lock_calls > 0 && was_key) CANARY("track: the watched address");
    if (g_mt_lock_calls > 0 && !was_key && g_mt_present) CANARY("track: another address, watched one present");
}

void h_track_fps1(void) {
    struct alloc_tracer *tracer;
    void *ptr = nondet_ptr();
    size_t size = nondet_size_t();
    MT_START();
    g_mt_stack_on = true;
    s_alloc_tracer_track(tracer, ptr, size);
    if (g_mt_lock_calls == 2 && g_mt_stack_created) CANARY("track: level STACKS, one frame per stack, new stack");
    if (g_mt_lock_calls == 2 && !g_mt_stack_created) CANARY("track: level STACKS, one frame per stack, known stack");
}

void h_untrack(void) {
    struct alloc_tracer *tracer;
    void *ptr = nondet_ptr();
    MT_START();
    bool was_key = (ptr == g_mt_key);
    bool was_present = g_mt_present;
    size_t c0 = g_mt_count;
    s_alloc_tracer_untrack(tracer, ptr);
    if (g_mt_lock_calls == 0) CANARY("untrack: level NONE, nothing done");
    if (g_mt_lock_calls > 0 && was_key && !g_mt_present) CANARY("untrack: the watched address");
    if (g_mt_lock_calls > 0 && !was_key && g_mt_present) CANARY("untrack: another address, watched one stays");
    if (g_mt_lock_calls > 0 && g_mt_count == c0) CANARY("untrack: address was not tracked");
    if (g_mt_lock_calls > 0 && g_mt_count != c0) CANARY("untrack: address was tracked");
}

/* ---- the vtable functions: track / untrack and the wrapped allocator are replaced by their contracts ---- */
void h_acquire(void) {
    struct aws_allocator *allocator;
    size_t size = nondet_size_t();
    MT_START();
    void *p = s_trace_mem_acquire(allocator, size);
    if (g_mt_lock_calls == 0) CANARY("acquire: level NONE");
    if (g_mt_lock_calls > 0 && p == g_mt_key) CANARY("acquire: result is the watched address");
    if (g_mt_lock_calls > 0 && p != g_mt_key && g_mt_present) CANARY("acquire: another address, watched one present");
}

void h_calloc(void) {
    struct aws_allocator *allocator;
    size_t num = nondet_size_t(), size = nondet_size_t();
    MT_START();
    void *p = s_trace_mem_calloc(allocator, num, size);
    if (g_mt_lock_calls == 0) CANARY("calloc: level NONE");
    if (g_mt_lock_calls > 0 && p == g_mt_key) CANARY("calloc: result is the watched address");
    if (g_mt_lock_calls > 0 && p != g_mt_key && g_mt_present) CANARY("calloc: another address, watched one present");
    if (num > 1 && size > 1) CANARY("calloc: several elements");
}

void h_calloc1(void) { /* one factor fixed to 1 */
    struct aws_allocator *allocator;
    size_t num = nondet_size_t(), size = nondet_size_t();
    MT_START();
    void *p = s_trace_mem_calloc(allocator, num, size);
    if (g_mt_lock_calls == 0) CANARY("calloc: level NONE");
    if (g_mt_lock_calls > 0 && p == g_mt_key) CANARY("calloc: result is the watched address");
    if (g_mt_lock_calls > 0 && p != g_mt_key && g_mt_present) CANARY("calloc: another address, watched one present");
}

void h_release(void) {
    struct aws_allocator *allocator;
    void *ptr;
    MT_START();
    g_rsize = nondet_size_t();
    bool was_present = g_mt_present;
    size_t c0 = g_mt_count;
    s_trace_mem_release(allocator, ptr);
    if (g_mt_lock_calls == 0) CANARY("release: level NONE");
    if (g_mt_lock_calls > 0 && was_present && !g_mt_present) CANARY("release: the watched address, tracked");
    if (g_mt_lock_calls > 0 && was_present && g_mt_present) CANARY("release: another address");
    if (g_mt_lock_calls > 0 && g_mt_count == c0) CANARY("release: address was not tracked");
}

void h_realloc(void) {
    struct aws_allocator *allocator;
    void *old_ptr;
    size_t old_size = nondet_size_t(), new_size = nondet_size_t();
    MT_START();
    g_on = true;
    g_k = nondet_size_t();
    g_old = nondet_u8();
    bool was_present = g_mt_present;
    size_t c0 = g_mt_count;
    void *p = s_trace_mem_realloc(allocator, old_ptr, old_size, new_size);
    bool traced = g_mt_lock_calls > 0;
    if (!traced) CANARY("realloc: level NONE");
    if (traced && new_size > old_size) CANARY("realloc: grows");
    if (traced && new_size < old_size) CANARY("realloc: shrinks");
    if (traced && new_size == old_size) CANARY("realloc: keeps the size");
    if (traced && old_size == 0) CANARY("realloc: from nothing");
    if (traced && was_present && g_mt_present && p == g_mt_key) CANARY("realloc: watched address resized in place");
    if (traced && was_present && !g_mt_present) CANARY("realloc: watched address moved away");
    if (traced && !was_present && g_mt_present) CANARY("realloc: result is the watched address");
    if (traced && was_present && g_mt_present && p != g_mt_key) CANARY("realloc: another address, watched one stays");
    if (traced && g_mt_count == c0 + 1) CANARY("realloc: old address was not tracked");
}

void h_bytes(void) {
    struct aws_allocator *allocator;
    MT_START();
    size_t r = aws_mem_tracer_bytes(allocator);
    if (r != 0) CANARY("bytes: non-zero"); else CANARY("bytes: zero");
}

void h_count(void) {
    struct aws_allocator *allocator;
    MT_START();
    size_t r = aws_mem_tracer_count(allocator);
    if (g_mt_lock_calls == 0) CANARY("count: level NONE"); else CANARY("count: traced");
    if (r != 0) CANARY("count: non-zero");
}

/* ---- set-up / tear-down ---- */
void h_init(void) {
    struct alloc_tracer *tracer;
    struct aws_allocator *traced = nondet_ptr();
    enum aws_mem_trace_level level;
    size_t fps = nondet_size_t();
    MT_START();
    s_alloc_tracer_init(tracer, traced, level, fps);
    if (level == AWS_MEMTRACE_NONE) CANARY("init: level NONE");
    if (level == AWS_MEMTRACE_BYTES) CANARY("init: level BYTES");
    if (level == AWS_MEMTRACE_STACKS && g_mt_bt_avail) CANARY("init: level STACKS");
    if (level == AWS_MEMTRACE_STACKS && !g_mt_bt_avail) CANARY("init: level STACKS without backtrace support");
    if (fps > 128) CANARY("init: depth clamped");
    if (fps == 0) CANARY("init: default depth");
}

void h_destroy(void) {
    struct aws_allocator *allocator;
    MT_START();
    struct aws_allocator *r = aws_mem_tracer_destroy(allocator);
    if (g_mt_lock_calls == 0) CANARY("destroy: level NONE"); else CANARY("destroy: traced");
}


/* ---- dump ---- */
void h_dump(void) {
    struct aws_allocator *allocator;
    MT_START();
    aws_mem_tracer_dump(allocator);
    if (g_mt_lock_calls == 0) CANARY("dump: nothing to report (level NONE or nothing outstanding)");
    if (g_mt_lock_calls == 1 && g_mt_foreach_calls == 1) CANARY("dump: level BYTES");
    if (g_mt_lock_calls == 1 && g_mt_foreach_calls == 5) CANARY("dump: level STACKS");
}

void h_cb_insert_allocs(void) {
    void *context = nondet_ptr();
    struct aws_hash_element *item;
    MT_START();
    g_mt_pq = nondet_ptr();
    int r = s_insert_allocs(context, item);
    CANARY("insert_allocs returned");
}

void h_cb_insert_stacks(void) {
    void *context = nondet_ptr();
    struct aws_hash_element *item;
    MT_START();
    g_mt_pq = nondet_ptr();
    int r = s_insert_stacks(context, item);
    CANARY("insert_stacks returned");
}

void h_cb_collect_stack_stats(void) {
    void *context = nondet_ptr();
    struct aws_hash_element *item;
    MT_START();
    g_mt_stack_info = nondet_ptr();
    int r = s_collect_stack_stats(context, item);
    if (g_mt_tot_count == 0) CANARY("collect_stack_stats: first allocation of a stack");
    if (g_mt_tot_count > 0) CANARY("collect_stack_stats: further allocation of a stack");
}
