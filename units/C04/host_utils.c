/* Proof unit for C04 / aws_host_utils_is_ipv4 and aws_host_utils_is_ipv6 on the REAL source/host_utils.c.
 * is_ipv4: plain harness, every length and content; the code refuses more than 15 bytes, copies the rest into a zeroed
 *          16-byte local and hands that to sscanf.  sscanf is ASSUMED (libc): the stub CHECKS what the call site owes libc
 *          (NUL-terminated string inside the local buffer, the documented format, destinations writable) and then behaves
 *          like any conforming sscanf (k <= 5 leading conversions with arbitrary values, or EOF).
 * is_ipv6: see h_is_ipv6 below (contracts + loop contracts). */
#ifdef VERIF_IPV6_DFCC
#    include "contracts/byte_buf.h"
#else
#    include "contracts/common.h"
void aws_raise_error_private(int err) { g_last_error = err; g_raise_count++; }
#endif
#include <stdio.h>
#include <stdlib.h>
#include <inttypes.h>
#include <aws/common/host_utils.h>

int g_scan_ret;
uint16_t g_oct[4]; /* the octet values sscanf produced */
size_t g_w; uint8_t g_bw; size_t g_len; /* witness: byte g_w of the input (value g_bw); g_len: input length */
static int verif_sscanf_ipv4(const char *s, const char *fmt, uint16_t *o0, uint16_t *o1, uint16_t *o2, uint16_t *o3, char *rem) {
    __CPROVER_assert(__CPROVER_r_ok(s, 16) && s[15] == 0, "sscanf input is NUL-terminated inside the local copy");
    __CPROVER_assert(fmt[0] == '%' && fmt[1] == '0' && fmt[2] == '3' && fmt[3] == 'h' && fmt[4] == 'u' && fmt[5] == '.', "format converts into unsigned short (%03hu)");
    __CPROVER_assert(g_w < g_len ==> (uint8_t)s[g_w] == g_bw, "sscanf sees exactly the input bytes ...");
    __CPROVER_assert(g_w >= g_len && g_w < 16 ==> s[g_w] == 0, "... followed by NUL bytes only");
    int k = nondet_int();
    __CPROVER_assume(k >= -1 && k <= 5);
    if (k > 0) { *o0 = g_oct[0] = nondet_u16(); }
    if (k > 1) { *o1 = g_oct[1] = nondet_u16(); }
    if (k > 2) { *o2 = g_oct[2] = nondet_u16(); }
    if (k > 3) { *o3 = g_oct[3] = nondet_u16(); }
    if (k > 4) { rem[0] = (char)nondet_u8(); rem[1] = 0; } /* "%1s": one non-blank character and the terminator */
    g_scan_ret = k;
    return k;
}
#ifndef VERIF_IPV6_DFCC
/* ASSUMED (libc): memchr, modelled by its reference loop (CBMC 6.11 has no model of memchr: the result would be arbitrary) */
void *memchr(const void *s, int c, size_t n) {
    const uint8_t *p = (const uint8_t *)s;
    for (size_t i = 0; i < n; ++i) {
        if (p[i] == (uint8_t)c) {
            return (void *)(p + i);
        }
    }
    return NULL;
}
#endif
#define sscanf verif_sscanf_ipv4
#include "source/byte_buf.c"
#include "source/host_utils.c"
#undef sscanf

#ifndef VERIF_IPV6_DFCC
#define SPEC_ISHEX6(c) (((c) >= '0' && (c) <= '9') || ((c) >= 'a' && (c) <= 'f') || ((c) >= 'A' && (c) <= 'F'))
void h_is_ipv4(void) {
    GHOST_RESET_COMMON();
    g_scan_ret = -2;
    size_t len = nondet_size_t();
    uint8_t *bytes = malloc(len <= 15 ? len : 0); /* longer inputs must be refused without looking at them */
    __CPROVER_assume(bytes != NULL);
    struct aws_byte_cursor host = {.len = len, .ptr = bytes};
    g_len = len; g_w = nondet_size_t(); g_bw = 0;
    if (g_w < len && len <= 15) g_bw = bytes[g_w];
    bool r = aws_host_utils_is_ipv4(host);
    __CPROVER_assert(len > 15 ==> !r && g_scan_ret == -2, "longer than 15 bytes: refused, nothing parsed");
    __CPROVER_assert(r ==> g_scan_ret == 4, "accepted only when sscanf converted exactly the four octets (no trailing text)");
    __CPROVER_assert(len <= 15 && g_scan_ret != 4 ==> !r, "anything else is refused");
    __CPROVER_assert(g_scan_ret == 4 ==> r == (g_oct[0] <= 255 && g_oct[1] <= 255 && g_oct[2] <= 255 && g_oct[3] <= 255), "four numbers: accepted exactly when every octet is at most 255");
    __CPROVER_assert(g_raise_count == 0, "a predicate: no error code is registered");
    if (r) CANARY("accepted"); else if (len > 15) CANARY("too long"); else if (g_scan_ret == 4) CANARY("octet out of range"); else CANARY("not four numbers");
}
/* aws_host_utils_is_ipv6, BOUNDED: every host text of at most IPV6_BOUND bytes (the IPv6 part itself is limited to 39 bytes by
 * the code; the bound is on the whole text including "%zone"), both values of is_uri_encoded; real callees
 * (aws_byte_cursor_next_split, aws_byte_cursor_satisfies_pred, aws_byte_cursor_starts_with, memchr/memcmp models of CBMC). */
#ifndef IPV6_BOUND
#    define IPV6_BOUND 44
#endif
void h_is_ipv6_bounded(void) {
    GHOST_RESET_COMMON();
    size_t len = nondet_size_t();
    __CPROVER_assume(len <= IPV6_BOUND);
    /* one spare byte behind the text: aws_byte_cursor_next_split forms (never dereferences) the address two past the end of a
     * text that ends with its last piece - see the C01 unit next_split_at_end; a one-byte over-READ is therefore not seen by the
     * bounds checks of this unit (the two indexed reads ptr[1] / ptr[len-2] are covered by the assertions below) */
    uint8_t *bytes = malloc(len + 1);
    __CPROVER_assume(bytes != NULL);
    struct aws_byte_cursor host = {.len = len, .ptr = (len == 0 && nondet_bool()) ? NULL : bytes};
    bool enc = nondet_bool();
    bool r = aws_host_utils_is_ipv6(host, enc);
    __CPROVER_assert(r ==> len >= 2 && (bytes[0] == ':' || SPEC_ISHEX6(bytes[0])), "accepted: at least \"::\", starting with a hex digit or a colon");
    __CPROVER_assert(r && bytes[0] == ':' ==> bytes[1] == ':', "no single colon at the start");
    __CPROVER_assert(g_raise_count == 0, "a predicate: no error code is registered");
    if (r && len > 41) CANARY("address with zone accepted"); else if (r) CANARY("address accepted"); else CANARY("refused");
}

/* the NULL-with-zero-length view: memcpy(copy, NULL, 0) moves no byte (CBMC's memcpy model rejects NULL even for n == 0) */
void h_is_ipv4_null(void) {
    GHOST_RESET_COMMON();
    g_scan_ret = -2; g_len = 0; g_w = nondet_size_t(); g_bw = 0;
    struct aws_byte_cursor host = {.len = 0, .ptr = NULL};
    bool r = aws_host_utils_is_ipv4(host);
    __CPROVER_assert(r ==> g_scan_ret == 4, "accepted only when sscanf converted exactly the four octets");
    CANARY("returned");
}
#endif
