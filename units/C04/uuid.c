/* Proof unit for C04 / aws_uuid_init_from_str: plain harness on the REAL source/uuid.c, every input length and content.
 * The code copies AWS_UUID_STR_LEN - 1 = 36 bytes into a zeroed 37-byte local and hands that to sscanf.
 * sscanf is ASSUMED (libc): the stub below CHECKS what the call site owes libc (a NUL-terminated string inside the local
 * buffer, the documented format, 16 distinct writable byte destinations) and then behaves like any conforming sscanf:
 * it converts k <= 16 leading items (arbitrary values), or reports EOF.  No loop in the code: complete proof. */
#include "contracts/common.h"
#include <stdio.h>
#include <stdlib.h>
#include <inttypes.h>
#include <aws/common/uuid.h>

void aws_raise_error_private(int err) { g_last_error = err; g_raise_count++; }

int g_scan_ret;      /* what sscanf returned */
size_t g_w; uint8_t g_bw; /* witness: byte g_w of the input (value g_bw), set by the harness */
static int verif_sscanf_uuid(const char *s, const char *fmt,
    uint8_t *p0, uint8_t *p1, uint8_t *p2, uint8_t *p3, uint8_t *p4, uint8_t *p5, uint8_t *p6, uint8_t *p7,
    uint8_t *p8, uint8_t *p9, uint8_t *p10, uint8_t *p11, uint8_t *p12, uint8_t *p13, uint8_t *p14, uint8_t *p15) {
    uint8_t *p[16] = {p0, p1, p2, p3, p4, p5, p6, p7, p8, p9, p10, p11, p12, p13, p14, p15};
    __CPROVER_assert(__CPROVER_r_ok(s, AWS_UUID_STR_LEN) && s[AWS_UUID_STR_LEN - 1] == 0, "sscanf input is NUL-terminated inside the local copy");
    __CPROVER_assert(fmt[0] == '%' && fmt[1] == '0' && fmt[2] == '2' && fmt[3] == 'h' && fmt[4] == 'h' && fmt[5] == 'x', "format converts into unsigned char (%02hhx)");
    __CPROVER_assert(g_w < AWS_UUID_STR_LEN - 1 ==> (uint8_t)s[g_w] == g_bw, "sscanf sees exactly the first 36 input bytes");
    int k = nondet_int();
    __CPROVER_assume(k >= -1 && k <= 16);
    if (k > 0)  { *p[0] = nondet_u8(); }
    if (k > 1)  { *p[1] = nondet_u8(); }
    if (k > 2)  { *p[2] = nondet_u8(); }
    if (k > 3)  { *p[3] = nondet_u8(); }
    if (k > 4)  { *p[4] = nondet_u8(); }
    if (k > 5)  { *p[5] = nondet_u8(); }
    if (k > 6)  { *p[6] = nondet_u8(); }
    if (k > 7)  { *p[7] = nondet_u8(); }
    if (k > 8)  { *p[8] = nondet_u8(); }
    if (k > 9)  { *p[9] = nondet_u8(); }
    if (k > 10) { *p[10] = nondet_u8(); }
    if (k > 11) { *p[11] = nondet_u8(); }
    if (k > 12) { *p[12] = nondet_u8(); }
    if (k > 13) { *p[13] = nondet_u8(); }
    if (k > 14) { *p[14] = nondet_u8(); }
    if (k > 15) { *p[15] = nondet_u8(); }
    g_scan_ret = k;
    return k;
}
#define sscanf verif_sscanf_uuid
#include "source/uuid.c"
#undef sscanf

void h_uuid_init_from_str(void) {
    GHOST_RESET_COMMON();
    g_scan_ret = -2;
    size_t len = nondet_size_t();
    size_t backed = len < VERIF_HUGE ? len : 0; /* a view longer than any object is unbacked: it must be refused or only its first 36 bytes read */
    __CPROVER_assume(len < VERIF_HUGE);
    uint8_t *bytes = malloc(backed);
    __CPROVER_assume(bytes != NULL);
    struct aws_byte_cursor cur = {.len = len, .ptr = (len == 0 && nondet_bool()) ? NULL : bytes};
    g_w = nondet_size_t(); g_bw = 0;
    if (g_w < len) g_bw = bytes[g_w];
    struct aws_uuid uuid;
    struct aws_uuid before = uuid;
    size_t v = nondet_size_t();
    __CPROVER_assume(v < sizeof(uuid.uuid_data));
    int r = aws_uuid_init_from_str(&uuid, &cur);
    __CPROVER_assert(r == AWS_OP_SUCCESS || r == AWS_OP_ERR, "result is 0 or -1");
    __CPROVER_assert((r == AWS_OP_ERR) == (g_raise_count == 1) && g_raise_count <= 1, "an error code is registered exactly when -1 is returned");
    __CPROVER_assert(len < AWS_UUID_STR_LEN - 1 ==> r == AWS_OP_ERR && g_last_error == AWS_ERROR_INVALID_BUFFER_SIZE && g_scan_ret == -2 && uuid.uuid_data[v] == before.uuid_data[v],
                     "shorter than 36 bytes: refused with INVALID_BUFFER_SIZE, nothing parsed, *uuid untouched");
    __CPROVER_assert(len >= AWS_UUID_STR_LEN - 1 ==> (r == AWS_OP_SUCCESS) == (g_scan_ret == 16), "success exactly when all 16 bytes were converted");
    __CPROVER_assert(len >= AWS_UUID_STR_LEN - 1 && r == AWS_OP_ERR ==> g_last_error == AWS_ERROR_MALFORMED_INPUT_STRING, "otherwise MALFORMED_INPUT_STRING");
    if (r == AWS_OP_SUCCESS) CANARY("parsed"); else if (len < 36) CANARY("too short"); else CANARY("malformed");
}
