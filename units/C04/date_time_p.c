/* Proof unit for C04 / date-time parsing, modular form: contracts (contracts/date_time.h) + the REAL source/date_time.c
 * + one harness per function under contract.  Unbounded input lengths; loops closed by loop contracts
 * (overlay/date_time.loops) except the digit loop of s_read_n_digits, whose bound (n <= 4) is a precondition taken from
 * its call sites and which is unwound completely. */
#include "contracts/date_time.h"

void aws_fatal_assert(const char *cond_str, const char *file, int line) {
    (void)cond_str; (void)file; (void)line;
    __CPROVER_assert(0, "aws_fatal_assert reachable (abort on input)");
    __CPROVER_assume(0);
}

/* ghosts named by loop contracts of other modules' overlays (byte_buf.loops) that this TU happens to include */
bool g_pred[256];
#include "source/byte_buf.c"
#include "source/date_time.c"

#define DGHOSTS() do { DT_GHOST_RESET(); g_on = true; g_j = nondet_size_t(); } while (0)

void h_read_n_digits(void) {
    struct aws_byte_cursor *str; size_t n; int *out;
    DGHOSTS();
    bool r = s_read_n_digits(str, n, out);
    if (r && n == 4) CANARY("four digits read"); else if (r && n == 2) CANARY("two digits read"); else if (!r) CANARY("no number");
}
void h_read_1_char(void) {
    struct aws_byte_cursor *str; uint8_t *out;
    DGHOSTS();
    bool r = s_read_1_char(str, out);
    if (r) CANARY("char read"); else CANARY("at end");
}
void h_advance_if_next_char_is(void) {
    struct aws_byte_cursor *str; uint8_t c;
    DGHOSTS();
    bool r = s_advance_if_next_char_is(str, c);
    if (r) CANARY("matched"); else CANARY("not matched");
}
void h_skip_fraction(void) {
    struct aws_byte_cursor *str;
    DGHOSTS();
    bool r = s_skip_optional_fractional_seconds(str);
    if (r) CANARY("nothing to skip, or fraction skipped"); else CANARY("mark without digit");
}
void h_parse_iso_8601(void) {
    struct aws_byte_cursor str; struct tm *tm; time_t *off;
    DGHOSTS();
    bool r = s_parse_iso_8601(str, tm, off);
    if (r && str.len == 8) CANARY("date only"); else if (r && str.len > 20) CANARY("date, time, offset"); else if (r) CANARY("date and time"); else CANARY("rejected");
}
void h_parse_rfc_822(void) {
    const struct aws_byte_cursor *cur; struct tm *tm; struct aws_date_time *dt;
    DGHOSTS();
    bool r = s_parse_rfc_822(cur, tm, dt);
    if (r) CANARY("accepted"); else CANARY("rejected");
}
void h_init_from_str_cursor_p(void) {
    struct aws_date_time *dt; const struct aws_byte_cursor *cur; int fmt;
    DGHOSTS();
    int r = aws_date_time_init_from_str_cursor(dt, cur, (enum aws_date_format)fmt);
    if (r == 0 && fmt == AWS_DATE_FORMAT_RFC822) CANARY("rfc822 accepted");
    else if (r == 0 && fmt == AWS_DATE_FORMAT_AUTO_DETECT) CANARY("auto-detect accepted");
    else if (r == 0) CANARY("iso accepted");
    else CANARY("refused");
}
