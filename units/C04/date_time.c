/* Proof unit for C04 / date-time parsing: the REAL source/date_time.c driven by plain harnesses over ALL byte strings the
 * code accepts for inspection (aws_date_time_init_from_str_cursor refuses more than AWS_DATE_TIME_STR_MAX_LEN = 100 bytes
 * before it looks at them), so unwinding 101 times with unwinding assertions is a complete proof (DESIGN 5/C04, "CU").
 * The input lives in a heap object of EXACTLY len bytes: every read outside the input is a failed bounds obligation.
 * libc calendar functions (timegm/mktime/gmtime_r/localtime_r behind aws_timegm/aws_gmtime/aws_localtime) have no body:
 * CBMC returns arbitrary values and leaves the out-parameters alone - the parser is checked "up to the libc calls". */
#include "contracts/common.h"
#include <stdlib.h>

/* the error channel: the ghost of the thread-local error slot (same meaning as the contract in contracts/common.h) */
void aws_raise_error_private(int err) { g_last_error = err; g_raise_count++; }

void aws_fatal_assert(const char *cond_str, const char *file, int line) {
    (void)cond_str; (void)file; (void)line;
    __CPROVER_assert(0, "aws_fatal_assert reachable (abort on input)");
    __CPROVER_assume(0);
}

#include "source/byte_buf.c"
#include "source/date_time.c"

/* input object of exactly len bytes (len > cap: an object of size 0, the bytes must not be looked at at all) */
static struct aws_byte_cursor any_input(size_t cap) {
    size_t len = nondet_size_t();
    uint8_t *bytes = malloc(len <= cap ? len : 0);
    __CPROVER_assume(bytes != NULL);
    struct aws_byte_cursor c;
    c.len = len;
    c.ptr = bytes;
    if (len == 0 && nondet_bool()) c.ptr = NULL; /* the NULL-with-zero-length view */
    return c;
}

/* ---- the public entry point, every format selector (also invalid enum values), every input ---- */
void h_init_from_str_cursor(void) {
    GHOST_RESET_COMMON();
    struct aws_byte_cursor cur = any_input(AWS_DATE_TIME_STR_MAX_LEN);
    struct aws_date_time dt;
    struct aws_date_time before = dt;
    int fmt = nondet_int();
    int r = aws_date_time_init_from_str_cursor(&dt, &cur, (enum aws_date_format)fmt);
    __CPROVER_assert(r == AWS_OP_SUCCESS || r == AWS_OP_ERR, "result is 0 or -1");
    __CPROVER_assert((r == AWS_OP_ERR) == (g_raise_count == 1), "an error code is registered exactly when -1 is returned");
    __CPROVER_assert(cur.len > AWS_DATE_TIME_STR_MAX_LEN ==> r == AWS_OP_ERR && g_last_error == AWS_ERROR_OVERFLOW_DETECTED,
                     "longer than the documented limit: refused with OVERFLOW_DETECTED");
    __CPROVER_assert(cur.len > AWS_DATE_TIME_STR_MAX_LEN ==> dt.timestamp == before.timestamp && dt.tz[0] == before.tz[0] && dt.utc_assumed == before.utc_assumed,
                     "refused for length: *dt untouched");
    __CPROVER_assert(cur.len <= AWS_DATE_TIME_STR_MAX_LEN && r == AWS_OP_ERR ==> g_last_error == AWS_ERROR_INVALID_DATE_STR,
                     "unparsable text: INVALID_DATE_STR");
    __CPROVER_assert(cur.len <= AWS_DATE_TIME_STR_MAX_LEN ==> dt.tz[5] == 0, "time-zone text stays NUL-terminated");
    __CPROVER_assert(r == AWS_OP_SUCCESS ==> dt.milliseconds == 0, "parsed dates have no millisecond part");
    __CPROVER_assert(cur.len == 0 ==> r == AWS_OP_ERR, "the empty string is not a date");
    if (r == AWS_OP_SUCCESS && fmt == AWS_DATE_FORMAT_RFC822) CANARY("an RFC 822 date is accepted");
    if (r == AWS_OP_SUCCESS && fmt == AWS_DATE_FORMAT_ISO_8601) CANARY("an ISO 8601 date is accepted");
    if (r == AWS_OP_SUCCESS && fmt == AWS_DATE_FORMAT_AUTO_DETECT && dt.tz[0] == '+') CANARY("auto-detect falls through to RFC 822 with a numeric zone");
    if (r == AWS_OP_ERR && cur.len <= AWS_DATE_TIME_STR_MAX_LEN) CANARY("unparsable input refused");
    if (r == AWS_OP_ERR && cur.len > AWS_DATE_TIME_STR_MAX_LEN) CANARY("over-long input refused");
}
