/* Proof unit for C04 / date-time parsing, complete-unwinding form: the REAL source/date_time.c driven by a plain harness over
 * ALL byte strings its only caller lets through (aws_date_time_init_from_str_cursor refuses more than
 * AWS_DATE_TIME_STR_MAX_LEN = 100 bytes before it looks at them), so unwinding 101 times with unwinding assertions is a
 * complete proof for that domain (DESIGN 5/C04, "CU").
 * The input lives in a heap object of EXACTLY len bytes: every read outside the input is a failed bounds obligation.
 * libc calendar functions (timegm/mktime/gmtime_r/localtime_r behind aws_timegm/aws_gmtime/aws_localtime) have no body:
 * CBMC returns arbitrary values and leaves the out-parameters alone - the parser is checked "up to the libc calls". */
#include "contracts/common.h"
#include <stdlib.h>

/* the error channel: the ghost of the thread-local error slot (same meaning as the contract in contracts/common.h) */
void aws_raise_error_private(int err) { g_last_error = err; g_raise_count++; }

void aws_fatal_assert(const char *cond_str, const char *file, int line) {
    (void)cond_str; (void)file; (void)line;
    __CPROVER_assert(0, "aws_fatal_assert reachable (abort on input)");
    __CPROVER_assume(0);
}

#include "source/byte_buf.c"
#include "source/date_time.c"

/* input object of exactly len bytes (len > cap: an object of size 0, the bytes must not be looked at at all) */
static struct aws_byte_cursor any_input(size_t cap) {
    size_t len = nondet_size_t();
    uint8_t *bytes = malloc(len <= cap ? len : 0);
    __CPROVER_assume(bytes != NULL);
    struct aws_byte_cursor c;
    c.len = len;
    c.ptr = bytes;
    if (len == 0 && nondet_bool()) c.ptr = NULL; /* the NULL-with-zero-length view */
    return c;
}

/* ---- s_parse_iso_8601 on every byte string of at most 100 bytes (the cap of its only caller); the assertions are the
 *      ensures clauses of its contract in contracts/date_time.h, which the unit dt_init_from_str_cursor relies on ---- */
#define DIGIT(c) ((c) >= '0' && (c) <= '9')
#define DIG(p, i) ((int)((p)[i]) - '0')
void h_parse_iso_8601_cu(void) {
    GHOST_RESET_COMMON();
    struct aws_byte_cursor str = any_input(AWS_DATE_TIME_STR_MAX_LEN);
    __CPROVER_assume(str.len <= AWS_DATE_TIME_STR_MAX_LEN);
    struct tm tm;
    time_t off;
    bool r = s_parse_iso_8601(str, &tm, &off);
    __CPROVER_assert(r ==> str.len >= 8 && DIGIT(str.ptr[0]) && DIGIT(str.ptr[1]) && DIGIT(str.ptr[2]) && DIGIT(str.ptr[3]), "accepted: at least YYYYMMDD, starting with four digits");
    __CPROVER_assert(r ==> tm.tm_year == 1000 * DIG(str.ptr, 0) + 100 * DIG(str.ptr, 1) + 10 * DIG(str.ptr, 2) + DIG(str.ptr, 3) - 1900, "year value");
    __CPROVER_assert(r ==> tm.tm_mon >= -1 && tm.tm_mon <= 98 && tm.tm_mday >= 0 && tm.tm_mday <= 99 && tm.tm_hour >= 0 && tm.tm_hour <= 99 &&
                               tm.tm_min >= 0 && tm.tm_min <= 99 && tm.tm_sec >= 0 && tm.tm_sec <= 99, "two-digit field ranges");
    __CPROVER_assert(r ==> off >= -(99 * 3600 + 99 * 60) && off <= 99 * 3600 + 99 * 60, "offset range");
    __CPROVER_assert(r && str.len == 8 ==> off == 0 && tm.tm_hour == 0 && tm.tm_min == 0 && tm.tm_sec == 0, "date only: no time, no offset");
    __CPROVER_assert(g_raise_count == 0, "the parser itself registers no error");
    if (r && str.len == 8) CANARY("date only"); else if (r && str.len > 24) CANARY("date, time, fraction, offset"); else if (r) CANARY("date and time"); else CANARY("rejected");
}
