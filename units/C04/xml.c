/* Proof unit for C04 / XML: contracts (contracts/xml_parser.h) + the REAL source/xml_parser.c (+ byte_buf.c, array_list.c for
 * the small helpers that are analysed inline) + one harness per function under contract.
 * aws_fatal_assert is an assert(0) stub: a reachable AWS_FATAL_ASSERT is a failed obligation ("never aborts").
 * Each harness names the function it enforces in g_enf (ghost offsets are inputs for that function, Skolem outputs of
 * every replaced contract) and chooses the ghost offsets / witnesses arbitrarily. */
#include "contracts/xml_parser.h"

void aws_fatal_assert(const char *cond_str, const char *file, int line) {
    (void)cond_str; (void)file; (void)line;
    __CPROVER_assert(0, "aws_fatal_assert reachable (abort on input)");
    __CPROVER_assume(0);
}

/* ghosts named by loop contracts of other modules' overlays (array_list.loops) that this TU happens to include */
uint8_t g_va, g_vb;
#include "source/byte_buf.c"
#include "source/array_list.c"
#include "source/xml_parser.c"

/* the callback contract must be addressable (BUILD_GUIDE: function-pointer contracts) */
void *xml_keep_cb_contract = (void *)xml_cb_contract;

#define XGHOSTS(f) do { XML_GHOST_RESET(); g_enf = (f); g_j = nondet_size_t(); g_ai = nondet_size_t(); g_doc_off = nondet_size_t(); \
                        g_name_off = nondet_size_t(); g_decl_off = nondet_size_t(); g_slen = 1; g_sw = nondet_size_t(); } while (0)

void h_advance_to_closing_tag(void) {
    struct aws_xml_parser *parser; struct aws_xml_node *node; struct aws_byte_cursor *out_body;
    XGHOSTS(XF_ADV);
    int r = s_advance_to_closing_tag(parser, node, out_body);
    if (r == 0) CANARY("closing tag found or empty element"); else CANARY("invalid xml reported");
}
void h_append_lengths(void) {
    struct aws_byte_buf *to; const struct aws_byte_cursor *from;
    XGHOSTS(XF_NONE);
    int r = aws_byte_buf_append(to, from);
    if (r == 0) CANARY("appended"); else CANARY("refused");
}
/* h_stack_push / h_stack_pop / h_node_traverse / h_load_node_decl: harnesses of units that are NOT listed in units.json
 * (see not_decided there): kept for a later session. */
void h_stack_push(void) {
    struct aws_array_list *list; const void *val;
    XGHOSTS(XF_NONE);
    int r = aws_array_list_push_back(list, val);
    CANARY("pushed");
}
void h_stack_pop(void) {
    struct aws_array_list *list;
    XGHOSTS(XF_NONE);
    int r = aws_array_list_pop_back(list);
    if (r == 0) CANARY("popped"); else CANARY("empty");
}
void h_node_next_sibling(void) {
    struct aws_xml_parser *parser;
    XGHOSTS(XF_SIB);
    int r = s_node_next_sibling(parser);
    if (r == 0) CANARY("root handled or no element"); else CANARY("error reported");
}
void h_node_traverse(void) {
    struct aws_xml_node *node; aws_xml_parser_on_node_encountered_fn *cb; void *ud;
    XGHOSTS(XF_TRAV);
    int r = aws_xml_node_traverse(node, cb, ud);
    if (r == 0) CANARY("parent closed"); else CANARY("error reported");
}
void h_node_as_body(void) {
    struct aws_xml_node *node; struct aws_byte_cursor *out_body;
    XGHOSTS(XF_BODY);
    int r = aws_xml_node_as_body(node, out_body);
    if (r == 0) CANARY("body read"); else CANARY("error reported");
}
void h_xml_parse(void) {
    struct aws_allocator *alloc; const struct aws_xml_parser_options *options;
    XGHOSTS(XF_PARSE);
    int r = aws_xml_parse(alloc, options);
    if (r == 0) CANARY("parsed"); else CANARY("error reported");
}
void h_load_node_decl(void) {
    struct aws_xml_parser *parser; struct aws_byte_cursor *decl; struct aws_xml_node *node;
    XGHOSTS(XF_DECL);
    int r = s_load_node_decl(parser, decl, node);
    if (r == 0) CANARY("declaration loaded"); else CANARY("invalid xml reported");
}
void h_get_attribute(void) {
    const struct aws_xml_node *node; size_t i;
    XGHOSTS(XF_ATTR);
    struct aws_xml_attribute a = aws_xml_node_get_attribute(node, i);
    CANARY("returned");
}
/* a callback that takes every legal action, checked against xml_cb_contract (DESIGN 4.6: the contract that cuts the
 * recursion traverse -> callback -> traverse must cover what callbacks can do through the public API) */
int xml_sample_callback(struct aws_xml_node *node, void *user_data) {
    int choice = nondet_int();
    if (choice == 0) { return nondet_bool() ? AWS_OP_SUCCESS : aws_raise_error(nondet_int() | 1); }
    if (choice == 1) { struct aws_byte_cursor body; int r = aws_xml_node_as_body(node, nondet_bool() ? &body : NULL); return nondet_bool() ? r : AWS_OP_SUCCESS; }
    { int r = aws_xml_node_traverse(node, xml_cb_contract, user_data); return nondet_bool() ? r : AWS_OP_SUCCESS; }
}
void h_callback_model(void) {
    struct aws_xml_node *node; void *ud;
    XGHOSTS(XF_CB); g_cb_room = true; /* re-allocation of the callback stack inside the callback is not modelled */
    int r = xml_sample_callback(node, ud);
    if (r == 0) CANARY("callback returned success"); else CANARY("callback returned an error");
}
