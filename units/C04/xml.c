/* Proof unit for C04 / XML: contracts + the REAL source/xml_parser.c (+ byte_buf.c, array_list.c for the small helpers
 * that are analysed inline) + one harness per function under contract.
 * aws_fatal_assert is an assert(0) stub: a reachable AWS_FATAL_ASSERT is a failed obligation ("never aborts"). */
#include "contracts/xml_parser.h"

void aws_fatal_assert(const char *cond_str, const char *file, int line) {
    (void)cond_str; (void)file; (void)line;
    __CPROVER_assert(0, "aws_fatal_assert reachable (abort on input)");
    __CPROVER_assume(0);
}

/* ghosts named by loop contracts of other modules' overlays (array_list.loops) that this TU happens to include */
uint8_t g_va, g_vb;
#include "source/byte_buf.c"
#include "source/array_list.c"
#include "source/xml_parser.c"

#define XGHOSTS() do { XML_GHOST_RESET(); g_on = false; g_slen = 1; g_sw = nondet_size_t(); g_j = nondet_size_t(); g_doc_off = nondet_size_t(); g_name_off = nondet_size_t(); } while (0)

void h_advance_to_closing_tag(void) {
    struct aws_xml_parser *parser; struct aws_xml_node *node; struct aws_byte_cursor *out_body;
    XGHOSTS();
    int r = s_advance_to_closing_tag(parser, node, out_body);
    if (r == 0) CANARY("closing tag found or empty element"); else CANARY("invalid xml reported");
}
