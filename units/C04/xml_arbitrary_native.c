/* C04 / XML, bounded NATIVE stand-in (never counted as proved): every byte string of at most MAXLEN bytes over a
 * markup-heavy alphabet, under five callback programs, through the REAL aws_xml_parse / s_node_next_sibling /
 * aws_xml_node_traverse / aws_xml_node_as_body / s_advance_to_closing_tag / s_load_node_decl / attribute accessors of
 * $REPO/source/xml_parser.c (+ byte_buf.c, array_list.c), compiled with AddressSanitizer + UBSan.
 * The document lives in a heap block of EXACTLY its length, so a read outside the input is a sanitizer abort (exit 1).
 * Checked per case: result is 0 or -1; -1 exactly when an error code has been registered during the call; every view
 * handed to the callbacks (name, attribute name/value, body) lies inside the document; no fatal assert; the call returns.
 * Environment stubs: malloc allocator, an error slot, no logger.  Output: "CASES n", "FAIL ..." lines; exit 1 on failure. */
#include <aws/common/byte_buf.h>
#include <aws/common/xml_parser.h>
#include <stdio.h>
#include <stdlib.h>
#include <string.h>

static int s_last_error, s_raises;
void aws_raise_error_private(int err) { s_last_error = err; s_raises++; }
int aws_last_error(void) { return s_last_error; }
static const char *cur_doc; static size_t cur_len; static int cur_policy;
static unsigned long n_cases, n_fail;
static void fail(const char *why) {
    if (n_fail++ < 25) {
        printf("FAIL doc(hex)=");
        for (size_t i = 0; i < cur_len; ++i) printf("%02x", (unsigned char)cur_doc[i]);
        printf(" doc=[%.*s] policy=%d: %s\n", (int)cur_len, cur_doc, cur_policy, why);
    }
}
void aws_fatal_assert(const char *cond_str, const char *file, int line) {
    (void)file; (void)line;
    fail(cond_str);
    printf("FAIL fatal assert reached (process would abort)\nCASES %lu\n", n_cases + 1);
    exit(1);
}
struct aws_logger *aws_logger_get(void) { return NULL; }
void *aws_mem_acquire(struct aws_allocator *a, size_t n) { (void)a; void *p = malloc(n); if (!p) abort(); return p; }
void aws_mem_release(struct aws_allocator *a, void *p) { (void)a; free(p); }
int aws_mem_realloc(struct aws_allocator *a, void **p, size_t o, size_t n) { (void)a; (void)o; void *q = realloc(*p, n); if (!q) abort(); *p = q; return 0; }
void aws_secure_zero(void *p, size_t n) { memset(p, 0, n); }
static struct aws_allocator s_alloc;
/* a sanitizer report ends the process: turn it into a FAIL line on stdout for the driver */
void __sanitizer_set_death_callback(void (*callback)(void));
static void on_sanitizer_death(void) {
    fail("sanitizer report (memory access outside the input / undefined behaviour), see stderr");
    printf("CASES %lu\n", n_cases + 1);
    fflush(stdout);
}

static const unsigned char *base;
static void view_inside(struct aws_byte_cursor c, const char *what) {
    if (c.len == 0) return; /* an empty view carries no byte */
    if (c.ptr < base || c.ptr > base + cur_len || c.len > (size_t)(base + cur_len - c.ptr)) fail(what);
}

/* programs: 0 descend everywhere, 1 body at the root, 2 skip the root, 3 descend at the root and read the body of
 * every child, 4 descend at the root and skip every child; attributes are read at every node */
static int on_child(struct aws_xml_node *node, void *ud);
static void look(struct aws_xml_node *node) {
    view_inside(aws_xml_node_get_name(node), "node name outside the document");
    size_t n = aws_xml_node_get_num_attributes(node);
    if (n > 10) fail("more than 10 attributes reported");
    for (size_t i = 0; i < n && i < 10; ++i) {
        struct aws_xml_attribute a = aws_xml_node_get_attribute(node, i);
        view_inside(a.name, "attribute name outside the document");
        view_inside(a.value, "attribute value outside the document");
    }
}
static int body(struct aws_xml_node *node) {
    struct aws_byte_cursor b = {0};
    int r = aws_xml_node_as_body(node, &b);
    if (r != 0 && r != -1) fail("as_body result not 0/-1");
    if (r == 0) view_inside(b, "body outside the document");
    return r;
}
static int on_child(struct aws_xml_node *node, void *ud) {
    (void)ud;
    look(node);
    if (cur_policy == 0) return aws_xml_node_traverse(node, on_child, NULL);
    if (cur_policy == 3) return body(node);
    return 0;
}
static int on_root(struct aws_xml_node *node, void *ud) {
    (void)ud;
    look(node);
    if (cur_policy == 1) return body(node);
    if (cur_policy == 2) return 0;
    return aws_xml_node_traverse(node, on_child, NULL);
}

static void run(const char *s, size_t n) {
    for (cur_policy = 0; cur_policy < 5; ++cur_policy) {
        unsigned char *exact = n ? malloc(n) : NULL;
        if (n) memcpy(exact, s, n);
        base = exact; cur_doc = s; cur_len = n;
        struct aws_xml_parser_options o = {.doc = aws_byte_cursor_from_array(exact, n), .on_root_encountered = on_root};
        s_raises = 0; s_last_error = 0;
        int r = aws_xml_parse(&s_alloc, &o);
        if (r != 0 && r != -1) fail("result is neither 0 nor -1");
        if (r == -1 && s_raises == 0) fail("-1 returned without a registered error code");
        n_cases++;
        free(exact);
    }
}

#ifndef MAXLEN
#    define MAXLEN 7
#endif
int main(int argc, char **argv) {
    static const char alpha[] = {'<', '>', '/', 'a', ' ', '=', '"', '?'};
    const int A = (int)sizeof(alpha);
    int maxlen = MAXLEN;
    if (argc > 1 && !strcmp(argv[1], "thorough")) maxlen = MAXLEN + 1;
    char buf[16];
    __sanitizer_set_death_callback(on_sanitizer_death);
    run(NULL, 0);
    for (int len = 1; len <= maxlen; ++len) {
        int idx[16] = {0};
        for (;;) {
            for (int i = 0; i < len; ++i) buf[i] = alpha[idx[i]];
            run(buf, (size_t)len);
            int k = len - 1;
            while (k >= 0 && ++idx[k] == A) idx[k--] = 0;
            if (k < 0) break;
        }
    }
    /* longer hand-picked shapes: nesting, attributes at the limit (10 / 11), names at the limit (256 / 257), deep nesting */
    {
        static char big[4096];
        const char *fixed[] = {
            "<?xml version=\"1.0\"?><!DOCTYPE x><a b=\"c\" d=e><b/><c>t</c></a>", "<a><a><a></a></a></a>", "<a b=c=d e f= =g></a>",
            "<a 1=1 2=2 3=3 4=4 5=5 6=6 7=7 8=8 9=9 10=10></a>", "<a 1=1 2=2 3=3 4=4 5=5 6=6 7=7 8=8 9=9 10=10 11=11></a>",
            "<a></a", "<a></b>", "<a><b></a></b>", "<a", "<a>", "<a><", "<a><b", "<a></", "<a>> <", "><", "<?", "<!>", "<?><?><a/>"};
        for (size_t i = 0; i < sizeof(fixed) / sizeof(fixed[0]); ++i) run(fixed[i], strlen(fixed[i]));
        for (int nl = 254; nl <= 258; ++nl) { /* name length around MAX_NAME_LEN */
            size_t p = 0; big[p++] = '<'; memset(big + p, 'n', (size_t)nl); p += (size_t)nl; big[p++] = '>'; big[p++] = 'x';
            big[p++] = '<'; big[p++] = '/'; memset(big + p, 'n', (size_t)nl); p += (size_t)nl; big[p++] = '>';
            run(big, p); run(big, p - 1); run(big, p - 2);
        }
        for (int depth = 18; depth <= 22; ++depth) { /* nesting around the default depth limit (20) */
            size_t p = 0;
            for (int d = 0; d < depth; ++d) { big[p++] = '<'; big[p++] = (char)('a' + d % 3); big[p++] = '>'; }
            for (int d = depth - 1; d >= 0; --d) { big[p++] = '<'; big[p++] = '/'; big[p++] = (char)('a' + d % 3); big[p++] = '>'; }
            run(big, p);
        }
    }
    printf("CASES %lu\n", n_cases);
    return n_fail ? 1 : 0;
}
