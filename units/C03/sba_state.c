/* Plain-harness units of C03 (no DFCC): the real source/allocator_sba.c on explicit states.
 *
 * h_find_bin / h_layout : loop-free code over its whole input domain (mode complete).
 * h_alloc_step / h_free_step / h_metrics / h_destroy_step : ONE INDUCTIVE STEP each - an ARBITRARY bin state that
 *   satisfies sba_bin_inv (contracts/allocator_sba.h; not only reachable states) -> the real operation -> the invariant
 *   again + the statement of the property for an arbitrary LIVE witness chunk.  BOUNDED by the number of pages (SBA_NP)
 *   and free-list entries (SBA_NF) of the pre-state.
 *
 * Compile-time switches (units.json):
 *   SBA_BIN      index of the size class under test (0..4)
 *   SBA_NP       page objects of the pre-state: SBA_NP-1 candidates for active_pages + 1 candidate working page
 *   SBA_NF       largest free-list length of the pre-state
 *   SBA_NO_PARENT_CALLS  the step must not reach the parent allocator (lists have room); SBA_ACQUIRE_MANY_STUB: unit new_destroy
 *   AWS_SBA_PAGE_SIZE  (the source's own configuration macro) is reduced in the *_smallpage units so that a class
 *                with many chunks per page can reach the page-retirement path inside the free-list bound
 */
#include <stdlib.h>
#define CHECK(c, msg) __CPROVER_assert((c), msg)
#include "contracts/common.h"
#include "contracts/allocator.h"

/* ---- environment hooks: the two libc calls of allocator_sba.c are counted (page allocations / page releases).
 *      The macros only rename the call sites in the file included below; allocator.c (parent allocator) is untouched. */
size_t g_page_allocs, g_page_frees, g_palign_arg, g_psize_arg;
void *g_page_free_last;
static int sba_hook_memalign(void **out, size_t align, size_t size);
static void sba_hook_free(void *p);
#define posix_memalign(o, a, s) sba_hook_memalign((o), (a), (s))
#define free(p) sba_hook_free(p)
/* s_sba_free_to_bin line 355 `chunk >= page_start && chunk < page_end` compares pointers into DIFFERENT objects (free chunks of
 * other pages), a NULL chunk (first iteration: index == length) and page_end = page + 32 + PAGE, 32 bytes past the page:
 * formal undefined behaviour (C11 6.5.8p5, 6.5.6p8), benign on a flat address space.  CBMC treats a failed pointer check
 * as fatal (everything after it becomes UNKNOWN), so its pointer checks are switched off by pragma from the first
 * occurrence of `page_end` (line 349) to the second call of aws_array_list_swap (line 366) of that function ONLY
 * (two pushes, two pops).  The dereferences in that range are bin->free_chunks.length / bin->active_pages.length; `bin` is
 * dereferenced under checks at lines 347 and 377.  Without checks CBMC orders pointers by (object, offset), i.e. like a
 * flat address space in which objects do not overlap. */
#include <aws/common/array_list.h>
#define page_end _Pragma("CPROVER check push") _Pragma("CPROVER check disable \"pointer\"") page_end
#define aws_array_list_swap _Pragma("CPROVER check pop") aws_array_list_swap
#include "source/allocator_sba.c"
#undef page_end
#undef aws_array_list_swap
#undef posix_memalign
#undef free
#include "contracts/allocator_sba.h"

#ifndef SBA_NP
#    define SBA_NP 3
#endif
/* the model's OS: a page request yields a fresh page object (entered into the first free slot of the page table), a release marks it dead */
static int sba_hook_memalign(void **out, size_t align, size_t size) {
    g_page_allocs++;
    g_palign_arg = align;
    g_psize_arg = size;
    uint8_t *pg = sba_model_new_page(); /* ASSUMPTION: the OS page allocation succeeds (s_aligned_alloc's NULL result is not checked by the code) */
    size_t slot = SBA_MAXP;
    for (size_t i = SBA_MAXP; i > 0; i--)
        if (g_pt[i - 1] == NULL) slot = i - 1;
    __CPROVER_assert(slot < SBA_MAXP, "page table of the model has room for the page requested");
    if (slot < SBA_MAXP) {
        g_pt[slot] = pg;
        g_pt_alive[slot] = true;
    }
    *out = pg;
    return 0;
}
static void sba_hook_free(void *p) {
    g_page_frees++;
    g_page_free_last = p;
    for (size_t i = 0; i < SBA_MAXP; i++)
        if (g_pt[i] != NULL && p == (void *)g_pt[i]) g_pt_alive[i] = false;
    free(p);
}


/* bodies the plain harness needs (error.c / common.c are not part of the unit) */
void aws_raise_error_private(int err) { g_last_error = err; g_raise_count++; }
int aws_last_error(void) { return g_last_error; }
void aws_fatal_assert(const char *cond_str, const char *file, int line) {
    (void)cond_str; (void)file; (void)line;
    __CPROVER_assert(0, "aws_fatal_assert is never reached");
    __CPROVER_assume(0);
}

/* ---------------------------------------------------------------- size -> bin, the size-class table */
void h_find_bin(void) {
    struct small_block_allocator sba; /* arbitrary contents ... */
    for (unsigned i = 0; i < AWS_SBA_BIN_COUNT; i++) sba.bins[i].size = s_bin_sizes[i]; /* ... except what s_sba_init establishes (unit new_destroy) */
    size_t size = nondet_size_t();
    __CPROVER_assume(size <= s_max_bin_size);

    struct sba_bin *bin = s_sba_find_bin(&sba, size);

    size_t idx = AWS_SBA_BIN_COUNT;
    for (unsigned i = 0; i < AWS_SBA_BIN_COUNT; i++) if (bin == &sba.bins[i]) idx = i;
    CHECK(idx < AWS_SBA_BIN_COUNT, "find_bin: result is one of the allocator's bins");
    CHECK(bin->size >= size, "find_bin: the class holds the requested size");
    CHECK(idx == 0 || sba.bins[idx - 1].size < size, "find_bin: no smaller class holds the requested size");
    CHECK(idx == SBA_CLASS_IDX(size) && bin->size == SBA_CLASS_SIZE(idx), "find_bin: class index and size equal the specification table");
    if (idx == 0 && size == 0) CANARY("find_bin: size 0 -> class 32");
    if (idx == 0 && size == 32) CANARY("find_bin: size 32 -> class 32");
    if (idx == 1 && size == 33) CANARY("find_bin: size 33 -> class 64");
    if (idx == 2) CANARY("find_bin: class 128");
    if (idx == 3) CANARY("find_bin: class 256");
    if (idx == 4 && size == 512) CANARY("find_bin: size 512 -> class 512");
}

/* constants of the layout that everything else relies on */
void h_layout(void) {
    CHECK(sizeof(struct page_header) == 32, "layout: page header is 32 bytes");
    CHECK((AWS_SBA_PAGE_SIZE & (AWS_SBA_PAGE_SIZE - 1)) == 0 && AWS_SBA_PAGE_SIZE == 4096, "layout: page size 4096, a power of two");
    CHECK(AWS_SBA_PAGE_MASK == ~(uintptr_t)4095, "layout: page mask");
    size_t prev = 0;
    for (unsigned i = 0; i < AWS_SBA_BIN_COUNT; i++) {
        size_t s = s_bin_sizes[i];
        CHECK(s == SBA_CLASS_SIZE(i), "layout: class table is 32,64,128,256,512");
        CHECK((s & (s - 1)) == 0 && s > prev && 2 * s < AWS_SBA_PAGE_SIZE, "layout: classes are increasing powers of two below half a page");
        CHECK(s % sizeof(struct page_header) == 0 && sizeof(struct page_header) % 16 == 0, "layout: header size divides every class size (chunk offsets are multiples of 32)");
        CHECK((AWS_SBA_PAGE_SIZE - sizeof(struct page_header)) / s >= 7, "layout: at least 7 chunks per page");
        prev = s;
    }
    CHECK(s_max_bin_size == s_bin_sizes[AWS_SBA_BIN_COUNT - 1], "layout: largest class == small/large boundary");
    CANARY("layout: checked");
}

/* ================================================================ inductive steps on an arbitrary bin state */
#ifndef SBA_BIN
#    define SBA_BIN 4
#endif
#ifndef SBA_NF
#    define SBA_NF 7
#endif
#define CLS (s_bin_sizes[SBA_BIN])
/* the same constants for the preprocessor (checked against the code's in any_bin_state) */
#ifndef SBA_PAGE_C
#    define SBA_PAGE_C 4096
#endif
#define CLS_C (32 << SBA_BIN)
#define NCH_C ((SBA_PAGE_C - 32) / CLS_C)
#define LIST_CAP_A (SBA_NP + 1) /* capacity (elements) of the pre-state lists: room for one push; growth is array_list's contract (C09) */
#define LIST_CAP_F (SBA_NF + 1)

/* parent allocator of the model: the public entry points of allocator.c over libc malloc/free, counted.  (allocator.c
 * itself is not linked: its vtable indirection is C01's subject and only costs symbolic-execution time here.) */
size_t g_par_acquires, g_par_releases;
#ifdef SBA_NO_PARENT_CALLS
/* step units: the lists of the pre-state have room for one more element, so the parent allocator is never called
 * (list growth is aws_array_list's contract, C09); reaching it is a failed obligation */
void *aws_mem_acquire(struct aws_allocator *a, size_t n) {
    (void)a; (void)n;
    CHECK(0, "parent allocator is not called by this step (acquire)");
    __CPROVER_assume(0);
    return NULL;
}
void aws_mem_release(struct aws_allocator *a, void *p) {
    (void)a; (void)p;
    CHECK(0, "parent allocator is not called by this step (release)");
    __CPROVER_assume(0);
}
#else
void *aws_mem_acquire(struct aws_allocator *a, size_t n) {
    CHECK(a != NULL && n > 0, "parent allocator: acquire precondition");
    g_par_acquires++;
    void *p = malloc(n);
    __CPROVER_assume(p != NULL); /* OOM aborts in this version of the library */
    return p;
}
void aws_mem_release(struct aws_allocator *a, void *p) {
    CHECK(a != NULL, "parent allocator: release precondition");
    if (p != NULL) g_par_releases++;
    free(p);
}
#endif
/* replay variables (DESIGN 3.5): plain copies of the choices that make up the pre-state of a step unit, read back from the
 * counterexample trace by the driver and handed to replay/allocator_sba_replay.c, which reaches the same bin state through
 * the public api.  r_bin class index, r_np page objects of the model (index r_np-1 is the working page), r_page page size,
 * r_na exhausted pages (model pages 0..r_na-1), r_work slot of the cursor in the working page (SIZE_MAX: none), r_nf length of
 * the free list, r_fp / r_fs page index (4 bits each) and slot (8 bits each) of free-list entry i, r_ap / r_as page and slot
 * of the block released by free_step.  They take no part in any obligation. */
size_t r_bin, r_np, r_page, r_na, r_work, r_nf, r_ap, r_as;
uint64_t r_fp, r_fs;
static struct aws_allocator PARENT;
static struct small_block_allocator S_static;
static struct small_block_allocator *SB = &S_static;
#define S (*SB)
#define PGB(i) ((uint8_t *)g_pt[(i)])

static bool bin_same(const struct sba_bin *a, const struct sba_bin *b) {
    return a->size == b->size && a->page_cursor == b->page_cursor && a->mutex.initialized == b->mutex.initialized &&
           a->active_pages.data == b->active_pages.data && a->active_pages.length == b->active_pages.length &&
           a->active_pages.current_size == b->active_pages.current_size && a->active_pages.item_size == b->active_pages.item_size &&
           a->active_pages.alloc == b->active_pages.alloc && a->free_chunks.data == b->free_chunks.data &&
           a->free_chunks.length == b->free_chunks.length && a->free_chunks.current_size == b->free_chunks.current_size &&
           a->free_chunks.item_size == b->free_chunks.item_size && a->free_chunks.alloc == b->free_chunks.alloc;
}
static size_t any_below(size_t n) {
    size_t x = nondet_size_t();
    __CPROVER_assume(x < n);
    return x;
}

/* an arbitrary state of bin SBA_BIN that satisfies the invariant; every other bin is left arbitrary (never read) */
static struct sba_bin *any_bin_state(void) {
    struct sba_bin *bin = &S.bins[SBA_BIN];
    CHECK(SBA_PAGE_C == AWS_SBA_PAGE_SIZE && CLS_C == CLS && NCH_C == SBA_NCH(CLS) && sizeof(struct page_header) == 32, "harness constants equal the code's constants");
    S.allocator = &PARENT;
    g_par_acquires = g_par_releases = 0;
    g_last_error = 0; g_raise_count = 0;
    S.lock = s_null_lock;
    S.unlock = s_null_unlock;
    bin->size = CLS;
    for (unsigned i = 0; i < SBA_MAXP; i++) {
        g_pt[i] = NULL;
        g_pt_alive[i] = false;
    }
    for (unsigned i = 0; i < SBA_NP; i++) {
        g_pt[i] = sba_model_new_page();
        g_pt_alive[i] = true;
    }
    /* exhausted pages: PG[0..na) in active_pages */
    size_t na = any_below(SBA_NP);
    void **ad = malloc(LIST_CAP_A * sizeof(void *));
    __CPROVER_assume(ad != NULL);
    for (unsigned i = 0; i < SBA_NP - 1; i++) ad[i] = g_pt[i];
    bin->active_pages = (struct aws_array_list){.alloc = S.allocator, .current_size = LIST_CAP_A * sizeof(void *), .length = na, .item_size = sizeof(void *), .data = ad};
    /* working page: PG[SBA_NP-1] with the cursor on an arbitrary slot, or none */
    bool has_work = nondet_bool();
    size_t work_slot = any_below(SBA_NCH(CLS));
    bin->page_cursor = has_work ? PGB(SBA_NP - 1) + SBA_HDR + work_slot * CLS : NULL;
    /* free list: arbitrary slots of arbitrary pages */
    size_t nf = any_below(SBA_NF + 1);
    void **fd = malloc(LIST_CAP_F * sizeof(void *));
    __CPROVER_assume(fd != NULL);
    r_fp = 0; r_fs = 0;
    for (unsigned i = 0; i < SBA_NF; i++) {
        size_t fp = any_below(SBA_NP), fs = any_below(SBA_NCH(CLS));
        fd[i] = PGB(fp) + SBA_HDR + fs * CLS;
        r_fp |= (uint64_t)fp << (4 * i);
        r_fs |= (uint64_t)fs << (8 * i);
    }
    r_bin = SBA_BIN; r_np = SBA_NP; r_page = SBA_PAGE_C; r_na = na; r_work = has_work ? work_slot : SIZE_MAX; r_nf = nf;
    bin->free_chunks = (struct aws_array_list){.alloc = S.allocator, .current_size = LIST_CAP_F * sizeof(void *), .length = nf, .item_size = sizeof(void *), .data = fd};
    __CPROVER_assume(sba_bin_inv(&S, bin, CLS));
    g_page_allocs = g_page_frees = 0;
    g_page_free_last = NULL;
    return bin;
}
/* an arbitrary slot address of the page model (live or not is decided by the caller's assumption) */
static uint8_t *any_slot_addr(void) {
    return PGB(any_below(SBA_NP)) + SBA_HDR + any_below(SBA_NCH(CLS)) * CLS;
}

/* ---- s_sba_alloc_from_bin ---- */
void h_alloc_step(void) {
    struct sba_bin *bin = any_bin_state();
    /* witness: an arbitrary live chunk and an arbitrary byte of it */
    bool have_w = nondet_bool();
    uint8_t *w = any_slot_addr();
    size_t wo = any_below(CLS);
    if (have_w) __CPROVER_assume(sba_live(bin, w));
    uint8_t wv = have_w ? w[wo] : 0;
    size_t live0 = sba_bin_live_count(bin);
    size_t pages0 = sba_bin_pages(bin);
    size_t nfree0 = bin->free_chunks.length;
    bool had_work = bin->page_cursor != NULL;
    size_t other = any_below(AWS_SBA_BIN_COUNT);
    __CPROVER_assume(other != SBA_BIN);
    struct sba_bin other0 = S.bins[other];

    uint8_t *r = s_sba_alloc_from_bin(bin);

    CHECK(r != NULL, "alloc: never returns NULL");
    CHECK(sba_bin_inv(&S, bin, CLS), "alloc: bin invariant holds afterwards");
    CHECK(sba_live(bin, r), "alloc: the returned block is a live chunk slot (inside a listed page, not in the free list)");
    CHECK(__CPROVER_POINTER_OFFSET(r) >= SBA_HDR && __CPROVER_POINTER_OFFSET(r) + CLS <= SBA_PAGE && __CPROVER_w_ok(r, CLS),
          "alloc: the whole class size is inside the page, behind the header, and writable");
    CHECK(__CPROVER_POINTER_OFFSET(r) % 32 == 0, "alloc: chunk offset in the (page-aligned) page is a multiple of 32: aligned for any object");
    if (have_w) {
        CHECK(r != w, "alloc: the returned block is not a block that was already live (disjoint from every live block)");
        CHECK(sba_live(bin, w), "alloc: every live block stays live");
        CHECK(w[wo] == wv, "alloc: contents of every live block unchanged");
    }
    CHECK(sba_bin_live_count(bin) == live0 + 1, "alloc: the live count of the bin grows by exactly one");
    if (nfree0 > 0 || had_work) {
        CHECK(g_page_allocs == 0 && sba_bin_pages(bin) == pages0, "alloc: no new page while a free chunk or room in the working page exists");
    } else {
        CHECK(g_page_allocs == 1 && g_palign_arg == SBA_PAGE && g_psize_arg == SBA_PAGE && sba_bin_pages(bin) == pages0 + 1,
              "alloc: exactly one page-aligned page is requested when nothing is free");
    }
    CHECK(g_page_frees == 0, "alloc: no page is released");
    CHECK(nfree0 > 0 ? bin->free_chunks.length == nfree0 - 1 : bin->free_chunks.length == 0, "alloc: a free chunk is reused before anything is carved");
    CHECK(bin_same(&other0, &S.bins[other]), "alloc: other bins untouched");

    if (nfree0 > 0) CANARY("alloc: reuse of a free chunk");
    if (nfree0 == 0 && had_work && bin->page_cursor != NULL) CANARY("alloc: carved, page has room left");
    if (nfree0 == 0 && had_work && bin->page_cursor == NULL) CANARY("alloc: carved the last chunk, page moved to active_pages");
    if (nfree0 == 0 && !had_work) CANARY("alloc: new page");
    if (have_w && sba_pidx(w) == sba_pidx(r)) CANARY("alloc: witness in the same page");
    if (have_w && sba_pidx(w) != sba_pidx(r)) CANARY("alloc: witness in another page");
}

/* ---- s_sba_free_to_bin ---- */
void h_free_step(void) {
    struct sba_bin *bin = any_bin_state();
    size_t a_page = any_below(SBA_NP), a_slot = any_below(SBA_NCH(CLS));
    uint8_t *a = PGB(a_page) + SBA_HDR + a_slot * CLS; /* an arbitrary slot address, as any_slot_addr() */
    r_ap = a_page; r_as = a_slot;
    __CPROVER_assume(sba_live(bin, a)); /* the block being released is live */
    bool have_w = nondet_bool();
    uint8_t *w = any_slot_addr();
    size_t wo = any_below(CLS);
    if (have_w) __CPROVER_assume(sba_live(bin, w) && w != a); /* any OTHER live block */
    uint8_t wv = have_w ? w[wo] : 0;
    size_t live0 = sba_bin_live_count(bin);
    size_t pages0 = sba_bin_pages(bin);
    size_t nfree0 = bin->free_chunks.length;
    size_t pai = sba_pidx(a);
    bool a_in_work = pai == sba_work_idx(bin);
    bool retire = SBA_H(pai)->alloc_count == 1 && !a_in_work; /* last live chunk of an exhausted page */
    size_t free_in_pa = sba_free_in_page(bin, pai);
    size_t other = any_below(AWS_SBA_BIN_COUNT);
    __CPROVER_assume(other != SBA_BIN);
    struct sba_bin other0 = S.bins[other];

    s_sba_free_to_bin(bin, a);

    CHECK(sba_bin_inv(&S, bin, CLS), "free: bin invariant holds afterwards");
    CHECK(sba_bin_live_count(bin) == live0 - 1, "free: the live count of the bin drops by exactly one");
    if (have_w) {
        CHECK(sba_live(bin, w), "free: every other live block stays live (its page is not released, it is not put on the free list)");
        CHECK(w[wo] == wv, "free: contents of every other live block unchanged");
    }
    if (retire) {
        CHECK(g_page_frees == 1 && g_page_free_last == (void *)g_pt[pai] && !g_pt_alive[pai], "free: the page whose last live chunk was released is returned to the OS, once");
        CHECK(sba_bin_pages(bin) == pages0 - 1 && bin->free_chunks.length == nfree0 - free_in_pa, "free: the released page and exactly its free chunks are forgotten");
    } else {
        CHECK(g_page_frees == 0 && sba_bin_pages(bin) == pages0, "free: no page is released while it has live chunks or is the working page");
        CHECK(bin->free_chunks.length == nfree0 + 1 && sba_in_free(bin, a), "free: the chunk is put on the free list");
        CHECK(!sba_live(bin, a), "free: the released block is no longer live");
    }
    CHECK(g_page_allocs == 0, "free: no page is allocated");
    CHECK(sba_bin_live_count(bin) != 0 || bin->active_pages.length == 0, "free: with nothing live the bin keeps at most its working page");
    CHECK(bin_same(&other0, &S.bins[other]), "free: other bins untouched");

    /* an exhausted page can only be retired when all its other chunks are on the free list: reachable inside the free-list
     * bound only for page/class configurations with at most SBA_NF + 1 chunks per page */
#if NCH_C - 1 <= SBA_NF
    if (retire && free_in_pa == SBA_NCH(CLS) - 1) CANARY("free: page retired, all its other chunks purged from the free list");
#    if NCH_C <= SBA_NF
    if (retire && nfree0 > free_in_pa) CANARY("free: page retired, free chunks of other pages kept");
#    endif
    if (retire && bin->active_pages.length >= 1) CANARY("free: page retired, another exhausted page remains");
#else
    CHECK(!retire, "free: (bound) no page can be retired in this configuration");
#endif
    if (!retire && a_in_work && live0 == 1) CANARY("free: last live chunk, working page kept");
    if (!retire && !a_in_work) CANARY("free: chunk of an exhausted page with other live chunks");
    if (have_w && sba_pidx(w) == pai) CANARY("free: witness in the same page");
    if (have_w && sba_pidx(w) != pai) CANARY("free: witness in another page");
}

/* ================================================================ metrics, locks, destroy */
/* lock model for the sequential units: lock/unlock are the allocator's function pointers; the model records which mutex is
 * held, so "lock the bin's own mutex, release it again, never nest" are obligations */
struct aws_mutex *g_held;
size_t g_locks, g_unlocks;
static int model_lock(struct aws_mutex *m) {
    CHECK(g_held == NULL, "lock: no lock is held when a bin lock is taken");
    g_held = m;
    g_locks++;
    return 0;
}
static int model_unlock(struct aws_mutex *m) {
    CHECK(g_held == m, "unlock: the mutex released is the one held");
    g_held = NULL;
    g_unlocks++;
    return 0;
}
/* bins other than SBA_BIN as s_sba_init leaves them: empty lists with storage, no working page */
static void other_bins_empty(void) {
    for (unsigned i = 0; i < AWS_SBA_BIN_COUNT; i++) {
        if (i == SBA_BIN) continue;
        struct sba_bin *b = &S.bins[i];
        b->size = s_bin_sizes[i];
        b->page_cursor = NULL;
        void **d1 = malloc(2 * sizeof(void *)), **d2 = malloc(2 * sizeof(void *));
        __CPROVER_assume(d1 != NULL && d2 != NULL);
        b->active_pages = (struct aws_array_list){.alloc = S.allocator, .current_size = 2 * sizeof(void *), .length = 0, .item_size = sizeof(void *), .data = d1};
        b->free_chunks = (struct aws_array_list){.alloc = S.allocator, .current_size = 2 * sizeof(void *), .length = 0, .item_size = sizeof(void *), .data = d2};
        b->mutex.initialized = false;
    }
}

void h_metrics(void) {
    struct sba_bin *bin = any_bin_state();
    other_bins_empty();
    S.lock = model_lock;
    S.unlock = model_unlock;
    g_held = NULL;
    g_locks = g_unlocks = 0;
    struct aws_allocator A = {.mem_acquire = s_sba_mem_acquire, .mem_release = s_sba_mem_release, .mem_realloc = s_sba_mem_realloc, .mem_calloc = s_sba_mem_calloc, .impl = SB};
    size_t live = sba_bin_live_count(bin);
    size_t pages = sba_bin_pages(bin);

    size_t active = aws_small_block_allocator_bytes_active(&A);
    CHECK(active == live * CLS, "bytes_active: equals (number of live chunks) x (class size)");
    CHECK(g_held == NULL && g_locks == AWS_SBA_BIN_COUNT && g_unlocks == AWS_SBA_BIN_COUNT, "bytes_active: every bin locked and unlocked once");
    size_t reserved = aws_small_block_allocator_bytes_reserved(&A);
    CHECK(reserved == pages * SBA_PAGE, "bytes_reserved: equals (number of pages held) x (page size)");
    CHECK(g_held == NULL && g_locks == 2 * AWS_SBA_BIN_COUNT && g_unlocks == 2 * AWS_SBA_BIN_COUNT, "bytes_reserved: every bin locked and unlocked once");
    CHECK(live != 0 || reserved <= SBA_PAGE, "with nothing live the bin holds at most one page (its working page)");
    CHECK(sba_bin_inv(&S, bin, CLS) && g_page_allocs == 0 && g_page_frees == 0, "metrics: state untouched");
    CHECK(aws_small_block_allocator_page_size(&A) == SBA_PAGE && aws_small_block_allocator_page_size_available(&A) == SBA_PAGE - SBA_HDR, "page size / usable page size");
    if (live == 0 && pages == 1) CANARY("metrics: nothing live, working page kept");
    if (live == 0 && pages == 0) CANARY("metrics: empty bin");
    if (bin->active_pages.length == 2 && bin->page_cursor != NULL) CANARY("metrics: two exhausted pages and a working page");
    if (bin->active_pages.length == 0 && live > 0) CANARY("metrics: only the working page");
}

/* aws_small_block_allocator_destroy on an arbitrary invariant state (chunks may still be live: NDEBUG build, the
 * AWS_ASSERTs are compiled out): every page the bin holds goes back to the OS exactly once, the lists' storage and the
 * allocator block go back to the parent */
void h_destroy_step(void) {
    SB = malloc(sizeof(struct small_block_allocator));
    __CPROVER_assume(SB != NULL);
    struct sba_bin *bin = any_bin_state();
    other_bins_empty();
    bin->mutex.initialized = false;
    struct aws_allocator A = {.mem_acquire = s_sba_mem_acquire, .mem_release = s_sba_mem_release, .mem_realloc = s_sba_mem_realloc, .mem_calloc = s_sba_mem_calloc, .impl = SB};
    size_t pages = sba_bin_pages(bin);
    bool listed[SBA_NP];
    for (unsigned i = 0; i < SBA_NP; i++) listed[i] = sba_listed(bin, i);
    bool had_work = bin->page_cursor != NULL;

    aws_small_block_allocator_destroy(&A);

    CHECK(g_page_frees == pages, "destroy: as many pages released as the bin held");
    for (unsigned i = 0; i < SBA_NP; i++) CHECK(g_pt_alive[i] == !listed[i], "destroy: exactly the listed pages are released (each once: double free is a libc-model obligation)");
    CHECK(g_par_releases == 2 * AWS_SBA_BIN_COUNT + 1 && g_par_acquires == 0, "destroy: storage of the ten lists and the allocator block go back to the parent");
    CHECK(g_page_allocs == 0, "destroy: nothing allocated");
    if (pages == 0) CANARY("destroy: empty bin");
    if (pages == SBA_NP) CANARY("destroy: exhausted pages and working page");
    if (had_work && pages == 1) CANARY("destroy: only a working page");
}
void h_destroy_null(void) {
    struct aws_allocator A = {.mem_acquire = s_sba_mem_acquire, .mem_release = s_sba_mem_release, .mem_realloc = s_sba_mem_realloc, .mem_calloc = s_sba_mem_calloc, .impl = NULL};
    g_par_acquires = g_par_releases = g_page_frees = 0;
    aws_small_block_allocator_destroy(NULL);
    aws_small_block_allocator_destroy(&A);
    CHECK(g_par_releases == 0 && g_page_frees == 0, "destroy: NULL allocator / NULL impl is a no-op");
    CANARY("destroy: NULL cases returned");
}

/* ---- aws_small_block_allocator_new: establishes the invariant of every bin (empty), the class table, the vtable ---- */
/* source/posix/mutex.c is not linked: a mutex is its `initialized` flag, lock/unlock go to the lock model */
bool g_mutex_init_fails_at_on;
size_t g_mutex_init_fails_at, g_mutex_inits, g_mutex_cleanups;
int aws_mutex_init(struct aws_mutex *m) {
    if (g_mutex_init_fails_at_on && g_mutex_inits == g_mutex_init_fails_at) return AWS_OP_ERR;
    g_mutex_inits++;
    m->initialized = true;
    return AWS_OP_SUCCESS;
}
void aws_mutex_clean_up(struct aws_mutex *m) { if (m->initialized) g_mutex_cleanups++; m->initialized = false; }
int aws_mutex_lock(struct aws_mutex *m) { return model_lock(m); }
int aws_mutex_unlock(struct aws_mutex *m) { return model_unlock(m); }

#ifdef SBA_ACQUIRE_MANY_STUB
/* ASSUMED model of aws_mem_acquire_many (allocator.c, a va_arg function outside C03) for its one use here: ONE parent block
 * that holds two disjoint, aligned sub-blocks of the requested sizes, the first one at the start of the block.  (With the
 * real function the block is an untyped byte array of a size computed through va_arg, the parent pointer read back from
 * it is no longer a constant for the symbolic execution, and every vtable function becomes a call candidate.) */
#include <stdarg.h>
struct sba_two_blocks { struct small_block_allocator sba; struct aws_allocator alloc; };
void *aws_mem_acquire_many(struct aws_allocator *allocator, size_t count, ...) {
    va_list ap;
    va_start(ap, count);
    void **p1 = va_arg(ap, void **);
    size_t s1 = va_arg(ap, size_t);
    void **p2 = va_arg(ap, void **);
    size_t s2 = va_arg(ap, size_t);
    va_end(ap);
    CHECK(allocator != NULL && count == 2 && s1 == sizeof(struct small_block_allocator) && s2 == sizeof(struct aws_allocator), "acquire_many: asked for allocator block + vtable block");
    g_par_acquires++;
    struct sba_two_blocks *b = malloc(sizeof(struct sba_two_blocks));
    __CPROVER_assume(b != NULL);
    *p1 = &b->sba;
    *p2 = &b->alloc;
    return b;
}
void h_new_destroy(void) {
    PARENT = (struct aws_allocator){0};
    g_par_acquires = g_par_releases = g_page_allocs = g_page_frees = 0;
    g_mutex_inits = g_mutex_cleanups = 0;
    g_held = NULL; g_locks = g_unlocks = 0;
    for (unsigned i = 0; i < SBA_MAXP; i++) { g_pt[i] = NULL; g_pt_alive[i] = false; }
    bool mt = nondet_bool();
    g_mutex_init_fails_at_on = nondet_bool();
    g_mutex_init_fails_at = any_below(AWS_SBA_BIN_COUNT);

    struct aws_allocator *a = aws_small_block_allocator_new(&PARENT, mt);

    if (a == NULL) {
        CHECK(mt && g_mutex_init_fails_at_on, "new: fails only when a mutex cannot be initialised");
        CHECK(g_par_releases == g_par_acquires && g_mutex_cleanups == g_mutex_inits, "new: a failed construction gives everything back");
        CANARY("new: construction failed (mutex), nothing leaked");
        return;
    }
    CHECK(a->mem_acquire == s_sba_mem_acquire && a->mem_release == s_sba_mem_release && a->mem_realloc == s_sba_mem_realloc && a->mem_calloc == s_sba_mem_calloc,
          "new: vtable is the small-block allocator's");
    struct small_block_allocator *sba = a->impl;
    CHECK(sba != NULL && sba->allocator == &PARENT, "new: parent allocator recorded");
    CHECK(mt ? (sba->lock == s_mutex_lock && sba->unlock == s_mutex_unlock) : (sba->lock == s_null_lock && sba->unlock == s_null_unlock), "new: real mutex functions exactly when multi-threaded");
    for (unsigned i = 0; i < AWS_SBA_BIN_COUNT; i++) {
        struct sba_bin *b = &sba->bins[i];
        CHECK(sba_bin_inv(sba, b, SBA_CLASS_SIZE(i)), "new: every bin satisfies the bin invariant");
        CHECK(b->page_cursor == NULL && b->active_pages.length == 0 && b->free_chunks.length == 0, "new: every bin is empty");
        CHECK(b->free_chunks.current_size / sizeof(void *) >= SBA_NCH(b->size) && b->active_pages.current_size / sizeof(void *) >= 16, "new: the free list has room for one page of chunks");
        CHECK(b->mutex.initialized == mt, "new: mutex initialised exactly when multi-threaded");
    }
    CHECK(g_par_acquires == 1 + 2 * AWS_SBA_BIN_COUNT && g_par_releases == 0 && g_page_allocs == 0, "new: one block for allocator + vtable, ten list stores, no page yet");
    CHECK(aws_small_block_allocator_bytes_active(a) == 0 && aws_small_block_allocator_bytes_reserved(a) == 0, "new: nothing active, nothing reserved");
    CHECK(g_held == NULL && g_locks == g_unlocks && g_locks == (mt ? 2 * AWS_SBA_BIN_COUNT : 0), "new: metrics lock each bin once when multi-threaded");

    aws_small_block_allocator_destroy(a);
    CHECK(g_par_releases == g_par_acquires && g_page_frees == 0 && g_mutex_cleanups == g_mutex_inits, "destroy of a fresh allocator returns everything to the parent");
    if (mt) CANARY("new/destroy: multi-threaded"); else CANARY("new/destroy: single-threaded");
}
#endif
