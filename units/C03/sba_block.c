/* Proof units of C03, block layer (DFCC): the real s_sba_alloc / s_sba_free / s_sba_mem_realloc / s_sba_mem_calloc and the
 * vtable forwarders of source/allocator_sba.c against the contracts of contracts/allocator_sba.h.  One function is
 * enforced per unit; its callees are replaced by their contracts (see units.json). */
#define SBA_BLOCK_LAYER
#define SBA_BLOCK_LAYER_ONLY
#include "contracts/common.h"
#include "contracts/allocator.h"
#include "source/allocator_sba.c"
#include "contracts/allocator_sba.h"

/* AWS_FATAL_ASSERT must never fire (abort would hide whatever follows) */
void aws_fatal_assert(const char *cond_str, const char *file, int line) {
    (void)cond_str; (void)file; (void)line;
    __CPROVER_assert(0, "aws_fatal_assert is never reached");
    __CPROVER_assume(0);
}

#define GHOSTS() do { SBA_GHOST_RESET(); g_on = true; g_k = nondet_size_t(); g_old = nondet_u8(); g_j = nondet_size_t(); } while (0)

void h_sba_alloc(void) {
    struct small_block_allocator *sba;
    size_t size = nondet_size_t();
    GHOSTS();
    void *r = s_sba_alloc(sba, size);
    if (size <= 32) CANARY("alloc: class 32");
    if (size == 512) CANARY("alloc: largest small size");
    if (size == 513) CANARY("alloc: smallest large size");
    if (r != NULL) CANARY("alloc: returned");
}

void h_sba_free(void) {
    struct small_block_allocator *sba;
    void *addr;
    GHOSTS();
#ifdef SBA_FREE_CASE
    g_case = SBA_FREE_CASE;
#endif
    s_sba_free(sba, addr);
    if (g_case == 0) CANARY("free: NULL");
    if (g_case == 1) CANARY("free: small block");
    if (g_case == 2) CANARY("free: block of the parent");
}

void h_mem_acquire(void) {
    struct aws_allocator *allocator;
    size_t size = nondet_size_t();
    GHOSTS();
    void *r = s_sba_mem_acquire(allocator, size);
    if (size <= 512) CANARY("mem_acquire: small"); else CANARY("mem_acquire: large");
}
void h_mem_release(void) {
    struct aws_allocator *allocator;
    void *ptr;
    GHOSTS();
    s_sba_mem_release(allocator, ptr);
    CANARY("mem_release: returned");
}
void h_mem_realloc(void) {
    struct aws_allocator *allocator;
    void *old_ptr;
    size_t old_size = nondet_size_t(), new_size = nondet_size_t();
    GHOSTS();
    void *r = s_sba_mem_realloc(allocator, old_ptr, old_size, new_size);
    if (RA_BOTH_LARGE && new_size > old_size) CANARY("realloc: parent grows");
    if (RA_BOTH_LARGE && new_size <= old_size) CANARY("realloc: parent shrinks");
    if (RA_FREES && old_size > 0) CANARY("realloc: new size 0 releases");
    if (RA_FREES && old_size == 0) CANARY("realloc: NULL block, new size 0");
    if (RA_KEEPS && old_size > 512) CANARY("realloc: large -> small keeps the large block");
    if (RA_KEEPS && old_size <= 512) CANARY("realloc: small shrink keeps the block");
    if (RA_MOVES && old_size == 0) CANARY("realloc: from nothing");
    if (RA_MOVES && old_size > 0 && old_size <= 512 && new_size > 512) CANARY("realloc: small -> large");
    if (RA_MOVES && old_size > 0 && new_size <= 512) CANARY("realloc: small -> small (new chunk even inside one class)");
    if (RA_MOVES && old_size == new_size && old_size > 0) CANARY("realloc: same size");
}
void h_mem_calloc(void) {
    struct aws_allocator *allocator;
    size_t num = nondet_size_t(), size = nondet_size_t();
    GHOSTS();
    void *r = s_sba_mem_calloc(allocator, num, size);
    if (num * size <= 512) CANARY("calloc: small"); else CANARY("calloc: large");
}
