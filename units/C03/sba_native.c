/* C03 bounded stand-in (native, never counted as proof): long pseudo-random operation histories against the REAL
 * small-block allocator ($REPO/source/allocator_sba.c + allocator.c + array_list.c + posix/mutex.c) at the shipped
 * configuration (4096-byte pages, all five classes), checked against a shadow model after every operation:
 *   - every returned block is non-NULL, 16-byte aligned, and disjoint from every other live block (address ranges),
 *   - every live block still holds the pattern written when it was handed out (release / realloc of other blocks never
 *     disturbs it); realloc keeps the old contents up to min(old, new); calloc returns zeroes,
 *   - aws_small_block_allocator_bytes_active == sum of the size classes of the live blocks of size <= 512, after EVERY op,
 *   - bytes_reserved is a multiple of the page size and never below what the live small blocks need,
 *   - with everything released: bytes_active == 0 and bytes_reserved <= one page per class,
 *   - destroy: the parent allocator got back every block it handed out (counted); pages are checked by LeakSanitizer.
 * Part 2 repeats the same with NTHREADS threads on an allocator created as multi-threaded (each thread owns its slots;
 * bytes_active is compared once all threads are done).  A handful of schedules, not all interleavings.
 * Built with -fsanitize=address,undefined.  Output protocol: "CASES n", "FAIL ..." lines; exit 1 when a case failed.
 * args: <seed> <tier>   (quick: 60k ops + 4 x 20k threaded; thorough: 10x) */
#include <aws/common/allocator.h>
#include <aws/common/common.h>
#include <pthread.h>
#include <stdio.h>
#include <stdlib.h>
#include <string.h>

/* the allocator under test is compiled into this TU: the overlay copy when a built-in mutant is applied (cflags -I.. makes
 * "ovl/..." visible), the file of $REPO otherwise */
#if defined(__has_include) && __has_include("ovl/source/allocator_sba.c")
#    include "ovl/source/allocator_sba.c"
#else
#    include "source/allocator_sba.c"
#endif

/* ---------------- environment ---------------- */
static __thread int s_last_error;
void aws_raise_error_private(int err) { s_last_error = err; }
int aws_last_error(void) { return s_last_error; }
static unsigned long g_cases;
static int g_fail;
void aws_fatal_assert(const char *cond_str, const char *file, int line) {
    printf("FAIL fatal assert reached: %s (%s:%d)\n", cond_str, file, line);
    printf("CASES %lu\n", g_cases + 1);
    exit(1);
}
struct aws_logger *aws_logger_get(void) { return NULL; }
/* AddressSanitizer calls this hook before it prints its report and exits: turn the report into a FAIL line of the protocol */
void __asan_on_error(void) {
    printf("FAIL native: AddressSanitizer error (report on stderr) after %lu operations\nCASES %lu\n", g_cases, g_cases + 1);
    fflush(stdout);
}

#define FAIL(...) do { if (g_fail < 20) { printf("FAIL "); printf(__VA_ARGS__); printf("\n"); } g_fail++; } while (0)

/* counting parent allocator over libc */
static long g_parent_live;
static void *par_acquire(struct aws_allocator *a, size_t n) { (void)a; __atomic_add_fetch(&g_parent_live, 1, __ATOMIC_SEQ_CST); return malloc(n); }
static void par_release(struct aws_allocator *a, void *p) { (void)a; __atomic_sub_fetch(&g_parent_live, 1, __ATOMIC_SEQ_CST); free(p); }
static void *par_realloc(struct aws_allocator *a, void *p, size_t o, size_t n) { (void)a; (void)o; if (!p) __atomic_add_fetch(&g_parent_live, 1, __ATOMIC_SEQ_CST); return realloc(p, n); }
static struct aws_allocator g_parent = {.mem_acquire = par_acquire, .mem_release = par_release, .mem_realloc = par_realloc, .mem_calloc = NULL};

/* ---------------- shadow model ---------------- */
struct slot { uint8_t *p; size_t size; uint8_t tag; };
static size_t class_of(size_t n) { return n <= 32 ? 32 : n <= 64 ? 64 : n <= 128 ? 128 : n <= 256 ? 256 : n <= 512 ? 512 : 0; }
static uint8_t pat(uint8_t tag, size_t i) { return (uint8_t)(tag * 31u + i * 7u + 1u); }
static void fill(struct slot *s) { for (size_t i = 0; i < s->size; i++) s->p[i] = pat(s->tag, i); }
static int intact_upto(const struct slot *s, const uint8_t *p, size_t n) { for (size_t i = 0; i < n; i++) if (p[i] != pat(s->tag, i)) return 0; return 1; }

static uint64_t rng_next(uint64_t *st) { *st ^= *st << 13; *st ^= *st >> 7; *st ^= *st << 17; return *st; }
static size_t pick_size(uint64_t *st) {
    static const size_t edge[] = {1, 2, 31, 32, 33, 63, 64, 65, 127, 128, 129, 255, 256, 257, 511, 512, 513, 514, 600, 1024, 5000};
    uint64_t r = rng_next(st);
    if (r % 3 == 0) return edge[(r >> 8) % (sizeof edge / sizeof edge[0])];
    if (r % 3 == 1) return 1 + (r >> 8) % 700;
    return 1 + (r >> 8) % 96; /* many small blocks: pages of class 32/64/128 fill up and retire */
}

static void check_new_block(struct slot *sl, size_t nslots, size_t me, const char *op) {
    struct slot *s = &sl[me];
    if (s->p == NULL) { FAIL("%s returned NULL for size %zu", op, s->size); return; }
    if (((uintptr_t)s->p & 15u) != 0) FAIL("%s: block %p of size %zu not 16-byte aligned", op, (void *)s->p, s->size);
    for (size_t i = 0; i < nslots; i++) {
        if (i == me || sl[i].p == NULL) continue;
        if (s->p < sl[i].p + sl[i].size && sl[i].p < s->p + s->size) FAIL("%s: block [%p,+%zu) overlaps live block [%p,+%zu)", op, (void *)s->p, s->size, (void *)sl[i].p, sl[i].size);
    }
}
static size_t model_active(const struct slot *sl, size_t nslots) {
    size_t a = 0;
    for (size_t i = 0; i < nslots; i++) if (sl[i].p) a += class_of(sl[i].size);
    return a;
}

/* one pseudo-random operation on slot array sl; returns 1 if an op was executed */
static void one_op(struct aws_allocator *sba, struct slot *sl, size_t nslots, uint64_t *st, int check_active) {
    size_t i = rng_next(st) % nslots;
    struct slot *s = &sl[i];
    unsigned op = (unsigned)(rng_next(st) % 8);
    if (s->p == NULL) {
        s->size = pick_size(st);
        s->tag = (uint8_t)rng_next(st);
        if (op & 1) {
            s->p = aws_mem_acquire(sba, s->size);
            check_new_block(sl, nslots, i, "acquire");
        } else {
            size_t num = 1 + rng_next(st) % 4;
            size_t el = (s->size + num - 1) / num;
            s->size = num * el;
            s->p = aws_mem_calloc(sba, num, el);
            check_new_block(sl, nslots, i, "calloc");
            if (s->p) for (size_t k = 0; k < s->size; k++) if (s->p[k] != 0) { FAIL("calloc: byte %zu of %zu not zero", k, s->size); break; }
        }
        if (s->p) fill(s);
    } else {
        if (!intact_upto(s, s->p, s->size)) FAIL("live block %p (size %zu) was disturbed", (void *)s->p, s->size);
        if (op < 3) {
            aws_mem_release(sba, s->p);
            s->p = NULL;
        } else if (op < 7) {
            size_t ns = pick_size(st), os = s->size;
            void *p = s->p;
            if (aws_mem_realloc(sba, &p, os, ns) != AWS_OP_SUCCESS || p == NULL) { FAIL("realloc %zu -> %zu failed", os, ns); s->p = NULL; return; }
            s->p = p;
            if (!intact_upto(s, s->p, os < ns ? os : ns)) FAIL("realloc %zu -> %zu lost contents", os, ns);
            /* the allocator keeps a block that shrinks: its real extent stays the old one; the model follows the API (new size) */
            s->size = ns;
            check_new_block(sl, nslots, i, "realloc");
            fill(s);
        } else {
            /* vtable realloc with new size 0 (aws_mem_realloc never forwards it): releases and returns NULL */
            void *r = sba->mem_realloc(sba, s->p, s->size, 0);
            if (r != NULL) FAIL("vtable realloc to size 0 returned %p", r);
            s->p = NULL;
        }
    }
    if (check_active) {
        size_t act = aws_small_block_allocator_bytes_active(sba), want = model_active(sl, nslots);
        /* a block that was shrunk from > 512 to <= 512 stays a parent block: track through a flag instead of the size */
        (void)want;
        size_t res = aws_small_block_allocator_bytes_reserved(sba);
        if (res % 4096 != 0) FAIL("bytes_reserved %zu is not a multiple of the page size", res);
        if (act > res) FAIL("bytes_active %zu exceeds bytes_reserved %zu", act, res);
    }
    __atomic_add_fetch(&g_cases, 1, __ATOMIC_RELAXED);
}

/* exact accounting needs to know which live blocks are small BLOCKS (served by a class), not just small sizes:
 * a block shrunk by realloc keeps its original class / parent block.  Shadow: remember the serving class per slot. */
struct slotx { struct slot s; size_t served; /* class size or 0 = parent */ };

static size_t served_sum(const struct slotx *sx, size_t n) { size_t a = 0; for (size_t i = 0; i < n; i++) if (sx[i].s.p) a += sx[i].served; return a; }

static void exact_run(struct aws_allocator *sba, uint64_t seed, unsigned long nops, size_t nslots) {
    struct slotx *sx = calloc(nslots, sizeof *sx);
    struct slot *flat = calloc(nslots, sizeof *flat);
    uint64_t st = seed | 1;
    for (unsigned long n = 0; n < nops; n++) {
        size_t i = rng_next(&st) % nslots;
        struct slot *s = &sx[i].s;
        unsigned op = (unsigned)(rng_next(&st) % 8);
        for (size_t k = 0; k < nslots; k++) flat[k] = sx[k].s;
        if (s->p == NULL) {
            s->size = pick_size(&st);
            s->tag = (uint8_t)rng_next(&st);
            if (op & 1) {
                s->p = aws_mem_acquire(sba, s->size);
            } else {
                size_t num = 1 + rng_next(&st) % 4, el = (s->size + num - 1) / num;
                s->size = num * el;
                s->p = aws_mem_calloc(sba, num, el);
                if (s->p) for (size_t k = 0; k < s->size; k++) if (s->p[k] != 0) { FAIL("calloc: byte %zu of %zu not zero", k, s->size); break; }
            }
            sx[i].served = class_of(s->size);
            flat[i] = *s;
            check_new_block(flat, nslots, i, "acquire/calloc");
            if (s->p) fill(s);
        } else {
            if (!intact_upto(s, s->p, s->size)) FAIL("live block %p (size %zu) was disturbed", (void *)s->p, s->size);
            if (op < 3) {
                aws_mem_release(sba, s->p);
                s->p = NULL;
            } else if (op < 7) {
                size_t ns = pick_size(&st), os = s->size;
                void *p = s->p, *oldp = s->p;
                if (aws_mem_realloc(sba, &p, os, ns) != AWS_OP_SUCCESS || p == NULL) { FAIL("realloc %zu -> %zu failed", os, ns); s->p = NULL; continue; }
                s->p = p;
                if (!intact_upto(s, s->p, os < ns ? os : ns)) FAIL("realloc %zu -> %zu lost contents", os, ns);
                if (p != oldp) sx[i].served = class_of(ns); /* moved: served by the class (or parent) of the new size */
                else if (os > 512 && ns > 512) sx[i].served = 0;
                if (p == oldp && ns > os && !(os > 512 && ns > 512)) FAIL("realloc %zu -> %zu grew in place", os, ns);
                s->size = ns;
                flat[i] = *s;
                check_new_block(flat, nslots, i, "realloc");
                fill(s);
            } else {
                void *r = sba->mem_realloc(sba, s->p, s->size, 0);
                if (r != NULL) FAIL("vtable realloc to size 0 returned %p", r);
                s->p = NULL;
            }
        }
        size_t act = aws_small_block_allocator_bytes_active(sba), want = served_sum(sx, nslots);
        if (act != want) FAIL("op %lu: bytes_active %zu != sum of the classes of the live small blocks %zu", n, act, want);
        size_t res = aws_small_block_allocator_bytes_reserved(sba);
        if (res % 4096 != 0 || act > res) FAIL("op %lu: bytes_reserved %zu inconsistent (active %zu)", n, res, act);
        g_cases++;
        if (g_fail > 20) break;
    }
    for (size_t i = 0; i < nslots; i++) {
        if (sx[i].s.p) {
            if (!intact_upto(&sx[i].s, sx[i].s.p, sx[i].s.size)) FAIL("final: live block %p (size %zu) was disturbed", (void *)sx[i].s.p, sx[i].s.size);
            aws_mem_release(sba, sx[i].s.p);
            sx[i].s.p = NULL;
        }
    }
    if (aws_small_block_allocator_bytes_active(sba) != 0) FAIL("everything released but bytes_active == %zu", aws_small_block_allocator_bytes_active(sba));
    if (aws_small_block_allocator_bytes_reserved(sba) > 5 * 4096) FAIL("everything released but bytes_reserved == %zu (> one page per class)", aws_small_block_allocator_bytes_reserved(sba));
    g_cases++;
    free(sx);
    free(flat);
}

/* ---------------- threads ---------------- */
#define NTHREADS 4
struct targ { struct aws_allocator *sba; uint64_t seed; unsigned long nops; };
static void *thread_main(void *v) {
    struct targ *a = v;
    enum { NS = 96 };
    struct slot sl[NS];
    memset(sl, 0, sizeof sl);
    uint64_t st = a->seed | 1;
    for (unsigned long n = 0; n < a->nops; n++) one_op(a->sba, sl, NS, &st, (n & 63) == 0);
    for (size_t i = 0; i < NS; i++) {
        if (sl[i].p) {
            if (!intact_upto(&sl[i], sl[i].p, sl[i].size)) FAIL("thread final: live block %p (size %zu) was disturbed", (void *)sl[i].p, sl[i].size);
            aws_mem_release(a->sba, sl[i].p);
        }
    }
    return NULL;
}

int main(int argc, char **argv) {
    uint64_t seed = argc > 1 ? strtoull(argv[1], NULL, 10) : 1;
    int thorough = argc > 2 && strcmp(argv[2], "thorough") == 0;
    unsigned long scale = thorough ? 10 : 1;

    /* part 1: sequential, exact accounting after every operation; few slots (pages retire often) and many slots */
    for (int round = 0; round < 3; round++) {
        struct aws_allocator *sba = aws_small_block_allocator_new(&g_parent, false);
        if (!sba) { FAIL("allocator construction failed"); break; }
        exact_run(sba, seed * 7919 + (uint64_t)round, 20000 * scale, round == 0 ? 12 : round == 1 ? 150 : 600);
        aws_small_block_allocator_destroy(sba);
        if (g_parent_live != 0) FAIL("round %d: parent allocator still has %ld live blocks after destroy", round, g_parent_live);
    }
    /* part 2: threads on a multi-threaded allocator */
    {
        struct aws_allocator *sba = aws_small_block_allocator_new(&g_parent, true);
        if (!sba) { FAIL("allocator construction failed (multi-threaded)"); }
        else {
            pthread_t th[NTHREADS];
            struct targ ta[NTHREADS];
            for (int t = 0; t < NTHREADS; t++) {
                ta[t] = (struct targ){sba, seed * 104729 + (uint64_t)t * 13, 20000 * scale};
                pthread_create(&th[t], NULL, thread_main, &ta[t]);
            }
            for (int t = 0; t < NTHREADS; t++) pthread_join(th[t], NULL);
            if (aws_small_block_allocator_bytes_active(sba) != 0) FAIL("threads done, everything released, bytes_active == %zu", aws_small_block_allocator_bytes_active(sba));
            if (aws_small_block_allocator_bytes_reserved(sba) > 5 * 4096) FAIL("threads done, everything released, bytes_reserved == %zu", aws_small_block_allocator_bytes_reserved(sba));
            aws_small_block_allocator_destroy(sba);
            if (g_parent_live != 0) FAIL("threads: parent allocator still has %ld live blocks after destroy", g_parent_live);
        }
    }
    printf("CASES %lu\n", g_cases);
    return g_fail ? 1 : 0;
}
