/* Proof units for C18, cache layer: the REAL cache code (cache.c, fifo_cache.c, lifo_cache.c, lru_cache.c) on top of the
 * REAL linked hash table code (linked_hash_table.c, linked_list.inl); only the hash table is the assumed client view of
 * contracts/linked_hash_table.h.  Reference semantics: the ordered map of that header + the eviction rule of the policy. */
#include "contracts/cache.h"
#include "source/linked_hash_table.c"
#include "source/cache.c"
#include "source/fifo_cache.c"
#include "source/lifo_cache.c"
#include "source/lru_cache.c"

void *verif_keep_c18[] = {(void *)lht_user_dv, (void *)lht_user_dk, (void *)lht_user_hash, (void *)lht_user_eq};

static size_t lht_any_index(size_t n) {
    size_t i = nondet_size_t();
    __CPROVER_assume(i < n);
    return i;
}
static size_t lht_pick_key(const void **key, bool need_neighbours) {
    *key = lht_any_key();
    size_t mi = lht_abs_find(&g_a, *key);
    if (mi != LHT_NONE) {
        if (need_neighbours) __CPROVER_assume(lht_abs_visible(&g_a, mi));
        g_M = g_a.node[mi];
    }
    return mi;
}
#define LHT_ASSERT_CALLS(dv_n, dv_p, dk_n, dk_p, rel_n, rel_p, cal_n)                                                  \
    do {                                                                                                               \
        __CPROVER_assert(g_m.dv_calls == (size_t)(dv_n) && ((dv_n) == 0 || g_m.dv_last == (const void *)(dv_p)),       \
                         "value destructor: exactly once per displaced entry, on its value; otherwise not at all");    \
        __CPROVER_assert(g_m.dk_calls == (size_t)(dk_n) && ((dk_n) == 0 || g_m.dk_last == (const void *)(dk_p)),       \
                         "key destructor: exactly once per displaced key, on that key; otherwise not at all");         \
        __CPROVER_assert(g_m.rel_calls == (size_t)(rel_n) && ((rel_n) == 0 || g_m.rel_last == (const void *)(rel_p)),  \
                         "node storage: released exactly once per displaced node; otherwise not at all");              \
        __CPROVER_assert(g_m.calloc_calls == (size_t)(cal_n), "node storage: one allocation per put, none otherwise"); \
    } while (0)

/* an arbitrary cache that respects its capacity: any max_items >= 1, any number of entries <= max_items */
static struct aws_cache *cache_build(size_t max_n, int flags) {
    struct aws_cache *C = malloc(sizeof(*C));
    __CPROVER_assume(C != NULL);
    C->allocator = &g_lht_allocator;
    C->vtable = NULL;
    C->impl = NULL;
    C->max_items = nondet_size_t();
    __CPROVER_assume(C->max_items >= 1);
    lht_build(&C->table, max_n, flags);
    __CPROVER_assume(lht_abs_size(&g_a) <= C->max_items);
    g_C = C;
    return C;
}
#define CACHE_HEADER_KEPT(C, m) __CPROVER_assert((C)->max_items == (m) && (C)->allocator == &g_lht_allocator, "cache header: capacity and allocator unchanged")

enum policy { FIFO, LIFO, LRU };

/* put under the three policies.  Reference: re-insert -> value replaced, entry moves to the back, nothing evicted;
 * new key -> appended; if that exceeds max_items exactly ONE entry is evicted: the front (FIFO: oldest inserted; LRU:
 * least recently used, as finds/puts/use_lru move entries to the back) or the predecessor of the new entry (LIFO).
 * The entry just inserted is retained, the count never exceeds max_items, the evicted entry's destructors run once. */
static void put_common(enum policy pol) {
    struct aws_cache *C = cache_build(LHT_K, 0);
    size_t max_items = C->max_items;
    lht_check(&g_a);
    const void *key;
    void *val = lht_any_value();
    size_t mi = lht_pick_key(&key, true);
    size_t cell = mi != LHT_NONE ? g_a.slot[mi] : lht_hash_free_cell();
    bool has_dv = C->table.user_on_value_destroy != NULL, has_dk = C->table.user_on_key_destroy != NULL;
    bool adds = mi == LHT_NONE && !g_m.create_fails;
    bool evicts = adds && lht_abs_size(&g_a) == max_items;
    size_t xi = LHT_NONE;
    if (evicts) { /* the cache is full, so it is not empty: front and back exist */
        xi = pol == LIFO ? g_a.n - 1 : 0;
        __CPROVER_assume(lht_abs_visible(&g_a, xi));
        g_X = g_a.node[xi];
    }

    int r = pol == FIFO ? s_fifo_cache_put(C, key, val) : pol == LIFO ? s_lifo_cache_put(C, key, val) : s_lru_cache_put(C, key, val);

    struct aws_linked_hash_table_node *fresh = (struct aws_linked_hash_table_node *)g_m.calloc_last;
    if (mi != LHT_NONE) {
        bool other_ptr = g_a.key[mi] != key;
        lht_abs_remove_at(&g_e, mi);
        lht_abs_append(&g_e, fresh, key, val, cell);
        LHT_ASSERT_CALLS(has_dv ? 1 : 0, g_a.val[mi], (has_dk && other_ptr) ? 1 : 0, g_a.key[mi], 1, g_a.node[mi], 1);
        CANARY("existing key: replaced, moved to the back, nothing evicted");
        if (lht_abs_size(&g_a) == max_items) CANARY("existing key in a full cache");
    } else if (adds) {
        lht_abs_append(&g_e, fresh, key, val, cell);
        if (evicts) {
            lht_abs_remove_at(&g_e, xi);
            LHT_ASSERT_CALLS(has_dv ? 1 : 0, g_a.val[xi], has_dk ? 1 : 0, g_a.key[xi], 1, g_a.node[xi], 1);
            CANARY("full cache: one entry evicted");
            if (max_items == 1) CANARY("capacity 1: the only entry evicted");
            if (max_items > 1000) CANARY("large full cache");
        } else {
            LHT_ASSERT_CALLS(0, NULL, 0, NULL, 0, NULL, 1);
            CANARY("room left: nothing evicted");
        }
    } else {
        LHT_ASSERT_CALLS(0, NULL, 0, NULL, 1, fresh, 1);
        CANARY("hash table could not create the entry: nothing changed");
    }
    lht_check(&g_e);
    __CPROVER_assert(lht_abs_size(&g_e) <= max_items, "capacity: never more than max_items entries");
    CACHE_HEADER_KEPT(C, max_items);
    if (r == AWS_OP_SUCCESS) {
        size_t s = lht_hash_lookup(key);
        __CPROVER_assert(s != LHT_NONE && g_m.el[s].value == (void *)fresh && fresh->value == val && fresh->key == key &&
                             C->table.list.tail.prev == &fresh->node,
                         "the entry just inserted is retained, holds the new value and is the newest entry");
    }
}
void h_fifo_put(void) { put_common(FIFO); }
void h_lifo_put(void) { put_common(LIFO); }
void h_lru_put(void) { put_common(LRU); }

/* LRU find: a hit moves the entry to the back (lookups count as use) */
void h_lru_find(void) {
    struct aws_cache *C = cache_build(LHT_K, 0);
    size_t max_items = C->max_items;
    const void *key;
    size_t mi = lht_pick_key(&key, true);
    void *out = (void *)&g_m;

    int r = s_lru_cache_find(C, key, &out);

    __CPROVER_assert(r == AWS_OP_SUCCESS, "find never fails");
    __CPROVER_assert(out == (mi != LHT_NONE ? g_a.val[mi] : NULL), "find: the value stored under an equal key, NULL when there is none");
    if (mi != LHT_NONE) {
        lht_abs_remove_at(&g_e, mi);
        lht_abs_append(&g_e, g_a.node[mi], g_a.key[mi], g_a.val[mi], g_a.slot[mi]);
        if (mi == 0 && g_a.n > 1) CANARY("hit on the least recently used entry: it is the most recently used one now"); else CANARY("hit");
    } else CANARY("miss: nothing changed");
    lht_check(&g_e);
    LHT_ASSERT_CALLS(0, NULL, 0, NULL, 0, NULL, 0);
    CACHE_HEADER_KEPT(C, max_items);
}

/* FIFO / LIFO find (aws_cache_base_default_find): the order does NOT change */
void h_default_find(void) {
    struct aws_cache *C = cache_build(LHT_K, 0);
    size_t max_items = C->max_items;
    const void *key;
    size_t mi = lht_pick_key(&key, false);
    void *out = (void *)&g_m;

    int r = aws_cache_base_default_find(C, key, &out);

    __CPROVER_assert(r == AWS_OP_SUCCESS, "find never fails");
    __CPROVER_assert(out == (mi != LHT_NONE ? g_a.val[mi] : NULL), "find: the value stored under an equal key, NULL when there is none");
    lht_check(&g_a);
    LHT_ASSERT_CALLS(0, NULL, 0, NULL, 0, NULL, 0);
    CACHE_HEADER_KEPT(C, max_items);
    if (mi != LHT_NONE) CANARY("hit"); else CANARY("miss");
}

void h_default_remove(void) {
    struct aws_cache *C = cache_build(LHT_K, 0);
    size_t max_items = C->max_items;
    const void *key;
    size_t mi = lht_pick_key(&key, true);
    bool has_dv = C->table.user_on_value_destroy != NULL, has_dk = C->table.user_on_key_destroy != NULL;

    int r = aws_cache_base_default_remove(C, key);

    __CPROVER_assert(r == AWS_OP_SUCCESS, "remove never fails");
    if (mi != LHT_NONE) {
        lht_abs_remove_at(&g_e, mi);
        LHT_ASSERT_CALLS(has_dv ? 1 : 0, g_a.val[mi], has_dk ? 1 : 0, g_a.key[mi], 1, g_a.node[mi], 0);
        CANARY("removed");
    } else {
        LHT_ASSERT_CALLS(0, NULL, 0, NULL, 0, NULL, 0);
        CANARY("absent: nothing changed");
    }
    lht_check(&g_e);
    CACHE_HEADER_KEPT(C, max_items);
}

void h_default_get_element_count(void) {
    struct aws_cache *C = cache_build(LHT_K, 0);
    size_t c = aws_cache_base_default_get_element_count(C);
    __CPROVER_assert(c == lht_abs_size(&g_a) && c <= C->max_items, "count is the size of the reference map and within capacity");
    if (c == 0) CANARY("empty"); else if (c == C->max_items) CANARY("full"); else CANARY("partly filled");
}

/* use_lru_element: the front entry becomes the back entry and its value is returned; empty cache -> NULL, untouched */
void h_lru_use_lru_element(void) {
    struct aws_cache *C = cache_build(LHT_K, 0);
    size_t max_items = C->max_items;
    if (g_a.n > 0) {
        __CPROVER_assume(lht_abs_visible(&g_a, 0));
        g_M = g_a.node[0];
    }
    void *v = s_lru_cache_use_lru_element(C);

    if (g_a.n > 0) {
        __CPROVER_assert(v == g_a.val[0], "use_lru_element returns the value of the least recently used entry");
        lht_abs_remove_at(&g_e, 0);
        lht_abs_append(&g_e, g_a.node[0], g_a.key[0], g_a.val[0], g_a.slot[0]);
        if (g_a.n == 1) CANARY("single entry"); else CANARY("least recently used entry is now the most recently used");
    } else {
        __CPROVER_assert(v == NULL, "use_lru_element of an empty cache is NULL");
        CANARY("empty cache");
    }
    lht_check(&g_e);
    LHT_ASSERT_CALLS(0, NULL, 0, NULL, 0, NULL, 0);
    CACHE_HEADER_KEPT(C, max_items);
}
void h_lru_get_mru_element(void) {
    struct aws_cache *C = cache_build(LHT_K, 0);
    if (g_a.n > 0) g_M = g_a.node[g_a.n - 1];
    void *v = s_lru_cache_get_mru_element(C);
    __CPROVER_assert(v == (g_a.n > 0 ? g_a.val[g_a.n - 1] : NULL), "get_mru_element returns the value of the most recently used entry, NULL when empty");
    lht_check(&g_a);
    if (g_a.n > 0) CANARY("most recently used"); else CANARY("empty cache");
}

/* BOUNDED: whole list materialised */
#ifndef LHT_CLEAR_N
#    define LHT_CLEAR_N 3
#endif
static void cache_clear_common(bool destroy) {
    struct aws_cache *C = cache_build(LHT_CLEAR_N, LHT_PERMUTE_CELLS);
    size_t max_items = C->max_items;
    __CPROVER_assume(g_a.hidden == 0);
    bool has_dv = C->table.user_on_value_destroy != NULL, has_dk = C->table.user_on_key_destroy != NULL;
    size_t w = lht_any_index(g_a.n > 0 ? g_a.n : 1);
    if (g_a.n > 0) g_m.rel_watch = g_a.node[w];
    if (destroy) aws_cache_base_default_destroy(C); else aws_cache_base_default_clear(C);
    __CPROVER_assert(g_m.count == 0, "count: cache is empty");
    __CPROVER_assert(g_m.dv_calls == (has_dv ? g_a.n : 0) && g_m.dk_calls == (has_dk ? g_a.n : 0) && g_m.rel_calls == g_a.n + (destroy ? 1 : 0),
                     "destructors and release: one call per entry in total (plus the cache itself on destroy)");
    if (g_a.n > 0) __CPROVER_assert(g_m.rel_hits == 1, "node storage: the watched node released exactly once");
    if (destroy) {
        __CPROVER_assert(g_m.rel_last == (const void *)C, "the cache itself is released last");
    } else {
        g_e.n = 0;
        lht_check(&g_e);
        CACHE_HEADER_KEPT(C, max_items);
    }
    if (g_a.n == 0) CANARY("was empty"); else if (g_a.n == LHT_CLEAR_N) CANARY("largest list of the bound"); else CANARY("some entries");
}
void h_default_clear(void) { cache_clear_common(false); }
void h_default_destroy(void) { cache_clear_common(true); }
