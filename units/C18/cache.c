/* Proof units for C18, cache layer: the REAL cache code (cache.c, fifo_cache.c, lifo_cache.c, lru_cache.c) on top of the
 * REAL linked hash table code (linked_hash_table.c, linked_list.inl); only the hash table is the assumed client view of
 * contracts/linked_hash_table.h.  Reference semantics: the ordered map of that header + the eviction rule of the policy.
 *
 * Windows (LHT_K = 6): slot 2 = the entry matching the operation key (units "existing"); slot 0 = the front where the
 * front is evicted or used; slot 5 = the back where the back is evicted or read; all other slots arbitrary (present or
 * not, gaps between them), so the list has any length and the distinguished entries sit anywhere relative to the ends. */
#include "contracts/cache.h"
#include "source/linked_hash_table.c"
#include "source/cache.c"
#include "source/fifo_cache.c"
#include "source/lifo_cache.c"
#include "source/lru_cache.c"
#include "units/C18/common.inc"

#define SLOT 2u
#define FRONT 0u
#define BACK (LHT_K - 1u)
#define ALL ((1u << LHT_K) - 1u)
#define BIT(i) (1u << (i))

/* an arbitrary cache that respects its capacity: any max_items >= 1, any number of entries <= max_items */
static struct aws_cache *cache_build(unsigned must, unsigned may, size_t null_slot) {
    struct aws_cache *C = malloc(sizeof(*C));
    __CPROVER_assume(C != NULL);
    C->allocator = &g_lht_allocator;
    C->vtable = NULL;
    C->impl = NULL;
    C->max_items = nondet_size_t();
    __CPROVER_assume(C->max_items >= 1);
    lht_build(&C->table, must, may & ~must, null_slot);
    __CPROVER_assume(lht_abs_size(&g_a) <= C->max_items);
    g_C = C;
    return C;
}
#define CACHE_HEADER_KEPT(C, m) __CPROVER_assert((C)->max_items == (m) && (C)->allocator == &g_lht_allocator, "cache header: capacity and allocator unchanged")

enum policy { FIFO, LIFO, LRU };
static int cache_put(enum policy pol, struct aws_cache *C, const void *key, void *val) {
    return pol == FIFO ? s_fifo_cache_put(C, key, val) : pol == LIFO ? s_lifo_cache_put(C, key, val) : s_lru_cache_put(C, key, val);
}
#define RETAINED(C, fresh, key, val)                                                                                   \
    do {                                                                                                               \
        size_t s_ = lht_hash_lookup(key);                                                                              \
        __CPROVER_assert(s_ != LHT_NONE && g_m.el[s_].value == (void *)(fresh) && (fresh)->value == (val) &&           \
                             (fresh)->key == (key) && (C)->table.list.tail.prev == &(fresh)->node,                     \
                         "the entry just inserted is retained, holds the new value and is the newest entry");          \
    } while (0)

/* put of a key that is in the cache: value replaced, entry moves to the back, nothing evicted (also in a full cache) */
static void put_existing(enum policy pol) {
    /* window: [front] (hidden) [predecessor][the entry][successor] (hidden) [back] */
    struct aws_cache *C = cache_build(BIT(SLOT), BIT(FRONT) | BIT(SLOT - 1) | BIT(SLOT + 1) | BIT(BACK), LHT_NONE);
    size_t max_items = C->max_items;
    const void *key;
    void *val = lht_any_value();
    __CPROVER_assume(lht_abs_visible(&g_a, SLOT));
    g_M = g_a.node[SLOT];
    bool has_dv = C->table.user_on_value_destroy != NULL, has_dk = C->table.user_on_key_destroy != NULL;
    int r;

    /* the re-inserted key is equal by comparison but a different pointer (same-pointer re-insertion: unit put_existing of
     * the linked hash table layer; the cache code does not look at key pointers) */
    key = LHT_MATCHING_KEY_B(SLOT);
    r = cache_put(pol, C, key, val);

    bool other_ptr = g_a.key[SLOT] != key;

    struct aws_linked_hash_table_node *fresh = (struct aws_linked_hash_table_node *)g_m.calloc_last;
    __CPROVER_assert(r == AWS_OP_SUCCESS, "put over an existing key succeeds");
    lht_abs_remove_at(&g_e, SLOT);
    lht_abs_append(&g_e, fresh, key, val, g_a.cell[SLOT]);
    lht_check(&g_e);
    LHT_ASSERT_CALLS(has_dv ? 1 : 0, g_a.val[SLOT], (has_dk && other_ptr) ? 1 : 0, g_a.key[SLOT], 1, g_a.node[SLOT], 1);
    __CPROVER_assert(lht_abs_size(&g_e) == lht_abs_size(&g_a) && lht_abs_size(&g_e) <= max_items, "capacity: same number of entries, never more than max_items");
    CACHE_HEADER_KEPT(C, max_items);
    RETAINED(C, fresh, key, val);
    g_opkey = key;
    if (lht_abs_size(&g_a) == max_items) CANARY("existing key in a full cache: nothing evicted"); else CANARY("existing key, room left");
    LHT_POSITION_CANARIES(SLOT);
}
void h_fifo_put_existing(void) { put_existing(FIFO); }
void h_lifo_put_existing(void) { put_existing(LIFO); }
void h_lru_put_existing(void) { put_existing(LRU); }

/* put of a new key while there is room (or the hash table cannot create the entry): appended, nothing evicted */
static int put_new_room(enum policy pol, bool empty) {
    /* window: [front] (hidden entries) [back]; a put of a new key touches the back only.  The empty cache is a unit of
     * its own (in the verifier's eyes the eviction branch would otherwise read a key out of the tail sentinel) */
    struct aws_cache *C = cache_build(empty ? 0 : BIT(BACK), empty ? 0 : BIT(FRONT), LHT_NONE);
    size_t max_items = C->max_items;
    __CPROVER_assume(lht_abs_size(&g_a) < max_items || g_m.create_fails);
    const void *key;
    void *val = lht_any_value();
    int r;

    key = LHT_NEW_KEY_A; /* NULL as a new key: unit put_new of the linked hash table layer */
    r = cache_put(pol, C, key, val);

    struct aws_linked_hash_table_node *fresh = (struct aws_linked_hash_table_node *)g_m.calloc_last;
    if (r == AWS_OP_SUCCESS) {
        lht_abs_append(&g_e, fresh, key, val, LHT_NEW);
        LHT_ASSERT_CALLS(0, NULL, 0, NULL, 0, NULL, 1);
        RETAINED(C, fresh, key, val);
    } else {
        __CPROVER_assert(g_m.create_fails, "put of a new key fails only when the hash table cannot create the entry");
        /* a node allocated for the entry that could not be created is given back (no leak); whether one is allocated
         * before the hash table is asked is the implementation's business */
        LHT_ASSERT_CALLS(0, NULL, 0, NULL, g_m.calloc_calls, fresh, g_m.calloc_calls);
        __CPROVER_assert(g_m.calloc_calls <= 1, "node storage: at most one allocation per put");
    }
    lht_check(&g_e);
    __CPROVER_assert(lht_abs_size(&g_e) <= max_items, "capacity: never more than max_items entries");
    CACHE_HEADER_KEPT(C, max_items);
    return r;
}
#define ROOM_CANARIES(r)                                                                                               \
    do {                                                                                                               \
        if ((r) == AWS_OP_SUCCESS) {                                                                                   \
            if (lht_abs_size(&g_e) == g_C->max_items) CANARY("appended, nothing evicted; cache is full now"); else CANARY("appended, nothing evicted; room left"); \
        } else if (lht_abs_size(&g_a) == g_C->max_items) CANARY("hash table could not create the entry (full cache): nothing changed, nothing evicted"); \
        else CANARY("hash table could not create the entry: nothing changed");                                         \
    } while (0)
#define FIRST_CANARIES(r)                                                                                              \
    do {                                                                                                               \
        if ((r) == AWS_OP_SUCCESS) { if (g_C->max_items == 1) CANARY("first entry of a cache of capacity 1: retained"); else CANARY("first entry"); } \
        else CANARY("hash table could not create the entry: cache stays empty");                                       \
    } while (0)
void h_fifo_put_new_room(void) { int r = put_new_room(FIFO, false); ROOM_CANARIES(r); }
void h_lifo_put_new_room(void) { int r = put_new_room(LIFO, false); ROOM_CANARIES(r); }
void h_lru_put_new_room(void) { int r = put_new_room(LRU, false); ROOM_CANARIES(r); }
void h_fifo_put_first(void) { int r = put_new_room(FIFO, true); FIRST_CANARIES(r); }
void h_lifo_put_first(void) { int r = put_new_room(LIFO, true); FIRST_CANARIES(r); }
void h_lru_put_first(void) { int r = put_new_room(LRU, true); FIRST_CANARIES(r); }

/* put of a new key into a FULL cache (any max_items >= 1): appended, and exactly one entry evicted:
 *   FIFO / LRU : the front (oldest inserted / least recently used)      -> window: slot 0 is the front
 *   LIFO       : the entry that was the back before the call            -> window: slot 5 is the back
 * The evicted entry's value and key destructors run once, its node is released once, the new entry is retained. */
static void put_new_full(enum policy pol) {
    size_t xi = pol == LIFO ? BACK : FRONT;
    /* window: FIFO/LRU [front][its successor] (hidden) [back];  LIFO [front] (hidden) [predecessor of the back][back] */
    struct aws_cache *C = cache_build(BIT(xi), pol == LIFO ? (BIT(FRONT) | BIT(BACK - 1)) : (BIT(FRONT + 1) | BIT(BACK)), LHT_NONE);
    size_t max_items = C->max_items;
    __CPROVER_assume(lht_abs_size(&g_a) == max_items && !g_m.create_fails);
    __CPROVER_assume(lht_abs_visible(&g_a, xi));
    g_X = g_a.node[xi];
    const void *key;
    void *val = lht_any_value();
    bool has_dv = C->table.user_on_value_destroy != NULL, has_dk = C->table.user_on_key_destroy != NULL;
    int r;

    key = LHT_NEW_KEY_A; /* NULL as a new key: unit put_new of the linked hash table layer */
    r = cache_put(pol, C, key, val);

    struct aws_linked_hash_table_node *fresh = (struct aws_linked_hash_table_node *)g_m.calloc_last;
    __CPROVER_assert(r == AWS_OP_SUCCESS, "put into a full cache succeeds");
    lht_abs_append(&g_e, fresh, key, val, LHT_NEW);
    lht_abs_remove_at(&g_e, xi);
    lht_check(&g_e);
    LHT_ASSERT_CALLS(has_dv ? 1 : 0, g_a.val[xi], has_dk ? 1 : 0, g_a.key[xi], 1, g_a.node[xi], 1);
    __CPROVER_assert(lht_abs_size(&g_e) == max_items, "capacity: still exactly max_items entries");
    CACHE_HEADER_KEPT(C, max_items);
    RETAINED(C, fresh, key, val);
    if (max_items == 1) CANARY("capacity 1: the only entry evicted, the new one retained");
    else if (max_items == 2) CANARY("capacity 2");
    else CANARY("capacity 3 or more");
    if (max_items > 1000) CANARY("large full cache");
}
void h_fifo_put_new_full(void) { put_new_full(FIFO); }
void h_lifo_put_new_full(void) { put_new_full(LIFO); }
void h_lru_put_new_full(void) { put_new_full(LRU); }

/* find.  lru: a hit moves the entry to the back (lookups count as use).  default (FIFO, LIFO): the order does NOT change. */
static void find_common(bool lru, bool existing) {
    struct aws_cache *C = cache_build(existing ? BIT(SLOT) : 0, ALL, LHT_NONE);
    size_t max_items = C->max_items;
    const void *key;
    if (existing) {
        if (lru) __CPROVER_assume(lht_abs_visible(&g_a, SLOT));
        g_M = g_a.node[SLOT];
    }
    void *out = (void *)&g_m;
    int r;

    LHT_EITHER(key, existing ? LHT_MATCHING_KEY_A(SLOT) : LHT_NEW_KEY_A, existing ? LHT_MATCHING_KEY_B(SLOT) : LHT_NEW_KEY_B,
               r = lru ? s_lru_cache_find(C, key, &out) : aws_cache_base_default_find(C, key, &out));

    __CPROVER_assert(r == AWS_OP_SUCCESS, "find never fails");
    __CPROVER_assert(out == (existing ? g_a.val[SLOT] : NULL), "find: the value stored under an equal key, NULL when there is none");
    if (existing && lru) lht_abs_move_to_back(&g_e, SLOT);
    lht_check(&g_e);
    LHT_ASSERT_CALLS(0, NULL, 0, NULL, 0, NULL, 0);
    CACHE_HEADER_KEPT(C, max_items);
    g_opkey = key;
}
#define FOUND_CANARIES(what)                                                                                           \
    do {                                                                                                               \
        if (g_a.key[SLOT] != g_opkey) CANARY(what " under an equal key with another pointer"); else CANARY(what " under the same pointer"); \
        LHT_POSITION_CANARIES(SLOT);                                                                                   \
    } while (0)
void h_lru_find_hit(void) { find_common(true, true); FOUND_CANARIES("hit"); }
void h_lru_find_miss(void) { find_common(true, false); CANARY("miss: nothing changed"); }
void h_default_find_hit(void) { find_common(false, true); FOUND_CANARIES("hit"); }
void h_default_find_miss(void) { find_common(false, false); CANARY("miss: nothing changed"); }

static void remove_common(bool existing) {
    struct aws_cache *C = cache_build(existing ? BIT(SLOT) : 0, ALL, LHT_NONE);
    size_t max_items = C->max_items;
    const void *key;
    if (existing) {
        __CPROVER_assume(lht_abs_visible(&g_a, SLOT));
        g_M = g_a.node[SLOT];
    }
    bool has_dv = C->table.user_on_value_destroy != NULL, has_dk = C->table.user_on_key_destroy != NULL;
    int r;

    LHT_EITHER(key, existing ? LHT_MATCHING_KEY_A(SLOT) : LHT_NEW_KEY_A, existing ? LHT_MATCHING_KEY_B(SLOT) : LHT_NEW_KEY_B,
               r = aws_cache_base_default_remove(C, key));

    __CPROVER_assert(r == AWS_OP_SUCCESS, "remove never fails");
    if (existing) {
        lht_abs_remove_at(&g_e, SLOT);
        LHT_ASSERT_CALLS(has_dv ? 1 : 0, g_a.val[SLOT], has_dk ? 1 : 0, g_a.key[SLOT], 1, g_a.node[SLOT], 0);
    } else {
        LHT_ASSERT_CALLS(0, NULL, 0, NULL, 0, NULL, 0);
    }
    lht_check(&g_e);
    CACHE_HEADER_KEPT(C, max_items);
    g_opkey = key;
}
void h_default_remove_existing(void) { remove_common(true); FOUND_CANARIES("removed"); }
void h_default_remove_absent(void) { remove_common(false); CANARY("absent: nothing changed"); }

void h_default_get_element_count(void) {
    struct aws_cache *C = cache_build(0, ALL, LHT_NONE);
    size_t c = aws_cache_base_default_get_element_count(C);
    __CPROVER_assert(c == lht_abs_size(&g_a) && c <= C->max_items, "count is the size of the reference map and within capacity");
    if (c == 0) CANARY("empty"); else if (c == C->max_items) CANARY("full"); else CANARY("partly filled");
}

/* use_lru_element: the front entry becomes the back entry and its value is returned; empty cache -> NULL, untouched */
static void use_lru_common(bool empty) {
    struct aws_cache *C = cache_build(empty ? 0 : BIT(FRONT), empty ? 0 : ALL, LHT_NONE);
    size_t max_items = C->max_items;
    if (!empty) {
        __CPROVER_assume(lht_abs_visible(&g_a, FRONT));
        g_M = g_a.node[FRONT];
    }
    void *v = s_lru_cache_use_lru_element(C);

    __CPROVER_assert(v == (empty ? NULL : g_a.val[FRONT]), "use_lru_element returns the value of the least recently used entry, NULL when empty");
    if (!empty) lht_abs_move_to_back(&g_e, FRONT);
    lht_check(&g_e);
    LHT_ASSERT_CALLS(0, NULL, 0, NULL, 0, NULL, 0);
    CACHE_HEADER_KEPT(C, max_items);
}
void h_lru_use_lru_element(void) {
    use_lru_common(false);
    if (lht_abs_size(&g_a) == 1) CANARY("single entry"); else CANARY("least recently used entry is now the most recently used");
    if (g_a.hidden > 1000) CANARY("long list");
}
void h_lru_use_lru_element_empty(void) { use_lru_common(true); CANARY("empty cache"); }

static void get_mru_common(bool empty) {
    struct aws_cache *C = cache_build(empty ? 0 : BIT(BACK), empty ? 0 : ALL, LHT_NONE);
    if (!empty) g_M = g_a.node[BACK];
    void *v = s_lru_cache_get_mru_element(C);
    __CPROVER_assert(v == (empty ? NULL : g_a.val[BACK]), "get_mru_element returns the value of the most recently used entry, NULL when empty");
    lht_check(&g_a);
}
void h_lru_get_mru_element(void) { get_mru_common(false); if (lht_abs_size(&g_a) == 1) CANARY("single entry"); else CANARY("most recently used"); }
void h_lru_get_mru_element_empty(void) { get_mru_common(true); CANARY("empty cache"); }

/* BOUNDED: whole list materialised */
#ifndef LHT_CLEAR_N
#    define LHT_CLEAR_N 3
#endif
static void cache_clear_common(bool destroy) {
    struct aws_cache *C = cache_build(0, (1u << LHT_CLEAR_N) - 1u, LHT_NONE);
    lht_clear_order(LHT_CLEAR_N);
    size_t max_items = C->max_items;
    __CPROVER_assume(g_a.hidden == 0);
    bool has_dv = C->table.user_on_value_destroy != NULL, has_dk = C->table.user_on_key_destroy != NULL;
    size_t n = lht_abs_size(&g_a);
    size_t w = nondet_size_t();
    __CPROVER_assume(w < LHT_CLEAR_N);
    if (g_a.present[w]) g_m.rel_watch = g_a.node[w];
    if (destroy) aws_cache_base_default_destroy(C); else aws_cache_base_default_clear(C);
    __CPROVER_assert(g_m.count == 0, "count: cache is empty");
    __CPROVER_assert(g_m.dv_calls == (has_dv ? n : 0) && g_m.dk_calls == (has_dk ? n : 0) && g_m.rel_calls == n + (destroy ? 1 : 0),
                     "destructors and release: one call per entry in total (plus the cache itself on destroy)");
    if (g_a.present[w]) __CPROVER_assert(g_m.rel_hits == 1, "node storage: the watched node released exactly once");
    if (destroy) {
        __CPROVER_assert(g_m.rel_last == (const void *)C, "the cache itself is released last");
    } else {
        for (size_t i = 0; i < LHT_S; i++) g_e.present[i] = false;
        lht_check(&g_e);
        CACHE_HEADER_KEPT(C, max_items);
    }
    if (n == 0) CANARY("was empty"); else if (n == LHT_CLEAR_N) CANARY("largest list of the bound"); else CANARY("some entries");
}
void h_default_clear(void) { cache_clear_common(false); }
void h_default_destroy(void) { cache_clear_common(true); }
