/* Proof units for C18, linked hash table layer: contracts + reference model (contracts/linked_hash_table.h) + the REAL
 * source/linked_hash_table.c (the intrusive list operations are the real inline functions of linked_list.inl).
 * source/hash_table.c is NOT part of the unit: the hash table is the client view of the header.
 *
 * Window used by these units (LHT_K = 5): slot 2 holds the entry the operation works on (when there is one); slots 0,1
 * whatever precedes it, slots 3,4 whatever follows it; each of those may be absent, gaps (hidden entries) may sit between
 * any two present slots.  That covers every list: the entry may be the front, the back, the only one, next to either
 * end, or far from both; the list may have any length. */
#include "contracts/linked_hash_table.h"
#include "source/linked_hash_table.c"
#include "units/C18/common.inc"

#define SLOT 2u
#define OTHERS (((1u << LHT_K) - 1u) & ~(1u << SLOT))
#define ALL ((1u << LHT_K) - 1u)
#define BIT(i) (1u << (i))

static struct aws_linked_hash_table *lht_new_table(void) {
    struct aws_linked_hash_table *T = malloc(sizeof(*T));
    __CPROVER_assume(T != NULL);
    return T;
}

/* s_element_destroy(node): the step clear / remove / put-over-existing perform per displaced entry.
 * ANY entry of a list of ANY length whose two neighbours are visible: unlinked (neighbours joined, every other link
 * untouched), the user's value destructor runs exactly once on its value, the node is released exactly once. */
void h_element_destroy(void) {
    struct aws_linked_hash_table *T = lht_new_table();
    lht_build(T, 1u << SLOT, OTHERS, LHT_NONE);
    lht_check(&g_a);
    __CPROVER_assume(lht_abs_visible(&g_a, SLOT));
    g_M = g_a.node[SLOT];
    bool has_dv = T->user_on_value_destroy != NULL;

    s_element_destroy(g_M);

    lht_abs_remove_at(&g_e, SLOT);
    lht_check_list(&g_e);
    LHT_ASSERT_CALLS(has_dv ? 1 : 0, g_a.val[SLOT], 0, NULL, 1, g_a.node[SLOT], 0);
    LHT_POSITION_CANARIES(SLOT);
    if (has_dv) CANARY("with value destructor"); else CANARY("without value destructor");
}

/* put: new key -> appended at the back; existing key (equal by comparison, same or different pointer) -> old node
 * destroyed once, old key destroyed once iff the pointers differ, the entry re-created at the back under the new key
 * pointer and value; hash table cannot create -> error, nothing changed, the fresh node released */
static void put_existing(size_t null_slot) {
    struct aws_linked_hash_table *T = lht_new_table();
    lht_build(T, 1u << SLOT, OTHERS, null_slot);
    const void *key;
    void *val = lht_any_value();
    __CPROVER_assume(lht_abs_visible(&g_a, SLOT));
    g_M = g_a.node[SLOT];
    bool has_dv = T->user_on_value_destroy != NULL, has_dk = T->user_on_key_destroy != NULL;
    int r;

    LHT_EITHER(key, LHT_MATCHING_KEY_A(SLOT), LHT_MATCHING_KEY_B(SLOT), r = aws_linked_hash_table_put(T, key, val));

    bool other_ptr = g_a.key[SLOT] != key;

    struct aws_linked_hash_table_node *fresh = (struct aws_linked_hash_table_node *)g_m.calloc_last;
    __CPROVER_assert(r == AWS_OP_SUCCESS, "put over an existing key succeeds");
    lht_abs_remove_at(&g_e, SLOT);
    lht_abs_append(&g_e, fresh, key, val, g_a.cell[SLOT]);
    lht_check(&g_e);
    LHT_ASSERT_CALLS(has_dv ? 1 : 0, g_a.val[SLOT], (has_dk && other_ptr) ? 1 : 0, g_a.key[SLOT], 1, g_a.node[SLOT], 1);
    g_opkey = key;
    LHT_POSITION_CANARIES(SLOT);
}
void h_put_existing(void) {
    put_existing(LHT_NONE);
    bool other_ptr = g_a.key[SLOT] != g_opkey, has_dk = g_T->user_on_key_destroy != NULL;
    if (other_ptr) CANARY("existing key, different pointer"); else CANARY("existing key, same pointer");
    if (has_dk && other_ptr) CANARY("old key destroyed");
    if (has_dk && !other_ptr) CANARY("same key pointer: key not destroyed");
}
void h_put_existing_null_key(void) {
    put_existing(SLOT);
    if (g_opkey == NULL && g_T->user_on_key_destroy != NULL) CANARY("NULL key over NULL key: key destructor not run");
}

void h_put_new(void) {
    struct aws_linked_hash_table *T = lht_new_table();
    lht_build(T, 0, BIT(0) | BIT(1) | BIT(LHT_K - 2) | BIT(LHT_K - 1), LHT_NONE); /* a put of a new key touches the back only */
    const void *key;
    void *val = lht_any_value();
    int r;

    LHT_EITHER(key, LHT_NEW_KEY_A, LHT_NEW_KEY_B, r = aws_linked_hash_table_put(T, key, val));

    struct aws_linked_hash_table_node *fresh = (struct aws_linked_hash_table_node *)g_m.calloc_last;
    if (r == AWS_OP_SUCCESS) {
        lht_abs_append(&g_e, fresh, key, val, LHT_NEW);
        lht_check(&g_e);
        LHT_ASSERT_CALLS(0, NULL, 0, NULL, 0, NULL, 1);
        if (lht_abs_size(&g_a) == 0) CANARY("first entry"); else CANARY("new key appended");
        if (key == NULL) CANARY("NULL key");
        if (g_a.hidden > 1000) CANARY("long list");
    } else {
        __CPROVER_assert(g_m.create_fails, "put of a new key fails only when the hash table cannot create the entry");
        lht_check(&g_a);
        /* a node allocated for the entry that could not be created is given back (no leak); whether one is allocated
         * before the hash table is asked is the implementation's business */
        LHT_ASSERT_CALLS(0, NULL, 0, NULL, g_m.calloc_calls, fresh, g_m.calloc_calls);
        __CPROVER_assert(g_m.calloc_calls <= 1, "node storage: at most one allocation per put");
        CANARY("hash table could not create the entry");
    }
}

static void find_common(bool existing, bool move) {
    struct aws_linked_hash_table *T = lht_new_table();
    lht_build(T, existing ? 1u << SLOT : 0, existing ? OTHERS : ALL, LHT_NONE);
    const void *key;
    if (existing) {
        if (move) __CPROVER_assume(lht_abs_visible(&g_a, SLOT));
        g_M = g_a.node[SLOT];
    }
    void *out = (void *)&g_m; /* not a value */
    int r;

    LHT_EITHER(key, existing ? LHT_MATCHING_KEY_A(SLOT) : LHT_NEW_KEY_A, existing ? LHT_MATCHING_KEY_B(SLOT) : LHT_NEW_KEY_B,
               r = move ? aws_linked_hash_table_find_and_move_to_back(T, key, &out) : aws_linked_hash_table_find(T, key, &out));

    __CPROVER_assert(r == AWS_OP_SUCCESS, "find never fails");
    __CPROVER_assert(out == (existing ? g_a.val[SLOT] : NULL), "find: the value stored under an equal key, NULL when there is none");
    if (existing && move) lht_abs_move_to_back(&g_e, SLOT);
    lht_check(&g_e);
    LHT_ASSERT_CALLS(0, NULL, 0, NULL, 0, NULL, 0);
    g_opkey = key;
}
#define FOUND_CANARIES(what)                                                                                           \
    do {                                                                                                               \
        if (g_a.key[SLOT] != g_opkey) CANARY(what " under an equal key with another pointer"); else CANARY(what " under the same pointer"); \
        LHT_POSITION_CANARIES(SLOT);                                                                                   \
    } while (0)
void h_find_existing(void) { find_common(true, false); FOUND_CANARIES("found"); }
void h_find_absent(void) { find_common(false, false); if (g_opkey == NULL) CANARY("absent NULL key"); else CANARY("absent"); }
void h_find_and_move_to_back_existing(void) { find_common(true, true); FOUND_CANARIES("found"); }
void h_find_and_move_to_back_absent(void) { find_common(false, true); if (g_opkey == NULL) CANARY("absent NULL key"); else CANARY("absent"); }

void h_move_node_to_end(void) {
    struct aws_linked_hash_table *T = lht_new_table();
    lht_build(T, 1u << SLOT, OTHERS, LHT_NONE);
    __CPROVER_assume(lht_abs_visible(&g_a, SLOT));
    g_M = g_a.node[SLOT];

    aws_linked_hash_table_move_node_to_end_of_list(T, g_M);

    lht_abs_move_to_back(&g_e, SLOT);
    lht_check(&g_e);
    LHT_ASSERT_CALLS(0, NULL, 0, NULL, 0, NULL, 0);
    LHT_POSITION_CANARIES(SLOT);
}

static void remove_common(bool existing, size_t null_slot) {
    struct aws_linked_hash_table *T = lht_new_table();
    lht_build(T, existing ? 1u << SLOT : 0, existing ? OTHERS : ALL, null_slot);
    const void *key;
    if (existing) {
        __CPROVER_assume(lht_abs_visible(&g_a, SLOT));
        g_M = g_a.node[SLOT];
    }
    bool has_dv = T->user_on_value_destroy != NULL, has_dk = T->user_on_key_destroy != NULL;
    int r;

    LHT_EITHER(key, existing ? LHT_MATCHING_KEY_A(SLOT) : LHT_NEW_KEY_A, existing ? LHT_MATCHING_KEY_B(SLOT) : LHT_NEW_KEY_B,
               r = aws_linked_hash_table_remove(T, key));

    __CPROVER_assert(r == AWS_OP_SUCCESS, "remove never fails");
    if (existing) {
        lht_abs_remove_at(&g_e, SLOT);
        lht_check(&g_e);
        LHT_ASSERT_CALLS(has_dv ? 1 : 0, g_a.val[SLOT], has_dk ? 1 : 0, g_a.key[SLOT], 1, g_a.node[SLOT], 0);
    } else {
        lht_check(&g_a);
        LHT_ASSERT_CALLS(0, NULL, 0, NULL, 0, NULL, 0);
    }
    g_opkey = key;
}
void h_remove_existing(void) { remove_common(true, LHT_NONE); FOUND_CANARIES("removed"); }
void h_remove_existing_null_key(void) { remove_common(true, SLOT); if (g_opkey == NULL) CANARY("removed under the NULL key"); LHT_POSITION_CANARIES(SLOT); }
void h_remove_absent(void) { remove_common(false, LHT_NONE); if (g_opkey == NULL) CANARY("absent NULL key: nothing changed"); else CANARY("absent: nothing changed"); }

void h_get_element_count(void) {
    struct aws_linked_hash_table *T = lht_new_table();
    lht_build(T, 0, ALL, LHT_NONE);
    lht_check(&g_a);
    size_t c = aws_linked_hash_table_get_element_count(T);
    __CPROVER_assert(c == lht_abs_size(&g_a), "count is the size of the reference map");
    if (c == 0) CANARY("empty"); else if (c > LHT_K) CANARY("long list"); else CANARY("short list");
}
void h_get_iteration_list(void) {
    struct aws_linked_hash_table *T = lht_new_table();
    lht_build(T, 0, ALL, LHT_NONE);
    const struct aws_linked_list *l = aws_linked_hash_table_get_iteration_list(T);
    __CPROVER_assert(l == &T->list, "the iteration list is the table's list");
    CANARY("returned");
}

void h_init(void) {
    struct aws_linked_hash_table *T = lht_new_table();
    lht_model_reset();
    g_T = T;
    g_m.ht_inited = false;
    aws_hash_callback_destroy_fn *dk = nondet_bool() ? lht_user_dk : NULL;
    aws_hash_callback_destroy_fn *dv = nondet_bool() ? lht_user_dv : NULL;
    size_t size = nondet_size_t();

    int r = aws_linked_hash_table_init(T, &g_lht_allocator, lht_user_hash, lht_user_eq, dk, dv, size);

    if (r == AWS_OP_SUCCESS) {
        for (size_t i = 0; i < LHT_S; i++) g_e.present[i] = false;
        g_e.hidden = 0;
        lht_check(&g_e);
        __CPROVER_assert(T->user_on_value_destroy == dv, "value destructor recorded");
        CANARY("initialised: empty table");
    } else {
        CANARY("hash table could not be initialised");
    }
    LHT_ASSERT_CALLS(0, NULL, 0, NULL, 0, NULL, 0);
}

/* BOUNDED: the whole list is materialised (<= LHT_CLEAR_N entries, no hidden ones); the hash table visits its cells in an
 * order unrelated to the list order (arbitrary permutation) and runs the REAL s_element_destroy per entry. */
#ifndef LHT_CLEAR_N
#    define LHT_CLEAR_N 3
#endif
static void lht_clear_common(bool clean_up) {
    struct aws_linked_hash_table *T = lht_new_table();
    lht_build(T, 0, (1u << LHT_CLEAR_N) - 1u, LHT_NONE);
    lht_clear_order(LHT_CLEAR_N);
    __CPROVER_assume(g_a.hidden == 0);
    lht_check(&g_a);
    bool has_dv = T->user_on_value_destroy != NULL, has_dk = T->user_on_key_destroy != NULL;
    size_t n = lht_abs_size(&g_a);
    size_t w = nondet_size_t(); /* an arbitrary entry to watch */
    __CPROVER_assume(w < LHT_CLEAR_N);
    size_t same_val = 0;
    if (g_a.present[w]) {
        g_m.dv_watch = g_a.val[w];
        g_m.dk_watch = g_a.key[w];
        g_m.rel_watch = g_a.node[w];
        for (size_t i = 0; i < LHT_K; i++)
            if (g_a.present[i] && g_a.val[i] == g_a.val[w]) same_val++;
    }
    if (clean_up) aws_linked_hash_table_clean_up(T); else aws_linked_hash_table_clear(T);

    __CPROVER_assert(g_m.count == 0, "count: table is empty");
    size_t live = 0;
    for (size_t s = 0; s < LHT_S; s++) if (g_m.live[s]) live++;
    __CPROVER_assert(live == 0, "lookup: no key is found any more");
    __CPROVER_assert(g_m.dv_calls == (has_dv ? n : 0) && g_m.dk_calls == (has_dk ? n : 0) && g_m.rel_calls == n,
                     "destructors and release: one call per entry in total");
    if (g_a.present[w]) {
        __CPROVER_assert(g_m.dv_hits == (has_dv ? same_val : 0), "value destructor: exactly once per entry holding the watched value");
        __CPROVER_assert(g_m.dk_hits == (has_dk ? 1 : 0), "key destructor: exactly once on the watched key");
        __CPROVER_assert(g_m.rel_hits == 1, "node storage: the watched node released exactly once");
    }
    if (!clean_up) {
        for (size_t i = 0; i < LHT_S; i++) g_e.present[i] = false;
        lht_check(&g_e);
    }
    if (n == 0) CANARY("was empty"); else if (n == LHT_CLEAR_N) CANARY("largest list of the bound"); else CANARY("some entries");
    if (n == LHT_CLEAR_N && g_m.order[0] == 1) CANARY("inner entry destroyed first");
    if (n == LHT_CLEAR_N && g_m.order[0] == LHT_CLEAR_N - 1) CANARY("back destroyed first");
}
void h_clear(void) { lht_clear_common(false); }
void h_clean_up(void) { lht_clear_common(true); }
