/* Proof units for C18, linked hash table layer: contracts + reference model (contracts/linked_hash_table.h) + the REAL
 * source/linked_hash_table.c (the intrusive list operations are the real inline functions of linked_list.inl).
 * source/hash_table.c is NOT part of the unit: the hash table is the client view of the header. */
#include "contracts/linked_hash_table.h"
#include "source/linked_hash_table.c"

/* keep addresses taken (function-pointer removal needs candidates) */
void *verif_keep_c18[] = {(void *)lht_user_dv, (void *)lht_user_dk, (void *)lht_user_hash, (void *)lht_user_eq};

static struct aws_linked_hash_table *lht_new_table(void) {
    struct aws_linked_hash_table *T = malloc(sizeof(*T));
    __CPROVER_assume(T != NULL);
    return T;
}
static size_t lht_any_index(size_t n) {
    size_t i = nondet_size_t();
    __CPROVER_assume(i < n);
    return i;
}

/* s_element_destroy(node): the step clear / remove / put-over-existing perform per displaced entry.
 * ANY entry of a list of ANY length whose two neighbours are visible: unlinked (neighbours joined, every other link
 * untouched), the user's value destructor runs exactly once on its value, the node is released exactly once. */
void h_element_destroy(void) {
    struct aws_linked_hash_table *T = lht_new_table();
    lht_build(T, LHT_K, 0);
    lht_check(&g_a);
    size_t i = lht_any_index(g_a.n);
    __CPROVER_assume(lht_abs_visible(&g_a, i));
    g_M = g_a.node[i];
    lht_abs_remove_at(&g_e, i);
    bool has_dv = T->user_on_value_destroy != NULL;

    s_element_destroy(g_M);

    lht_check_list(&g_e);
    __CPROVER_assert(g_m.dv_calls == (has_dv ? 1 : 0) && (!has_dv || g_m.dv_last == g_a.val[i]),
                     "value destructor: exactly once, on the displaced value (never without a destructor)");
    __CPROVER_assert(g_m.dk_calls == 0, "key destructor: not run by the value path");
    __CPROVER_assert(g_m.rel_calls == 1 && g_m.rel_last == (const void *)g_a.node[i], "node released exactly once");
    if (g_e.n == 0) CANARY("last entry unlinked"); else if (i == 0) CANARY("front unlinked"); else if (i == g_e.n) CANARY("back unlinked"); else CANARY("inner entry unlinked");
    if (has_dv) CANARY("with value destructor"); else CANARY("without value destructor");
    if (g_a.hidden > 1000) CANARY("long list");
}

/* the operation key: arbitrary; g_M := node of the entry it matches.  Returns the index of that entry (LHT_NONE: none).
 * need_neighbours: the operation unlinks the entry, so the window shows both neighbours (choice of window, not of state) */
static size_t lht_pick_key(const void **key, bool need_neighbours) {
    *key = lht_any_key();
    size_t mi = lht_abs_find(&g_a, *key);
    if (mi != LHT_NONE) {
        if (need_neighbours) __CPROVER_assume(lht_abs_visible(&g_a, mi));
        g_M = g_a.node[mi];
    }
    return mi;
}
#define LHT_ASSERT_CALLS(dv_n, dv_p, dk_n, dk_p, rel_n, rel_p, cal_n)                                                  \
    do {                                                                                                               \
        __CPROVER_assert(g_m.dv_calls == (size_t)(dv_n) && ((dv_n) == 0 || g_m.dv_last == (const void *)(dv_p)),       \
                         "value destructor: exactly once per displaced entry, on its value; otherwise not at all");    \
        __CPROVER_assert(g_m.dk_calls == (size_t)(dk_n) && ((dk_n) == 0 || g_m.dk_last == (const void *)(dk_p)),       \
                         "key destructor: exactly once per displaced key, on that key; otherwise not at all");         \
        __CPROVER_assert(g_m.rel_calls == (size_t)(rel_n) && ((rel_n) == 0 || g_m.rel_last == (const void *)(rel_p)),  \
                         "node storage: released exactly once per displaced node; otherwise not at all");              \
        __CPROVER_assert(g_m.calloc_calls == (size_t)(cal_n), "node storage: one allocation per put, none otherwise"); \
    } while (0)

/* put: new key -> appended at the back; existing key (equal by comparison, same or different pointer) -> old node
 * destroyed once, old key destroyed once iff the pointers differ, the entry re-created at the back under the new key
 * pointer and value; hash table cannot create -> error, nothing changed, the fresh node released */
void h_put(void) {
    struct aws_linked_hash_table *T = lht_new_table();
    lht_build(T, LHT_K, 0);
    lht_check(&g_a);
    const void *key;
    void *val = lht_any_value();
    size_t mi = lht_pick_key(&key, true);
    size_t cell = mi != LHT_NONE ? g_a.slot[mi] : lht_hash_free_cell();
    bool has_dv = T->user_on_value_destroy != NULL, has_dk = T->user_on_key_destroy != NULL;

    int r = aws_linked_hash_table_put(T, key, val);

    struct aws_linked_hash_table_node *fresh = (struct aws_linked_hash_table_node *)g_m.calloc_last;
    if (mi != LHT_NONE) {
        bool other_ptr = g_a.key[mi] != key;
        lht_abs_remove_at(&g_e, mi);
        lht_abs_append(&g_e, fresh, key, val, cell);
        lht_check(&g_e);
        LHT_ASSERT_CALLS(has_dv ? 1 : 0, g_a.val[mi], (has_dk && other_ptr) ? 1 : 0, g_a.key[mi], 1, g_a.node[mi], 1);
        if (other_ptr) CANARY("existing key, different pointer"); else CANARY("existing key, same pointer");
        if (mi + 1 == g_a.n) CANARY("existing entry was the back");
        if (mi == 0 && g_a.n > 1) CANARY("existing entry was the front");
        if (g_a.n == 1) CANARY("existing entry was the only one");
        if (has_dk && other_ptr) CANARY("old key destroyed");
    } else if (r == AWS_OP_SUCCESS) {
        lht_abs_append(&g_e, fresh, key, val, cell);
        lht_check(&g_e);
        LHT_ASSERT_CALLS(0, NULL, 0, NULL, 0, NULL, 1);
        if (g_a.n == 0) CANARY("first entry"); else CANARY("new key appended");
        if (key == NULL) CANARY("NULL key");
    } else {
        lht_check(&g_a);
        LHT_ASSERT_CALLS(0, NULL, 0, NULL, 1, fresh, 1);
        CANARY("hash table could not create the entry");
    }
}

void h_find(void) {
    struct aws_linked_hash_table *T = lht_new_table();
    lht_build(T, LHT_K, 0);
    const void *key;
    size_t mi = lht_pick_key(&key, false);
    void *out = (void *)&g_m; /* not a value */

    int r = aws_linked_hash_table_find(T, key, &out);

    __CPROVER_assert(r == AWS_OP_SUCCESS, "find never fails");
    __CPROVER_assert(out == (mi != LHT_NONE ? g_a.val[mi] : NULL), "find: the value stored under an equal key, NULL when there is none");
    lht_check(&g_a);
    LHT_ASSERT_CALLS(0, NULL, 0, NULL, 0, NULL, 0);
    if (mi != LHT_NONE) { if (g_a.key[mi] != key) CANARY("found under an equal key with another pointer"); else CANARY("found"); } else CANARY("absent");
}

void h_find_and_move_to_back(void) {
    struct aws_linked_hash_table *T = lht_new_table();
    lht_build(T, LHT_K, 0);
    const void *key;
    size_t mi = lht_pick_key(&key, true);
    void *out = (void *)&g_m;

    int r = aws_linked_hash_table_find_and_move_to_back(T, key, &out);

    __CPROVER_assert(r == AWS_OP_SUCCESS, "find never fails");
    __CPROVER_assert(out == (mi != LHT_NONE ? g_a.val[mi] : NULL), "find: the value stored under an equal key, NULL when there is none");
    if (mi != LHT_NONE) {
        lht_abs_remove_at(&g_e, mi);
        lht_abs_append(&g_e, g_a.node[mi], g_a.key[mi], g_a.val[mi], g_a.slot[mi]);
        if (mi + 1 == g_a.n) CANARY("was the back already"); else if (mi == 0) CANARY("front moved to the back"); else CANARY("inner entry moved to the back");
    } else CANARY("absent");
    lht_check(&g_e);
    LHT_ASSERT_CALLS(0, NULL, 0, NULL, 0, NULL, 0);
}

void h_move_node_to_end(void) {
    struct aws_linked_hash_table *T = lht_new_table();
    lht_build(T, LHT_K, 0);
    size_t i = lht_any_index(g_a.n);
    __CPROVER_assume(lht_abs_visible(&g_a, i));
    g_M = g_a.node[i];

    aws_linked_hash_table_move_node_to_end_of_list(T, g_M);

    lht_abs_remove_at(&g_e, i);
    lht_abs_append(&g_e, g_a.node[i], g_a.key[i], g_a.val[i], g_a.slot[i]);
    lht_check(&g_e);
    LHT_ASSERT_CALLS(0, NULL, 0, NULL, 0, NULL, 0);
    if (i + 1 == g_a.n) CANARY("was the back already"); else if (i == 0) CANARY("front moved to the back"); else CANARY("inner entry moved to the back");
    if (g_a.n == 1) CANARY("only entry");
}

void h_remove(void) {
    struct aws_linked_hash_table *T = lht_new_table();
    lht_build(T, LHT_K, 0);
    const void *key;
    size_t mi = lht_pick_key(&key, true);
    bool has_dv = T->user_on_value_destroy != NULL, has_dk = T->user_on_key_destroy != NULL;

    int r = aws_linked_hash_table_remove(T, key);

    __CPROVER_assert(r == AWS_OP_SUCCESS, "remove never fails");
    if (mi != LHT_NONE) {
        lht_abs_remove_at(&g_e, mi);
        lht_check(&g_e);
        LHT_ASSERT_CALLS(has_dv ? 1 : 0, g_a.val[mi], has_dk ? 1 : 0, g_a.key[mi], 1, g_a.node[mi], 0);
        if (g_a.key[mi] != key) CANARY("removed under an equal key with another pointer"); else CANARY("removed");
        if (g_a.n == 1) CANARY("table is empty now");
    } else {
        lht_check(&g_a);
        LHT_ASSERT_CALLS(0, NULL, 0, NULL, 0, NULL, 0);
        CANARY("absent: nothing changed");
    }
}

void h_get_element_count(void) {
    struct aws_linked_hash_table *T = lht_new_table();
    lht_build(T, LHT_K, 0);
    size_t c = aws_linked_hash_table_get_element_count(T);
    __CPROVER_assert(c == lht_abs_size(&g_a), "count is the size of the reference map");
    if (c == 0) CANARY("empty"); else if (c > LHT_K) CANARY("long list"); else CANARY("short list");
}
void h_get_iteration_list(void) {
    struct aws_linked_hash_table *T = lht_new_table();
    lht_build(T, LHT_K, 0);
    const struct aws_linked_list *l = aws_linked_hash_table_get_iteration_list(T);
    __CPROVER_assert(l == &T->list, "the iteration list is the table's list");
    CANARY("returned");
}

void h_init(void) {
    struct aws_linked_hash_table *T = lht_new_table();
    lht_model_reset();
    g_T = T;
    g_m.ht_inited = false;
    aws_hash_callback_destroy_fn *dk = nondet_bool() ? lht_user_dk : NULL;
    aws_hash_callback_destroy_fn *dv = nondet_bool() ? lht_user_dv : NULL;
    size_t size = nondet_size_t();

    int r = aws_linked_hash_table_init(T, &g_lht_allocator, lht_user_hash, lht_user_eq, dk, dv, size);

    if (r == AWS_OP_SUCCESS) {
        g_e.n = 0;
        g_e.hidden = 0;
        lht_check(&g_e);
        __CPROVER_assert(T->user_on_value_destroy == dv, "value destructor recorded");
        CANARY("initialised: empty table");
    } else {
        CANARY("hash table could not be initialised");
    }
    LHT_ASSERT_CALLS(0, NULL, 0, NULL, 0, NULL, 0);
}

/* BOUNDED: the whole list is materialised (<= LHT_CLEAR_N entries, no hidden ones); the hash table visits its cells in an
 * order unrelated to the list order (arbitrary permutation) and runs the REAL s_element_destroy per entry. */
#ifndef LHT_CLEAR_N
#    define LHT_CLEAR_N 3
#endif
static void lht_clear_common(bool clean_up) {
    struct aws_linked_hash_table *T = lht_new_table();
    lht_build(T, LHT_CLEAR_N, LHT_PERMUTE_CELLS);
    __CPROVER_assume(g_a.hidden == 0);
    lht_check(&g_a);
    bool has_dv = T->user_on_value_destroy != NULL, has_dk = T->user_on_key_destroy != NULL;
    size_t w = lht_any_index(g_a.n > 0 ? g_a.n : 1); /* an arbitrary entry to watch */
    size_t same_val = 0, same_key = 0;
    if (g_a.n > 0) {
        g_m.dv_watch = g_a.val[w];
        g_m.dk_watch = g_a.key[w];
        g_m.rel_watch = g_a.node[w];
        for (size_t i = 0; i < LHT_K; i++) {
            if (i < g_a.n && g_a.val[i] == g_a.val[w]) same_val++;
            if (i < g_a.n && g_a.key[i] == g_a.key[w]) same_key++;
        }
    }
    if (clean_up) aws_linked_hash_table_clean_up(T); else aws_linked_hash_table_clear(T);

    __CPROVER_assert(g_m.count == 0, "count: table is empty");
    size_t live = 0;
    for (size_t s = 0; s < LHT_S; s++) if (g_m.live[s]) live++;
    __CPROVER_assert(live == 0, "lookup: no key is found any more");
    __CPROVER_assert(g_m.dv_calls == (has_dv ? g_a.n : 0) && g_m.dk_calls == (has_dk ? g_a.n : 0) && g_m.rel_calls == g_a.n,
                     "destructors and release: one call per entry in total");
    if (g_a.n > 0) {
        __CPROVER_assert(g_m.dv_hits == (has_dv ? same_val : 0), "value destructor: exactly once per entry holding the watched value");
        __CPROVER_assert(g_m.dk_hits == (has_dk ? same_key : 0), "key destructor: exactly once per entry holding the watched key");
        __CPROVER_assert(g_m.rel_hits == 1, "node storage: the watched node released exactly once");
    }
    if (!clean_up) {
        g_e.n = 0;
        lht_check(&g_e);
    }
    if (g_a.n == 0) CANARY("was empty"); else if (g_a.n == LHT_CLEAR_N) CANARY("largest list of the bound"); else CANARY("some entries");
    if (g_a.n > 1 && g_a.slot[0] > g_a.slot[1]) CANARY("destroyed out of list order");
}
void h_clear(void) { lht_clear_common(false); }
void h_clean_up(void) { lht_clear_common(true); }
