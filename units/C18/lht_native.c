/* C18, bounded native stand-in (never counted as proved): the REAL linked hash table and the REAL caches on top of the REAL
 * source/hash_table.c, run under ASan/UBSan against a plain reference implementation (array of entries in insertion order
 * + the policy's eviction rule) over seeded random operation sequences.  It closes, at small sizes, the gap the proof units
 * leave open: there the hash table is an assumed client view; here it is the real one.
 *
 * Checked after EVERY operation: return values, found values, element count, the complete iteration order (keys and
 * values, forwards and backwards through the list), count <= max_items, and for every key / value object ever handed to the
 * container how often its destructor ran (0 while stored, exactly 1 once displaced).
 *
 * usage: native <seed> <tier>      prints "CASES n" and one "FAIL ..." line per disagreement */
#include <aws/common/cache.h>
#include <aws/common/fifo_cache.h>
#include <aws/common/lifo_cache.h>
#include <aws/common/linked_hash_table.h>
#include <aws/common/lru_cache.h>
#include <stdio.h>
#include <stdlib.h>
#include <string.h>

#include "source/linked_hash_table.c"
#include "source/cache.c"
#include "source/fifo_cache.c"
#include "source/lifo_cache.c"
#include "source/lru_cache.c"

/* two entry points of source/common.c / assert.c that the linked sources reference (not under test here) */
void aws_fatal_assert(const char *cond, const char *file, int line) { fprintf(stderr, "fatal assert %s %s:%d\n", cond, file, line); abort(); }
void aws_secure_zero(void *p, size_t n) { if (p) memset(p, 0, n); }

#define NIDS 7     /* key identities */
#define MAXOBJ 4096 /* key / value objects per history */

struct kobj { int id; int destroyed; int stored; };
struct vobj { int tag; int destroyed; int stored; };
static struct kobj g_keys[MAXOBJ];
static struct vobj g_vals[MAXOBJ];
static int g_nk, g_nv;
static int g_use_dtors;
static unsigned long g_cases, g_fails;

static uint64_t s_hash(const void *k) { return (uint64_t)((const struct kobj *)k)->id * 0x9E3779B97F4A7C15ull >> 7; }
static uint64_t s_hash_const(const void *k) { (void)k; return 5; } /* every key collides */
static bool s_eq(const void *a, const void *b) { return ((const struct kobj *)a)->id == ((const struct kobj *)b)->id; }
static void s_dk(void *k) { ((struct kobj *)k)->destroyed++; }
static void s_dv(void *v) { ((struct vobj *)v)->destroyed++; }

/* reference ordered map */
struct ref_entry { struct kobj *k; struct vobj *v; };
static struct ref_entry g_ref[64];
static int g_rn;

static void fail(const char *what, unsigned long seq, int step) {
    g_fails++;
    if (g_fails <= 20) {
        printf("FAIL %s (history %lu, step %d)\n", what, seq, step);
        fflush(stdout); /* a sanitizer abort further on must not swallow the line */
    }
}
static int ref_find(int id) {
    for (int i = 0; i < g_rn; i++) if (g_ref[i].k->id == id) return i;
    return -1;
}
static void ref_displace(int i, bool key_too) {
    g_ref[i].v->stored = 0;
    if (key_too) g_ref[i].k->stored = 0;
    memmove(&g_ref[i], &g_ref[i + 1], (size_t)(g_rn - i - 1) * sizeof(g_ref[0]));
    g_rn--;
}
static void ref_append(struct kobj *k, struct vobj *v) { g_ref[g_rn].k = k; g_ref[g_rn].v = v; g_rn++; k->stored = 1; v->stored = 1; }
/* expected destructor count of an object: handed over, not stored any more, destructors installed */
static struct kobj *new_key(int id) { struct kobj *k = &g_keys[g_nk++]; k->id = id; k->destroyed = 0; k->stored = 0; return k; }
static struct vobj *new_val(void) { struct vobj *v = &g_vals[g_nv]; v->tag = g_nv; g_nv++; v->destroyed = 0; v->stored = 0; return v; }
static int g_key_given[MAXOBJ], g_val_given[MAXOBJ]; /* object was handed to the container at some point */

static void check_state(const struct aws_linked_hash_table *t, size_t count, unsigned long seq, int step) {
    g_cases++;
    if (count != (size_t)g_rn) fail("element count differs from the reference map", seq, step);
    const struct aws_linked_list *l = aws_linked_hash_table_get_iteration_list(t);
    int i = 0;
    for (struct aws_linked_list_node *n = aws_linked_list_begin(l); n != aws_linked_list_end(l); n = aws_linked_list_next(n), i++) {
        struct aws_linked_hash_table_node *hn = AWS_CONTAINER_OF(n, struct aws_linked_hash_table_node, node);
        if (i >= g_rn) { fail("iteration yields more entries than the reference map", seq, step); return; }
        if (hn->key != g_ref[i].k || hn->value != g_ref[i].v) { fail("iteration order / entry differs from the reference map", seq, step); return; }
    }
    if (i != g_rn) fail("iteration yields fewer entries than the reference map", seq, step);
    i = g_rn - 1;
    for (struct aws_linked_list_node *n = aws_linked_list_rbegin(l); n != aws_linked_list_rend(l); n = aws_linked_list_prev(n), i--) {
        struct aws_linked_hash_table_node *hn = AWS_CONTAINER_OF(n, struct aws_linked_hash_table_node, node);
        if (i < 0 || hn->key != g_ref[i].k) { fail("backward iteration differs from the reference map", seq, step); return; }
    }
    for (int k = 0; k < g_nk; k++) {
        int want = (g_use_dtors && g_key_given[k] && !g_keys[k].stored) ? 1 : 0;
        if (g_keys[k].destroyed != want) { fail("key destructor count (exactly once per displaced key)", seq, step); return; }
    }
    for (int v = 0; v < g_nv; v++) {
        int want = (g_use_dtors && g_val_given[v] && !g_vals[v].stored) ? 1 : 0;
        if (g_vals[v].destroyed != want) { fail("value destructor count (exactly once per displaced value)", seq, step); return; }
    }
}

static unsigned g_rng;
static unsigned rnd(unsigned n) { g_rng = g_rng * 1103515245u + 12345u; return (g_rng >> 16) % n; }

enum kind { K_TABLE, K_FIFO, K_LIFO, K_LRU };

/* one history of `steps` operations on a fresh container */
static void history(enum kind kind, size_t max_items, int steps, unsigned long seq, bool collide) {
    struct aws_allocator *alloc = aws_default_allocator();
    struct aws_linked_hash_table table;
    struct aws_cache *cache = NULL;
    struct aws_linked_hash_table *t;
    g_nk = g_nv = g_rn = 0;
    memset(g_key_given, 0, sizeof(g_key_given));
    memset(g_val_given, 0, sizeof(g_val_given));
    aws_hash_fn *h = collide ? s_hash_const : s_hash;
    aws_hash_callback_destroy_fn *dk = g_use_dtors ? s_dk : NULL, *dv = g_use_dtors ? s_dv : NULL;
    if (kind == K_TABLE) {
        if (aws_linked_hash_table_init(&table, alloc, h, s_eq, dk, dv, 2)) { fail("init", seq, -1); return; }
        t = &table;
    } else {
        cache = kind == K_FIFO ? aws_cache_new_fifo(alloc, h, s_eq, dk, dv, max_items)
              : kind == K_LIFO ? aws_cache_new_lifo(alloc, h, s_eq, dk, dv, max_items)
                               : aws_cache_new_lru(alloc, h, s_eq, dk, dv, max_items);
        if (!cache) { fail("cache constructor", seq, -1); return; }
        t = &cache->table;
    }
    for (int step = 0; step < steps && g_nk < MAXOBJ - 2 && g_nv < MAXOBJ - 2; step++) {
        unsigned op = rnd(kind == K_LRU ? 12 : 10);
        int id = (int)rnd(NIDS);
        int at = ref_find(id);
        if (op < 5) { /* put: a new key object, or (half of the time when present) the very pointer that is stored */
            struct kobj *k = (at >= 0 && rnd(2)) ? g_ref[at].k : new_key(id);
            struct vobj *v = new_val();
            g_key_given[k - g_keys] = 1;
            g_val_given[v - g_vals] = 1;
            int r = kind == K_TABLE ? aws_linked_hash_table_put(t, k, v) : aws_cache_put(cache, k, v);
            if (r != AWS_OP_SUCCESS) fail("put failed", seq, step);
            if (at >= 0) {
                bool same = g_ref[at].k == k;
                ref_displace(at, !same);
                ref_append(k, v);
            } else {
                ref_append(k, v);
                if (kind != K_TABLE && (size_t)g_rn > max_items) ref_displace(kind == K_LIFO ? g_rn - 2 : 0, true);
            }
            void *out = NULL; /* the entry just inserted is retained */
            struct kobj probe = {.id = id};
            if (aws_linked_hash_table_find(t, &probe, &out) || out != v) fail("entry just inserted is not found with its new value", seq, step);
        } else if (op < 7) { /* find through a key object that is never stored */
            struct kobj probe = {.id = id};
            void *out = (void *)&probe;
            int r = kind == K_TABLE ? aws_linked_hash_table_find(t, &probe, &out) : aws_cache_find(cache, &probe, &out);
            if (r != AWS_OP_SUCCESS || out != (at >= 0 ? (void *)g_ref[at].v : NULL)) fail("find result", seq, step);
            if (kind == K_LRU && at >= 0) { struct ref_entry e = g_ref[at]; ref_displace(at, true); ref_append(e.k, e.v); }
        } else if (op < 9) { /* remove */
            struct kobj probe = {.id = id};
            int r = kind == K_TABLE ? aws_linked_hash_table_remove(t, &probe) : aws_cache_remove(cache, &probe);
            if (r != AWS_OP_SUCCESS) fail("remove result", seq, step);
            if (at >= 0) ref_displace(at, true);
        } else if (op == 9) { /* clear (seldom), or find_and_move_to_back on the plain table */
            if (kind == K_TABLE && rnd(2)) {
                struct kobj probe = {.id = id};
                void *out = NULL;
                if (aws_linked_hash_table_find_and_move_to_back(t, &probe, &out) || out != (at >= 0 ? (void *)g_ref[at].v : NULL)) fail("find_and_move_to_back result", seq, step);
                if (at >= 0) { struct ref_entry e = g_ref[at]; ref_displace(at, true); ref_append(e.k, e.v); }
            } else if (rnd(4) == 0) {
                if (kind == K_TABLE) aws_linked_hash_table_clear(t); else aws_cache_clear(cache);
                while (g_rn > 0) ref_displace(g_rn - 1, true);
            }
        } else if (op == 10) { /* LRU: use_lru_element */
            void *v = aws_lru_cache_use_lru_element(cache);
            if (v != (g_rn > 0 ? (void *)g_ref[0].v : NULL)) fail("use_lru_element result", seq, step);
            if (g_rn > 0) { struct ref_entry e = g_ref[0]; ref_displace(0, true); ref_append(e.k, e.v); }
        } else { /* LRU: get_mru_element */
            void *v = aws_lru_cache_get_mru_element(cache);
            if (v != (g_rn > 0 ? (void *)g_ref[g_rn - 1].v : NULL)) fail("get_mru_element result", seq, step);
        }
        if (kind != K_TABLE && (size_t)g_rn > max_items) fail("reference itself over capacity (driver bug)", seq, step);
        size_t count = kind == K_TABLE ? aws_linked_hash_table_get_element_count(t) : aws_cache_get_element_count(cache);
        if (kind != K_TABLE && count > max_items) fail("cache holds more than max_items", seq, step);
        check_state(t, count, seq, step);
    }
    /* tear down: everything still stored is destroyed exactly once */
    if (kind == K_TABLE) aws_linked_hash_table_clean_up(&table); else aws_cache_destroy(cache);
    g_cases++;
    for (int k = 0; k < g_nk; k++)
        if (g_keys[k].destroyed != ((g_use_dtors && g_key_given[k]) ? 1 : 0)) { fail("after tear-down: key destroyed exactly once", seq, steps); break; }
    for (int v = 0; v < g_nv; v++)
        if (g_vals[v].destroyed != ((g_use_dtors && g_val_given[v]) ? 1 : 0)) { fail("after tear-down: value destroyed exactly once", seq, steps); break; }
}

int main(int argc, char **argv) {
    unsigned seed = argc > 1 ? (unsigned)strtoul(argv[1], NULL, 10) : 1;
    bool thorough = argc > 2 && strcmp(argv[2], "thorough") == 0;
    unsigned long reps = thorough ? 4000 : 300;
    g_rng = seed * 2654435761u + 17;
    unsigned long seq = 0;
    for (g_use_dtors = 0; g_use_dtors <= 1; g_use_dtors++)
        for (unsigned long r = 0; r < reps; r++) {
            history(K_TABLE, 0, 40, seq++, r % 3 == 0);
            for (size_t cap = 1; cap <= 5; cap++) {
                history(K_FIFO, cap, 40, seq++, r % 3 == 1);
                history(K_LIFO, cap, 40, seq++, r % 3 == 1);
                history(K_LRU, cap, 40, seq++, r % 3 == 1);
            }
        }
    printf("CASES %lu\n", g_cases);
    if (g_fails) printf("FAILS %lu\n", g_fails);
    return g_fails ? 1 : 0;
}
