/* C18, wiring of the three caches: PLAIN harness units (no DFCC: the static vtables keep their initialisers), loop-free,
 * complete over their inputs.
 *   new_fifo / new_lifo / new_lru : the real constructor (real aws_linked_hash_table_init; hash table = client view)
 *       hands out a cache whose vtable sends put to the policy's own put, find to the policy's find (LRU: the one that
 *       moves the entry to the back; FIFO/LIFO: the one that does not), everything else to the shared defaults; max_items
 *       and allocator recorded; table empty; s_element_destroy and the user's key destructor registered with the hash table.
 *   dispatch : aws_cache_put/find/remove/clear/get_element_count/destroy and aws_lru_cache_use_lru_element/
 *       get_mru_element forward their arguments to the right vtable slot and hand back its result. */
#include "contracts/cache.h"
#include "source/linked_hash_table.c"
#include "source/cache.c"
#include "source/fifo_cache.c"
#include "source/lifo_cache.c"
#include "source/lru_cache.c"
#include "units/C18/common.inc"

enum policy { FIFO, LIFO, LRU };
static void new_common(enum policy pol) {
    lht_model_reset();
    g_T = NULL;
    g_m.ht_inited = false;
    aws_hash_callback_destroy_fn *dk = nondet_bool() ? lht_user_dk : NULL;
    aws_hash_callback_destroy_fn *dv = nondet_bool() ? lht_user_dv : NULL;
    size_t max_items = nondet_size_t();
    __CPROVER_assume(max_items >= 1);

    struct aws_cache *c = pol == FIFO   ? aws_cache_new_fifo(&g_lht_allocator, lht_user_hash, lht_user_eq, dk, dv, max_items)
                          : pol == LIFO ? aws_cache_new_lifo(&g_lht_allocator, lht_user_hash, lht_user_eq, dk, dv, max_items)
                                        : aws_cache_new_lru(&g_lht_allocator, lht_user_hash, lht_user_eq, dk, dv, max_items);
    if (c == NULL) {
        __CPROVER_assert(g_m.init_fails, "constructor fails only when the hash table cannot be initialised");
        CANARY("hash table could not be initialised");
        return;
    }
    const struct aws_cache_vtable *vt = c->vtable;
    __CPROVER_assert(vt->put == (pol == FIFO ? s_fifo_cache_put : pol == LIFO ? s_lifo_cache_put : s_lru_cache_put), "vtable: put is the policy's put");
    __CPROVER_assert(vt->find == (pol == LRU ? s_lru_cache_find : aws_cache_base_default_find),
                     "vtable: LRU lookups count as use (find moves the entry to the back); FIFO/LIFO lookups do not reorder");
    __CPROVER_assert(vt->remove == aws_cache_base_default_remove && vt->clear == aws_cache_base_default_clear &&
                         vt->get_element_count == aws_cache_base_default_get_element_count && vt->destroy == aws_cache_base_default_destroy,
                     "vtable: remove, clear, count and destroy are the shared defaults");
    __CPROVER_assert(c->max_items == max_items && c->allocator == &g_lht_allocator, "capacity and allocator recorded");
    __CPROVER_assert(g_T == &c->table, "the cache's own table is initialised");
    __CPROVER_assert(g_m.ht_size == max_items, "hash table sized for max_items");
    __CPROVER_assert(c->table.user_on_value_destroy == dv && c->table.user_on_key_destroy == dk, "user destructors recorded");
    for (size_t i = 0; i < LHT_S; i++) g_e.present[i] = false;
    g_e.hidden = 0;
    lht_check(&g_e);
    if (pol == LRU) {
        struct lru_cache_impl_vtable *impl = c->impl;
        __CPROVER_assert(impl != NULL && impl->use_lru_element == s_lru_cache_use_lru_element && impl->get_mru_element == s_lru_cache_get_mru_element,
                         "LRU extension table: use_lru_element / get_mru_element");
    }
    if (max_items == 1) CANARY("capacity 1"); else CANARY("capacity above 1");
}
void h_new_fifo(void) { new_common(FIFO); }
void h_new_lifo(void) { new_common(LIFO); }
void h_new_lru(void) { new_common(LRU); }

/* recording vtable */
static int r_slot; /* 1 destroy 2 find 3 put 4 remove 5 clear 6 count 7 use_lru 8 get_mru */
static const struct aws_cache *r_cache;
static const void *r_key;
static void *r_val;
static void **r_out;
static int r_ret;
static size_t r_count;
static void *r_elem;
static void rec_destroy(struct aws_cache *c) { r_slot = 1; r_cache = c; }
static int rec_find(struct aws_cache *c, const void *k, void **o) { r_slot = 2; r_cache = c; r_key = k; r_out = o; return r_ret; }
static int rec_put(struct aws_cache *c, const void *k, void *v) { r_slot = 3; r_cache = c; r_key = k; r_val = v; return r_ret; }
static int rec_remove(struct aws_cache *c, const void *k) { r_slot = 4; r_cache = c; r_key = k; return r_ret; }
static void rec_clear(struct aws_cache *c) { r_slot = 5; r_cache = c; }
static size_t rec_count(const struct aws_cache *c) { r_slot = 6; r_cache = c; return r_count; }
static void *rec_use_lru(struct aws_cache *c) { r_slot = 7; r_cache = c; return r_elem; }
static void *rec_get_mru(const struct aws_cache *c) { r_slot = 8; r_cache = c; return r_elem; }

void h_dispatch(void) {
    struct aws_cache_vtable vt = {.destroy = rec_destroy, .find = rec_find, .put = rec_put, .remove = rec_remove, .clear = rec_clear, .get_element_count = rec_count};
    struct lru_cache_impl_vtable impl = {.use_lru_element = rec_use_lru, .get_mru_element = rec_get_mru};
    struct aws_cache C;
    C.vtable = &vt;
    C.impl = &impl;
    const void *key = nondet_bool() ? NULL : LHT_KEY(0);
    void *val = lht_any_value();
    void *out = NULL;
    r_ret = nondet_int();
    r_count = nondet_size_t();
    r_elem = lht_any_value();
    unsigned which = nondet_u8();
    r_slot = 0;
    switch (which) {
        case 1: aws_cache_destroy(&C); __CPROVER_assert(r_slot == 1 && r_cache == &C, "aws_cache_destroy -> vtable destroy"); CANARY("destroy"); break;
        case 2: { int r = aws_cache_find(&C, key, &out); __CPROVER_assert(r_slot == 2 && r_cache == &C && r_key == key && r_out == &out && r == r_ret, "aws_cache_find -> vtable find, arguments and result passed through"); CANARY("find"); break; }
        case 3: { int r = aws_cache_put(&C, key, val); __CPROVER_assert(r_slot == 3 && r_cache == &C && r_key == key && r_val == val && r == r_ret, "aws_cache_put -> vtable put, arguments and result passed through"); CANARY("put"); break; }
        case 4: { int r = aws_cache_remove(&C, key); __CPROVER_assert(r_slot == 4 && r_cache == &C && r_key == key && r == r_ret, "aws_cache_remove -> vtable remove, arguments and result passed through"); CANARY("remove"); break; }
        case 5: aws_cache_clear(&C); __CPROVER_assert(r_slot == 5 && r_cache == &C, "aws_cache_clear -> vtable clear"); CANARY("clear"); break;
        case 6: { size_t n = aws_cache_get_element_count(&C); __CPROVER_assert(r_slot == 6 && r_cache == &C && n == r_count, "aws_cache_get_element_count -> vtable count"); CANARY("count"); break; }
        case 7: { void *e = aws_lru_cache_use_lru_element(&C); __CPROVER_assert(r_slot == 7 && r_cache == &C && e == r_elem, "aws_lru_cache_use_lru_element -> extension table"); CANARY("use_lru"); break; }
        case 8: { void *e = aws_lru_cache_get_mru_element(&C); __CPROVER_assert(r_slot == 8 && r_cache == &C && e == r_elem, "aws_lru_cache_get_mru_element -> extension table"); CANARY("get_mru"); break; }
        default: break;
    }
}
