/* Proof units for C19, modular form (CBMC function contracts, DFCC): the REAL source/date_time.c with
 *   - s_parse_iso_8601 ENFORCED against its complete value contract (contracts/date_time_values.h), the digit / character /
 *     fraction helpers replaced by their contracts (proved in units/C04, imported into this property's run);
 *   - aws_date_time_init_from_str_cursor driven by a harness with both parsers replaced by "returns ghost values" stubs and
 *     libc replaced by the recording models of c19_models.h: dispatch on the format, offset arithmetic (RFC 822 +hhmm via
 *     strtol), timegm / mktime choice, instant == timegm(fields) - offset, broken-down views.
 * No input-length bound in either unit. */
#include "contracts/date_time_values.h"
#include <stdlib.h>

void aws_fatal_assert(const char *cond_str, const char *file, int line) {
    (void)cond_str; (void)file; (void)line;
    __CPROVER_assert(0, "aws_fatal_assert reachable");
    __CPROVER_assume(0);
}
#include "c19_models.h"

#include "source/byte_buf.c"
#include "source/date_time.c"
#include "source/posix/time.c"

/* ---- s_parse_iso_8601: every text, every length ---- */
void h_iso_parse_values(void) {
    struct aws_byte_cursor str; struct tm *tm; time_t *off;
    DTV_GHOST_RESET();
    g_on = true;
    g_iso_rec_on = true;
    g_j = nondet_size_t();
    bool r = s_parse_iso_8601(str, tm, off);
    if (r && str.len <= 10) CANARY("ISO date only");
    else if (r && str.len > 40) CANARY("ISO long text (fraction)");
    else if (r) CANARY("ISO date and time");
    else CANARY("ISO refused");
}
