/* C19: ASSUMED models of the libc calendar / formatting functions, shared by the proof TUs of this property.
 * Each model records its arguments in ghost variables, returns an ARBITRARY ghost value fixed by the harness
 * (reset_models) and writes arbitrary values to its out-parameter.  Nothing about calendars is assumed. */
#ifndef C19_MODELS_H
#define C19_MODELS_H
#include <time.h>

/* ---- ASSUMED libc models: arbitrary results, arguments recorded ------------------------------------------------- */
struct tm nondet_tm(void);
long nondet_long(void);

static struct tm g_tg_arg;   /* the tm handed to timegm                                   */
static int g_tg_calls;
static time_t g_tg_ret;      /* its (arbitrary) result                                     */
time_t timegm(struct tm *t) {
    g_tg_arg = *t;
    g_tg_calls++;
    *t = nondet_tm();        /* timegm normalises its argument: arbitrary afterwards       */
    return g_tg_ret;
}
static struct tm g_mk_arg;
static int g_mk_calls;
static time_t g_mk_ret;
time_t mktime(struct tm *t) {
    g_mk_arg = *t;
    g_mk_calls++;
    *t = nondet_tm();
    return g_mk_ret;
}
static time_t g_gm_arg;      /* the instant handed to gmtime_r                              */
static int g_gm_calls;
static struct tm g_gm_out;   /* the (arbitrary) broken-down time it produces                */
struct tm *gmtime_r(const time_t *timep, struct tm *result) {
    g_gm_arg = *timep;
    g_gm_calls++;
    *result = g_gm_out;
    return result;
}
static time_t g_lt_arg;
static int g_lt_calls;
static struct tm g_lt_out;
struct tm *localtime_r(const time_t *timep, struct tm *result) {
    g_lt_arg = *timep;
    g_lt_calls++;
    *result = g_lt_out;
    return result;
}
static char *g_sf_s;             /* strftime: destination, space, format, tm                */
static size_t g_sf_max;
static const char *g_sf_fmt;
static const struct tm *g_sf_tm;
static int g_sf_calls;
static size_t g_sf_ret;          /* arbitrary result: 0 (does not fit) or the number of bytes, < max */
size_t strftime(char *s, size_t max, const char *format, const struct tm *tm) {
    g_sf_s = s; g_sf_max = max; g_sf_fmt = format; g_sf_tm = tm;
    g_sf_calls++;
    __CPROVER_assume(g_sf_ret == 0 || g_sf_ret < max);
    if (max > 0) {
        /* POSIX: at most max bytes are stored (contents indeterminate when 0 is returned): touch both ends of that window */
        s[0] = (char)nondet_u8();
        s[max - 1] = (char)nondet_u8();
        if (g_sf_ret > 0) s[g_sf_ret] = 0;
    }
    return g_sf_ret;
}

#define TM_EQ(a, b)                                                                                                    \
    ((a).tm_sec == (b).tm_sec && (a).tm_min == (b).tm_min && (a).tm_hour == (b).tm_hour && (a).tm_mday == (b).tm_mday && \
     (a).tm_mon == (b).tm_mon && (a).tm_year == (b).tm_year && (a).tm_wday == (b).tm_wday && (a).tm_yday == (b).tm_yday && \
     (a).tm_isdst == (b).tm_isdst)
#define TM_IS(a, Y, MO, D, H, MI, S)                                                                                   \
    ((a).tm_year == (Y) && (a).tm_mon == (MO) && (a).tm_mday == (D) && (a).tm_hour == (H) && (a).tm_min == (MI) &&     \
     (a).tm_sec == (S) && (a).tm_wday == 0 && (a).tm_yday == 0 && (a).tm_isdst == 0)

/* the instant range of the property: 1970-01-01T00:00:00Z .. 9999-12-31T23:59:59Z */
#define T_MAX_9999 253402300799LL

static void reset_models(void) {
    GHOST_RESET_COMMON();
    g_tg_calls = g_mk_calls = g_gm_calls = g_lt_calls = g_sf_calls = 0;
    g_tg_ret = (time_t)nondet_long();
    g_mk_ret = (time_t)nondet_long();
    /* what libc may return: any instant whose distance from 0 leaves room for a +-(99h 99m) offset (no signed overflow) */
    __CPROVER_assume(g_tg_ret > -((time_t)1 << 62) && g_tg_ret < ((time_t)1 << 62));
    __CPROVER_assume(g_mk_ret > -((time_t)1 << 62) && g_mk_ret < ((time_t)1 << 62));
    g_gm_out = nondet_tm();
    g_lt_out = nondet_tm();
    g_sf_ret = nondet_size_t();
}

#endif
