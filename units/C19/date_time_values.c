/* Proof units for C19 (date-time VALUES): the REAL source/date_time.c + source/posix/time.c + clock.inl / math.inl driven by
 * plain harnesses ("complete" mode).  Every harness quantifies over a FAMILY of texts: the layout choices (separators, one or
 * two digits, designator, sign, ...) and every digit / letter are symbolic; the texts of a family are at most 36 bytes long
 * (fraction families: up to 100 bytes, the cap of aws_date_time_init_from_str_cursor), so the loops of the library are
 * unwound past the longest text, with unwinding assertions.
 *
 * libc is NOT part of the proof: timegm / mktime / gmtime_r / localtime_r / strftime are replaced by the models of
 * c19_models.h, which record their arguments in ghost variables, return ARBITRARY ghost values fixed by the harness and write
 * arbitrary values to their out-parameters.  What is decided is the in-repo half of C19: which tm fields and which UTC
 * offset the parsers extract from a text of an accepted layout, that the instant is timegm(fields) - offset, which format
 * string / tm / buffer window the formatters hand to strftime, and the arithmetic of the epoch views.  Whether
 * timegm / gmtime_r / strftime agree with the proleptic Gregorian calendar is not decidable here (roundtrip_native.c is the
 * bounded stand-in for that half).
 *
 * Memory safety of the parsers on arbitrary bytes is C04's subject (units/C04).  Here the cursor covers exactly the bytes of
 * the text inside a larger array whose remaining bytes are arbitrary: a parser that read past the end would see arbitrary
 * bytes and fail the value assertions for some of them. */
#include "contracts/common.h"
#ifdef C19_MATH_CONTRACT
#include "contracts/math.h" /* C16: contract of aws_timestamp_convert_u64 (replaces the call in h_init_epoch_millis) */
#endif
#include <math.h>
#include <stdlib.h>
#include <time.h>

/* ---- environment: error slot (ghost view, same meaning as contracts/common.h), fatal assert ---- */
void aws_raise_error_private(int err) { g_last_error = err; g_raise_count++; }
void aws_fatal_assert(const char *cond_str, const char *file, int line) {
    (void)cond_str; (void)file; (void)line;
    __CPROVER_assert(0, "aws_fatal_assert reachable");
    __CPROVER_assume(0);
}

#include "c19_models.h"

#include "source/byte_buf.c"
#include "source/date_time.c"
#include "source/posix/time.c"

/* ------------------------------------------------------------------------------------------------------------------
 * text generator: the text is written left to right into a fixed array; the cursor handed to the library covers exactly
 * the bytes written (what lies behind them is arbitrary, so a parser that read past the end would see arbitrary bytes) */
struct txt_any { uint8_t b[AWS_DATE_TIME_STR_MAX_LEN + 28]; }; /* room for the longest fixed part behind a 100-byte run */
struct txt_any nondet_txt(void);
static struct txt_any g_text;
#define g_txt (g_text.b)
static size_t g_p;
static void gen_begin(void) {
    g_text = nondet_txt(); /* bytes behind the text are arbitrary */
    g_p = 0;
}
static void put(uint8_t c) { g_txt[g_p++] = c; }
/* the text is the first g_p bytes; only texts of at most 100 bytes get past the length check of the entry point */
static struct aws_byte_cursor gen_end(void) {
    __CPROVER_assume(g_p <= AWS_DATE_TIME_STR_MAX_LEN);
    struct aws_byte_cursor c;
    c.ptr = g_txt;
    c.len = g_p;
    return c;
}
static int put_digit(void) {
    uint8_t d = nondet_u8();
    __CPROVER_assume(d <= 9);
    put((uint8_t)('0' + d));
    return d;
}
static int put_2digits(void) { int a = put_digit(); int b = put_digit(); return 10 * a + b; }
static int put_4digits(void) { int a = put_2digits(); int b = put_2digits(); return 100 * a + b; }
static void put_space(void) { /* any of the six characters aws_isspace() accepts */
    uint8_t c = nondet_u8();
    __CPROVER_assume(c == ' ' || c == '\t' || c == '\n' || c == '\v' || c == '\f' || c == '\r');
    put(c);
}
static uint8_t any_case(char lower) { return nondet_bool() ? (uint8_t)lower : (uint8_t)(lower - 'a' + 'A'); }
static bool is_alpha(uint8_t c) { return (c >= 'a' && c <= 'z') || (c >= 'A' && c <= 'Z'); }

/* what the init functions must do after the instant is known: broken-down views from gmtime_r / localtime_r OF THAT INSTANT */
#define ASSERT_VIEWS(dt)                                                                                               \
    do {                                                                                                               \
        __CPROVER_assert(g_gm_calls == 1 && g_gm_arg == (dt).timestamp, "gmtime_r called once, with the instant");     \
        __CPROVER_assert(g_lt_calls == 1 && g_lt_arg == (dt).timestamp, "localtime_r called once, with the instant");  \
        __CPROVER_assert(TM_EQ((dt).gmt_time, g_gm_out), "gmt_time is what gmtime_r produced for the instant");         \
        __CPROVER_assert(TM_EQ((dt).local_time, g_lt_out), "local_time is what localtime_r produced for the instant"); \
    } while (0)

/* ================================================================== ISO 8601 (extended and basic) =================
 * layout family:  YYYY[-]MM[-]DD                                            (date only)
 *                 YYYY[-]MM[-]DD (T|t|' ') hh[:]mm[:]ss [(.|,)d+] (Z|z)
 *                 YYYY[-]MM[-]DD (T|t|' ') hh[:]mm[:]ss [(.|,)d+] (+|-)hh[:]mm
 * with ARBITRARY digits (the parser does not range-check; the fields are handed to timegm as they are), '-' used for both
 * date separators or for none, ':' for both time separators or for none, the offset ':' independent of them. */
static int e_year, e_mon, e_mday, e_hour, e_min, e_sec; /* expected tm fields */
static time_t e_off;                                    /* expected offset in seconds */
static bool e_date_only;

/* frac_lo..frac_hi: range of the number of fraction digits (0: no fraction mark at all); the other layout choices are
 * symbolic.  The family is split over several units by this range only to keep each SAT instance small. */
static void gen_iso(size_t frac_lo, size_t frac_hi) {
    e_hour = e_min = e_sec = 0;
    e_off = 0;
    e_year = put_4digits() - 1900;
    bool dsep = nondet_bool();
    if (dsep) put('-');
    e_mon = put_2digits() - 1;
    if (dsep) put('-');
    e_mday = put_2digits();
    e_date_only = frac_lo == 0 && nondet_bool();
    if (e_date_only) return;
    uint8_t t = nondet_u8();
    __CPROVER_assume(t == 'T' || t == 't' || t == ' ');
    put(t);
    bool tsep = nondet_bool();
    e_hour = put_2digits();
    if (tsep) put(':');
    e_min = put_2digits();
    if (tsep) put(':');
    e_sec = put_2digits();
    if (frac_hi > 0) { /* fraction: mark and frac_lo..frac_hi digits */
        size_t nfrac = nondet_size_t();
        __CPROVER_assume(nfrac >= frac_lo && nfrac <= frac_hi);
        if (nfrac > 0) {
            put(nondet_bool() ? '.' : ',');
            for (size_t i = 0; i < nfrac; ++i) put_digit();
        }
    }
    if (nondet_bool()) {
        put(nondet_bool() ? 'Z' : 'z');
    } else {
        bool neg = nondet_bool();
        put(neg ? '-' : '+');
        int oh = put_2digits();
        if (nondet_bool()) put(':');
        int om = put_2digits();
        e_off = (time_t)(oh * 3600 + om * 60);
        if (neg) e_off = -e_off;
    }
}

static void check_iso(enum aws_date_format fmt, size_t frac_lo, size_t frac_hi) {
    reset_models();
    gen_begin();
    gen_iso(frac_lo, frac_hi);
    struct aws_byte_cursor cur = gen_end();
    struct aws_date_time dt;
    int rc = aws_date_time_init_from_str_cursor(&dt, &cur, fmt);
    __CPROVER_assert(rc == AWS_OP_SUCCESS && g_raise_count == 0, "ISO 8601 text of an accepted layout is accepted");
    __CPROVER_assert(g_tg_calls == 1 && g_mk_calls == 0, "UTC path: timegm once, mktime never");
    __CPROVER_assert(g_tg_arg.tm_year == e_year, "ISO year field == YYYY - 1900");
    __CPROVER_assert(g_tg_arg.tm_mon == e_mon, "ISO month field == MM - 1");
    __CPROVER_assert(g_tg_arg.tm_mday == e_mday, "ISO day field == DD");
    __CPROVER_assert(g_tg_arg.tm_hour == e_hour && g_tg_arg.tm_min == e_min && g_tg_arg.tm_sec == e_sec, "ISO time fields == hh, mm, ss (0 for date only)");
    __CPROVER_assert(g_tg_arg.tm_wday == 0 && g_tg_arg.tm_yday == 0 && g_tg_arg.tm_isdst == 0, "ISO other tm fields zero");
    __CPROVER_assert(dt.timestamp == g_tg_ret - e_off, "ISO instant == timegm(fields) - offset (offset 0 for Z / date only)");
    __CPROVER_assert(dt.milliseconds == 0 && dt.utc_assumed, "ISO no milliseconds, UTC assumed");
    __CPROVER_assert(dt.tz[0] == 0 && dt.tz[1] == 0 && dt.tz[2] == 0 && dt.tz[3] == 0 && dt.tz[4] == 0 && dt.tz[5] == 0, "ISO zone text empty");
    ASSERT_VIEWS(dt);
}
/* reachability canaries live in the harnesses (one source location per unit) */
#define ISO_CANARIES_NOFRAC() do { if (e_date_only) CANARY("ISO date only"); else if (g_p <= 16) CANARY("ISO basic format with Z"); \
    else if (e_off > 0) CANARY("ISO positive offset"); else if (e_off < 0) CANARY("ISO negative offset"); else CANARY("ISO extended format, Z or zero offset"); } while (0)
#define ISO_CANARIES_FRAC(hi) do { if (g_p >= 17 + (hi)) CANARY("ISO longest fraction of the range"); \
    if (e_off > 0) CANARY("ISO fraction and positive offset"); else if (e_off < 0) CANARY("ISO fraction and negative offset"); else CANARY("ISO fraction and Z or zero offset"); } while (0)
/* the format selector is a constant per harness */
void h_iso_ext(void) { check_iso(AWS_DATE_FORMAT_ISO_8601, 0, 0); ISO_CANARIES_NOFRAC(); }
void h_iso_basic(void) { check_iso(AWS_DATE_FORMAT_ISO_8601_BASIC, 0, 0); ISO_CANARIES_NOFRAC(); }
void h_iso_auto(void) { check_iso(AWS_DATE_FORMAT_AUTO_DETECT, 0, 0); ISO_CANARIES_NOFRAC(); }
/* fractional seconds: 1..9 digits (milli / micro / nanoseconds); longer fractions in the thorough tier */
void h_iso_ext_frac(void) { check_iso(AWS_DATE_FORMAT_ISO_8601, 1, 9); ISO_CANARIES_FRAC(9); }
void h_iso_auto_frac(void) { check_iso(AWS_DATE_FORMAT_AUTO_DETECT, 1, 9); ISO_CANARIES_FRAC(9); }
/* 10 .. as many digits as fit into the 100 bytes the entry point lets through (a basic-format text has 17 other bytes) */
void h_iso_frac_10_30(void) { check_iso(AWS_DATE_FORMAT_ISO_8601, 10, 30); ISO_CANARIES_FRAC(30); }
void h_iso_frac_31_60(void) { check_iso(AWS_DATE_FORMAT_ISO_8601, 31, 60); ISO_CANARIES_FRAC(60); }
void h_iso_frac_61_83(void) { check_iso(AWS_DATE_FORMAT_ISO_8601, 61, 83); ISO_CANARIES_FRAC(83); }

/* ================================================================== RFC 822 ========================================
 * layout family:  [Www] ',' SP  D[D] SP Mon[letters] SP (YYYY|YY) SP hh:mm:ss SP [zone]
 *   Www      zero or more letters (RFC 822 names have three; the parser does not look at them)
 *   SP       one character accepted by aws_isspace
 *   Mon      a month abbreviation in any case, optionally followed by more letters ("June")
 *   YY       two-digit year: 2000 + YY
 *   zone     nothing (local time: mktime) | Z | UT | UTC | GMT in any case | +hhmm | -hhmm
 * The variant WITHOUT "Www," (the week day is optional in RFC 822 and in the parser's own comment) is generated when
 * `weekday` is false: the text then starts with the day of month. */
static const char k_months[] = "janfebmaraprmayjunjulaugsepoctnovdec";
static int r_neg, r_z0, r_z1, r_z2, r_z3;
static int r_ndig, r_d0, r_d1, r_mon; /* replay variables (native reproduction of a counterexample: replay/date_time_replay.c) */
static bool e_utc;         /* a zone was given (UTC designator or numeric offset) */
static char e_tz[6];       /* expected zone text */

static void gen_zone_utc_name(void) {
    uint8_t k = nondet_u8();
    __CPROVER_assume(k <= 3);
    if (k == 0) { e_tz[0] = (char)any_case('z'); }
    else if (k == 1) { e_tz[0] = (char)any_case('u'); e_tz[1] = (char)any_case('t'); }
    else if (k == 2) { e_tz[0] = (char)any_case('u'); e_tz[1] = (char)any_case('t'); e_tz[2] = (char)any_case('c'); }
    else { e_tz[0] = (char)any_case('g'); e_tz[1] = (char)any_case('m'); e_tz[2] = (char)any_case('t'); }
    for (int i = 0; i < 3; ++i) if (e_tz[i]) put((uint8_t)e_tz[i]);
}
static void gen_zone_offset(void) {
    bool neg = nondet_bool();
    e_tz[0] = neg ? '-' : '+';
    put((uint8_t)e_tz[0]);
    int v[4];
    for (int i = 0; i < 4; ++i) { v[i] = put_digit(); e_tz[1 + i] = (char)('0' + v[i]); }
    r_neg = neg; r_z0 = v[0]; r_z1 = v[1]; r_z2 = v[2]; r_z3 = v[3];
    e_off = (time_t)((10 * v[0] + v[1]) * 3600 + (10 * v[2] + v[3]) * 60);
    if (neg) e_off = -e_off;
}
/* zone: 0 none, 1 UTC designator, 2 numeric offset */
static void gen_rfc822(bool weekday, int zone) {
    e_off = 0;
    e_utc = zone != 0;
    for (int i = 0; i < 6; ++i) e_tz[i] = 0;
    if (weekday) {
#ifndef NW
#define NW 3
#endif
        for (size_t i = 0; i < NW; ++i) { uint8_t c = nondet_u8(); __CPROVER_assume(is_alpha(c)); put(c); }
        put(',');
        put_space();
    }
    r_ndig = nondet_bool() ? 1 : 2;
    r_d0 = put_digit();
    e_mday = r_d0;
    if (r_ndig == 2) { r_d1 = put_digit(); e_mday = 10 * r_d0 + r_d1; }
    put_space();
    e_mon = nondet_int();
    __CPROVER_assume(e_mon >= 0 && e_mon <= 11);
    r_mon = e_mon;
    put(any_case(k_months[3 * e_mon]));
    put(any_case(k_months[3 * e_mon + 1]));
    put(any_case(k_months[3 * e_mon + 2]));
    size_t nm = nondet_size_t(); /* "September": further letters are ignored */
#ifndef NM
#define NM 1
#endif
    __CPROVER_assume(nm <= NM);
    for (size_t i = 0; i < nm; ++i) { uint8_t c = nondet_u8(); __CPROVER_assume(is_alpha(c)); put(c); }
    put_space();
    if (nondet_bool()) e_year = put_4digits() - 1900; else e_year = put_2digits() + 100;
    put_space();
    e_hour = put_2digits();
    put(':');
    e_min = put_2digits();
    put(':');
    e_sec = put_2digits();
    put_space();
    if (zone == 1) gen_zone_utc_name();
    if (zone == 2) gen_zone_offset();
}

static void check_rfc822(bool weekday, int zone, enum aws_date_format fmt) {
    reset_models();
    gen_begin();
    gen_rfc822(weekday, zone);
    struct aws_byte_cursor cur = gen_end();
    struct aws_date_time dt;
    int rc = aws_date_time_init_from_str_cursor(&dt, &cur, fmt);
    __CPROVER_assert(rc == AWS_OP_SUCCESS && g_raise_count == 0, "RFC 822 text of an accepted layout is accepted");
    if (e_utc) {
        __CPROVER_assert(g_tg_calls == 1 && g_mk_calls == 0, "zone given: timegm once, mktime never");
    } else {
        __CPROVER_assert(g_tg_calls == 0 && g_mk_calls == 1, "no zone: local time, mktime once");
    }
    struct tm arg = e_utc ? g_tg_arg : g_mk_arg;
    __CPROVER_assert(arg.tm_mday == e_mday, "RFC 822 day-of-month field == D[D]");
    __CPROVER_assert(arg.tm_mon == e_mon, "RFC 822 month field == index of the month name");
    __CPROVER_assert(arg.tm_year == e_year, "RFC 822 year field == YYYY - 1900 (YY + 100)");
    __CPROVER_assert(arg.tm_hour == e_hour && arg.tm_min == e_min && arg.tm_sec == e_sec, "RFC 822 time fields == hh, mm, ss");
    __CPROVER_assert(arg.tm_wday == 0 && arg.tm_yday == 0 && arg.tm_isdst == 0, "RFC 822 other tm fields zero");
    __CPROVER_assert(dt.timestamp == (e_utc ? g_tg_ret : g_mk_ret) - e_off, "RFC 822 instant == timegm(fields) - offset");
    __CPROVER_assert(dt.milliseconds == 0 && dt.utc_assumed == e_utc, "RFC 822 no milliseconds; UTC assumed iff a zone was given");
    __CPROVER_assert(dt.tz[0] == e_tz[0] && dt.tz[1] == e_tz[1] && dt.tz[2] == e_tz[2] && dt.tz[3] == e_tz[3] && dt.tz[4] == e_tz[4] && dt.tz[5] == 0,
                     "RFC 822 zone text recorded");
    ASSERT_VIEWS(dt);
}
#define RFC_CANARIES_OFFSETS() do { if (e_off < 0) CANARY("RFC 822 negative offset"); else if (e_off > 0) CANARY("RFC 822 positive offset"); else CANARY("RFC 822 zero offset"); } while (0)
#define RFC_CANARIES_NAMES() do { if (e_tz[1] == 0) CANARY("RFC 822 Z"); else if (e_tz[2] == 0) CANARY("RFC 822 UT"); else CANARY("RFC 822 UTC / GMT"); \
    if (g_p <= 26) CANARY("RFC 822 shortest layout (D Mon YY)"); } while (0)
/* one unit per zone kind, explicit format; the auto-detecting entry (the ISO parser runs first and refuses) separately */
void h_rfc822_utc_names(void) { check_rfc822(true, 1, AWS_DATE_FORMAT_RFC822); RFC_CANARIES_NAMES(); }
void h_rfc822_offsets(void) { check_rfc822(true, 2, AWS_DATE_FORMAT_RFC822); RFC_CANARIES_OFFSETS(); }
void h_rfc822_local(void) { check_rfc822(true, 0, AWS_DATE_FORMAT_RFC822); if (g_p <= 24) CANARY("RFC 822 without zone, shortest layout"); else CANARY("RFC 822 without zone"); }
void h_rfc822_auto_utc_names(void) { check_rfc822(true, 1, AWS_DATE_FORMAT_AUTO_DETECT); RFC_CANARIES_NAMES(); }
void h_rfc822_auto_offsets(void) { check_rfc822(true, 2, AWS_DATE_FORMAT_AUTO_DETECT); RFC_CANARIES_OFFSETS(); }
/* week day omitted (RFC 822: [ day "," ] is optional) */
void h_rfc822_no_weekday(void) { check_rfc822(false, 1, AWS_DATE_FORMAT_RFC822); RFC_CANARIES_NAMES(); }

/* a zone NAME that is none of the designators the property lists (and does not start with 'z', which the parser reads as
 * "Zulu") is refused - it is not silently taken for UTC: 1..5 letters/digits */
void h_rfc822_unknown_zone(void) {
    reset_models();
    gen_begin();
    gen_rfc822(true, 0);
    size_t nz = nondet_size_t();
    __CPROVER_assume(nz >= 1 && nz <= 5);
    uint8_t z[5] = {0, 0, 0, 0, 0};
    for (size_t i = 0; i < nz; ++i) {
        z[i] = nondet_u8();
        __CPROVER_assume(is_alpha(z[i]) || (z[i] >= '0' && z[i] <= '9'));
        put(z[i]);
    }
#define LC(c) ((uint8_t)((c) >= 'A' && (c) <= 'Z' ? (c) + 32 : (c)))
    __CPROVER_assume(LC(z[0]) != 'z');
    __CPROVER_assume(!(nz == 2 && LC(z[0]) == 'u' && LC(z[1]) == 't'));
    __CPROVER_assume(!(nz >= 3 && LC(z[0]) == 'u' && LC(z[1]) == 't' && LC(z[2]) == 'c'));
    __CPROVER_assume(!(nz >= 3 && LC(z[0]) == 'g' && LC(z[1]) == 'm' && LC(z[2]) == 't'));
    struct aws_byte_cursor cur = gen_end();
    struct aws_date_time dt;
    int rc = aws_date_time_init_from_str_cursor(&dt, &cur, AWS_DATE_FORMAT_RFC822);
    __CPROVER_assert(rc == AWS_OP_ERR && g_raise_count == 1 && g_last_error == AWS_ERROR_INVALID_DATE_STR, "unknown zone name: refused with INVALID_DATE_STR");
    __CPROVER_assert(g_tg_calls == 0 && g_mk_calls == 0 && g_gm_calls == 0 && g_lt_calls == 0, "unknown zone name: no instant computed");
    if (nz == 3) CANARY("three-letter zone refused (EST)"); else if (nz == 5) CANARY("five-character zone refused"); else CANARY("other zone refused");
}

/* ================================================================== formatting =====================================
 * The four formatters hand strftime: the format string of the requested format, the UTC (resp. local) broken-down time of
 * dt, and exactly the free window [buffer+len, buffer+capacity) of the output buffer; the length grows by what strftime
 * reports; 0 (does not fit) is AWS_ERROR_SHORT_BUFFER with the length unchanged; any other format value is
 * AWS_ERROR_INVALID_ARGUMENT without touching the buffer. */
static bool str_is(const char *s, const char *lit, size_t n) { /* s == lit, compared over the n+1 bytes of the literal */
    for (size_t i = 0; i <= n; ++i) if (s[i] != lit[i]) return false;
    return true;
}
#define STR_IS(s, lit) str_is((s), (lit), sizeof(lit) - 1)

/* which: 0 utc full, 1 utc short, 2 local full, 3 local short */
static void check_to_str(int which) {
    reset_models();
    struct aws_date_time dt;
    dt.timestamp = (time_t)nondet_long();
    dt.milliseconds = nondet_u16();
    dt.gmt_time = nondet_tm();
    dt.local_time = nondet_tm();
    dt.utc_assumed = nondet_bool();
    size_t cap = nondet_size_t();
    __CPROVER_assume(cap >= 1 && cap <= 256);
    uint8_t *mem = malloc(cap);
    __CPROVER_assume(mem != NULL);
    struct aws_byte_buf out;
    out.buffer = mem;
    out.capacity = cap;
    out.len = nondet_size_t();
    out.allocator = NULL;
    __CPROVER_assume(out.len <= cap);
    size_t k = nondet_size_t(); /* an arbitrary earlier byte */
    __CPROVER_assume(k < out.len);
    uint8_t old_k = mem[k];
    const size_t old_len = out.len;
    int fmt = nondet_int();
    int rc;
    if (which == 0) rc = aws_date_time_to_utc_time_str(&dt, (enum aws_date_format)fmt, &out);
    else if (which == 1) rc = aws_date_time_to_utc_time_short_str(&dt, (enum aws_date_format)fmt, &out);
    else if (which == 2) rc = aws_date_time_to_local_time_str(&dt, (enum aws_date_format)fmt, &out);
    else rc = aws_date_time_to_local_time_short_str(&dt, (enum aws_date_format)fmt, &out);
    const bool is_short = which == 1 || which == 3, is_local = which >= 2;

    __CPROVER_assert(out.buffer == mem && out.capacity == cap && out.len <= cap, "buffer shape kept");
    __CPROVER_assert(mem[k] == old_k, "earlier bytes of the buffer intact");
    if (fmt == AWS_DATE_FORMAT_RFC822 || fmt == AWS_DATE_FORMAT_ISO_8601 || fmt == AWS_DATE_FORMAT_ISO_8601_BASIC) {
        __CPROVER_assert(g_sf_calls == 1, "strftime called once");
        __CPROVER_assert(g_sf_s == (char *)mem + old_len && g_sf_max == cap - old_len, "strftime writes to the free window of the buffer only");
        __CPROVER_assert(g_sf_tm == (is_local ? &dt.local_time : &dt.gmt_time), "UTC formatters use gmt_time, local formatters local_time");
        if (fmt == AWS_DATE_FORMAT_RFC822) {
            if (is_short) __CPROVER_assert(STR_IS(g_sf_fmt, "%a, %d %b %Y"), "RFC 822 date-only format string");
            else if (is_local) __CPROVER_assert(STR_IS(g_sf_fmt, "%a, %d %b %Y %H:%M:%S %Z"), "RFC 822 local format string");
            else __CPROVER_assert(STR_IS(g_sf_fmt, "%a, %d %b %Y %H:%M:%S GMT"), "RFC 822 UTC format string");
        } else if (fmt == AWS_DATE_FORMAT_ISO_8601) {
            if (is_short) __CPROVER_assert(STR_IS(g_sf_fmt, "%Y-%m-%d"), "ISO 8601 date-only format string");
            else __CPROVER_assert(STR_IS(g_sf_fmt, "%Y-%m-%dT%H:%M:%SZ"), "ISO 8601 format string");
        } else {
            if (is_short) __CPROVER_assert(STR_IS(g_sf_fmt, "%Y%m%d"), "ISO 8601 basic date-only format string");
            else __CPROVER_assert(STR_IS(g_sf_fmt, "%Y%m%dT%H%M%SZ"), "ISO 8601 basic format string");
        }
        if (g_sf_ret == 0) {
            __CPROVER_assert(rc == AWS_OP_ERR && g_raise_count == 1 && g_last_error == AWS_ERROR_SHORT_BUFFER && out.len == old_len, "does not fit: SHORT_BUFFER, length unchanged");
            CANARY("text does not fit");
        } else {
            __CPROVER_assert(rc == AWS_OP_SUCCESS && g_raise_count == 0 && out.len == old_len + g_sf_ret, "length grows by the number of bytes strftime wrote");
            CANARY("text written");
        }
    } else {
        __CPROVER_assert(rc == AWS_OP_ERR && g_raise_count == 1 && g_last_error == AWS_ERROR_INVALID_ARGUMENT, "no such output format: INVALID_ARGUMENT");
        __CPROVER_assert(g_sf_calls == 0 && out.len == old_len, "no such output format: nothing written");
        CANARY("auto-detect / unknown format refused");
    }
}
void h_to_utc_str(void) { check_to_str(0); }
void h_to_utc_short_str(void) { check_to_str(1); }
void h_to_local_str(void) { check_to_str(2); }
void h_to_local_short_str(void) { check_to_str(3); }

/* aws_date_time_init_from_str: forwards the USED part of the buffer (len, not capacity) and the format.  Family: the eight
 * digits of a basic date, in a buffer whose capacity is larger than its length (the bytes behind the text are arbitrary). */
void h_init_from_str(void) {
    reset_models();
    gen_begin();
    e_year = put_4digits() - 1900;
    e_mon = put_2digits() - 1;
    e_mday = put_2digits();
    struct aws_byte_cursor cur = gen_end();
    struct aws_byte_buf b;
    b.buffer = cur.ptr;
    b.len = cur.len;
    b.capacity = nondet_size_t();
    __CPROVER_assume(b.capacity >= b.len && b.capacity <= sizeof(g_txt));
    b.allocator = NULL;
    struct aws_date_time dt;
    enum aws_date_format fmt = nondet_bool() ? AWS_DATE_FORMAT_ISO_8601_BASIC : AWS_DATE_FORMAT_AUTO_DETECT;
    int rc = aws_date_time_init_from_str(&dt, &b, fmt);
    __CPROVER_assert(rc == AWS_OP_SUCCESS && g_tg_calls == 1 && TM_IS(g_tg_arg, e_year, e_mon, e_mday, 0, 0, 0) && dt.timestamp == g_tg_ret, "init_from_str: same fields and instant as the cursor form");
    ASSERT_VIEWS(dt);
    CANARY("init_from_str returned");
}
/* more than 100 bytes: refused before a byte is looked at */
void h_init_from_str_too_long(void) {
    reset_models();
    struct aws_byte_buf b;
    b.buffer = NULL;
    b.len = nondet_size_t();
    b.capacity = b.len;
    b.allocator = NULL;
    __CPROVER_assume(b.len > AWS_DATE_TIME_STR_MAX_LEN);
    struct aws_date_time dt;
    int rc = aws_date_time_init_from_str(&dt, &b, (enum aws_date_format)nondet_int());
    __CPROVER_assert(rc == AWS_OP_ERR && g_raise_count == 1 && g_last_error == AWS_ERROR_OVERFLOW_DETECTED, "text longer than 100 bytes refused with OVERFLOW_DETECTED");
    __CPROVER_assert(g_tg_calls == 0 && g_mk_calls == 0 && g_gm_calls == 0 && g_lt_calls == 0, "nothing computed");
    CANARY("too long refused");
}

/* ================================================================== epoch views ====================================
 * All arithmetic is done by the real clock.inl / math.inl code (saturating multiply by a constant, add). */
typedef unsigned __int128 u128;

static struct aws_date_time any_dt(void) {
    struct aws_date_time dt;
    dt.timestamp = (time_t)nondet_long();
    dt.milliseconds = nondet_u16();
    dt.gmt_time = nondet_tm();
    dt.local_time = nondet_tm();
    dt.utc_assumed = nondet_bool();
    return dt;
}

/* as_millis: exactly 1000 t + ms for EVERY non-negative instant whose millisecond count fits 64 bits (year 584 million) */
#define T_MAX_MILLIS ((UINT64_MAX - 65535u) / 1000u)
void h_as_millis(void) {
    reset_models();
    struct aws_date_time dt = any_dt();
    __CPROVER_assume(dt.timestamp >= 0 && (uint64_t)dt.timestamp <= T_MAX_MILLIS);
    uint64_t r = aws_date_time_as_millis(&dt);
    __CPROVER_assert(r == (uint64_t)dt.timestamp * 1000u + dt.milliseconds, "as_millis == 1000 * timestamp + milliseconds");
    if (dt.timestamp > T_MAX_9999) CANARY("as_millis beyond 9999"); else CANARY("as_millis within 1970..9999");
}
/* as_nanos: exactly 10^9 t + 10^6 ms wherever that fits 64 bits for every value of the milliseconds field (instants up to
 * 2554-07-21T23:33:28Z); together with h_as_millis: as_nanos == 10^6 * as_millis on that range */
#define T_MAX_NANOS ((UINT64_MAX - 65535ull * 1000000ull) / 1000000000ull)
void h_as_nanos_exact(void) {
    reset_models();
    struct aws_date_time dt = any_dt();
    __CPROVER_assume(dt.timestamp >= 0 && (uint64_t)dt.timestamp <= T_MAX_NANOS);
    uint64_t r = aws_date_time_as_nanos(&dt);
    __CPROVER_assert(r == (uint64_t)dt.timestamp * 1000000000u + (uint64_t)dt.milliseconds * 1000000u, "as_nanos == 10^9 * timestamp + 10^6 * milliseconds");
    CANARY("as_nanos representable");
}
/* instants between 2554 and 9999 do not fit 64-bit nanoseconds: the conversion saturates (clock.inl), and the view must
 * then be the saturated value UINT64_MAX - not a small number */
static uint64_t r_timestamp, r_ms; /* replay variables */
void h_as_nanos_to_9999(void) {
    reset_models();
    struct aws_date_time dt = any_dt();
    __CPROVER_assume(dt.timestamp >= 0 && dt.timestamp <= T_MAX_9999 && dt.milliseconds <= 1000);
    r_timestamp = (uint64_t)dt.timestamp;
    r_ms = dt.milliseconds;
    const uint64_t t = (uint64_t)dt.timestamp, msn = (uint64_t)dt.milliseconds * 1000000u;
    const bool fits = t <= UINT64_MAX / 1000000000u && t * 1000000000u <= UINT64_MAX - msn;
    uint64_t r = aws_date_time_as_nanos(&dt);
    __CPROVER_assert(r == (fits ? t * 1000000000u + msn : UINT64_MAX), "as_nanos == min(2^64-1, 10^9 * timestamp + 10^6 * milliseconds) for every instant 1970..9999");
    if (!fits) CANARY("as_nanos past 2554"); else CANARY("as_nanos representable");
}

/* as_epoch_secs: the double nearest to timestamp + ms/1000 up to the two roundings of the expression; multiplied back it is
 * the same millisecond as as_millis (double has 53 bits, 1000 * T_MAX_9999 needs 48) */
void h_as_epoch_secs(void) {
    reset_models();
    struct aws_date_time dt = any_dt();
    __CPROVER_assume(dt.timestamp >= 0 && dt.timestamp <= T_MAX_9999 && dt.milliseconds <= 1000);
    double s = aws_date_time_as_epoch_secs(&dt);
    double whole = (double)dt.timestamp; /* exact: < 2^53 */
    __CPROVER_assert(s >= whole && s <= whole + 1.0, "as_epoch_secs within [timestamp, timestamp + 1]");
    __CPROVER_assert(dt.milliseconds == 0 ==> s == whole, "as_epoch_secs == timestamp when there are no milliseconds");
    /* s - whole is exact (Sterbenz-like: both in [whole, whole+1]); it is ms/1000 up to the rounding of the sum: 2^-15 at most */
    double frac = s - whole;
    double want = (double)dt.milliseconds / 1000.0;
    __CPROVER_assert(frac - want <= 0.00004 && want - frac <= 0.00004, "as_epoch_secs - timestamp == milliseconds / 1000 up to double rounding (< 0.04 ms)");
    CANARY("as_epoch_secs computed");
}

/* ================================================================== init from epoch ================================ */
void h_init_epoch_millis(void) {
    reset_models();
#ifdef C19_MATH_CONTRACT
    g_conv_on = false;
#endif
    uint64_t ms = nondet_u64();
    struct aws_date_time dt = any_dt();
    aws_date_time_init_epoch_millis(&dt, ms);
    __CPROVER_assert(dt.milliseconds < 1000, "milliseconds field < 1000");
    __CPROVER_assert((uint64_t)dt.timestamp <= UINT64_MAX / 1000u && (uint64_t)dt.timestamp * 1000u + dt.milliseconds == ms, "timestamp * 1000 + milliseconds == the given milliseconds");
    __CPROVER_assert(g_tg_calls == 0 && g_mk_calls == 0, "no calendar arithmetic on the way in");
    ASSERT_VIEWS(dt);
    __CPROVER_assert(aws_date_time_as_millis(&dt) == ms, "as_millis returns the given milliseconds");
    if (ms > (uint64_t)T_MAX_9999 * 1000u) CANARY("init_epoch_millis beyond 9999"); else CANARY("init_epoch_millis within range");
}

/* init from a double: whole seconds + the fraction rounded to the nearest millisecond.  The field may be 1000 (fraction
 * >= .9995): all views still denote whole*1000 + 1000. */
static uint64_t r_whole, r_frac_e7;
void h_init_epoch_secs(void) {
    reset_models();
    double x = nondet_double();
    __CPROVER_assume(x >= 0.0 && x <= (double)T_MAX_9999 + 0.999);
    struct aws_date_time dt = any_dt();
    aws_date_time_init_epoch_secs(&dt, x);
    r_whole = (uint64_t)x;                           /* replay variables: x to 7 decimal places */
    r_frac_e7 = (uint64_t)((x - (double)r_whole) * 1e7);
    double whole = (double)dt.timestamp;
    __CPROVER_assert(whole <= x && x < whole + 1.0, "timestamp == floor(x)");
    double frac = x - whole; /* exact */
    double fm = frac * 1000.0;
    __CPROVER_assert(dt.milliseconds <= 1000, "milliseconds field <= 1000");
    __CPROVER_assert((double)dt.milliseconds - fm <= 0.5 && fm - (double)dt.milliseconds <= 0.5, "milliseconds == fraction * 1000 rounded to nearest");
    ASSERT_VIEWS(dt);
    __CPROVER_assert(aws_date_time_as_millis(&dt) == (uint64_t)dt.timestamp * 1000u + dt.milliseconds, "as_millis of the result");
    if (dt.milliseconds == 1000) CANARY("fraction rounds up to a whole second"); else if (dt.milliseconds == 0) CANARY("no milliseconds"); else CANARY("some milliseconds");
}

/* ================================================================== calendar accessors =============================
 * each accessor returns the corresponding field of the UTC (local_time == false) or local broken-down view */
void h_accessors(void) {
    reset_models();
    struct aws_date_time dt = any_dt(), other = any_dt();
    bool local = nondet_bool();
    const struct tm *v = local ? &dt.local_time : &dt.gmt_time;
    __CPROVER_assert(aws_date_time_year(&dt, local) == (uint16_t)(v->tm_year + 1900), "year == tm_year + 1900");
    __CPROVER_assert((int)aws_date_time_month(&dt, local) == v->tm_mon, "month == tm_mon (January == 0)");
    __CPROVER_assert(aws_date_time_month_day(&dt, local) == (uint8_t)v->tm_mday, "day of month == tm_mday");
    __CPROVER_assert((int)aws_date_time_day_of_week(&dt, local) == v->tm_wday, "day of week == tm_wday (Sunday == 0)");
    __CPROVER_assert(aws_date_time_hour(&dt, local) == (uint8_t)v->tm_hour, "hour == tm_hour");
    __CPROVER_assert(aws_date_time_minute(&dt, local) == (uint8_t)v->tm_min, "minute == tm_min");
    __CPROVER_assert(aws_date_time_second(&dt, local) == (uint8_t)v->tm_sec, "second == tm_sec");
    __CPROVER_assert(aws_date_time_dst(&dt, local) == (v->tm_isdst != 0), "dst == (tm_isdst != 0)");
    __CPROVER_assume(dt.timestamp >= 0 && other.timestamp >= 0);
    __CPROVER_assert(aws_date_time_diff(&dt, &other) == dt.timestamp - other.timestamp, "diff == difference of the instants");
    __CPROVER_assert(g_gm_calls == 0 && g_lt_calls == 0 && g_tg_calls == 0, "accessors do no calendar arithmetic");
    if (local) CANARY("local view"); else CANARY("UTC view");
}
