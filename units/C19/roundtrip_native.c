/* C19, bounded native stand-in (mode "native"): the REAL source/date_time.c + source/posix/time.c + clock.inl, linked with
 * THIS HOST'S libc (timegm / gmtime_r / strftime - the part no CBMC unit can decide), compared with an independent
 * proleptic-Gregorian calendar (days_from_civil / civil_from_days, integer arithmetic only, written here).
 *
 * For every instant of the instant set (bound, stated in units.json):
 *   - init from epoch milliseconds and from epoch seconds (double): calendar accessors (UTC) == independent calendar
 *   - every format (RFC 822, ISO 8601 extended, ISO 8601 basic; full and date-only): the text is EXACTLY the text the
 *     independent calendar prescribes; parsing it back with the explicit format and with AUTO_DETECT gives the same
 *     instant (date-only: the same day at 00:00:00)
 *   - the same instant written with numeric offsets (+hh:mm, +hhmm, -hh:mm, -hhmm; RFC 822 +hhmm / -hhmm), with the
 *     designators Z z UT ut UTC utc GMT gmt, with ',' / '.' fractions, lower-case t / z, blank instead of T: same instant
 *   - epoch views: as_millis == 1000 t + ms, as_nanos == 10^9 t + 10^6 ms (where representable), as_epoch_secs
 *
 * Output protocol of the driver: "CASES n", "FAIL ..." lines (first 40), exit 1 on any failure.  "NOTE" lines are
 * informational.  Built-in mutants reach this file through the overlay copy (cflags -I.. makes "ovl/source/date_time.c"
 * visible when the driver has written a (mutated) copy there). */
#include <inttypes.h>
#include <math.h>
#include <stdarg.h>
#include <stdio.h>
#include <stdlib.h>
#include <string.h>

/* the overlay copy carries loop-contract annotations for CBMC: they are not C */
#define __CPROVER_assigns(...)
#define __CPROVER_loop_invariant(...)
#define __CPROVER_decreases(...)

#include <aws/common/byte_buf.h>
#include <aws/common/clock.h>
#include <aws/common/date_time.h>
#include <aws/common/error.h>

/* ---- environment stubs: error slot, fatal assert, clock ---- */
static int s_last_error;
void aws_raise_error_private(int err) { s_last_error = err; }
int aws_last_error(void) { return s_last_error; }
void aws_fatal_assert(const char *cond_str, const char *file, int line) {
    printf("FAIL aws_fatal_assert %s %s:%d\n", cond_str, file, line);
    exit(1);
}
int aws_sys_clock_get_ticks(uint64_t *timestamp) { *timestamp = 0; return 0; }

#if defined(__has_include) && __has_include("ovl/source/date_time.c")
#    include "ovl/source/date_time.c"
#else
#    include "source/date_time.c"
#endif
#include "source/posix/time.c"

/* ------------------------------------------------------------------ independent calendar (proleptic Gregorian, UTC) */
static int64_t days_from_civil(int64_t y, unsigned m, unsigned d) {
    y -= m <= 2;
    const int64_t era = (y >= 0 ? y : y - 399) / 400;
    const unsigned yoe = (unsigned)(y - era * 400);
    const unsigned doy = (153 * (m > 2 ? m - 3 : m + 9) + 2) / 5 + d - 1;
    const unsigned doe = yoe * 365 + yoe / 4 - yoe / 100 + doy;
    return era * 146097 + (int64_t)doe - 719468;
}
struct civil { int y, mo, d, h, mi, s, wday; };
static int is_leap(int y) { return (y % 4 == 0 && y % 100 != 0) || y % 400 == 0; }
static const int k_mdays[12] = {31, 28, 31, 30, 31, 30, 31, 31, 30, 31, 30, 31};
/* second, slower, obviously-right definition used to cross-check days_from_civil once at start-up */
static int64_t days_slow(int y, int m, int d) {
    int64_t n = 0;
    for (int yy = 1970; yy < y; ++yy) n += is_leap(yy) ? 366 : 365;
    for (int mm = 1; mm < m; ++mm) n += k_mdays[mm - 1] + (mm == 2 && is_leap(y));
    return n + d - 1;
}
static struct civil civil_from_time(int64_t t) {
    struct civil c;
    int64_t z = t / 86400, rem = t % 86400;
    if (rem < 0) { rem += 86400; z -= 1; }
    c.h = (int)(rem / 3600); c.mi = (int)(rem % 3600 / 60); c.s = (int)(rem % 60);
    c.wday = (int)(((z % 7) + 11) % 7); /* 1970-01-01 was a Thursday (4) */
    z += 719468;
    const int64_t era = (z >= 0 ? z : z - 146096) / 146097;
    const unsigned doe = (unsigned)(z - era * 146097);
    const unsigned yoe = (doe - doe / 1460 + doe / 36524 - doe / 146096) / 365;
    const int64_t y = (int64_t)yoe + era * 400;
    const unsigned doy = doe - (365 * yoe + yoe / 4 - yoe / 100);
    const unsigned mp = (5 * doy + 2) / 153;
    c.d = (int)(doy - (153 * mp + 2) / 5 + 1);
    c.mo = (int)(mp < 10 ? mp + 3 : mp - 9);
    c.y = (int)(y + (c.mo <= 2));
    return c;
}
static const char *k_wd[7] = {"Sun", "Mon", "Tue", "Wed", "Thu", "Fri", "Sat"};
static const char *k_mon[12] = {"Jan", "Feb", "Mar", "Apr", "May", "Jun", "Jul", "Aug", "Sep", "Oct", "Nov", "Dec"};

/* ------------------------------------------------------------------ bookkeeping */
static uint64_t n_cases, n_fail, n_note;
static void fail(const char *fmt, ...) {
    ++n_fail;
    if (n_fail <= 40) {
        va_list ap;
        va_start(ap, fmt);
        printf("FAIL ");
        vprintf(fmt, ap);
        printf("\n");
        va_end(ap);
    }
}
#define CHECK(cond, ...) do { ++n_cases; if (!(cond)) fail(__VA_ARGS__); } while (0)

static int parse(const char *txt, enum aws_date_format fmt, struct aws_date_time *dt) {
    struct aws_byte_cursor c = aws_byte_cursor_from_c_str(txt);
    return aws_date_time_init_from_str_cursor(dt, &c, fmt);
}
/* the text must parse, under the explicit format and under AUTO_DETECT, to the instant `want` */
static void expect_parse(const char *txt, enum aws_date_format fmt, int64_t want) {
    struct aws_date_time dt;
    enum aws_date_format f[2] = {fmt, AWS_DATE_FORMAT_AUTO_DETECT};
    for (int i = 0; i < 2; ++i) {
        int rc = parse(txt, f[i], &dt);
        CHECK(rc == AWS_OP_SUCCESS && (int64_t)dt.timestamp == want && dt.milliseconds == 0,
              "parse \"%s\" fmt=%d: rc=%d timestamp=%" PRId64 " want %" PRId64, txt, (int)f[i], rc, (int64_t)dt.timestamp, want);
    }
}

static const char *k_utc_names[] = {"Z", "z", "UT", "ut", "Ut", "UTC", "utc", "uTc", "GMT", "gmt", "Gmt"};

/* everything the property says about one instant t (whole seconds), 0 <= t <= 9999-12-31T23:59:59 */
static void check_instant(int64_t t, int level) {
    const struct civil c = civil_from_time(t);
    struct aws_date_time dt, dt2;
    char want[64], buf[64], txt[80];
    const enum aws_date_format fmts[3] = {AWS_DATE_FORMAT_RFC822, AWS_DATE_FORMAT_ISO_8601, AWS_DATE_FORMAT_ISO_8601_BASIC};

    aws_date_time_init_epoch_millis(&dt, (uint64_t)t * 1000u + 7u);
    aws_date_time_init_epoch_secs(&dt2, (double)t);
    CHECK((int64_t)dt.timestamp == t && dt.milliseconds == 7, "init_epoch_millis(%" PRId64 "007): timestamp %" PRId64 " ms %u", t, (int64_t)dt.timestamp, dt.milliseconds);
    CHECK((int64_t)dt2.timestamp == t && dt2.milliseconds == 0, "init_epoch_secs(%" PRId64 ".0): timestamp %" PRId64 " ms %u", t, (int64_t)dt2.timestamp, dt2.milliseconds);
    /* calendar accessors, UTC */
    CHECK(aws_date_time_year(&dt, false) == c.y && (int)aws_date_time_month(&dt, false) == c.mo - 1 && aws_date_time_month_day(&dt, false) == c.d &&
              aws_date_time_hour(&dt, false) == c.h && aws_date_time_minute(&dt, false) == c.mi && aws_date_time_second(&dt, false) == c.s &&
              (int)aws_date_time_day_of_week(&dt, false) == c.wday && !aws_date_time_dst(&dt, false),
          "accessors t=%" PRId64 ": %u-%d-%u %u:%u:%u wd %d, calendar says %d-%d-%d %d:%d:%d wd %d", t, aws_date_time_year(&dt, false),
          (int)aws_date_time_month(&dt, false) + 1, aws_date_time_month_day(&dt, false), aws_date_time_hour(&dt, false), aws_date_time_minute(&dt, false),
          aws_date_time_second(&dt, false), (int)aws_date_time_day_of_week(&dt, false), c.y, c.mo, c.d, c.h, c.mi, c.s, c.wday);
    /* epoch views */
    CHECK(aws_date_time_as_millis(&dt) == (uint64_t)t * 1000u + 7u, "as_millis t=%" PRId64 ": %" PRIu64, t, aws_date_time_as_millis(&dt));
    if ((uint64_t)t <= (UINT64_MAX - 7000000u) / 1000000000u) {
        CHECK(aws_date_time_as_nanos(&dt) == (uint64_t)t * 1000000000u + 7000000u && aws_date_time_as_nanos(&dt) == aws_date_time_as_millis(&dt) * 1000000u,
              "as_nanos t=%" PRId64 ": %" PRIu64, t, aws_date_time_as_nanos(&dt));
    }
    CHECK(llround(aws_date_time_as_epoch_secs(&dt) * 1000.0) == (long long)(t * 1000 + 7), "as_epoch_secs t=%" PRId64 ": %.6f", t, aws_date_time_as_epoch_secs(&dt));
    CHECK(aws_date_time_diff(&dt, &dt2) == 0, "diff");

    /* formatting: exact text, then parse back */
    for (int k = 0; k < 3; ++k) {
        struct aws_byte_buf out = aws_byte_buf_from_empty_array(buf, sizeof(buf) - 1);
        int rc = aws_date_time_to_utc_time_str(&dt, fmts[k], &out);
        buf[out.len] = 0;
        if (k == 0) snprintf(want, sizeof want, "%s, %02d %s %04d %02d:%02d:%02d GMT", k_wd[c.wday], c.d, k_mon[c.mo - 1], c.y, c.h, c.mi, c.s);
        if (k == 1) snprintf(want, sizeof want, "%04d-%02d-%02dT%02d:%02d:%02dZ", c.y, c.mo, c.d, c.h, c.mi, c.s);
        if (k == 2) snprintf(want, sizeof want, "%04d%02d%02dT%02d%02d%02dZ", c.y, c.mo, c.d, c.h, c.mi, c.s);
        CHECK(rc == AWS_OP_SUCCESS && strcmp(buf, want) == 0, "to_utc_time_str fmt=%d t=%" PRId64 ": \"%s\", calendar says \"%s\"", (int)fmts[k], t, buf, want);
        expect_parse(buf, fmts[k], t);

        out = aws_byte_buf_from_empty_array(buf, sizeof(buf) - 1);
        rc = aws_date_time_to_utc_time_short_str(&dt, fmts[k], &out);
        buf[out.len] = 0;
        if (k == 0) snprintf(want, sizeof want, "%s, %02d %s %04d", k_wd[c.wday], c.d, k_mon[c.mo - 1], c.y);
        if (k == 1) snprintf(want, sizeof want, "%04d-%02d-%02d", c.y, c.mo, c.d);
        if (k == 2) snprintf(want, sizeof want, "%04d%02d%02d", c.y, c.mo, c.d);
        CHECK(rc == AWS_OP_SUCCESS && strcmp(buf, want) == 0, "to_utc_time_short_str fmt=%d t=%" PRId64 ": \"%s\", calendar says \"%s\"", (int)fmts[k], t, buf, want);
        if (k != 0) {
            expect_parse(buf, fmts[k], t - t % 86400);
        } else if (n_note == 0) {
            /* the RFC 822 date-only text has no time part; s_parse_rfc_822 accepts only texts that reach the zone field */
            int prc = parse(buf, AWS_DATE_FORMAT_RFC822, &dt2);
            ++n_note;
            printf("NOTE RFC 822 date-only text \"%s\" parses with rc=%d (the RFC 822 parser requires a time part)\n", buf, prc);
        }
    }
    if (level < 1) return;

    /* designators and layout variants of the same instant */
    for (size_t z = 0; z < sizeof k_utc_names / sizeof *k_utc_names; ++z) {
        snprintf(txt, sizeof txt, "%s, %02d %s %04d %02d:%02d:%02d %s", k_wd[c.wday], c.d, k_mon[c.mo - 1], c.y, c.h, c.mi, c.s, k_utc_names[z]);
        expect_parse(txt, AWS_DATE_FORMAT_RFC822, t);
    }
    snprintf(txt, sizeof txt, "%04d-%02d-%02dt%02d:%02d:%02dz", c.y, c.mo, c.d, c.h, c.mi, c.s);
    expect_parse(txt, AWS_DATE_FORMAT_ISO_8601, t);
    snprintf(txt, sizeof txt, "%04d-%02d-%02d %02d:%02d:%02d.123456789Z", c.y, c.mo, c.d, c.h, c.mi, c.s);
    expect_parse(txt, AWS_DATE_FORMAT_ISO_8601, t);
    snprintf(txt, sizeof txt, "%04d%02d%02dT%02d%02d%02d,5Z", c.y, c.mo, c.d, c.h, c.mi, c.s);
    expect_parse(txt, AWS_DATE_FORMAT_ISO_8601_BASIC, t);

    /* numeric offsets: the wall clock of zone +-hh:mm at instant t */
    static const int offs[][2] = {{0, 0}, {1, 0}, {1, 30}, {5, 45}, {8, 0}, {9, 0}, {9, 30}, {12, 45}, {14, 0}, {23, 59}, {7, 7}, {10, 8}, {18, 9}};
    for (size_t o = 0; o < sizeof offs / sizeof *offs; ++o) {
        for (int sign = -1; sign <= 1; sign += 2) {
            const int64_t off = sign * (offs[o][0] * 3600 + offs[o][1] * 60);
            const int64_t local = t + off;
            if (local < 0 || local > 253402300799LL) continue;
            const struct civil l = civil_from_time(local);
            const char sg = sign < 0 ? '-' : '+';
            snprintf(txt, sizeof txt, "%04d-%02d-%02dT%02d:%02d:%02d%c%02d:%02d", l.y, l.mo, l.d, l.h, l.mi, l.s, sg, offs[o][0], offs[o][1]);
            expect_parse(txt, AWS_DATE_FORMAT_ISO_8601, t);
            snprintf(txt, sizeof txt, "%04d-%02d-%02dT%02d:%02d:%02d.25%c%02d%02d", l.y, l.mo, l.d, l.h, l.mi, l.s, sg, offs[o][0], offs[o][1]);
            expect_parse(txt, AWS_DATE_FORMAT_ISO_8601, t);
            snprintf(txt, sizeof txt, "%04d%02d%02dT%02d%02d%02d%c%02d%02d", l.y, l.mo, l.d, l.h, l.mi, l.s, sg, offs[o][0], offs[o][1]);
            expect_parse(txt, AWS_DATE_FORMAT_ISO_8601_BASIC, t);
            snprintf(txt, sizeof txt, "%s, %02d %s %04d %02d:%02d:%02d %c%02d%02d", k_wd[l.wday], l.d, k_mon[l.mo - 1], l.y, l.h, l.mi, l.s, sg, offs[o][0], offs[o][1]);
            expect_parse(txt, AWS_DATE_FORMAT_RFC822, t);
        }
    }
}

/* fractional instants: init_epoch_secs rounds to the nearest millisecond; all three views denote that millisecond */
static void check_fraction(int64_t t, unsigned ms_num, unsigned ms_den) {
    /* x = t + ms_num/ms_den seconds, as a double */
    const double x = (double)t + (double)ms_num / (double)ms_den;
    struct aws_date_time dt;
    aws_date_time_init_epoch_secs(&dt, x);
    const long double exact_ms = (long double)x * 1000.0L; /* 64-bit mantissa: exact enough for |x| < 2^38 */
    const long double got = (long double)aws_date_time_as_millis(&dt);
    CHECK(fabsl(got - exact_ms) <= 0.5L + 1e-4L, "init_epoch_secs(%.7f): as_millis %" PRIu64 " is not the nearest millisecond (timestamp %" PRId64 " ms %u)", x,
          aws_date_time_as_millis(&dt), (int64_t)dt.timestamp, dt.milliseconds);
    CHECK(fabs(aws_date_time_as_epoch_secs(&dt) - x) <= 0.0005 + 2 * (nextafter(x, INFINITY) - x), /* half a millisecond + rounding of the double */
          "init_epoch_secs(%.7f): as_epoch_secs %.7f", x, aws_date_time_as_epoch_secs(&dt));
    if ((uint64_t)t < 18446744072ull) {
        CHECK(aws_date_time_as_nanos(&dt) == aws_date_time_as_millis(&dt) * 1000000u, "init_epoch_secs(%.7f): as_nanos %" PRIu64 " != 10^6 * as_millis %" PRIu64, x,
              aws_date_time_as_nanos(&dt), aws_date_time_as_millis(&dt));
    }
}

static uint64_t rng_state;
static uint64_t rng(void) {
    rng_state ^= rng_state << 13; rng_state ^= rng_state >> 7; rng_state ^= rng_state << 17;
    return rng_state;
}

int main(int argc, char **argv) {
    const uint64_t seed = argc > 1 ? strtoull(argv[1], NULL, 10) : 1;
    const int thorough = argc > 2 && strcmp(argv[2], "thorough") == 0;
    rng_state = seed * 0x9E3779B97F4A7C15ull + 1;
    setenv("TZ", "UTC", 1);
    tzset();

    /* the two calendar definitions of this file agree on every month start 1970..9999 */
    for (int y = 1970; y <= 9999; y += (y < 2500 ? 1 : 7)) {
        for (int m = 1; m <= 12; ++m) {
            CHECK(days_from_civil(y, (unsigned)m, 1) == days_slow(y, m, 1), "calendar self-check %d-%d", y, m);
        }
    }
    const int64_t t_max = days_from_civil(9999, 12, 31) * 86400 + 86399;
    CHECK(t_max == 253402300799LL, "t_max");

    /* every month boundary (last second of the previous month, first second of the month) 1970..9999; the richer
     * variant set (designators, offsets) on a sub-sample of years: all up to 2110, century years, every 97th */
    for (int y = 1970; y <= 9999; ++y) {
        const int rich = thorough || y <= 2110 || y % 100 == 0 || y % 97 == 0 || y >= 9990;
        for (int m = 1; m <= 12; ++m) {
            const int64_t t0 = days_from_civil(y, (unsigned)m, 1) * 86400;
            check_instant(t0, rich);
            if (t0 > 0) check_instant(t0 - 1, rich);
            if (m == 2) { /* 28 Feb 23:59:59, the day after (29 Feb or 1 Mar), noon of it */
                check_instant(t0 + 28 * 86400 - 1, rich);
                check_instant(t0 + 28 * 86400, rich);
                check_instant(t0 + 28 * 86400 + 43200 + 34 * 60 + 56, rich);
            }
        }
    }
    check_instant(0, 1);
    check_instant(t_max, 1);
    /* seeded random instants over the whole range */
    const uint64_t n_rand = thorough ? 2000000u : 100000u;
    for (uint64_t i = 0; i < n_rand; ++i) {
        check_instant((int64_t)(rng() % (uint64_t)(t_max + 1)), (i & 7) == 0);
    }
    /* fractional seconds: structured and random */
    static const unsigned fr[][2] = {{0, 1}, {1, 1000}, {1, 2}, {999, 1000}, {9994, 10000}, {9995, 10000}, {9996, 10000}, {99999, 100000}, {4, 10000}, {5, 10000}, {6, 10000}, {50542123, 100000000}};
    for (size_t i = 0; i < sizeof fr / sizeof *fr; ++i) {
        check_fraction(0, fr[i][0], fr[i][1]);
        check_fraction(951868799, fr[i][0], fr[i][1]);   /* 2000-02-29T23:59:59 */
        check_fraction(1500000000, fr[i][0], fr[i][1]);
        check_fraction(18446744071ll, fr[i][0], fr[i][1]);
        check_fraction(t_max, fr[i][0], fr[i][1]);
    }
    for (uint64_t i = 0; i < n_rand; ++i) {
        check_fraction((int64_t)(rng() % (uint64_t)(t_max + 1)), (unsigned)(rng() % 1000000u), 1000000u);
    }

    printf("CASES %" PRIu64 "\n", n_cases);
    if (n_fail) printf("FAILED %" PRIu64 " of %" PRIu64 "\n", n_fail, n_cases);
    return n_fail ? 1 : 0;
}
