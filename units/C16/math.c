/* Proof units for C16 (checked arithmetic): contracts + the real .inl files + one harness per function.
 *
 * contracts/math.h includes <aws/common/math.h>, which pulls in math.inl and with it the variant the build selects
 * (config.h: AWS_HAVE_GCC_OVERFLOW_MATH_EXTENSIONS -> math.gcc_builtin.inl + math.gcc_overflow.inl).  The portable
 * variant math.fallback.inl is compiled next to it from the real file under fb_* names, with the SAME contract text
 * (MATH_CONTRACTS_*(fb_)).  The x86-64 assembly variant cannot be read by CBMC; see asm_native.c.
 */
#include "contracts/math.h"

/* ---- portable variant under renamed symbols ---- */
MATH_CONTRACTS_ADD(fb_);
MATH_CONTRACTS_MUL(fb_);
MATH_CONTRACTS_BITS(fb_);
#define aws_mul_u64_saturating fb_aws_mul_u64_saturating
#define aws_mul_u64_checked fb_aws_mul_u64_checked
#define aws_mul_u32_saturating fb_aws_mul_u32_saturating
#define aws_mul_u32_checked fb_aws_mul_u32_checked
#define aws_add_u64_saturating fb_aws_add_u64_saturating
#define aws_add_u64_checked fb_aws_add_u64_checked
#define aws_add_u32_saturating fb_aws_add_u32_saturating
#define aws_add_u32_checked fb_aws_add_u32_checked
#define aws_clz_u32 fb_aws_clz_u32
#define aws_clz_i32 fb_aws_clz_i32
#define aws_clz_u64 fb_aws_clz_u64
#define aws_clz_i64 fb_aws_clz_i64
#define aws_clz_size fb_aws_clz_size
#define aws_ctz_u32 fb_aws_ctz_u32
#define aws_ctz_i32 fb_aws_ctz_i32
#define aws_ctz_u64 fb_aws_ctz_u64
#define aws_ctz_i64 fb_aws_ctz_i64
#define aws_ctz_size fb_aws_ctz_size
#include <aws/common/math.fallback.inl>
#undef aws_mul_u64_saturating
#undef aws_mul_u64_checked
#undef aws_mul_u32_saturating
#undef aws_mul_u32_checked
#undef aws_add_u64_saturating
#undef aws_add_u64_checked
#undef aws_add_u32_saturating
#undef aws_add_u32_checked
#undef aws_clz_u32
#undef aws_clz_i32
#undef aws_clz_u64
#undef aws_clz_i64
#undef aws_clz_size
#undef aws_ctz_u32
#undef aws_ctz_i32
#undef aws_ctz_u64
#undef aws_ctz_i64
#undef aws_ctz_size

/* DFCC starts every global as nondet; reset the shared switches, then give the error ghosts arbitrary (recorded) values */
#define ERR_GHOSTS() do { MATH_GHOST_RESET(); g_last_error = nondet_int(); g_raise_count = nondet_int(); __CPROVER_assume(g_raise_count >= 0 && g_raise_count < 1000); } while (0)

/* ---- checked / saturating: one harness per function; canaries on both outcomes ---- */
#define H_CHECKED(F, T)                                                                                                \
    void h_##F(void) {                                                                                                 \
        T a, b, *r;                                                                                                    \
        ERR_GHOSTS();                                                                                                  \
        int rc = F(a, b, r);                                                                                           \
        if (rc == AWS_OP_SUCCESS) CANARY(#F " exact"); else CANARY(#F " overflow");                                    \
    }
#define H_SATURATING(F, T, SAT)                                                                                        \
    void h_##F(void) {                                                                                                 \
        T a, b;                                                                                                        \
        MATH_GHOST_RESET();                                                                                          \
        T x = F(a, b);                                                                                                 \
        if (x == (SAT)) CANARY(#F " saturated or extreme"); else CANARY(#F " exact");                                  \
    }
H_CHECKED(aws_add_u32_checked, uint32_t)
H_CHECKED(aws_add_u64_checked, uint64_t)
H_CHECKED(aws_add_size_checked, size_t)
H_CHECKED(aws_mul_u32_checked, uint32_t)
H_CHECKED(aws_mul_u64_checked, uint64_t)
H_CHECKED(aws_mul_size_checked, size_t)
H_CHECKED(aws_sub_u32_checked, uint32_t)
H_CHECKED(aws_sub_u64_checked, uint64_t)
H_CHECKED(aws_sub_size_checked, size_t)
H_SATURATING(aws_add_u32_saturating, uint32_t, UINT32_MAX)
H_SATURATING(aws_add_u64_saturating, uint64_t, UINT64_MAX)
H_SATURATING(aws_add_size_saturating, size_t, SIZE_MAX)
H_SATURATING(aws_mul_u32_saturating, uint32_t, UINT32_MAX)
H_SATURATING(aws_mul_u64_saturating, uint64_t, UINT64_MAX)
H_SATURATING(aws_mul_size_saturating, size_t, SIZE_MAX)
H_SATURATING(aws_sub_u32_saturating, uint32_t, 0)
H_SATURATING(aws_sub_u64_saturating, uint64_t, 0)
H_SATURATING(aws_sub_size_saturating, size_t, 0)
H_CHECKED(fb_aws_add_u32_checked, uint32_t)
H_CHECKED(fb_aws_add_u64_checked, uint64_t)
H_SATURATING(fb_aws_add_u32_saturating, uint32_t, UINT32_MAX)
H_SATURATING(fb_aws_add_u64_saturating, uint64_t, UINT64_MAX)
H_CHECKED(fb_aws_mul_u32_checked, uint32_t)
H_SATURATING(fb_aws_mul_u32_saturating, uint32_t, UINT32_MAX)
H_CHECKED(fb_aws_mul_u64_checked, uint64_t)
H_SATURATING(fb_aws_mul_u64_saturating, uint64_t, UINT64_MAX)

/* ---- portable multiply, bounded stand-in: ONE operand from the property's boundary set
 *      {0, 1, 2^k-1, 2^k, 2^k+1, MAX-1, MAX} (k symbolic), the other operand fully symbolic ---- */
#define BSET_ASSUME(T, BITS, v)                                                                                        \
    do {                                                                                                               \
        unsigned k = nondet_u32(), d = nondet_u32();                                                                   \
        __CPROVER_assume(k < (BITS) && d < 3);                                                                         \
        T base = (T)(((T)1) << k);                                                                                     \
        __CPROVER_assume((v) == (T)(base + d - 1) || (v) == 0 || (v) >= (T)((T)~(T)0 - 1));                          \
    } while (0)
#define H_FBMUL_CHECKED(F, T, BITS, WHICH)                                                                             \
    void h_fbmul_##F##_##WHICH(void) {                                                                                 \
        T a, b, *r;                                                                                                    \
        ERR_GHOSTS();                                                                                                  \
        BSET_ASSUME(T, BITS, WHICH);                                                                                   \
        int rc = F(a, b, r);                                                                                           \
        if (rc == AWS_OP_SUCCESS) CANARY(#F " exact"); else CANARY(#F " overflow");                                    \
    }
#define H_FBMUL_SATURATING(F, T, BITS, WHICH, SAT)                                                                     \
    void h_fbmul_##F##_##WHICH(void) {                                                                                 \
        T a, b;                                                                                                        \
        MATH_GHOST_RESET();                                                                                            \
        BSET_ASSUME(T, BITS, WHICH);                                                                                   \
        T x = F(a, b);                                                                                                 \
        if (x == (SAT)) CANARY(#F " saturated"); else CANARY(#F " exact");                                             \
    }
H_FBMUL_CHECKED(fb_aws_mul_u64_checked, uint64_t, 64, a)
H_FBMUL_CHECKED(fb_aws_mul_u64_checked, uint64_t, 64, b)
H_FBMUL_CHECKED(fb_aws_mul_u32_checked, uint32_t, 32, a)
H_FBMUL_CHECKED(fb_aws_mul_u32_checked, uint32_t, 32, b)
H_FBMUL_SATURATING(fb_aws_mul_u64_saturating, uint64_t, 64, a, UINT64_MAX)
H_FBMUL_SATURATING(fb_aws_mul_u64_saturating, uint64_t, 64, b, UINT64_MAX)
H_FBMUL_SATURATING(fb_aws_mul_u32_saturating, uint32_t, 32, a, UINT32_MAX)
H_FBMUL_SATURATING(fb_aws_mul_u32_saturating, uint32_t, 32, b, UINT32_MAX)

/* ---- bit counts ---- */
#define H_BITS(F, T, BITS)                                                                                             \
    void h_##F(void) {                                                                                                 \
        T n;                                                                                                           \
        MATH_GHOST_RESET();                                                                                          \
        size_t c = F(n);                                                                                               \
        if (c == (BITS)) CANARY(#F " zero"); else if (c == 0) CANARY(#F " top/bottom bit set"); else CANARY(#F " inner bit");  \
    }
H_BITS(aws_clz_u32, uint32_t, 32)
H_BITS(aws_clz_i32, int32_t, 32)
H_BITS(aws_clz_u64, uint64_t, 64)
H_BITS(aws_clz_i64, int64_t, 64)
H_BITS(aws_clz_size, size_t, 64)
H_BITS(aws_ctz_u32, uint32_t, 32)
H_BITS(aws_ctz_i32, int32_t, 32)
H_BITS(aws_ctz_u64, uint64_t, 64)
H_BITS(aws_ctz_i64, int64_t, 64)
H_BITS(aws_ctz_size, size_t, 64)
H_BITS(fb_aws_clz_u32, uint32_t, 32)
H_BITS(fb_aws_clz_i32, int32_t, 32)
H_BITS(fb_aws_clz_u64, uint64_t, 64)
H_BITS(fb_aws_clz_i64, int64_t, 64)
H_BITS(fb_aws_clz_size, size_t, 64)
H_BITS(fb_aws_ctz_u32, uint32_t, 32)
H_BITS(fb_aws_ctz_i32, int32_t, 32)
H_BITS(fb_aws_ctz_u64, uint64_t, 64)
H_BITS(fb_aws_ctz_i64, int64_t, 64)
H_BITS(fb_aws_ctz_size, size_t, 64)

/* ---- powers of two ---- */
void h_is_power_of_two(void) {
    size_t x;
    MATH_GHOST_RESET();
    g_pow_k = nondet_u32();
    bool p = aws_is_power_of_two(x);
    if (p) CANARY("power of two"); else if (x == 0) CANARY("zero"); else CANARY("not a power of two");
}
void h_round_up_to_power_of_two(void) {
    size_t n, *result;
    ERR_GHOSTS();
    g_pow_k = nondet_u32();
    int rc = aws_round_up_to_power_of_two(n, result);
    if (rc != AWS_OP_SUCCESS) CANARY("round up overflow");
    else if (n == 0) CANARY("round up zero");
    else if ((n & (n - 1)) == 0) CANARY("round up already power");
    else CANARY("round up strictly larger");
}

/* ---- min / max ---- */
#define H_MINMAX(SUF, T)                                                                                               \
    void h_min_##SUF(void) { T a, b; MATH_GHOST_RESET(); T x = aws_min_##SUF(a, b); if (x == a) CANARY("min is a"); else CANARY("min is b"); } \
    void h_max_##SUF(void) { T a, b; MATH_GHOST_RESET(); T x = aws_max_##SUF(a, b); if (x == a) CANARY("max is a"); else CANARY("max is b"); }
H_MINMAX(u8, uint8_t)
H_MINMAX(i8, int8_t)
H_MINMAX(u16, uint16_t)
H_MINMAX(i16, int16_t)
H_MINMAX(u32, uint32_t)
H_MINMAX(i32, int32_t)
H_MINMAX(u64, uint64_t)
H_MINMAX(i64, int64_t)
H_MINMAX(size, size_t)
H_MINMAX(int, int)
/* floating point: the trace prints operands with 7 significant digits only, so the exact operands are recorded as bit
 * patterns in replay witnesses (plain copies of the harness inputs, DESIGN 3.5) */
uint64_t r_a_bits, r_b_bits;
#define H_MINMAX_FP(SUF, T, U)                                                                                         \
    void h_min_##SUF(void) { T a, b; MATH_GHOST_RESET(); union { T f; U u; } ua = {.f = a}, ub = {.f = b}; r_a_bits = ua.u; r_b_bits = ub.u; \
                             T x = aws_min_##SUF(a, b); if (x == a) CANARY("min is a"); else CANARY("min is b"); }      \
    void h_max_##SUF(void) { T a, b; MATH_GHOST_RESET(); union { T f; U u; } ua = {.f = a}, ub = {.f = b}; r_a_bits = ua.u; r_b_bits = ub.u; \
                             T x = aws_max_##SUF(a, b); if (x == a) CANARY("max is a"); else CANARY("max is b"); }
H_MINMAX_FP(float, float, uint32_t)
H_MINMAX_FP(double, double, uint64_t)
