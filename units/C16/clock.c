/* Proof units for C16 (time-unit conversion, include/aws/common/clock.inl).
 *
 * One contract (contracts/math.h: aws_timestamp_convert_u64, RET == min(UINT64_MAX, floor(ticks*new/old)) in 128-bit
 * arithmetic without division, remainder as a division identity) is enforced on the real function; the harnesses differ
 * only in the part of the input domain they hand to it:
 *   h_conv_<from>_<to>        the 16 unit pairs, frequencies constant, ticks as stated per unit
 *   h_conv_freq_*             symbolic frequencies (bounded stand-ins, see units.json)
 * aws_mul_u64_saturating / aws_add_u64_saturating are cut off by their contracts (proved in math.c units).
 */
#include "contracts/math.h"

#define S 1ULL
#define MS 1000ULL
#define US 1000000ULL
#define NS 1000000000ULL

/* canaries are planted on the return value only (a harness cannot read through its own pointer arguments) */
#define H_CONV(NAME, OLDF, NEWF, DOMAIN, HI_CANARY)                                                                    \
    void h_conv_##NAME(void) {                                                                                         \
        uint64_t ticks;                                                                                                \
        uint64_t *rem;                                                                                                 \
        GHOST_RESET_COMMON();                                                                                          \
        __CPROVER_assume(DOMAIN);                                                                                      \
        uint64_t r = aws_timestamp_convert_u64(ticks, (OLDF), (NEWF), rem);                                            \
        if (r == 0) CANARY(#NAME " zero result");                                                                      \
        else if (HI_CANARY) CANARY(#NAME " top of range");                                                             \
        else CANARY(#NAME " ordinary");                                                                                \
    }

#define FULL 1
/* same unit, and conversions to a finer unit: the result can saturate */
H_CONV(s_s, S, S, FULL, r == UINT64_MAX)
H_CONV(ms_ms, MS, MS, FULL, r == UINT64_MAX)
H_CONV(us_us, US, US, FULL, r == UINT64_MAX)
H_CONV(ns_ns, NS, NS, FULL, r == UINT64_MAX)
H_CONV(s_ms, S, MS, FULL, r == UINT64_MAX)
H_CONV(s_us, S, US, FULL, r == UINT64_MAX)
H_CONV(s_ns, S, NS, FULL, r == UINT64_MAX)
H_CONV(ms_us, MS, US, FULL, r == UINT64_MAX)
H_CONV(ms_ns, MS, NS, FULL, r == UINT64_MAX)
H_CONV(us_ns, US, NS, FULL, r == UINT64_MAX)
/* conversions to a coarser unit: never saturates; top of range = the largest possible quotient */
H_CONV(ms_s, MS, S, FULL, r == UINT64_MAX / 1000ULL)
H_CONV(us_s, US, S, FULL, r == UINT64_MAX / 1000000ULL)
H_CONV(ns_s, NS, S, FULL, r == UINT64_MAX / 1000000000ULL)
H_CONV(us_ms, US, MS, FULL, r == UINT64_MAX / 1000ULL)
H_CONV(ns_ms, NS, MS, FULL, r == UINT64_MAX / 1000000ULL)
H_CONV(ns_us, NS, US, FULL, r == UINT64_MAX / 1000ULL)

/* the enum front end: every pair of the four units at once (dispatch only; the arithmetic is the callee's contract) */
void h_convert_enum(void) {
    uint64_t timestamp;
    enum aws_timestamp_unit from, to;
    uint64_t *rem;
    GHOST_RESET_COMMON();
    uint64_t r = aws_timestamp_convert(timestamp, from, to, rem);
    if (r == UINT64_MAX) CANARY("enum saturated or max"); else CANARY("enum ordinary");
}
