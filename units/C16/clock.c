/* Proof units for C16 (time-unit conversion, include/aws/common/clock.inl).
 *
 * One contract (contracts/math.h: aws_timestamp_convert_u64, RET == min(UINT64_MAX, floor(ticks*new/old)) in 128-bit
 * arithmetic without division, remainder as a division identity) is enforced on the real function; the harnesses differ
 * only in the part of the input domain they hand to it:
 *   h_conv_<from>_<to>        the 16 unit pairs, frequencies constant, ticks as stated per unit
 *   h_conv_freq_*             symbolic frequencies (bounded stand-ins, see units.json)
 * aws_mul_u64_saturating / aws_add_u64_saturating are cut off by their contracts (proved in math.c units).
 */
#include "contracts/math.h"

#define S 1ULL
#define MS 1000ULL
#define US 1000000ULL
#define NS 1000000000ULL

/* canaries are planted on the return value only (a harness cannot read through its own pointer arguments) */
#define H_CONV(NAME, OLDF, NEWF, DOMAIN, HI_CANARY)                                                                    \
    void h_conv_##NAME(void) {                                                                                         \
        uint64_t ticks;                                                                                                \
        uint64_t *rem;                                                                                                 \
        MATH_GHOST_RESET();                                                                                            \
        __CPROVER_assume(DOMAIN);                                                                                      \
        uint64_t r = aws_timestamp_convert_u64(ticks, (OLDF), (NEWF), rem);                                            \
        if (HI_CANARY) CANARY(#NAME " top of range");                                                                  \
        else CANARY(#NAME " ordinary");                                                                                \
    }

/* domains handed to the contract */
#define FULL 1
/* bounded stand-ins: windows of 2*WIN consecutive tick values; WIN = 2^15 unless the unit overrides it (-DWIN=..., the
 * slow pairs use 2^12 in the quick tier: see "bound" in units.json).  With WIN = 2^15:
 *   LOW  : [0, 2^16)
 *   MID  : 2^32 +- 2^15   (the 32-bit boundary)
 *   TOP  : the last 2^15 values of the domain
 *   EDGE : +-2^15 around the saturation threshold floor(MAX/ratio) (ratio = new/old > 1), and TOP */
#ifndef WIN
#    define WIN 32768ULL
#endif
#define LOW (ticks < 2 * WIN)
#define MID (ticks >= (1ULL << 32) - WIN && ticks < (1ULL << 32) + WIN)
#define TOP (ticks >= UINT64_MAX - WIN)
#define EDGE(ratio) ((ticks >= UINT64_MAX / (ratio) - WIN && ticks <= UINT64_MAX / (ratio) + WIN) || TOP)

/* X(name, old, new, ratio new/old or 0, canary for the top of the result range) */
#define PAIRS(X)                                                                                                       \
    X(s_s, S, S, 0, r == UINT64_MAX)                                                                                   \
    X(ms_ms, MS, MS, 0, r == UINT64_MAX)                                                                               \
    X(us_us, US, US, 0, r == UINT64_MAX)                                                                               \
    X(ns_ns, NS, NS, 0, r == UINT64_MAX)                                                                               \
    X(s_ms, S, MS, 1000ULL, r == UINT64_MAX)                                                                           \
    X(s_us, S, US, 1000000ULL, r == UINT64_MAX)                                                                        \
    X(s_ns, S, NS, 1000000000ULL, r == UINT64_MAX)                                                                     \
    X(ms_us, MS, US, 1000ULL, r == UINT64_MAX)                                                                         \
    X(ms_ns, MS, NS, 1000000ULL, r == UINT64_MAX)                                                                      \
    X(us_ns, US, NS, 1000ULL, r == UINT64_MAX)                                                                         \
    X(ms_s, MS, S, 0, r == UINT64_MAX / 1000ULL)                                                                       \
    X(us_s, US, S, 0, r == UINT64_MAX / 1000000ULL)                                                                    \
    X(ns_s, NS, S, 0, r == UINT64_MAX / 1000000000ULL)                                                                 \
    X(us_ms, US, MS, 0, r == UINT64_MAX / 1000ULL)                                                                     \
    X(ns_ms, NS, MS, 0, r == UINT64_MAX / 1000000ULL)                                                                  \
    X(ns_us, NS, US, 0, r == UINT64_MAX / 1000ULL)

#define X_FULL(n, o, w, ratio, hi) H_CONV(n, o, w, FULL, hi)
/* window units: the result may be constant inside a window, so the canaries sit on the harness's own input */
#define X_LOW(n, o, w, ratio, hi) H_CONV(n##_low, o, w, LOW, ticks & 1)
#define X_MID(n, o, w, ratio, hi) H_CONV(n##_mid, o, w, MID, ticks & 1)
#define X_EDGE(n, o, w, ratio, hi) H_CONV(n##_edge, o, w, ((ratio) ? EDGE((ratio) ? (ratio) : 1) : TOP), ticks & 1)
PAIRS(X_FULL)
PAIRS(X_LOW)
PAIRS(X_MID)
PAIRS(X_EDGE)

/* symbolic frequencies (bounded stand-in): both frequencies in [1, FMAX], ticks < TMAX */
#ifndef FMAX
#    define FMAX 16
#endif
#ifndef TMAX
#    define TMAX 1024
#endif
void h_conv_freq_small(void) {
    uint64_t ticks, oldf, newf;
    uint64_t *rem;
    MATH_GHOST_RESET();
    __CPROVER_assume(oldf >= 1 && oldf <= FMAX && newf >= 1 && newf <= FMAX && ticks < TMAX);
    uint64_t r = aws_timestamp_convert_u64(ticks, oldf, newf, rem);
    if (newf < oldf && oldf % newf == 0) CANARY("freq divisible down-conversion");
    else if (newf < oldf) CANARY("freq non-divisible down-conversion");
    else if (newf == oldf) CANARY("freq equal");
    else CANARY("freq up-conversion");
}

/* the enum front end is a forwarder: result == result of the general conversion on (timestamp, from, to, remainder),
 * recorded by the ghost record of the replaced callee contract; all 16 unit pairs at once */
void h_convert_enum(void) {
    uint64_t timestamp;
    enum aws_timestamp_unit from, to;
    uint64_t *rem;
    MATH_GHOST_RESET();
    g_conv_on = true;
    uint64_t r = aws_timestamp_convert(timestamp, from, to, rem);
    if (from == to) CANARY("enum same unit");
    else if (from < to) CANARY("enum to finer unit");
    else CANARY("enum to coarser unit");
}
