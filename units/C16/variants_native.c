/* C16, bounded native stand-in (mode "native"): the three implementation variants of the checked arithmetic compiled
 * side by side from the REAL .inl files under renamed symbols and compared, on this x86-64 host, with 128-bit
 * reference arithmetic and with each other.  This is the only evidence for math.gcc_x64_asm.inl (inline assembly is not
 * readable by CBMC) and the stand-in for the division-based multiply of math.fallback.inl (SAT/SMT do not decide it).
 *
 *   builtin  : the build's variant (real names, via <aws/common/math.h>)
 *   asm_     : math.gcc_x64_asm.inl
 *   fb_      : math.fallback.inl
 *
 * Input set (bound, stated in units.json): every ordered pair from the property's boundary set
 *   B = {0, 1, 2^k-1, 2^k, 2^k+1 (k = 1..W-1), MAX-1, MAX} and, for every b in B, a in {floor(MAX/b), floor(MAX/b)+1},
 * plus N seeded pseudo-random pairs (uniform, and "bit-length uniform" so that products straddle the overflow boundary).
 * Second part: aws_timestamp_convert_u64 against 128-bit floor/saturation and the remainder rule, for the 16 unit pairs
 * and for frequencies from a structured set up to 10^9, on structured and random tick values.
 *
 * Output protocol of the driver: "CASES n", "FAIL ..." lines, exit 1 on any failure.
 * Built-in mutants reach this file through the overlay copy: cflags -I.. makes "ovl/include/..." visible when the
 * driver has written a mutated copy there. */
#include <inttypes.h>
#include <stdio.h>
#include <stdlib.h>
#include <string.h>

#include <aws/common/math.h>
/* clock.inl: the overlay copy (built-in mutants) wins when present; its include guard then hides the tree's copy */
#if defined(__has_include) && __has_include("ovl/include/aws/common/clock.inl")
#    include "ovl/include/aws/common/clock.inl"
#endif
#include <aws/common/clock.h>

/* ---- assembly variant ---- */
#define aws_mul_u64_saturating asm_aws_mul_u64_saturating
#define aws_mul_u64_checked asm_aws_mul_u64_checked
#define aws_mul_u32_saturating asm_aws_mul_u32_saturating
#define aws_mul_u32_checked asm_aws_mul_u32_checked
#define aws_add_u64_saturating asm_aws_add_u64_saturating
#define aws_add_u64_checked asm_aws_add_u64_checked
#define aws_add_u32_saturating asm_aws_add_u32_saturating
#define aws_add_u32_checked asm_aws_add_u32_checked
AWS_STATIC_IMPL uint64_t aws_mul_u64_saturating(uint64_t a, uint64_t b);
AWS_STATIC_IMPL int aws_mul_u64_checked(uint64_t a, uint64_t b, uint64_t *r);
AWS_STATIC_IMPL uint32_t aws_mul_u32_saturating(uint32_t a, uint32_t b);
AWS_STATIC_IMPL int aws_mul_u32_checked(uint32_t a, uint32_t b, uint32_t *r);
AWS_STATIC_IMPL uint64_t aws_add_u64_saturating(uint64_t a, uint64_t b);
AWS_STATIC_IMPL int aws_add_u64_checked(uint64_t a, uint64_t b, uint64_t *r);
AWS_STATIC_IMPL uint32_t aws_add_u32_saturating(uint32_t a, uint32_t b);
AWS_STATIC_IMPL int aws_add_u32_checked(uint32_t a, uint32_t b, uint32_t *r);
#if defined(__has_include) && __has_include("ovl/include/aws/common/math.gcc_x64_asm.inl")
#    include "ovl/include/aws/common/math.gcc_x64_asm.inl"
#else
#    include <aws/common/math.gcc_x64_asm.inl>
#endif
#undef aws_mul_u64_saturating
#undef aws_mul_u64_checked
#undef aws_mul_u32_saturating
#undef aws_mul_u32_checked
#undef aws_add_u64_saturating
#undef aws_add_u64_checked
#undef aws_add_u32_saturating
#undef aws_add_u32_checked

/* ---- portable variant ---- */
#define aws_mul_u64_saturating fb_aws_mul_u64_saturating
#define aws_mul_u64_checked fb_aws_mul_u64_checked
#define aws_mul_u32_saturating fb_aws_mul_u32_saturating
#define aws_mul_u32_checked fb_aws_mul_u32_checked
#define aws_add_u64_saturating fb_aws_add_u64_saturating
#define aws_add_u64_checked fb_aws_add_u64_checked
#define aws_add_u32_saturating fb_aws_add_u32_saturating
#define aws_add_u32_checked fb_aws_add_u32_checked
#define aws_clz_u32 fb_aws_clz_u32
#define aws_clz_i32 fb_aws_clz_i32
#define aws_clz_u64 fb_aws_clz_u64
#define aws_clz_i64 fb_aws_clz_i64
#define aws_clz_size fb_aws_clz_size
#define aws_ctz_u32 fb_aws_ctz_u32
#define aws_ctz_i32 fb_aws_ctz_i32
#define aws_ctz_u64 fb_aws_ctz_u64
#define aws_ctz_i64 fb_aws_ctz_i64
#define aws_ctz_size fb_aws_ctz_size
AWS_STATIC_IMPL uint64_t aws_mul_u64_saturating(uint64_t a, uint64_t b);
AWS_STATIC_IMPL int aws_mul_u64_checked(uint64_t a, uint64_t b, uint64_t *r);
AWS_STATIC_IMPL uint32_t aws_mul_u32_saturating(uint32_t a, uint32_t b);
AWS_STATIC_IMPL int aws_mul_u32_checked(uint32_t a, uint32_t b, uint32_t *r);
AWS_STATIC_IMPL uint64_t aws_add_u64_saturating(uint64_t a, uint64_t b);
AWS_STATIC_IMPL int aws_add_u64_checked(uint64_t a, uint64_t b, uint64_t *r);
AWS_STATIC_IMPL uint32_t aws_add_u32_saturating(uint32_t a, uint32_t b);
AWS_STATIC_IMPL int aws_add_u32_checked(uint32_t a, uint32_t b, uint32_t *r);
AWS_STATIC_IMPL size_t aws_clz_u32(uint32_t n);
AWS_STATIC_IMPL size_t aws_clz_i32(int32_t n);
AWS_STATIC_IMPL size_t aws_clz_u64(uint64_t n);
AWS_STATIC_IMPL size_t aws_clz_i64(int64_t n);
AWS_STATIC_IMPL size_t aws_clz_size(size_t n);
AWS_STATIC_IMPL size_t aws_ctz_u32(uint32_t n);
AWS_STATIC_IMPL size_t aws_ctz_i32(int32_t n);
AWS_STATIC_IMPL size_t aws_ctz_u64(uint64_t n);
AWS_STATIC_IMPL size_t aws_ctz_i64(int64_t n);
AWS_STATIC_IMPL size_t aws_ctz_size(size_t n);
#if defined(__has_include) && __has_include("ovl/include/aws/common/math.fallback.inl")
#    include "ovl/include/aws/common/math.fallback.inl"
#else
#    include <aws/common/math.fallback.inl>
#endif
#undef aws_mul_u64_saturating
#undef aws_mul_u64_checked
#undef aws_mul_u32_saturating
#undef aws_mul_u32_checked
#undef aws_add_u64_saturating
#undef aws_add_u64_checked
#undef aws_add_u32_saturating
#undef aws_add_u32_checked
#undef aws_clz_u32
#undef aws_clz_i32
#undef aws_clz_u64
#undef aws_clz_i64
#undef aws_clz_size
#undef aws_ctz_u32
#undef aws_ctz_i32
#undef aws_ctz_u64
#undef aws_ctz_i64
#undef aws_ctz_size

/* the library's error slot is not linked in: count the raises instead */
static int s_raised, s_last_err;
void aws_raise_error_private(int err) {
    ++s_raised;
    s_last_err = err;
}
void aws_fatal_assert(const char *cond_str, const char *file, int line) {
    printf("FAIL aws_fatal_assert(%s) reached at %s:%d\n", cond_str, file, line);
    exit(1);
}

typedef unsigned __int128 u128;
static unsigned long long n_cases, n_fail;
static void fail(const char *what, const char *variant, uint64_t a, uint64_t b, uint64_t got, uint64_t want) {
    if (n_fail++ < 20) {
        printf("FAIL %s variant=%s a=0x%" PRIx64 " b=0x%" PRIx64 " got=0x%" PRIx64 " want=0x%" PRIx64 "\n", what, variant, a, b, got, want);
    }
}

/* xorshift64* */
static uint64_t s_rng = 88172645463325252ULL;
static uint64_t rnd(void) {
    s_rng ^= s_rng >> 12;
    s_rng ^= s_rng << 25;
    s_rng ^= s_rng >> 27;
    return s_rng * 2685821657736338717ULL;
}
/* uniform in bit length, then uniform below it: products land on both sides of the overflow boundary */
static uint64_t rnd_len(unsigned width) {
    unsigned len = (unsigned)(rnd() % (width + 1));
    uint64_t v = rnd();
    return len == 0 ? 0 : (len == 64 ? v : (v & ((1ULL << len) - 1)) | (1ULL << (len - 1)));
}

#define CHECK_CHECKED(NAME, VAR, FN, T, a, b, fits, exact)                                                             \
    do {                                                                                                               \
        T out = (T)0x5a5a5a5a5a5a5a5aULL;                                                                              \
        int before = s_raised;                                                                                         \
        s_last_err = 0;                                                                                                \
        int rc = FN((T)(a), (T)(b), &out);                                                                             \
        ++n_cases;                                                                                                     \
        if ((rc == AWS_OP_SUCCESS) != (fits) || (rc != AWS_OP_SUCCESS && rc != AWS_OP_ERR)) fail(NAME " return code", VAR, a, b, (uint64_t)(int64_t)rc, (fits) ? 0 : (uint64_t)-1); \
        else if ((fits) && out != (T)(exact)) fail(NAME " value", VAR, a, b, out, (T)(exact));                         \
        else if (!(fits) && (s_raised != before + 1 || s_last_err != AWS_ERROR_OVERFLOW_DETECTED)) fail(NAME " error not raised", VAR, a, b, (uint64_t)s_last_err, AWS_ERROR_OVERFLOW_DETECTED); \
        else if ((fits) && s_raised != before) fail(NAME " spurious raise", VAR, a, b, 0, 0);                          \
    } while (0)
#define CHECK_SAT(NAME, VAR, FN, T, a, b, fits, exact, MAXV)                                                           \
    do {                                                                                                               \
        T got = FN((T)(a), (T)(b));                                                                                    \
        T want = (fits) ? (T)(exact) : (T)(MAXV);                                                                      \
        ++n_cases;                                                                                                     \
        if (got != want) fail(NAME, VAR, a, b, got, want);                                                             \
    } while (0)

static void pair64(uint64_t a, uint64_t b) {
    u128 sum = (u128)a + b, prod = (u128)a * b;
    int sf = sum <= UINT64_MAX, pf = prod <= UINT64_MAX;
    CHECK_CHECKED("add_u64_checked", "builtin", aws_add_u64_checked, uint64_t, a, b, sf, sum);
    CHECK_CHECKED("add_u64_checked", "asm", asm_aws_add_u64_checked, uint64_t, a, b, sf, sum);
    CHECK_CHECKED("add_u64_checked", "portable", fb_aws_add_u64_checked, uint64_t, a, b, sf, sum);
    CHECK_CHECKED("mul_u64_checked", "builtin", aws_mul_u64_checked, uint64_t, a, b, pf, prod);
    CHECK_CHECKED("mul_u64_checked", "asm", asm_aws_mul_u64_checked, uint64_t, a, b, pf, prod);
    CHECK_CHECKED("mul_u64_checked", "portable", fb_aws_mul_u64_checked, uint64_t, a, b, pf, prod);
    CHECK_SAT("add_u64_saturating", "builtin", aws_add_u64_saturating, uint64_t, a, b, sf, sum, UINT64_MAX);
    CHECK_SAT("add_u64_saturating", "asm", asm_aws_add_u64_saturating, uint64_t, a, b, sf, sum, UINT64_MAX);
    CHECK_SAT("add_u64_saturating", "portable", fb_aws_add_u64_saturating, uint64_t, a, b, sf, sum, UINT64_MAX);
    CHECK_SAT("mul_u64_saturating", "builtin", aws_mul_u64_saturating, uint64_t, a, b, pf, prod, UINT64_MAX);
    CHECK_SAT("mul_u64_saturating", "asm", asm_aws_mul_u64_saturating, uint64_t, a, b, pf, prod, UINT64_MAX);
    CHECK_SAT("mul_u64_saturating", "portable", fb_aws_mul_u64_saturating, uint64_t, a, b, pf, prod, UINT64_MAX);
}
static void pair32(uint32_t a, uint32_t b) {
    uint64_t sum = (uint64_t)a + b, prod = (uint64_t)a * b;
    int sf = sum <= UINT32_MAX, pf = prod <= UINT32_MAX;
    CHECK_CHECKED("add_u32_checked", "builtin", aws_add_u32_checked, uint32_t, a, b, sf, sum);
    CHECK_CHECKED("add_u32_checked", "asm", asm_aws_add_u32_checked, uint32_t, a, b, sf, sum);
    CHECK_CHECKED("add_u32_checked", "portable", fb_aws_add_u32_checked, uint32_t, a, b, sf, sum);
    CHECK_CHECKED("mul_u32_checked", "builtin", aws_mul_u32_checked, uint32_t, a, b, pf, prod);
    CHECK_CHECKED("mul_u32_checked", "asm", asm_aws_mul_u32_checked, uint32_t, a, b, pf, prod);
    CHECK_CHECKED("mul_u32_checked", "portable", fb_aws_mul_u32_checked, uint32_t, a, b, pf, prod);
    CHECK_SAT("add_u32_saturating", "builtin", aws_add_u32_saturating, uint32_t, a, b, sf, sum, UINT32_MAX);
    CHECK_SAT("add_u32_saturating", "asm", asm_aws_add_u32_saturating, uint32_t, a, b, sf, sum, UINT32_MAX);
    CHECK_SAT("add_u32_saturating", "portable", fb_aws_add_u32_saturating, uint32_t, a, b, sf, sum, UINT32_MAX);
    CHECK_SAT("mul_u32_saturating", "builtin", aws_mul_u32_saturating, uint32_t, a, b, pf, prod, UINT32_MAX);
    CHECK_SAT("mul_u32_saturating", "asm", asm_aws_mul_u32_saturating, uint32_t, a, b, pf, prod, UINT32_MAX);
    CHECK_SAT("mul_u32_saturating", "portable", fb_aws_mul_u32_saturating, uint32_t, a, b, pf, prod, UINT32_MAX);
}

static size_t boundary_set(uint64_t *out, unsigned width) {
    uint64_t max = width == 64 ? UINT64_MAX : ((1ULL << width) - 1);
    size_t n = 0;
    out[n++] = 0;
    out[n++] = 1;
    for (unsigned k = 1; k < width; ++k) {
        out[n++] = (1ULL << k) - 1;
        out[n++] = 1ULL << k;
        out[n++] = (1ULL << k) + 1;
    }
    out[n++] = max - 1;
    out[n++] = max;
    return n;
}

/* bit counts: all three variants against the bit-level definition (supplement; the CBMC units prove these) */
static size_t ref_clz(uint64_t n, unsigned width) {
    size_t c = 0;
    for (int i = (int)width - 1; i >= 0 && !((n >> i) & 1); --i) ++c;
    return c;
}
static size_t ref_ctz(uint64_t n, unsigned width) {
    size_t c = 0;
    for (unsigned i = 0; i < width && !((n >> i) & 1); ++i) ++c;
    return c;
}
static void bits(uint64_t n) {
#define BIT1(F, T, REF, W)                                                                                             \
    do {                                                                                                               \
        ++n_cases;                                                                                                     \
        size_t want = REF((uint64_t)(n) & ((W) == 64 ? UINT64_MAX : 0xffffffffULL), (W));                             \
        if (aws_##F((T)(n)) != want) fail(#F, "builtin", n, 0, aws_##F((T)(n)), want);                                 \
        if (fb_aws_##F((T)(n)) != want) fail(#F, "portable", n, 0, fb_aws_##F((T)(n)), want);                          \
    } while (0)
    BIT1(clz_u32, uint32_t, ref_clz, 32);
    BIT1(clz_i32, int32_t, ref_clz, 32);
    BIT1(clz_u64, uint64_t, ref_clz, 64);
    BIT1(clz_i64, int64_t, ref_clz, 64);
    BIT1(clz_size, size_t, ref_clz, 64);
    BIT1(ctz_u32, uint32_t, ref_ctz, 32);
    BIT1(ctz_i32, int32_t, ref_ctz, 32);
    BIT1(ctz_u64, uint64_t, ref_ctz, 64);
    BIT1(ctz_i64, int64_t, ref_ctz, 64);
    BIT1(ctz_size, size_t, ref_ctz, 64);
}

/* ---- time conversion against 128-bit reference ---- */
static void conv(uint64_t ticks, uint64_t oldf, uint64_t newf) {
    u128 q = ((u128)ticks * newf) / oldf;
    uint64_t want = q > UINT64_MAX ? UINT64_MAX : (uint64_t)q;
    uint64_t want_rem = (newf < oldf && oldf % newf == 0) ? ticks % (oldf / newf) : 0;
    uint64_t rem = 0xdeadbeefdeadbeefULL;
    uint64_t got = aws_timestamp_convert_u64(ticks, oldf, newf, &rem);
    uint64_t got2 = aws_timestamp_convert_u64(ticks, oldf, newf, NULL);
    ++n_cases;
    if (got != want || got2 != want) {
        if (n_fail++ < 20) printf("FAIL convert ticks=%" PRIu64 " old=%" PRIu64 " new=%" PRIu64 " got=%" PRIu64 " got(NULL rem)=%" PRIu64 " want=%" PRIu64 "\n", ticks, oldf, newf, got, got2, want);
    } else if (rem != want_rem) {
        if (n_fail++ < 20) printf("FAIL convert remainder ticks=%" PRIu64 " old=%" PRIu64 " new=%" PRIu64 " got=%" PRIu64 " want=%" PRIu64 "\n", ticks, oldf, newf, rem, want_rem);
    }
}
static void conv_ticks_set(uint64_t oldf, uint64_t newf, const uint64_t *bset, size_t nb) {
    for (size_t i = 0; i < nb; ++i) conv(bset[i], oldf, newf);
    /* multiples of the old frequency +-1, saturation threshold +-2 */
    for (unsigned k = 0; k < 64; ++k) {
        uint64_t m = (UINT64_MAX >> k) / oldf * oldf;
        conv(m, oldf, newf);
        conv(m - 1, oldf, newf);
        conv(m + 1, oldf, newf);
        conv(m + oldf - 1, oldf, newf);
    }
    u128 thr = ((u128)UINT64_MAX * oldf) / newf; /* largest ticks with floor <= MAX is around here */
    if (thr <= UINT64_MAX) {
        for (int d = -3; d <= 3; ++d) conv((uint64_t)thr + (uint64_t)(int64_t)d, oldf, newf);
    }
}

int main(int argc, char **argv) {
    unsigned long long seed = argc > 1 ? strtoull(argv[1], NULL, 10) : 1;
    int thorough = argc > 2 && strcmp(argv[2], "thorough") == 0;
    unsigned long long n_random = thorough ? 200000000ULL : 4000000ULL;
    s_rng ^= seed * 0x9E3779B97F4A7C15ULL;
    if (s_rng == 0) s_rng = 1;

    static uint64_t b64[256], b32[128];
    size_t n64 = boundary_set(b64, 64), n32 = boundary_set(b32, 32);
    for (size_t i = 0; i < n64; ++i) {
        for (size_t j = 0; j < n64; ++j) pair64(b64[i], b64[j]);
        if (b64[i] != 0) {
            uint64_t q = UINT64_MAX / b64[i];
            pair64(q, b64[i]); pair64(b64[i], q);
            pair64(q + 1, b64[i]); pair64(b64[i], q + 1);
            pair64(q - 1, b64[i]);
        }
        bits(b64[i]);
        bits(~b64[i]);
    }
    for (size_t i = 0; i < n32; ++i) {
        for (size_t j = 0; j < n32; ++j) pair32((uint32_t)b32[i], (uint32_t)b32[j]);
        if (b32[i] != 0) {
            uint32_t q = UINT32_MAX / (uint32_t)b32[i];
            pair32(q, (uint32_t)b32[i]); pair32((uint32_t)b32[i], q);
            pair32(q + 1, (uint32_t)b32[i]); pair32((uint32_t)b32[i], q + 1);
            pair32(q - 1, (uint32_t)b32[i]);
        }
    }
    for (unsigned long long i = 0; i < n_random; ++i) {
        uint64_t a = (i & 1) ? rnd() : rnd_len(64), b = (i & 2) ? rnd() : rnd_len(64);
        pair64(a, b);
        if (b) { pair64(UINT64_MAX / b, b); pair64(UINT64_MAX / b + 1, b); }
        uint32_t c = (uint32_t)((i & 1) ? rnd() : rnd_len(32)), d = (uint32_t)((i & 2) ? rnd() : rnd_len(32));
        pair32(c, d);
        if (d) { pair32(UINT32_MAX / d, d); pair32(UINT32_MAX / d + 1, d); }
        if ((i & 15) == 0) bits(a);
    }

    /* time conversion */
    static const uint64_t unit[4] = {1, 1000, 1000000, 1000000000};
    for (int f = 0; f < 4; ++f) {
        for (int t = 0; t < 4; ++t) {
            conv_ticks_set(unit[f], unit[t], b64, n64);
            for (unsigned long long i = 0; i < n_random / 16; ++i) conv((i & 1) ? rnd() : rnd_len(64), unit[f], unit[t]);
        }
    }
    static uint64_t fset[128];
    size_t nf = 0;
    for (unsigned k = 0; k < 30; ++k) {
        fset[nf++] = 1ULL << k;
        if (k > 1) { fset[nf++] = (1ULL << k) - 1; fset[nf++] = (1ULL << k) + 1; }
    }
    static const uint64_t more[] = {3, 7, 10, 60, 100, 999, 1000, 1001, 1024, 32768, 44100, 1000000, 3579545, 10000000, 19200000, 24000000, 999999999, 1000000000};
    for (size_t i = 0; i < sizeof(more) / sizeof(more[0]); ++i) fset[nf++] = more[i];
    for (size_t i = 0; i < nf; ++i) {
        for (size_t j = 0; j < nf; ++j) {
            if (fset[i] <= 1000000000 && fset[j] <= 1000000000) conv_ticks_set(fset[i], fset[j], b64, n64);
        }
    }
    for (unsigned long long i = 0; i < n_random / 4; ++i) {
        uint64_t o = 1 + rnd_len(30) % 1000000000, w = 1 + rnd_len(30) % 1000000000;
        conv((i & 1) ? rnd() : rnd_len(64), o, w);
    }

    printf("CASES %llu\n", n_cases);
    if (n_fail) {
        printf("FAILED %llu\n", n_fail);
        return 1;
    }
    return 0;
}
