/* C05, native bounded differential unit (mode "native": bounded, never counted as proved).
 *
 * CBMC cannot read the AVX2 intrinsics of source/arch/intel/encoding_avx2.c.  This driver compiles the REAL
 * source/encoding.c twice into one program
 *     copy P: without USE_SIMD_ENCODING (portable path, every external name prefixed p_)
 *     copy V: with USE_SIMD_ENCODING and aws_common_private_has_avx2() forced to true (vector path, real encoding_avx2.c)
 * and requires both to give the same verdict, the same length and the same bytes ("CPU-path independent").  The portable
 * path is the one whose conformance to RFC 4648 is decided by the contract units.
 *
 *   encode: every length 0..ENC_MAX_LEN (all lengths modulo 3, 24 and 32), several contents, pre-existing lengths, exact
 *           fit / one byte short, guard bytes around the output range
 *   decode: valid texts of every such length; single-position substitutions with all 256 byte values; the final quantum:
 *           all 2^32 four-byte tails (thorough tier) or a seeded sample + all 2^16 last-two-character pairs (quick tier),
 *           behind prefixes of 0, 28, 32 and 60 characters
 * Output protocol of the driver: "CASES n", "FAIL ..." lines, exit 0 held / 1 violation / 2 cannot run here.
 */
#include <stdint.h>
#include <stdio.h>
#include <stdlib.h>
#include <string.h>

/* ---- copy P: portable ---- */
#ifdef USE_SIMD_ENCODING
#    undef USE_SIMD_ENCODING
#endif
#define aws_hex_compute_encoded_len p_aws_hex_compute_encoded_len
#define aws_hex_encode p_aws_hex_encode
#define aws_hex_encode_append_dynamic p_aws_hex_encode_append_dynamic
#define aws_hex_compute_decoded_len p_aws_hex_compute_decoded_len
#define aws_hex_decode p_aws_hex_decode
#define aws_base64_compute_encoded_len p_aws_base64_compute_encoded_len
#define aws_base64_compute_decoded_len p_aws_base64_compute_decoded_len
#define aws_base64_encode p_aws_base64_encode
#define aws_base64_decode p_aws_base64_decode
#define aws_utf8_decoder p_aws_utf8_decoder
#define aws_utf8_decoder_new p_aws_utf8_decoder_new
#define aws_utf8_decoder_destroy p_aws_utf8_decoder_destroy
#define aws_utf8_decoder_reset p_aws_utf8_decoder_reset
#define aws_utf8_decoder_update p_aws_utf8_decoder_update
#define aws_utf8_decoder_finalize p_aws_utf8_decoder_finalize
#define aws_decode_utf8 p_aws_decode_utf8
#define aws_common_private_base64_decode_sse41 p_aws_common_private_base64_decode_sse41
#define aws_common_private_base64_encode_sse41 p_aws_common_private_base64_encode_sse41
#define aws_common_private_has_avx2 p_aws_common_private_has_avx2
#define HEX_CHARS p_HEX_CHARS
#define BASE64_SENTINEL_VALUE p_BASE64_SENTINEL_VALUE
#define BASE64_ENCODING_TABLE p_BASE64_ENCODING_TABLE
#define BASE64_DECODING_TABLE p_BASE64_DECODING_TABLE
#define s_hex_decode_char_to_int p_s_hex_decode_char_to_int
#define s_base64_get_decoded_value p_s_base64_get_decoded_value
/* <aws/common/encoding.h> is read here under the renames, so it declares the p_ API; copy V below defines the real
 * names without a prior declaration (its own definitions serve as declarations for the driver) */
#include "source/encoding.c"
#undef aws_hex_compute_encoded_len
#undef aws_hex_encode
#undef aws_hex_encode_append_dynamic
#undef aws_hex_compute_decoded_len
#undef aws_hex_decode
#undef aws_base64_compute_encoded_len
#undef aws_base64_compute_decoded_len
#undef aws_base64_encode
#undef aws_base64_decode
#undef aws_utf8_decoder
#undef aws_utf8_decoder_new
#undef aws_utf8_decoder_destroy
#undef aws_utf8_decoder_reset
#undef aws_utf8_decoder_update
#undef aws_utf8_decoder_finalize
#undef aws_decode_utf8
#undef aws_common_private_base64_decode_sse41
#undef aws_common_private_base64_encode_sse41
#undef aws_common_private_has_avx2
#undef HEX_CHARS
#undef BASE64_SENTINEL_VALUE
#undef BASE64_ENCODING_TABLE
#undef BASE64_DECODING_TABLE
#undef s_hex_decode_char_to_int
#undef s_base64_get_decoded_value

/* ---- copy V: vector path ---- */
#define USE_SIMD_ENCODING
#include "source/encoding.c"

/* ---- the few externals encoding.c needs (the codecs do not depend on them) ---- */
bool aws_common_private_has_avx2(void) { return true; } /* force the vector path in copy V */
static int s_last_error;
void aws_raise_error_private(int err) { s_last_error = err; }
void *aws_mem_calloc(struct aws_allocator *a, size_t n, size_t s) { (void)a; return calloc(n, s); }
void aws_mem_release(struct aws_allocator *a, void *p) { (void)a; free(p); }
int aws_byte_buf_reserve_relative(struct aws_byte_buf *b, size_t n) { (void)b; (void)n; abort(); }

/* ---- driver ---- */
#define ENC_MAX_LEN 200
#define GUARD 40
static unsigned long long n_cases, n_fail;
static uint64_t rng_state;
static uint32_t rnd(void) { rng_state = rng_state * 6364136223846793005ULL + 1442695040888963407ULL; return (uint32_t)(rng_state >> 33); }

/* failures are grouped by kind; one line per kind (count + first example) is printed at the end */
#define N_KINDS 10
static struct { const char *kind; unsigned long long count; char example[400]; } kinds[N_KINDS];
static void fail_line(const char *kind, const uint8_t *in, size_t n, int rp, size_t lp, int rv, size_t lv) {
    n_fail++;
    int k = 0;
    while (k < N_KINDS - 1 && kinds[k].kind && strcmp(kinds[k].kind, kind) != 0) k++;
    if (!kinds[k].kind) {
        kinds[k].kind = kind;
        char *o = kinds[k].example; o += sprintf(o, "len=%zu input=\"", n);
        for (size_t i = 0; i < n && i < 72; ++i) { if (in[i] >= 32 && in[i] < 127 && in[i] != '"' && in[i] != '\\') *o++ = (char)in[i]; else o += sprintf(o, "\\x%02x", in[i]); }
        sprintf(o, "\" portable rc=%d len=%zu | avx2 rc=%d len=%zu", rp, lp, rv, lv);
    }
    kinds[k].count++;
}
static int is_alpha(uint8_t c) { return (c >= 'A' && c <= 'Z') || (c >= 'a' && c <= 'z') || (c >= '0' && c <= '9') || c == '+' || c == '/'; }
static int val(uint8_t c) { return c >= 'A' && c <= 'Z' ? c - 'A' : c >= 'a' && c <= 'z' ? c - 'a' + 26 : c >= '0' && c <= '9' ? c - '0' + 52 : c == '+' ? 62 : 63; }
/* why do the two paths disagree on this text?  (kinds known from DESIGN.md section 6, F1; anything else is "other") */
static const char *classify_verdict(const uint8_t *t, size_t n, int rp, int rv) {
    if (!(rp == 0 && rv != 0)) return "decode verdict differs: vector path accepts, portable path refuses";
    for (size_t i = 0; i < n; ++i) if (t[i] == 0) return "decode verdict differs: portable path accepts a NUL byte as a base64 character";
    if (n >= 4 && t[n - 2] == '=' && t[n - 1] != '=') return "decode verdict differs: portable path accepts '=' followed by a non-'=' character (and reports bytes it never wrote)";
    if (n >= 4 && t[n - 1] == '=' && t[n - 2] != '=' && is_alpha(t[n - 2]) && (val(t[n - 2]) & 3)) return "decode verdict differs: portable path accepts non-zero trailing bits (one pad)";
    if (n >= 4 && t[n - 1] == '=' && t[n - 2] == '=' && is_alpha(t[n - 3]) && (val(t[n - 3]) & 15)) return "decode verdict differs: portable path accepts non-zero trailing bits (two pads)";
    return "decode verdict differs: other";
}

/* one encode comparison; returns the length of the text written to text_out (portable), or 0 */
static size_t cmp_encode(const uint8_t *in, size_t n, size_t len0, size_t cap, uint8_t *text_out) {
    static uint8_t bp[GUARD + 4 * ENC_MAX_LEN + GUARD], bv[sizeof bp];
    memset(bp, 0xA5, sizeof bp); memset(bv, 0xA5, sizeof bv);
    struct aws_byte_cursor c = {.len = n, .ptr = (uint8_t *)in};
    struct aws_byte_buf P = {.len = len0, .buffer = bp + GUARD, .capacity = cap, .allocator = NULL};
    struct aws_byte_buf V = {.len = len0, .buffer = bv + GUARD, .capacity = cap, .allocator = NULL};
    int rp = p_aws_base64_encode(&c, &P), rv = aws_base64_encode(&c, &V);
    n_cases++;
    if (rp != rv || P.len != V.len || memcmp(bp, bv, sizeof bp) != 0) fail_line("encode differs (result, length, bytes or bytes outside the output range)", in, n, rp, P.len, rv, V.len);
    size_t enc = 4 * ((n + 2) / 3);
    if ((rp == 0) != (cap - len0 >= enc)) fail_line("encode success condition", in, n, rp, P.len, rv, V.len);
    if (rp == 0 && text_out) { memcpy(text_out, bp + GUARD + len0, enc); return enc; }
    return 0;
}
/* one decode comparison; expect_bytes may be NULL */
static void cmp_decode(const uint8_t *text, size_t n, const uint8_t *expect_bytes, size_t expect_len) {
    static uint8_t bp[GUARD + 3 * ENC_MAX_LEN + GUARD], bv[sizeof bp];
    memset(bp, 0x5A, sizeof bp); memset(bv, 0x5A, sizeof bv);
    size_t cap = 3 * (n / 4) + 3;
    struct aws_byte_cursor c = {.len = n, .ptr = (uint8_t *)text};
    struct aws_byte_buf P = {.len = 0, .buffer = bp + GUARD, .capacity = cap, .allocator = NULL};
    struct aws_byte_buf V = {.len = 0, .buffer = bv + GUARD, .capacity = cap, .allocator = NULL};
    int rp = p_aws_base64_decode(&c, &P), rv = aws_base64_decode(&c, &V);
    n_cases++;
    if (rp != rv) { fail_line(classify_verdict(text, n, rp, rv), text, n, rp, P.len, rv, V.len); return; }
    if (rp == 0 && (P.len != V.len || memcmp(bp + GUARD, bv + GUARD, P.len) != 0)) fail_line("decode bytes/length differ", text, n, rp, P.len, rv, V.len);
    if (memcmp(bp, bv, GUARD) != 0 || bp[0] != 0x5A || memcmp(bp + GUARD + cap, bv + GUARD + cap, GUARD) != 0 || bp[GUARD + cap] != 0x5A || bv[GUARD + cap] != 0x5A)
        fail_line("decode wrote outside the capacity", text, n, rp, P.len, rv, V.len);
    if (expect_bytes && (rp != 0 || P.len != expect_len || memcmp(bp + GUARD, expect_bytes, expect_len) != 0)) fail_line("round trip", text, n, rp, P.len, rv, V.len);
}

int main(int argc, char **argv) {
    unsigned long seed = argc > 1 ? strtoul(argv[1], NULL, 10) : 1;
    int thorough = argc > 2 && strcmp(argv[2], "thorough") == 0;
    rng_state = 0x9E3779B97F4A7C15ULL ^ seed;
    __builtin_cpu_init();
    if (!__builtin_cpu_supports("avx2")) { printf("CASES 0\nthis host has no AVX2: the vector path cannot be executed here\n"); return 2; }

    static uint8_t in[ENC_MAX_LEN + 8], text[4 * ENC_MAX_LEN + 8], mut[4 * ENC_MAX_LEN + 8];
    /* encode + round trip, every length */
    for (size_t n = 0; n <= ENC_MAX_LEN; ++n) {
        for (int variant = 0; variant < (thorough ? 40 : 8); ++variant) {
            for (size_t i = 0; i < n; ++i) in[i] = variant == 0 ? 0x00 : variant == 1 ? 0xFF : variant == 2 ? (uint8_t)(i * 37 + 11) : (uint8_t)rnd();
            size_t enc = 4 * ((n + 2) / 3);
            size_t len0 = variant % 3 == 0 ? 0 : variant % 3 == 1 ? 1 : 5;
            size_t tl = cmp_encode(in, n, len0, len0 + enc, text);                 /* exact fit */
            if (enc > 0) cmp_encode(in, n, len0, len0 + enc - 1, NULL);           /* one short */
            cmp_encode(in, n, len0, len0 + enc + 7, NULL);                        /* room to spare */
            cmp_decode(text, tl, in, n);                                           /* valid text, both paths, round trip */
            /* substitutions: every byte value at 6 positions incl. the whole final quantum */
            if (tl >= 4 && variant < 3) {
                size_t pos[6] = {tl - 1, tl - 2, tl - 3, tl - 4, 0, tl / 2};
                for (int pi = 0; pi < 6; ++pi)
                    for (int v = 0; v < 256; ++v) { memcpy(mut, text, tl); mut[pos[pi]] = (uint8_t)v; cmp_decode(mut, tl, NULL, 0); }
            }
        }
    }
    /* the final quantum behind prefixes of several lengths (len mod 32 = 4, 0, 4, 0; one and two vector strides) */
    static const size_t prefix[4] = {0, 28, 32, 60};
    for (int pi = 0; pi < 4; ++pi) {
        size_t pl = prefix[pi];
        for (size_t i = 0; i < pl; ++i) mut[i] = "ABCDEFGHIJKLMNOPQRSTUVWXYZabcdefghijklmnopqrstuvwxyz0123456789+/"[(i * 7 + 3) % 64];
        /* all pairs of last two characters behind two alphabet characters */
        for (int a = 0; a < 256; ++a)
            for (int b = 0; b < 256; ++b) { mut[pl] = 'Q'; mut[pl + 1] = (uint8_t)"AQgw/Z"[(a + b) % 6]; mut[pl + 2] = (uint8_t)a; mut[pl + 3] = (uint8_t)b; cmp_decode(mut, pl + 4, NULL, 0); }
        if (thorough && pi < 2) {
            for (uint64_t w = 0; w < (1ULL << 32); ++w) { mut[pl] = (uint8_t)w; mut[pl + 1] = (uint8_t)(w >> 8); mut[pl + 2] = (uint8_t)(w >> 16); mut[pl + 3] = (uint8_t)(w >> 24); cmp_decode(mut, pl + 4, NULL, 0); }
        } else {
            for (long k = 0; k < 400000; ++k) {
                uint32_t w = rnd();
                /* bias towards the interesting bytes: alphabet, '=', NUL */
                for (int j = 0; j < 4; ++j) { uint32_t r = rnd(); uint8_t c = (uint8_t)(w >> (8 * j)); if (r % 4 == 0) c = '='; else if (r % 4 == 1) c = (uint8_t)"ABCDwxyz0189+/AQgw"[r % 18]; else if (r % 16 == 2) c = 0; mut[pl + j] = c; }
                cmp_decode(mut, pl + 4, NULL, 0);
            }
        }
    }
    printf("CASES %llu\n", n_cases);
    for (int k = 0; k < N_KINDS; ++k) if (kinds[k].kind) printf("FAIL %s: %llu case(s), first: %s\n", kinds[k].kind, kinds[k].count, kinds[k].example);
    if (n_fail) { printf("TOTAL-FAILING-CASES %llu\n", n_fail); return 1; }
    return 0;
}
