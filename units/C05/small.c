/* Bounded stand-ins for C05 (mode "bounded": never counted as proved): the real source/encoding.c, portable path, run on
 * every input up to a small size and compared with RFC 4648 written down independently below.  They decide, for these
 * sizes, the clauses that the unbounded contract units cannot state without quantifiers (most of all "every well-formed
 * text IS accepted") and they are the quick-tier alarm for the base64 functions, whose unbounded units are slow. */
#include "contracts/encoding.h"
#include "source/encoding.c"
#include "units/C05/plain_stubs.h"

#ifndef SMALL_IN
#    define SMALL_IN 7 /* bytes: 0..7 covers every length modulo 3 with 0..2 full quanta in front */
#endif
#define SMALL_TEXT (4 * ((SMALL_IN + 2) / 3)) /* 12 characters */
#define SMALL_CAP (SMALL_TEXT + 4)

/* replay variables (scalars named r_* are picked up from the counterexample trace by the driver) */
size_t r_n, r_cap, r_len0;
uint32_t r_w0, r_w1, r_w2; /* the first 12 input bytes, little endian */
static void record_input(const uint8_t *p, size_t n, size_t cap, size_t len0) {
    uint8_t b[12];
    for (size_t k = 0; k < 12; ++k) b[k] = (k < n) ? p[k] : 0;
    r_n = n; r_cap = cap; r_len0 = len0;
    r_w0 = b[0] | (uint32_t)b[1] << 8 | (uint32_t)b[2] << 16 | (uint32_t)b[3] << 24;
    r_w1 = b[4] | (uint32_t)b[5] << 8 | (uint32_t)b[6] << 16 | (uint32_t)b[7] << 24;
    r_w2 = b[8] | (uint32_t)b[9] << 8 | (uint32_t)b[10] << 16 | (uint32_t)b[11] << 24;
}

/* ------------------------------------------------------------------ RFC 4648 reference */
static uint8_t ref_b64_char(const uint8_t *in, size_t n, size_t k) {
    size_t q = k / 4, sub = k % 4;
    uint32_t group = (uint32_t)in[3 * q] << 16;
    if (3 * q + 1 < n) group |= (uint32_t)in[3 * q + 1] << 8;
    if (3 * q + 2 < n) group |= (uint32_t)in[3 * q + 2];
    if (sub == 3 && 3 * q + 2 >= n) return '=';
    if (sub == 2 && 3 * q + 1 >= n) return '=';
    uint8_t v = (uint8_t)((group >> (6 * (3 - sub))) & 0x3f);
    return SPEC_B64_CHAR(v);
}
/* 0 = malformed, 1 = well-formed and canonical; *declen = number of bytes it stands for */
static int ref_b64_wellformed(const uint8_t *t, size_t n, size_t *declen) {
    *declen = 0;
    if (n % 4 != 0) return 0;
    if (n == 0) return 1;
    size_t pad = 0;
    for (size_t j = 0; j < SMALL_TEXT; ++j) {
        if (j < n) {
            uint8_t c = t[j];
            if (j + 2 < n) { if (!B64_IS_ALPHA(c)) return 0; }
            else if (j + 2 == n) { if (!(B64_IS_ALPHA(c) || (c == '=' && t[n - 1] == '='))) return 0; if (c == '=') pad = 2; }
            else { if (!(B64_IS_ALPHA(c) || c == '=')) return 0; if (c == '=' && pad == 0) pad = 1; }
        }
    }
    if (!B64_IS_ALPHA(t[n - 4]) || !B64_IS_ALPHA(t[n - 3])) return 0;
    if (pad == 1 && (SPEC_B64_VAL(t[n - 2]) & 0x03) != 0) return 0; /* non-zero trailing bits: not canonical */
    if (pad == 2 && (SPEC_B64_VAL(t[n - 3]) & 0x0f) != 0) return 0;
    *declen = 3 * (n / 4) - pad;
    return 1;
}
static uint8_t ref_b64_byte(const uint8_t *t, size_t k) {
    size_t q = k / 3, sub = k % 3;
    uint32_t group = 0;
    for (size_t j = 0; j < 4; ++j) group = (group << 6) | (t[4 * q + j] == '=' ? 0u : (uint32_t)(SPEC_B64_VAL(t[4 * q + j]) & 0x3f));
    return (uint8_t)((group >> (8 * (2 - sub))) & 0xff);
}

/* ------------------------------------------------------------------ base64 encode, inputs of 0..SMALL_IN bytes */
void h_b64_encode_small(void) {
    uint8_t in[SMALL_IN + 1], out[SMALL_CAP], before[SMALL_CAP];
    size_t n = nondet_size_t(), cap = nondet_size_t(), len0 = nondet_size_t();
    __CPROVER_assume(n <= SMALL_IN && cap <= SMALL_CAP && len0 <= cap);
    for (size_t k = 0; k < SMALL_IN + 1; ++k) in[k] = nondet_u8();
    for (size_t k = 0; k < SMALL_CAP; ++k) { out[k] = nondet_u8(); before[k] = out[k]; }
    record_input(in, n, cap, len0);
    struct aws_byte_cursor c = {.len = n, .ptr = in};
    struct aws_byte_buf b = {.len = len0, .buffer = out, .capacity = cap, .allocator = NULL};
    size_t predicted = 0;
    int pr = aws_base64_compute_encoded_len(n, &predicted);
    int r = aws_base64_encode(&c, &b);
    size_t enc = 4 * ((n + 2) / 3);
    __CPROVER_assert(pr == AWS_OP_SUCCESS && predicted == enc, "predicted length is 4*ceil(n/3)");
    __CPROVER_assert(r == (cap - len0 >= enc ? AWS_OP_SUCCESS : AWS_OP_ERR), "encode succeeds exactly when the predicted length fits behind len");
    __CPROVER_assert(b.len == (r == AWS_OP_SUCCESS ? len0 + enc : len0), "len advances by exactly the predicted length, or not at all");
    __CPROVER_assert(b.buffer == out && b.capacity == cap, "buffer and capacity untouched");
    for (size_t k = 0; k < SMALL_CAP; ++k) {
        if (r == AWS_OP_SUCCESS && k >= len0 && k < len0 + enc)
            __CPROVER_assert(out[k] == ref_b64_char(in, n, k - len0), "every produced character is the canonical RFC 4648 character");
        else
            __CPROVER_assert(out[k] == before[k], "no byte outside [len, len+predicted) changes");
    }
    if (r == AWS_OP_SUCCESS && n == SMALL_IN) CANARY("encoded the longest input");
    if (r == AWS_OP_SUCCESS && n % 3 == 2) CANARY("one pad");
    if (r != AWS_OP_SUCCESS) CANARY("refused");
}

/* ------------------------------------------------------------------ base64 decode, texts of 0..SMALL_TEXT characters */
void h_b64_decode_small(void) {
    uint8_t t[SMALL_TEXT + 1], out1[SMALL_CAP], out2[SMALL_CAP];
    size_t n = nondet_size_t(), cap = nondet_size_t(), len0 = nondet_size_t();
    __CPROVER_assume(n <= SMALL_TEXT && cap <= SMALL_CAP && len0 <= cap);
    for (size_t k = 0; k < SMALL_TEXT + 1; ++k) t[k] = nondet_u8();
    for (size_t k = 0; k < SMALL_CAP; ++k) { out1[k] = 0x00; out2[k] = 0xFF; }
    record_input(t, n, cap, len0);
    struct aws_byte_cursor c = {.len = n, .ptr = t};
    struct aws_byte_buf b1 = {.len = len0, .buffer = out1, .capacity = cap, .allocator = NULL};
    struct aws_byte_buf b2 = {.len = len0, .buffer = out2, .capacity = cap, .allocator = NULL};
    size_t predicted = 0;
    int pr = aws_base64_compute_decoded_len(&c, &predicted);
    int r = aws_base64_decode(&c, &b1);
    int r2 = aws_base64_decode(&c, &b2); /* same call on a buffer pre-filled with the opposite pattern */
    size_t declen = 0;
    int wf = ref_b64_wellformed(t, n, &declen);
    __CPROVER_assert(r == r2 && b1.len == b2.len, "verdict and length do not depend on the old buffer contents");
    /* direction 1 (holds): every well-formed canonical text that fits is accepted and decoded exactly */
    __CPROVER_assert(!(wf && cap >= declen) || r == AWS_OP_SUCCESS, "accepts every well-formed canonical text whose decoding fits");
    if (wf && r == AWS_OP_SUCCESS) {
        __CPROVER_assert(pr == AWS_OP_SUCCESS && predicted == declen, "predicted length = number of bytes the text stands for");
        __CPROVER_assert(b1.len == declen, "reported length = number of bytes the text stands for");
        for (size_t k = 0; k < SMALL_CAP; ++k)
            if (k < declen) __CPROVER_assert(out1[k] == ref_b64_byte(t, k), "decoded bytes are the RFC 4648 value of the text");
    }
    /* direction 2 (the statement's "accepts only well-formed text"): split so that each failure has its own name */
    __CPROVER_assert(r != AWS_OP_SUCCESS || (n % 4 == 0 && cap >= b1.len), "accepted text has length 4k and the result fits the capacity");
    __CPROVER_assert(r != AWS_OP_SUCCESS || wf, "accepts only well-formed canonical text (alphabet, '=' only at the very end, zero trailing bits)");
    /* "never reports more output bytes than it actually wrote": a byte below len that was not written keeps the fill pattern */
    for (size_t k = 0; k < SMALL_CAP; ++k) {
        if (r == AWS_OP_SUCCESS && k < b1.len) __CPROVER_assert(out1[k] == out2[k], "every byte below the reported length was written");
        if (k >= cap) __CPROVER_assert(out1[k] == 0x00, "no byte beyond the capacity changes");
    }
    __CPROVER_assert(r == AWS_OP_SUCCESS || b1.len == len0, "a refused text leaves len alone");
    if (r == AWS_OP_SUCCESS && n == SMALL_TEXT && wf) CANARY("decoded the longest text");
    if (r == AWS_OP_SUCCESS && wf && declen % 3 == 1) CANARY("two pads");
    if (r != AWS_OP_SUCCESS && n % 4 == 0) CANARY("refused a text of length 4k");
}

/* ------------------------------------------------------------------ base64 round trip, inputs of 0..SMALL_IN bytes */
void h_b64_roundtrip_small(void) {
    uint8_t in[SMALL_IN + 1], text[SMALL_CAP], back[SMALL_CAP];
    size_t n = nondet_size_t();
    __CPROVER_assume(n <= SMALL_IN);
    for (size_t k = 0; k < SMALL_IN + 1; ++k) in[k] = nondet_u8();
    record_input(in, n, SMALL_CAP, 0);
    struct aws_byte_cursor c = {.len = n, .ptr = in};
    struct aws_byte_buf tb = {.len = 0, .buffer = text, .capacity = SMALL_CAP, .allocator = NULL};
    int r = aws_base64_encode(&c, &tb);
    __CPROVER_assert(r == AWS_OP_SUCCESS, "encode into a large enough buffer succeeds");
    struct aws_byte_cursor tc = {.len = tb.len, .ptr = text};
    struct aws_byte_buf bb = {.len = 0, .buffer = back, .capacity = SMALL_CAP, .allocator = NULL};
    size_t predicted = 0;
    __CPROVER_assert(aws_base64_compute_decoded_len(&tc, &predicted) == AWS_OP_SUCCESS && predicted == n, "decoded-length prediction of the encoding = input length");
    int r2 = aws_base64_decode(&tc, &bb);
    __CPROVER_assert(r2 == AWS_OP_SUCCESS, "decode accepts what encode produced");
    __CPROVER_assert(bb.len == n, "round trip keeps the length");
    for (size_t k = 0; k < SMALL_IN; ++k)
        if (k < n) __CPROVER_assert(back[k] == in[k], "round trip returns the original bytes");
    if (n == SMALL_IN) CANARY("longest input");
    if (n == 0) CANARY("empty input");
}

/* ------------------------------------------------------------------ hex: texts of 0..5 characters, inputs of 0..3 bytes */
#define HEX_TEXT 5
void h_hex_decode_small(void) {
    uint8_t t[HEX_TEXT + 1], out[4], before[4];
    size_t n = nondet_size_t(), cap = nondet_size_t(), len0 = nondet_size_t();
    __CPROVER_assume(n <= HEX_TEXT && cap <= 4 && len0 <= cap);
    for (size_t k = 0; k < HEX_TEXT + 1; ++k) t[k] = nondet_u8();
    for (size_t k = 0; k < 4; ++k) { out[k] = nondet_u8(); before[k] = out[k]; }
    record_input(t, n, cap, len0);
    struct aws_byte_cursor c = {.len = n, .ptr = t};
    struct aws_byte_buf b = {.len = len0, .buffer = out, .capacity = cap, .allocator = NULL};
    int r = aws_hex_decode(&c, &b);
    size_t declen = (n + 1) / 2;
    int all_hex = 1;
    for (size_t k = 0; k < HEX_TEXT; ++k) if (k < n && !SPEC_IS_HEX(t[k])) all_hex = 0;
    __CPROVER_assert((r == AWS_OP_SUCCESS) == (all_hex && cap >= declen), "hex decode succeeds exactly on hexadecimal text whose decoding fits");
    __CPROVER_assert(b.len == (r == AWS_OP_SUCCESS ? declen : len0), "len is the predicted length, or unchanged");
    if (r == AWS_OP_SUCCESS) {
        for (size_t k = 0; k < 4; ++k) {
            if (k < declen) {
                size_t lo = 2 * k + 1 - (n & 1);
                uint8_t hi = (k == 0 && (n & 1)) ? 0 : SPEC_HEX_VAL(t[lo - 1]);
                __CPROVER_assert(out[k] == (uint8_t)((hi << 4) | SPEC_HEX_VAL(t[lo])), "decoded byte = value of its two digits (odd length: leading 0 implied)");
            } else {
                __CPROVER_assert(out[k] == before[k], "no byte beyond the predicted length changes");
            }
        }
    }
    if (r == AWS_OP_SUCCESS && n == HEX_TEXT) CANARY("odd-length text decoded");
    if (r == AWS_OP_SUCCESS && n == 4) CANARY("even-length text decoded");
    if (r != AWS_OP_SUCCESS) CANARY("refused");
}
void h_hex_roundtrip_small(void) {
    uint8_t in[3], text[8], back[4];
    size_t n = nondet_size_t();
    __CPROVER_assume(n <= 3);
    for (size_t k = 0; k < 3; ++k) in[k] = nondet_u8();
    record_input(in, n, 8, 0);
    struct aws_byte_cursor c = {.len = n, .ptr = in};
    struct aws_byte_buf tb = {.len = 0, .buffer = text, .capacity = 8, .allocator = NULL};
    __CPROVER_assert(aws_hex_encode(&c, &tb) == AWS_OP_SUCCESS && tb.len == 2 * n, "hex encode produces 2n characters");
    for (size_t k = 0; k < 6; ++k)
        if (k < 2 * n) __CPROVER_assert(text[k] == SPEC_HEX_CHAR((k & 1) ? (in[k / 2] & 0x0f) : (in[k / 2] >> 4)), "lowercase hex digits");
    struct aws_byte_cursor tc = {.len = tb.len, .ptr = text};
    struct aws_byte_buf bb = {.len = 0, .buffer = back, .capacity = 4, .allocator = NULL};
    __CPROVER_assert(aws_hex_decode(&tc, &bb) == AWS_OP_SUCCESS && bb.len == n, "hex decode accepts what encode produced and keeps the length");
    for (size_t k = 0; k < 3; ++k)
        if (k < n) __CPROVER_assert(back[k] == in[k], "hex round trip returns the original bytes");
    if (n == 3) CANARY("longest input");
}
