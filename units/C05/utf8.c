/* Proof unit for the UTF-8 validator (C05): the real source/encoding.c, then the contracts (they need the private struct). */
#include "contracts/encoding.h"
#include "source/encoding.c"
#include "source/byte_buf.c" /* bodies of the small cursor helpers, in case the code under proof uses them */
#include "contracts/encoding_utf8.h"
#include "units/C05/plain_stubs.h"

#define UTF8_GHOST_RESET() do { GHOST_RESET_ENC(); g_cp_count = nondet_u32(); g_cp_hash = nondet_u32(); g_cp_last = nondet_u32(); g_fin_count = nondet_u32(); g_fin_ok = nondet_bool(); g_fin_track = false; } while (0)

/* ------------------------------------------------------------------ contracts (unbounded text) */
void h_utf8_update(void) {
    struct aws_utf8_decoder *d; struct aws_byte_cursor bytes;
    UTF8_GHOST_RESET();
    int r = aws_utf8_decoder_update(d, bytes);
    if (r == 0) CANARY("consumed"); else CANARY("invalid");
}
void h_utf8_finalize(void) {
    struct aws_utf8_decoder *d;
    UTF8_GHOST_RESET();
    int r = aws_utf8_decoder_finalize(d);
    if (r == 0) CANARY("complete"); else CANARY("truncated");
}
void h_utf8_reset(void) {
    struct aws_utf8_decoder *d;
    UTF8_GHOST_RESET();
    aws_utf8_decoder_reset(d);
    CANARY("returned");
}
void h_decode_utf8(void) {
    struct aws_byte_cursor bytes; const struct aws_utf8_decoder_options *o;
    UTF8_GHOST_RESET();
    g_fin_track = true;
    int r = aws_decode_utf8(bytes, o);
    if (r == 0) CANARY("valid"); else CANARY("invalid");
}

/* ------------------------------------------------------------------ harness callback for the plain units */
#ifndef UTF8_N
#    define UTF8_N 5
#endif
static uint32_t r_count, r_last;
static uint32_t r_cps[UTF8_N + 1]; /* the code points reported so far, in order */
static int s_record(uint32_t cp, void *ud) {
    (void)ud;
    if (r_count < UTF8_N + 1) r_cps[r_count] = cp;
    r_count++; r_last = cp;
    return AWS_OP_SUCCESS;
}

/* one byte from every reachable state: the real loop body is the RFC 3629 step function (complete: 256 bytes x all states) */
void h_utf8_step(void) {
    struct aws_utf8_decoder d;
    d.alloc = NULL; d.user_data = NULL;
    d.on_codepoint = nondet_bool() ? s_record : NULL;
    d.codepoint = nondet_u32(); d.min = nondet_u32(); d.remaining = nondet_u8();
    __CPROVER_assume(UTF8_STATE_OK(&d));
    struct spec_utf8 s = {d.codepoint, d.min, d.remaining};
    uint8_t b = nondet_u8();
    r_count = 0; r_last = 0;
    int r = aws_utf8_decoder_update(&d, (struct aws_byte_cursor){.len = 1, .ptr = &b});
    int e = spec_utf8_step(&s, b);
    __CPROVER_assert((r == AWS_OP_SUCCESS) == (e >= 0), "update(one byte) accepts exactly when the RFC 3629 step does");
    __CPROVER_assert(r == AWS_OP_SUCCESS || r == AWS_OP_ERR, "result is SUCCESS or ERR");
    if (e >= 0) {
        __CPROVER_assert(d.remaining == s.rem, "bytes still expected = spec");
        __CPROVER_assert(d.remaining == 0 || (d.codepoint == s.cp && d.min == s.min), "partial code point and lower bound = spec");
        __CPROVER_assert(e != 1 || d.codepoint == s.cp, "completed code point = spec");
        __CPROVER_assert(r_count == (uint32_t)(e == 1 && d.on_codepoint != NULL), "callback invoked exactly when a code point is complete");
        __CPROVER_assert(r_count == 0 || r_last == s.cp, "callback sees the completed code point");
        __CPROVER_assert(UTF8_STATE_OK(&d), "state stays in the reachable set");
    } else {
        __CPROVER_assert(r_count == 0, "no callback on an invalid byte");
    }
    if (e == 1) CANARY("code point complete"); else if (e == 0) CANARY("continuation expected"); else CANARY("invalid byte");
}

/* whole text vs. three chunks vs. the spec fold, texts up to UTF8_N bytes, every pair of split points */
struct fold_result { int verdict; int final; uint32_t count; uint32_t cps[UTF8_N + 1]; uint32_t cp, min; uint8_t rem; };
static void run_chunks(struct fold_result *f, const uint8_t *t, size_t n, size_t a, size_t b, uint32_t cp0, uint32_t min0, uint8_t rem0) {
    struct aws_utf8_decoder d = {.alloc = NULL, .codepoint = cp0, .min = min0, .remaining = rem0, .on_codepoint = s_record, .user_data = NULL};
    r_count = 0; r_last = 0;
    for (size_t k = 0; k < UTF8_N + 1; ++k) r_cps[k] = 0;
    f->verdict = aws_utf8_decoder_update(&d, (struct aws_byte_cursor){.len = a, .ptr = (uint8_t *)t});
    if (f->verdict == AWS_OP_SUCCESS) f->verdict = aws_utf8_decoder_update(&d, (struct aws_byte_cursor){.len = b - a, .ptr = (uint8_t *)t + a});
    if (f->verdict == AWS_OP_SUCCESS) f->verdict = aws_utf8_decoder_update(&d, (struct aws_byte_cursor){.len = n - b, .ptr = (uint8_t *)t + b});
    f->count = r_count;
    for (size_t k = 0; k < UTF8_N + 1; ++k) f->cps[k] = r_cps[k];
    f->cp = d.codepoint; f->min = d.min; f->rem = d.remaining;
    f->final = f->verdict == AWS_OP_SUCCESS ? aws_utf8_decoder_finalize(&d) : AWS_OP_ERR;
}
void h_utf8_chunking(void) {
    uint8_t t[UTF8_N];
    for (size_t k = 0; k < UTF8_N; ++k) t[k] = nondet_u8();
    size_t n = nondet_size_t(), a = nondet_size_t(), b = nondet_size_t();
    __CPROVER_assume(n <= UTF8_N && a <= b && b <= n);
    struct aws_utf8_decoder st; st.codepoint = nondet_u32(); st.min = nondet_u32(); st.remaining = nondet_u8();
    __CPROVER_assume(UTF8_STATE_OK(&st));
    struct fold_result whole, split;
    run_chunks(&whole, t, n, n, n, st.codepoint, st.min, st.remaining);
    run_chunks(&split, t, n, a, b, st.codepoint, st.min, st.remaining);
    /* the spec fold */
    struct spec_utf8 s = {st.codepoint, st.min, st.remaining};
    int ok = 1; uint32_t cnt = 0; uint32_t cps[UTF8_N + 1];
    for (size_t k = 0; k < UTF8_N + 1; ++k) cps[k] = 0;
    for (size_t k = 0; k < UTF8_N; ++k) {
        if (k < n && ok) {
            int e = spec_utf8_step(&s, t[k]);
            if (e < 0) ok = 0;
            if (e == 1) { cps[cnt] = s.cp; cnt++; }
        }
    }
    __CPROVER_assert(whole.verdict == split.verdict, "verdict of update does not depend on the split");
    __CPROVER_assert(whole.final == split.final, "verdict after finalize does not depend on the split");
    __CPROVER_assert(whole.count == split.count, "number of reported code points does not depend on the split");
    for (size_t k = 0; k < UTF8_N + 1; ++k) __CPROVER_assert(whole.cps[k] == split.cps[k], "reported code points do not depend on the split");
    __CPROVER_assert(whole.verdict != AWS_OP_SUCCESS || (whole.rem == split.rem && (whole.rem == 0 || (whole.cp == split.cp && whole.min == split.min))), "decoder state does not depend on the split");
    __CPROVER_assert((whole.verdict == AWS_OP_SUCCESS) == (ok == 1), "verdict = RFC 3629 fold");
    __CPROVER_assert(!ok || whole.count == cnt, "number of code points = RFC 3629 fold");
    for (size_t k = 0; k < UTF8_N + 1; ++k) __CPROVER_assert(!ok || whole.cps[k] == cps[k], "code points = RFC 3629 fold");
    __CPROVER_assert(!ok || (whole.final == AWS_OP_SUCCESS) == (s.rem == 0), "finalize accepts exactly complete texts");
    if (ok && n == UTF8_N && cnt >= 2 && a > 0 && b > a && b < n) CANARY("valid text, three non-empty chunks");
    if (!ok) CANARY("invalid text");
}

/* one-shot form vs. the incremental decoder on the same text (texts up to UTF8_N bytes, every byte value): same verdict, same
 * number of reported code points, same code points - i.e. the one-shot entry point has no private shortcut around the
 * state machine or the callback */
void h_utf8_oneshot(void) {
    uint8_t t[UTF8_N];
    for (size_t k = 0; k < UTF8_N; ++k) t[k] = nondet_u8();
    size_t n = nondet_size_t();
    __CPROVER_assume(n <= UTF8_N);
    struct fold_result inc;
    run_chunks(&inc, t, n, n, n, 0, 0, 0);
    struct aws_utf8_decoder_options opt = {.on_codepoint = s_record, .user_data = NULL};
    r_count = 0; r_last = 0;
    for (size_t k = 0; k < UTF8_N + 1; ++k) r_cps[k] = 0;
    int one = aws_decode_utf8((struct aws_byte_cursor){.len = n, .ptr = t}, &opt);
    __CPROVER_assert((one == AWS_OP_SUCCESS) == (inc.verdict == AWS_OP_SUCCESS && inc.final == AWS_OP_SUCCESS), "one-shot verdict = update on the whole text followed by finalize");
    if (one == AWS_OP_SUCCESS) {
        __CPROVER_assert(r_count == inc.count, "one-shot form reports as many code points as the incremental decoder");
        for (size_t k = 0; k < UTF8_N + 1; ++k) __CPROVER_assert(r_cps[k] == inc.cps[k], "one-shot form reports the same code points");
        if (n == UTF8_N && r_count == UTF8_N) CANARY("all-ASCII text of full length");
        if (r_count < n) CANARY("text with a multi-byte code point");
    } else CANARY("invalid text");
}
