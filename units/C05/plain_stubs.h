/* Bodies for the two external functions that the plain-harness (non-DFCC) units of C05 would otherwise call without a
 * body.  Compiled only when a unit asks for them (-DVERIF_PLAIN_STUBS); the DFCC units replace both functions by their
 * contracts instead.
 *   aws_raise_error_private : records the error in the ghost error slot (same effect as its contract in common.h)
 *   aws_common_private_has_avx2 : ASSUMPTION "no AVX2" of the portable-path units (cpuid.c is not examined) */
#ifdef VERIF_PLAIN_STUBS
void aws_raise_error_private(int err) {
    g_last_error = err;
    g_raise_count++;
}
bool aws_common_private_has_avx2(void) {
    return false;
}
#endif
