/* Proof unit for C05: contracts + the real source/encoding.c + one harness per function under contract. */
#include "contracts/encoding.h"
#include "source/encoding.c"

#define GHOSTS() GHOSTS_ENC()

/* ------------------------------------------------------------------ length prediction */
void h_hex_encoded_len(void) {
    GHOST_RESET_ENC();
    size_t n; size_t *out;
    int r = aws_hex_compute_encoded_len(n, out);
    if (r == 0) CANARY("fits"); else CANARY("overflow");
}
void h_hex_decoded_len(void) {
    GHOST_RESET_ENC();
    size_t n; size_t *out;
    int r = aws_hex_compute_decoded_len(n, out);
    if (r == 0) { if (n & 1) CANARY("odd"); else CANARY("even"); } else CANARY("overflow");
}
void h_b64_encoded_len(void) {
    GHOST_RESET_ENC();
    size_t n; size_t *out;
    int r = aws_base64_compute_encoded_len(n, out);
    if (r == 0) CANARY("fits"); else CANARY("overflow");
}
void h_b64_decoded_len(void) {
    GHOST_RESET_ENC();
    const struct aws_byte_cursor *c; size_t *out;
    int r = aws_base64_compute_decoded_len(c, out);
    /* the parameters live in objects created by the requires clauses, the harness cannot look at them */
    if (r == 0) CANARY("length accepted"); else CANARY("length not a multiple of 4");
}

/* ------------------------------------------------------------------ per-character decoders */
void h_hex_char(void) {
    GHOST_RESET_ENC();
    char c; uint8_t *v;
    int r = s_hex_decode_char_to_int(c, v);
    if (r == 0) CANARY("digit"); else CANARY("rejected");
}
void h_b64_char(void) {
    GHOST_RESET_ENC();
    unsigned char c; uint8_t *v; int8_t allow;
    int r = s_base64_get_decoded_value(c, v, allow);
    if (r == 0) { if (c == '=') CANARY("padding accepted"); else CANARY("alphabet"); } else if (c == '=') CANARY("padding rejected"); else CANARY("rejected");
}

/* ------------------------------------------------------------------ the encoding tables against the RFC 4648 alphabets (all values) */
uint8_t r_c; /* replay variable: the character under test */
void h_tables(void) {
    GHOST_RESET_ENC();
    uint8_t v = nondet_u8();
    uint8_t c = nondet_u8();
    r_c = c;
    __CPROVER_assert(sizeof(BASE64_ENCODING_TABLE) == 65, "base64 encoding table has 64 entries (+NUL)");
    if (v < 64) {
        __CPROVER_assert(BASE64_ENCODING_TABLE[v] == SPEC_B64_CHAR(v), "base64 encoding table is the RFC 4648 standard alphabet");
        __CPROVER_assert(BASE64_DECODING_TABLE[BASE64_ENCODING_TABLE[v]] == v, "base64 decoding table inverts the encoding table");
    }
    if (v < 16) {
        __CPROVER_assert(HEX_CHARS[v] == SPEC_HEX_CHAR(v), "hex digits are 0-9a-f (lowercase)");
    }
    __CPROVER_assert(B64_IS_ALPHA(c) ==> BASE64_DECODING_TABLE[c] == SPEC_B64_VAL(c), "base64 decoding table: alphabet characters have their RFC 4648 value");
    __CPROVER_assert(c == '=' ==> BASE64_DECODING_TABLE[c] == BASE64_SENTINEL_VALUE, "base64 decoding table: '=' is the padding sentinel");
    __CPROVER_assert(!B64_IS_ALPHA(c) && c != '=' ==> BASE64_DECODING_TABLE[c] == 0xDD, "base64 decoding table: every other byte is marked invalid");
    if (B64_IS_ALPHA(c)) CANARY("alphabet char"); else CANARY("other char");
}

/* ------------------------------------------------------------------ encoders */
void h_hex_encode(void) {
    const struct aws_byte_cursor *in; struct aws_byte_buf *out;
    GHOSTS();
    int r = aws_hex_encode(in, out);
    if (r == 0) CANARY("encoded"); else CANARY("refused");
}
void h_b64_encode(void) {
    const struct aws_byte_cursor *in; struct aws_byte_buf *out;
    GHOSTS();
    int r = aws_base64_encode(in, out);
    if (r == 0) CANARY("encoded"); else CANARY("refused");
}

/* ------------------------------------------------------------------ decoders */
void h_hex_decode(void) {
    const struct aws_byte_cursor *in; struct aws_byte_buf *out;
    GHOSTS();
    int r = aws_hex_decode(in, out);
    if (r == 0) CANARY("decoded"); else CANARY("refused");
}
void h_b64_decode(void) {
    const struct aws_byte_cursor *in; struct aws_byte_buf *out;
    GHOSTS();
    int r = aws_base64_decode(in, out);
    if (r == 0) CANARY("decoded"); else CANARY("refused");
}

/* ------------------------------------------------------------------ hex encode, appending with growth */
void h_hex_encode_append_dynamic(void) {
    const struct aws_byte_cursor *in; struct aws_byte_buf *out;
    GHOSTS();
    int r = aws_hex_encode_append_dynamic(in, out);
    if (r == 0) CANARY("appended"); else CANARY("refused");
}

/* ------------------------------------------------------------------ composition of the two base64 contracts, one quantum
 * (loop-free, all inputs): if the four characters of quantum q are what the ENCODE contract promises for an n-byte
 * input, then the DECODE contract's acceptance conditions hold for them and its byte formula returns the input bytes,
 * and the predicted lengths agree.  No library code involved: this checks that the two specifications are inverse. */
void h_quantum_lemma(void) {
    GHOST_RESET_ENC();
    size_t q = nondet_size_t(), n = nondet_size_t(), quanta = nondet_size_t();
    __CPROVER_assume(quanta >= 1 && quanta <= ((size_t)1 << 60) && q < quanta);
    /* n bytes need exactly `quanta` quanta */
    __CPROVER_assume(n <= 3 * quanta && n + 3 > 3 * quanta);
    size_t text_len = 4 * quanta;
    g_blk = q;
    g_b0 = nondet_u8(); g_b1 = nondet_u8(); g_b2 = nondet_u8();
    uint8_t c0 = nondet_u8(), c1 = nondet_u8(), c2 = nondet_u8(), c3 = nondet_u8();
    __CPROVER_assume(B64_CHAR_IS_CANON(c0, n, 0) && B64_CHAR_IS_CANON(c1, n, 1) && B64_CHAR_IS_CANON(c2, n, 2) && B64_CHAR_IS_CANON(c3, n, 3));
    g_c0 = c0; g_c1 = c1; g_c2 = c2; g_c3 = c3;
    __CPROVER_assert(B64_QUANTUM_WF(text_len), "canonical characters form a well-formed quantum");
    __CPROVER_assert(B64_TRAILING_BITS_ZERO(text_len), "canonical characters have zero trailing bits");
    __CPROVER_assert(B64_DEC_BYTE(0) == g_b0, "byte 0 of the quantum comes back");
    __CPROVER_assert(3 * q + 1 >= n || B64_DEC_BYTE(1) == g_b1, "byte 1 of the quantum comes back");
    __CPROVER_assert(3 * q + 2 >= n || B64_DEC_BYTE(2) == g_b2, "byte 2 of the quantum comes back");
    if (q + 1 == quanta) {
        size_t pad = (size_t)(c3 == '=') + (size_t)(c3 == '=' && c2 == '=');
        __CPROVER_assert(3 * quanta - pad == n, "predicted decoded length of the encoding is the input length");
        if (pad == 2) CANARY("final quantum with one byte"); else if (pad == 1) CANARY("final quantum with two bytes"); else CANARY("final quantum full");
    } else {
        __CPROVER_assert(c2 != '=' && c3 != '=', "no padding before the final quantum");
        CANARY("inner quantum");
    }
}
