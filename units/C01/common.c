/* Proof unit for C01: the real aws_secure_zero of source/common.c against its contract in contracts/allocator.h
 * (every byte of the block is zero afterwards; nothing else is written).  Built with -DVERIF_ALLOC_ENFORCE. */
#include "contracts/allocator.h"
#include "source/common.c"

void h_aws_secure_zero(void) { void *p; size_t n; GHOST_RESET_COMMON(); GHOST_RESET_ALLOC(); g_rz = nondet_size_t();
    aws_secure_zero(p, n);
    if (p && n) CANARY("zeroed"); else CANARY("nothing to do");
}
