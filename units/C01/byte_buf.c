/* Proof unit for C01: contracts + the real source/byte_buf.c + one harness per function under contract.
 * The harness only declares the parameters (DFCC allocates them according to the requires clauses),
 * switches the ghost witnesses on with arbitrary values, calls the function and plants canaries. */
#include "contracts/byte_buf.h"
#include "source/byte_buf.c"

#define GHOSTS() do { g_on = true; g_k = nondet_size_t(); g_old = nondet_u8(); g_j = nondet_size_t(); g_src = nondet_u8(); } while (0)

void h_append(void) {
    struct aws_byte_buf *to; const struct aws_byte_cursor *from;
    GHOSTS();
    int r = aws_byte_buf_append(to, from);
    if (r == 0) CANARY("append ok"); else CANARY("append refused");
}
void h_append_with_lookup(void) {
    struct aws_byte_buf *to; const struct aws_byte_cursor *from; const uint8_t *t;
    GHOSTS();
    int r = aws_byte_buf_append_with_lookup(to, from, t);
    if (r == 0) CANARY("lookup ok"); else CANARY("lookup refused");
}
void h_write(void) {
    struct aws_byte_buf *buf; const uint8_t *src; size_t len;
    GHOSTS();
    bool r = aws_byte_buf_write(buf, src, len);
    if (r) CANARY("write ok"); else CANARY("write refused");
}
void h_write_u8(void) {
    struct aws_byte_buf *buf; uint8_t c;
    GHOSTS();
    bool r = aws_byte_buf_write_u8(buf, c);
    if (r) CANARY("ok"); else CANARY("refused");
}
void h_write_u8_n(void) {
    struct aws_byte_buf *buf; uint8_t c; size_t n;
    GHOSTS();
    bool r = aws_byte_buf_write_u8_n(buf, c, n);
    if (r) CANARY("ok"); else CANARY("refused");
}
#define H_WRITE_X(name, T) void h_##name(void) { struct aws_byte_buf *buf; T x; GHOSTS(); bool r = aws_byte_buf_##name(buf, x); if (r) CANARY("ok"); else CANARY("refused"); }
H_WRITE_X(write_be16, uint16_t)
H_WRITE_X(write_be24, uint32_t)
H_WRITE_X(write_be32, uint32_t)
H_WRITE_X(write_be64, uint64_t)
H_WRITE_X(write_float_be32, float)
H_WRITE_X(write_float_be64, double)
H_WRITE_X(write_from_whole_cursor, struct aws_byte_cursor)
H_WRITE_X(write_from_whole_buffer, struct aws_byte_buf)

void h_advance(void) {
    struct aws_byte_cursor *cursor; size_t len;
    struct aws_byte_cursor r = aws_byte_cursor_advance(cursor, len);
    if (r.len > 0) CANARY("advanced"); else if (len > 0) CANARY("refused"); 
}
void h_advance_nospec(void) {
    struct aws_byte_cursor *cursor; size_t len;
    struct aws_byte_cursor r = aws_byte_cursor_advance_nospec(cursor, len);
    if (r.len > 0) CANARY("advanced"); else if (len > 0) CANARY("refused"); 
}
void h_nospec_mask(void) {
    size_t i, b;
    size_t m = aws_nospec_mask(i, b);
    if (m) CANARY("in range"); else CANARY("out of range");
}
void h_read(void) {
    struct aws_byte_cursor *cur; void *dest; size_t len;
    GHOSTS();
    bool r = aws_byte_cursor_read(cur, dest, len);
    if (r && len > 0) CANARY("read ok"); else if (!r) CANARY("short read");
}
#define H_READ_X(name, T) void h_##name(void) { struct aws_byte_cursor *cur; T *var; GHOSTS(); bool r = aws_byte_cursor_##name(cur, var); if (r) CANARY("ok"); else CANARY("short"); }
H_READ_X(read_u8, uint8_t)
H_READ_X(read_be16, uint16_t)
H_READ_X(read_be24, uint32_t)
H_READ_X(read_be32, uint32_t)
H_READ_X(read_be64, uint64_t)
H_READ_X(read_float_be32, float)
H_READ_X(read_float_be64, double)

/* concrete corner excluded from the write_u8_n contract: empty buffer without storage, count 0 */
void h_write_u8_n_empty(void) {
    struct aws_byte_buf b = {0};
    uint8_t c = nondet_u8();
    bool r = aws_byte_buf_write_u8_n(&b, c, 0);
    __CPROVER_assert(r && b.len == 0 && b.capacity == 0 && b.buffer == NULL, "write_u8_n(empty, c, 0) succeeds and changes nothing");
    CANARY("reached");
}
