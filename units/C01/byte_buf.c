/* Proof unit for C01: contracts + the real source/byte_buf.c + one harness per function under contract.
 * The harness only declares the parameters (DFCC allocates them according to the requires clauses),
 * switches the ghost witnesses on with arbitrary values, calls the function and plants canaries. */
#include "contracts/byte_buf.h"
#include "source/byte_buf.c"

#define GHOSTS() do { GHOST_RESET(); g_on = true; g_k = nondet_size_t(); g_old = nondet_u8(); g_j = nondet_size_t(); g_src = nondet_u8(); } while (0)

void h_append(void) {
    struct aws_byte_buf *to; const struct aws_byte_cursor *from;
    GHOSTS();
    int r = aws_byte_buf_append(to, from);
    if (r == 0) CANARY("append ok"); else CANARY("append refused");
}
void h_append_with_lookup(void) {
    struct aws_byte_buf *to; const struct aws_byte_cursor *from; const uint8_t *t;
    GHOSTS();
    int r = aws_byte_buf_append_with_lookup(to, from, t);
    if (r == 0) CANARY("lookup ok"); else CANARY("lookup refused");
}
void h_write(void) {
    struct aws_byte_buf *buf; const uint8_t *src; size_t len;
    GHOSTS();
    bool r = aws_byte_buf_write(buf, src, len);
    if (r) CANARY("write ok"); else CANARY("write refused");
}
void h_write_u8(void) {
    struct aws_byte_buf *buf; uint8_t c;
    GHOSTS();
    bool r = aws_byte_buf_write_u8(buf, c);
    if (r) CANARY("ok"); else CANARY("refused");
}
void h_write_u8_n(void) {
    struct aws_byte_buf *buf; uint8_t c; size_t n;
    GHOSTS();
    bool r = aws_byte_buf_write_u8_n(buf, c, n);
    if (r) CANARY("ok"); else CANARY("refused");
}
#define H_WRITE_X(name, T) void h_##name(void) { struct aws_byte_buf *buf; T x; GHOSTS(); bool r = aws_byte_buf_##name(buf, x); if (r) CANARY("ok"); else CANARY("refused"); }
H_WRITE_X(write_be16, uint16_t)
H_WRITE_X(write_be24, uint32_t)
H_WRITE_X(write_be32, uint32_t)
H_WRITE_X(write_be64, uint64_t)
H_WRITE_X(write_float_be32, float)
H_WRITE_X(write_float_be64, double)
H_WRITE_X(write_from_whole_cursor, struct aws_byte_cursor)
H_WRITE_X(write_from_whole_buffer, struct aws_byte_buf)

void h_advance(void) { GHOST_RESET();
    struct aws_byte_cursor *cursor; size_t len;
    struct aws_byte_cursor r = aws_byte_cursor_advance(cursor, len);
    if (r.len > 0) CANARY("advanced"); else if (len > 0) CANARY("refused"); 
}
void h_advance_nospec(void) { GHOST_RESET();
    struct aws_byte_cursor *cursor; size_t len;
    struct aws_byte_cursor r = aws_byte_cursor_advance_nospec(cursor, len);
    if (r.len > 0) CANARY("advanced"); else if (len > 0) CANARY("refused"); 
}
void h_nospec_mask(void) { GHOST_RESET();
    size_t i, b;
    size_t m = aws_nospec_mask(i, b);
    if (m) CANARY("in range"); else CANARY("out of range");
}
void h_read(void) {
    struct aws_byte_cursor *cur; void *dest; size_t len;
    GHOSTS();
    bool r = aws_byte_cursor_read(cur, dest, len);
    if (r && len > 0) CANARY("read ok"); else if (!r) CANARY("short read");
}
#define H_READ_X(name, T) void h_##name(void) { struct aws_byte_cursor *cur; T *var; GHOSTS(); bool r = aws_byte_cursor_##name(cur, var); if (r) CANARY("ok"); else CANARY("short"); }
H_READ_X(read_u8, uint8_t)
H_READ_X(read_be16, uint16_t)
H_READ_X(read_be24, uint32_t)
H_READ_X(read_be32, uint32_t)
H_READ_X(read_be64, uint64_t)
H_READ_X(read_float_be32, float)
H_READ_X(read_float_be64, double)

/* concrete corner excluded from the write_u8_n contract: empty buffer without storage, count 0 */
void h_write_u8_n_empty(void) { GHOST_RESET();
    struct aws_byte_buf b = {0};
    uint8_t c = nondet_u8();
    bool r = aws_byte_buf_write_u8_n(&b, c, 0);
    __CPROVER_assert(r && b.len == 0 && b.capacity == 0 && b.buffer == NULL, "write_u8_n(empty, c, 0) succeeds and changes nothing");
    CANARY("reached");
}

/* ---------------- init / clean-up / growing operations ---------------- */
void h_init(void) { GHOST_RESET();
    struct aws_byte_buf *buf; struct aws_allocator *a; size_t cap;
    int r = aws_byte_buf_init(buf, a, cap);
    if (cap == 0) CANARY("zero capacity"); else CANARY("allocated");
}
void h_init_copy(void) {
    struct aws_byte_buf *dest; struct aws_allocator *a; const struct aws_byte_buf *src;
    GHOSTS();
    int r = aws_byte_buf_init_copy(dest, a, src);
    CANARY("returned");
}
void h_init_copy_from_cursor(void) {
    struct aws_byte_buf *dest; struct aws_allocator *a; struct aws_byte_cursor src;
    GHOSTS();
    int r = aws_byte_buf_init_copy_from_cursor(dest, a, src);
    CANARY("returned");
}
void h_secure_zero(void) { GHOST_RESET();
    struct aws_byte_buf *buf; g_rz = nondet_size_t();
    aws_byte_buf_secure_zero(buf);
    CANARY("returned");
}
void h_reset(void) {
    struct aws_byte_buf *buf; bool z; GHOSTS(); g_rz = nondet_size_t();
    aws_byte_buf_reset(buf, z);
    if (z) CANARY("zeroing reset"); else CANARY("plain reset");
}
void h_clean_up(void) { GHOST_RESET();
    struct aws_byte_buf *buf;
    aws_byte_buf_clean_up(buf);
    CANARY("cleaned");
}
void h_clean_up_secure(void) { GHOST_RESET();
    struct aws_byte_buf *buf; g_zero_on = true; g_rz = nondet_size_t(); g_rsize = nondet_size_t();
    aws_byte_buf_clean_up_secure(buf);
    CANARY("cleaned");
}
void h_s_append_dynamic(void) {
    struct aws_byte_buf *to; const struct aws_byte_cursor *from; bool clear;
    GHOSTS(); g_zero_on = clear; g_rz = nondet_size_t(); g_rsize = nondet_size_t(); g_aoff = nondet_size_t();
    int r = s_aws_byte_buf_append_dynamic(to, from, clear);
    
#ifdef VERIF_APPEND_DYNAMIC_HUGE
    if (r != 0) CANARY("overflow refused");
#else
    if (r == 0 && clear) CANARY("appended secure"); else if (r == 0) CANARY("appended");
#endif

}
void h_append_dynamic(void) {
    struct aws_byte_buf *to; const struct aws_byte_cursor *from;
    GHOSTS(); g_expect_secure_on = true; g_expect_secure = false;
    int r = aws_byte_buf_append_dynamic(to, from);
#ifdef VERIF_APPEND_DYNAMIC_HUGE
    if (r != 0) CANARY("refused");
#else
    if (r == 0) CANARY("appended");
#endif
}
void h_append_dynamic_secure(void) {
    struct aws_byte_buf *to; const struct aws_byte_cursor *from;
    GHOSTS(); g_expect_secure_on = true; g_expect_secure = true;
    int r = aws_byte_buf_append_dynamic_secure(to, from);
#ifdef VERIF_APPEND_DYNAMIC_HUGE
    if (r != 0) CANARY("refused");
#else
    if (r == 0) CANARY("appended");
#endif
}
void h_s_append_byte_dynamic(void) {
    struct aws_byte_buf *b; uint8_t v; bool clear;
    GHOSTS(); g_expect_secure_on = true; g_expect_secure = clear;
    int r = s_aws_byte_buf_append_byte_dynamic(b, v, clear);
    if (r == 0) CANARY("appended"); /* refusal needs len == SIZE_MAX: unreachable with backed storage */
}
void h_append_byte_dynamic(void) {
    struct aws_byte_buf *b; uint8_t v;
    GHOSTS(); g_expect_secure_on = true; g_expect_secure = false;
    int r = aws_byte_buf_append_byte_dynamic(b, v);
    if (r == 0) CANARY("appended"); /* refusal needs len == SIZE_MAX: unreachable with backed storage */
}
void h_append_byte_dynamic_secure(void) {
    struct aws_byte_buf *b; uint8_t v;
    GHOSTS(); g_expect_secure_on = true; g_expect_secure = true;
    int r = aws_byte_buf_append_byte_dynamic_secure(b, v);
    if (r == 0) CANARY("appended"); /* refusal needs len == SIZE_MAX: unreachable with backed storage */
}
#define H_RESERVE(name) void h_##name(void) { struct aws_byte_buf *b; size_t n; GHOSTS(); size_t c0; int r = aws_byte_buf_##name(b, n); if (r != 0) CANARY("refused"); else CANARY("ok"); }
void h_reserve(void) { struct aws_byte_buf *b; size_t n; GHOSTS(); int r = aws_byte_buf_reserve(b, n); CANARY("returned"); }
void h_reserve_smart(void) { struct aws_byte_buf *b; size_t n; GHOSTS(); int r = aws_byte_buf_reserve_smart(b, n); CANARY("returned"); }
H_RESERVE(reserve_relative)
H_RESERVE(reserve_smart_relative)
void h_buf_advance(void) {
    struct aws_byte_buf *b; struct aws_byte_buf *out; size_t n;
    bool r = aws_byte_buf_advance(b, out, n);
    if (r) CANARY("advanced"); else CANARY("refused");
}
void h_append_and_update(void) {
    struct aws_byte_buf *to; struct aws_byte_cursor *from; GHOSTS();
    int r = aws_byte_buf_append_and_update(to, from);
    if (r == 0) CANARY("ok"); else CANARY("refused");
}

/* ================================================================== second batch */
#define GHOSTS_STR() do { GHOSTS(); g_slen = nondet_size_t(); g_sw = nondet_size_t(); } while (0)

void h_from_array(void) { GHOST_RESET();
    const void *bytes; size_t len;
    struct aws_byte_buf b = aws_byte_buf_from_array(bytes, len);
    if (b.buffer) CANARY("non-empty"); else CANARY("empty");
}
void h_from_empty_array(void) { GHOST_RESET();
    const void *bytes; size_t cap;
    struct aws_byte_buf b = aws_byte_buf_from_empty_array(bytes, cap);
    if (b.buffer) CANARY("non-empty"); else CANARY("empty");
}
void h_from_c_str(void) { GHOSTS_STR();
    const char *s;
    struct aws_byte_buf b = aws_byte_buf_from_c_str(s);
    if (b.buffer) CANARY("non-empty"); else if (s) CANARY("empty string"); else CANARY("null");
}
void h_cursor_from_buf(void) { GHOST_RESET();
    const struct aws_byte_buf *b;
    struct aws_byte_cursor c = aws_byte_cursor_from_buf(b);
    if (c.len) CANARY("non-empty"); else CANARY("empty");
}
void h_cursor_from_c_str(void) { GHOSTS_STR();
    const char *s;
    struct aws_byte_cursor c = aws_byte_cursor_from_c_str(s);
    if (c.len) CANARY("non-empty"); else if (s) CANARY("empty string"); else CANARY("null");
}
void h_cursor_from_array(void) { GHOST_RESET();
    const void *bytes; size_t len;
    struct aws_byte_cursor c = aws_byte_cursor_from_array(bytes, len);
    if (c.len) CANARY("non-empty"); else CANARY("empty");
}
void h_read_and_fill_buffer(void) {
    struct aws_byte_cursor *cur; struct aws_byte_buf *dest;
    GHOSTS();
    bool r = aws_byte_cursor_read_and_fill_buffer(cur, dest);
    if (r) CANARY("filled"); else CANARY("short read");
}
void h_read_hex_u8(void) { GHOST_RESET();
    struct aws_byte_cursor *cur; uint8_t *var;
    bool r = aws_byte_cursor_read_hex_u8(cur, var);
    if (r) CANARY("ok"); else CANARY("refused");
}
void h_write_to_capacity(void) {
    struct aws_byte_buf *buf; struct aws_byte_cursor *cur;
    GHOSTS();
    struct aws_byte_cursor r = aws_byte_buf_write_to_capacity(buf, cur);
    if (r.len) CANARY("wrote"); else CANARY("wrote nothing");
}
/* the two lookup tables against their specification, all 256 values */
void h_table_tolower(void) { GHOST_RESET();
    uint8_t c = nondet_u8();
    __CPROVER_assert(aws_lookup_table_to_lower_get()[c] == SPEC_LOWER_F(c), "s_tolower_table[c] == SPEC_LOWER_F(c)");
    __CPROVER_assert(SPEC_LOWER(c) == SPEC_LOWER_F(c), "specification table == formula");
    __CPROVER_assert(aws_lookup_table_to_lower_get()[c] == ((c >= 65 && c <= 90) ? c + 32 : c), "s_tolower_table[c]: ASCII upper case letters +32, everything else unchanged");
    CANARY("reached");
}
void h_table_hex_to_num(void) { GHOST_RESET();
    uint8_t c = nondet_u8();
    uint8_t v = aws_lookup_table_hex_to_num_get()[c];
    __CPROVER_assert(v == SPEC_HEXVAL_F(c), "s_hex_to_num_table[c] == SPEC_HEXVAL_F(c)");
    __CPROVER_assert(SPEC_HEXVAL(c) == SPEC_HEXVAL_F(c), "specification table == formula");
    __CPROVER_assert((v == 255) == !SPEC_ISHEX(c), "255 exactly for non-hex characters");
    __CPROVER_assert((c >= 48 && c <= 57 ? v == c - 48 : 1) && (c >= 97 && c <= 102 ? v == c - 87 : 1) && (c >= 65 && c <= 70 ? v == c - 55 : 1), "digit values");
    CANARY("reached");
}

/* ---------------- trimming with a user predicate ---------------- */
void *keep_byte_pred_contract = (void *)byte_pred_contract;
#define H_TRIM(name) void h_##name(void) { const struct aws_byte_cursor *src; aws_byte_predicate_fn *pred; GHOSTS(); \
    struct aws_byte_cursor r = aws_byte_cursor_##name(src, pred); \
    if (r.len == 0) CANARY("everything trimmed"); else CANARY("something left"); }
H_TRIM(right_trim_pred)
H_TRIM(left_trim_pred)
H_TRIM(trim_pred)
void h_satisfies_pred(void) { const struct aws_byte_cursor *src; aws_byte_predicate_fn *pred; GHOSTS();
    bool r = aws_byte_cursor_satisfies_pred(src, pred);
    if (r) CANARY("all satisfy"); else CANARY("not all");
}

/* ---------------- equality / comparison ---------------- */
#define GHOSTS_CMP() do { GHOSTS_STR(); g_mm = nondet_size_t(); } while (0)
#define CAN_BOOL(r) do { if (r) CANARY("true"); else CANARY("false"); } while (0)
void h_array_eq(void) { const void *a; size_t la; const void *b; size_t lb; GHOSTS_CMP(); bool r = aws_array_eq(a, la, b, lb); if (r && la > 0) CANARY("equal, non-empty"); else if (r) CANARY("equal, empty"); else if (la == lb) CANARY("differ"); else CANARY("lengths differ"); }
void h_array_eq_ignore_case(void) { const void *a; size_t la; const void *b; size_t lb; GHOSTS_CMP(); bool r = aws_array_eq_ignore_case(a, la, b, lb); if (r && la > 0) CANARY("equal, non-empty"); else if (r) CANARY("equal, empty"); else if (la == lb) CANARY("differ"); else CANARY("lengths differ"); }
void h_array_eq_c_str(void) { const void *a; size_t la; const char *s; GHOSTS_CMP(); bool r = aws_array_eq_c_str(a, la, s); if (r && la > 0) CANARY("equal, non-empty"); else if (r) CANARY("equal, empty"); else CANARY("differ"); }
void h_array_eq_c_str_ignore_case(void) { const void *a; size_t la; const char *s; GHOSTS_CMP(); bool r = aws_array_eq_c_str_ignore_case(a, la, s); if (r && la > 0) CANARY("equal, non-empty"); else if (r) CANARY("equal, empty"); else CANARY("differ"); }
#define H_EQ2(name, TA, TB) void h_##name(void) { const TA *a; const TB *b; GHOSTS_CMP(); bool r = aws_##name(a, b); CAN_BOOL(r); }
H_EQ2(byte_cursor_eq, struct aws_byte_cursor, struct aws_byte_cursor)
H_EQ2(byte_cursor_eq_ignore_case, struct aws_byte_cursor, struct aws_byte_cursor)
H_EQ2(byte_buf_eq, struct aws_byte_buf, struct aws_byte_buf)
H_EQ2(byte_buf_eq_ignore_case, struct aws_byte_buf, struct aws_byte_buf)
H_EQ2(byte_buf_eq_c_str, struct aws_byte_buf, char)
H_EQ2(byte_buf_eq_c_str_ignore_case, struct aws_byte_buf, char)
H_EQ2(byte_cursor_eq_byte_buf, struct aws_byte_cursor, struct aws_byte_buf)
H_EQ2(byte_cursor_eq_byte_buf_ignore_case, struct aws_byte_cursor, struct aws_byte_buf)
H_EQ2(byte_cursor_eq_c_str, struct aws_byte_cursor, char)
H_EQ2(byte_cursor_eq_c_str_ignore_case, struct aws_byte_cursor, char)
H_EQ2(byte_cursor_starts_with, struct aws_byte_cursor, struct aws_byte_cursor)
H_EQ2(byte_cursor_starts_with_ignore_case, struct aws_byte_cursor, struct aws_byte_cursor)
void h_compare_lexical(void) { const struct aws_byte_cursor *l, *r; GHOSTS_CMP(); int c = aws_byte_cursor_compare_lexical(l, r); if (c < 0) CANARY("less"); else if (c > 0) CANARY("greater"); else CANARY("equal"); }
void h_compare_lookup(void) { const struct aws_byte_cursor *l, *r; const uint8_t *t; GHOSTS_CMP(); int c = aws_byte_cursor_compare_lookup(l, r, t); if (c < 0) CANARY("less"); else if (c > 0) CANARY("greater"); else CANARY("equal"); }
void h_hash_array_ignore_case(void) { const void *a; size_t n; GHOST_RESET(); uint64_t h = aws_hash_array_ignore_case(a, n); if (n) CANARY("hashed"); else CANARY("empty"); }
void h_hash_byte_cursor_ptr_ignore_case(void) { const void *c; GHOST_RESET(); uint64_t h = aws_hash_byte_cursor_ptr_ignore_case(c); CANARY("returned"); }

/* ---------------- splitting / searching ---------------- */
void h_next_split(void) { const struct aws_byte_cursor *in; char c; struct aws_byte_cursor *sub; GHOSTS_CMP();
    bool r = aws_byte_cursor_next_split(in, c, sub);
#if defined(VERIF_NEXT_SPLIT_END)
    if (!r) CANARY("done");
#else
    if (r) CANARY("piece"); else CANARY("done (input without storage)");
#endif
}
void h_split_on_char_n(void) { const struct aws_byte_cursor *in; char c; size_t n; struct aws_array_list *out; GHOSTS_CMP();
    int r = aws_byte_cursor_split_on_char_n(in, c, n, out);
    if (r == 0) CANARY("split"); else CANARY("list full");
}
void h_split_on_char(void) { const struct aws_byte_cursor *in; char c; struct aws_array_list *out; GHOSTS_CMP();
    int r = aws_byte_cursor_split_on_char(in, c, out);
    if (r == 0) CANARY("split"); else CANARY("list full");
}
void h_find_exact(void) { const struct aws_byte_cursor *in; const struct aws_byte_cursor *f; struct aws_byte_cursor *out; GHOSTS_CMP();
    int r = aws_byte_cursor_find_exact(in, f, out);
    if (r == 0) CANARY("found"); else CANARY("not found");
}

/* ---------------- number parsing, character classes ---------------- */
void h_s_read_unsigned(void) { struct aws_byte_cursor c; uint64_t *dst; uint8_t base; GHOSTS();
    int r = s_read_unsigned(c, dst, base);
    if (r == 0 && base == 10) CANARY("decimal parsed"); else if (r == 0) CANARY("hex parsed"); else CANARY("rejected");
}
void h_parse_u64(void) { struct aws_byte_cursor c; uint64_t *dst; GHOSTS();
    int r = aws_byte_cursor_utf8_parse_u64(c, dst);
    if (r == 0) CANARY("parsed"); else CANARY("rejected");
}
void h_parse_u64_hex(void) { struct aws_byte_cursor c; uint64_t *dst; GHOSTS();
    int r = aws_byte_cursor_utf8_parse_u64_hex(c, dst);
    if (r == 0) CANARY("parsed"); else CANARY("rejected");
}
/* bounded stand-in for the decimal value: every string of up to PARSE_N characters against a reference computed in
 * 128-bit arithmetic (NOT counted as proof).  Base 16 is characterised completely by the contract of s_read_unsigned. */
#ifndef PARSE_N
#define PARSE_N 21
#endif
void h_parse_u64_bounded(void) { GHOST_RESET();
    uint8_t s[PARSE_N];
    size_t n = nondet_size_t();
    __CPROVER_assume(n <= PARSE_N);
    for (size_t i = 0; i < PARSE_N; ++i) s[i] = nondet_u8();
    __uint128_t ref = 0; bool ok = n > 0;
    for (size_t i = 0; i < n; ++i) {
        unsigned d = s[i] - 48u;
        if (d > 9) ok = false;
        if (ok) { ref = (ref << 3) + (ref << 1) + d; if (ref > UINT64_MAX) ok = false; }
    }
    struct aws_byte_cursor c = {.len = n, .ptr = n ? s : NULL};
    uint64_t v = nondet_u64();
    int r = aws_byte_cursor_utf8_parse_u64(c, &v);
    __CPROVER_assert((r == AWS_OP_SUCCESS) == ok, "accepted exactly when non-empty, all characters are decimal digits and the value fits in 64 bits");
    __CPROVER_assert(r == AWS_OP_SUCCESS || r == AWS_OP_ERR, "result code");
    __CPROVER_assert(r == AWS_OP_SUCCESS ? v == (uint64_t)ref : v == 0, "value equals the reference; 0 on failure");
    if (r == 0 && n == PARSE_N) CANARY("longest string parsed"); else if (r == 0) CANARY("parsed"); else CANARY("rejected");
}
#define H_ISX(name, SPEC) void h_##name(void) { GHOST_RESET(); uint8_t ch = nondet_u8(); bool r = aws_##name(ch); \
    __CPROVER_assert(r == (SPEC), #name " agrees with its definition for every byte value"); if (r) CANARY("in class"); else CANARY("not in class"); }
#define IS_UP(c) ((c) >= 65 && (c) <= 90)
#define IS_LO(c) ((c) >= 97 && (c) <= 122)
#define IS_DG(c) ((c) >= 48 && (c) <= 57)
H_ISX(isalnum, IS_UP(ch) || IS_LO(ch) || IS_DG(ch))
H_ISX(isalpha, IS_UP(ch) || IS_LO(ch))
H_ISX(isdigit, IS_DG(ch))
H_ISX(isxdigit, IS_DG(ch) || (ch >= 65 && ch <= 70) || (ch >= 97 && ch <= 102))
H_ISX(isspace, ch == 32 || (ch >= 9 && ch <= 13))

/* ---------------- plain harness units (no contract instrumentation) ---------------- */
#ifdef VERIF_PLAIN
void aws_raise_error_private(int err) { g_last_error = err; g_raise_count++; }
int aws_last_error(void) { return g_last_error; } /* error.c: the thread-local error slot, here the ghost g_last_error */
/* CBMC 6.11 has no library model of memchr: reference implementation (plain harness units only; the contract units use the
 * assumed memchr contract of contracts/byte_buf.h) */
void *memchr(const void *s, int c, size_t n) {
    const unsigned char *p = s;
    for (size_t i = 0; i < n; ++i) if (p[i] == (unsigned char)c) return (void *)(p + i);
    return NULL;
}
/* assert.c: prints a backtrace and aborts; reaching it from a harness is an obligation */
void aws_fatal_assert(const char *cond_str, const char *file, int line) { __CPROVER_assert(0, "aws_fatal_assert is not reached"); abort(); }
#endif
#include <stdlib.h>
/* an arbitrary valid buffer over caller-owned storage: arbitrary capacity (up to CBMC's object size), arbitrary length and contents */
static struct aws_byte_buf nd_buf(void) {
    struct aws_byte_buf b;
    b.capacity = nondet_size_t();
    b.len = nondet_size_t();
    __CPROVER_assume(b.len <= b.capacity && b.capacity < VERIF_HUGE);
    b.buffer = b.capacity ? malloc(b.capacity) : NULL;
    __CPROVER_assume(b.capacity == 0 || b.buffer != NULL);
    b.allocator = NULL;
    return b;
}
static struct aws_byte_cursor nd_cur(void) {
    struct aws_byte_cursor c;
    c.len = nondet_size_t();
    __CPROVER_assume(c.len < VERIF_HUGE);
    c.ptr = c.len ? malloc(c.len) : NULL;
    __CPROVER_assume(c.len == 0 || c.ptr != NULL);
    return c;
}
/* aws_byte_buf_cat at arity K (0..3): va_arg function, one of the two multi-part operations (may stop part-way).
 * Checked: shape kept, len <= capacity, earlier bytes unchanged, sources unchanged, success exactly when everything fits,
 * on success every appended byte is the source byte; on failure exactly the leading sources that fit were appended. */
#ifndef CAT_K
#define CAT_K 3
#endif
void h_cat(void) { GHOST_RESET();
    struct aws_byte_buf dest = nd_buf(), old = dest;
    struct aws_byte_buf s[3] = {nd_buf(), nd_buf(), nd_buf()};
    size_t k = nondet_size_t(), j = nondet_size_t(), w = nondet_size_t();
    uint8_t oldk = 0, srcj = 0; size_t which = 3, off = 0;
    if (k < dest.len) oldk = dest.buffer[k];
    /* j: arbitrary position in the concatenation of the sources */
    { size_t acc = 0; for (int i = 0; i < CAT_K; ++i) { if (which == 3 && j - acc < s[i].len) { which = i; off = j - acc; srcj = s[i].buffer[off]; } acc += s[i].len; } }
    int r = CAT_K == 0 ? aws_byte_buf_cat(&dest, 0) : CAT_K == 1 ? aws_byte_buf_cat(&dest, 1, &s[0])
          : CAT_K == 2 ? aws_byte_buf_cat(&dest, 2, &s[0], &s[1]) : aws_byte_buf_cat(&dest, 3, &s[0], &s[1], &s[2]);
    /* how many leading sources fit, and their total length (no overflow: every length is below 2^56) */
    size_t fit = 0, total = 0; bool stop = false;
    for (int i = 0; i < CAT_K; ++i) { if (!stop && old.capacity - old.len - total >= s[i].len) { total += s[i].len; fit++; } else stop = true; }
    __CPROVER_assert(r == AWS_OP_SUCCESS || r == AWS_OP_ERR, "cat: result code");
    __CPROVER_assert((r == AWS_OP_SUCCESS) == (fit == CAT_K), "cat: success exactly when every source fits");
    __CPROVER_assert(dest.capacity == old.capacity && dest.buffer == old.buffer && dest.allocator == old.allocator, "cat: storage, capacity, allocator unchanged");
    __CPROVER_assert(dest.len <= dest.capacity, "cat: len <= capacity");
    __CPROVER_assert(dest.len == old.len + total, "cat: length grew by exactly the leading sources that fit (all of them on success)");
    __CPROVER_assert(k < old.len ? dest.buffer[k] == oldk : 1, "cat: earlier bytes unchanged");
    __CPROVER_assert(which < 3 && j < total ? dest.buffer[old.len + j] == srcj && s[which].buffer[off] == srcj : 1, "cat: appended byte j equals byte j of the concatenated sources; source unchanged");
    __CPROVER_assert(w < 3 ? s[w].len <= s[w].capacity : 1, "cat: sources keep their shape");
#if CAT_K == 0
    CANARY("nothing to append");
#elif CAT_K == 1
    if (r == 0 && total > 0) CANARY("all appended"); else if (r == 0) CANARY("nothing to append"); else CANARY("refused at once");
#else
    if (r == 0 && total > 0) CANARY("all appended"); else if (r == 0) CANARY("nothing to append"); else if (fit > 0 && total > 0) CANARY("stopped part-way"); else CANARY("refused at once");
#endif
}

#ifdef VERIF_PLAIN
/* model of aws_mem_acquire for the plain harness units, as specified by its contract in contracts/allocator.h (which the
 * units mem_acquire.. enforce on the real allocator.c): a fresh block of `size` bytes, never NULL (OOM aborts) */
void *aws_mem_acquire(struct aws_allocator *allocator, size_t size) {
    __CPROVER_assert(allocator != NULL && size > 0, "aws_mem_acquire: precondition of its contract");
    void *p = malloc(size);
    __CPROVER_assume(p != NULL);
    return p;
}
#endif
/* aws_byte_buf_init_cache_and_update_cursors at arity K (0..3 cursors + terminating NULL): va_arg function.
 * dest becomes an exact-fit copy of the concatenated cursors, every cursor is re-pointed at its copy inside dest.
 * With INIT_CACHE_HUGE the cursors are views longer than any object (unbacked): the length sum may overflow and the
 * call must then fail before touching a byte, leaving the cursors alone. */
#ifndef INIT_CACHE_K
#define INIT_CACHE_K 3
#endif
void h_init_cache(void) { GHOST_RESET();
    struct aws_allocator alloc_obj; struct aws_allocator *a = &alloc_obj;
    struct aws_byte_buf dest;
    struct aws_byte_cursor c[3], o[3];
    for (int i = 0; i < 3; ++i) {
#ifdef INIT_CACHE_HUGE
        c[i].len = nondet_size_t(); __CPROVER_assume(c[i].len >= VERIF_HUGE); c[i].ptr = NULL;
#else
        c[i] = nd_cur();
#endif
        o[i] = c[i];
    }
    size_t j = nondet_size_t(); int w = nondet_int(); __CPROVER_assume(0 <= w && w < 3);
    uint8_t srcj = 0;
#ifndef INIT_CACHE_HUGE
    if (w < INIT_CACHE_K && j < c[w].len) srcj = c[w].ptr[j];
#endif
    int r = INIT_CACHE_K == 0 ? aws_byte_buf_init_cache_and_update_cursors(&dest, a, NULL)
          : INIT_CACHE_K == 1 ? aws_byte_buf_init_cache_and_update_cursors(&dest, a, &c[0], NULL)
          : INIT_CACHE_K == 2 ? aws_byte_buf_init_cache_and_update_cursors(&dest, a, &c[0], &c[1], NULL)
                              : aws_byte_buf_init_cache_and_update_cursors(&dest, a, &c[0], &c[1], &c[2], NULL);
    __uint128_t total = 0; size_t off[3];
    for (int i = 0; i < INIT_CACHE_K; ++i) { off[i] = (size_t)total; total += o[i].len; }
    __CPROVER_assert(r == AWS_OP_SUCCESS || r == AWS_OP_ERR, "init_cache: result code");
    __CPROVER_assert((r == AWS_OP_SUCCESS) == (total <= SIZE_MAX), "init_cache: fails exactly when the total length overflows size_t");
    if (r == AWS_OP_SUCCESS) {
        __CPROVER_assert(dest.len == (size_t)total && dest.capacity == (size_t)total && dest.allocator == a, "init_cache: exact-fit buffer, len == capacity == total");
        __CPROVER_assert((total == 0) == (dest.buffer == NULL), "init_cache: storage exactly when there is something to store");
        __CPROVER_assert(w < INIT_CACHE_K ? c[w].len == o[w].len && c[w].ptr == (dest.buffer == NULL ? NULL : dest.buffer + off[w]) : 1, "init_cache: cursor w now points at its copy inside dest, same length");
#ifndef INIT_CACHE_HUGE
        __CPROVER_assert(w < INIT_CACHE_K && j < o[w].len ? dest.buffer[off[w] + j] == srcj && o[w].ptr[j] == srcj : 1, "init_cache: copied byte equals the source byte; source unchanged");
#endif
        __CPROVER_assert(w >= INIT_CACHE_K ? c[w].len == o[w].len && c[w].ptr == o[w].ptr : 1, "init_cache: cursors that were not passed are untouched");
    } else {
        __CPROVER_assert(dest.len == 0 && dest.capacity == 0 && dest.buffer == NULL, "init_cache: failure leaves dest zeroed");
        __CPROVER_assert(c[w].len == o[w].len && c[w].ptr == o[w].ptr, "init_cache: failure leaves every cursor as it was");
    }
#ifdef INIT_CACHE_HUGE
    if (r != 0) CANARY("length overflow refused");
#elif INIT_CACHE_K == 0
    CANARY("empty cache");
#else
    if (r == 0 && total > 0) CANARY("cached"); else if (r == 0) CANARY("empty cache");
#endif
}

void h_append_null_terminator(void) { struct aws_byte_buf *b; GHOSTS();
    s_null_terminator_cursor.len = 1; s_null_terminator_cursor.ptr = (uint8_t *)"\0"; /* its static initialiser */
    if (g_j < 1) g_src = 0;
    int r = aws_byte_buf_append_null_terminator(b);
    if (r == 0) CANARY("terminated"); /* refusal needs len == SIZE_MAX: unreachable with backed storage */
}

/* bounded stand-in (NOT counted as proof) for the direction the contracts of the hand-written comparison loops cannot
 * state without an existential: "false ==> some byte differs / result sign follows the FIRST difference".  All arrays of
 * up to EQB_N bytes, results compared with a direct reference computation. */
#ifndef EQB_N
#define EQB_N 4
#endif
void h_eq_loops_bounded(void) { GHOST_RESET();
    uint8_t a[EQB_N + 1], b[EQB_N + 1], t[256];
    size_t la = nondet_size_t(), lb = nondet_size_t();
    __CPROVER_assume(la <= EQB_N && lb <= EQB_N);
    /* a, b, t are uninitialised locals: arbitrary contents */
    /* b doubles as a C string of length lb */
    for (size_t i = 0; i < EQB_N; ++i) if (i < lb) __CPROVER_assume(b[i] != 0);
    b[lb] = 0;
    bool same = la == lb, same_nc = la == lb, all_space = true; int ord = 0;
    for (size_t i = 0; i < EQB_N; ++i) {
        if (i < la && i < lb) {
            if (a[i] != b[i]) same = false;
            if (SPEC_LOWER_F(a[i]) != SPEC_LOWER_F(b[i])) same_nc = false;
            if (ord == 0 && t[a[i]] != t[b[i]]) ord = t[a[i]] < t[b[i]] ? -1 : 1;
        }
        if (i < la && !(a[i] == 32 || (a[i] >= 9 && a[i] <= 13))) all_space = false;
    }
    if (ord == 0) ord = la < lb ? -1 : la > lb ? 1 : 0;
    struct aws_byte_cursor ca = {.len = la, .ptr = la ? a : NULL}, cb = {.len = lb, .ptr = lb ? b : NULL};
    __CPROVER_assert(aws_array_eq_ignore_case(ca.ptr, la, cb.ptr, lb) == same_nc, "array_eq_ignore_case == reference (both directions)");
    __CPROVER_assert(aws_array_eq_c_str(ca.ptr, la, (const char *)b) == same, "array_eq_c_str == reference (both directions)");
    __CPROVER_assert(aws_array_eq_c_str_ignore_case(ca.ptr, la, (const char *)b) == same_nc, "array_eq_c_str_ignore_case == reference (both directions)");
    __CPROVER_assert(aws_byte_cursor_compare_lookup(&ca, &cb, t) == ord, "compare_lookup == order of the first differing mapped byte, then length");
    __CPROVER_assert(aws_byte_cursor_satisfies_pred(&ca, aws_isspace) == all_space, "satisfies_pred == reference (both directions)");
    if (same && la == EQB_N) CANARY("equal at full length"); else if (same_nc) CANARY("equal ignoring case"); else CANARY("different");
}

/* bounded stand-in (NOT counted as proof) for aws_byte_cursor_split_on_char_n / _split_on_char with the REAL
 * aws_byte_cursor_next_split, memchr model and array list (static storage, so that the list can fill up): inputs of up to
 * SPLIT_N bytes, any split character, any n, list capacities 1..SPLIT_CAP.  (The contract proof of split_on_char_n with a
 * loop contract does not come back from the solver, see units.json.) */
#ifndef SPLIT_N
#define SPLIT_N 5
#endif
#define SPLIT_CAP 3
void h_split_bounded(void) { GHOST_RESET();
    uint8_t s[SPLIT_N + 1]; /* one addressable byte after the view: next_split forms input_end + 1 after the last piece (see contracts/byte_buf.h) */
    size_t n = nondet_size_t(), cap = nondet_size_t(), maxn = nondet_size_t();
    __CPROVER_assume(n <= SPLIT_N && 1 <= cap && cap <= SPLIT_CAP);
    char c = (char)nondet_u8();
    struct aws_byte_cursor store[SPLIT_CAP + 1];
    struct aws_array_list l;
    aws_array_list_init_static(&l, store, cap, sizeof(struct aws_byte_cursor));
    struct aws_byte_cursor in = {.len = n, .ptr = n ? s : NULL};
    bool use_n = nondet_bool();
    int r = use_n ? aws_byte_cursor_split_on_char_n(&in, c, maxn, &l) : aws_byte_cursor_split_on_char(&in, c, &l);
    if (!use_n) maxn = 0;
    size_t seps = 0; for (size_t i = 0; i < SPLIT_N; ++i) if (i < n && s[i] == (uint8_t)c) seps++;
    size_t want = seps + 1; if (maxn > 0 && maxn < SIZE_MAX && want > maxn + 1) want = maxn + 1;
    __CPROVER_assert(r == AWS_OP_SUCCESS || r == AWS_OP_ERR, "split: result code");
    __CPROVER_assert(l.length <= cap && l.data == (void *)store && l.current_size == cap * sizeof(struct aws_byte_cursor), "split: list stays inside its storage");
    __CPROVER_assert((r == AWS_OP_SUCCESS) == (want <= cap), "split: fails exactly when the list is too small for the pieces");
    __CPROVER_assert(r == AWS_OP_SUCCESS ? l.length == want : l.length == cap, "split: number of pieces (all of them, or as many as fit)");
    size_t w = nondet_size_t();
    if (w < l.length && n > 0) {
        struct aws_byte_cursor p = store[w];
        __CPROVER_assert(__CPROVER_same_object(p.ptr, s) && p.ptr >= s && (size_t)(p.ptr - s) <= n && p.len <= n - (size_t)(p.ptr - s), "split: piece w lies inside the input");
        size_t j = nondet_size_t();
        bool last_of_limited = maxn > 0 && w == maxn;
        if (j < p.len && !last_of_limited) __CPROVER_assert(p.ptr[j] != (uint8_t)c, "split: pieces contain no split character (except the rest-of-string piece when n is reached)");
        if (last_of_limited) __CPROVER_assert((size_t)(p.ptr - s) + p.len == n, "split: the piece after n splits is the rest of the input");
        if (w == 0) __CPROVER_assert(p.ptr == s, "split: first piece starts at the input");
    }
    if (r == 0 && l.length > 1) CANARY("several pieces"); else if (r == 0) CANARY("one piece"); else CANARY("list full");
}
