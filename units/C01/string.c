/* Proof unit for C01: contracts/string.h + the real source/string.c + one harness per function under contract.
 * The harness only declares the parameters (DFCC allocates them according to the requires clauses), switches the ghost
 * witnesses on with arbitrary values, calls the function and plants reachability canaries on the result. */
#include "contracts/string.h"
#ifdef VERIF_STR_REAL_SECURE_ZERO
/* aws_string_destroy_secure is checked with the REAL aws_secure_zero of source/common.c (memset + barrier) inlined */
#    include "source/common.c"
#endif
#include "source/string.c"

#define SGHOSTS() do { GHOST_RESET(); g_on = true; g_k = nondet_size_t(); g_old = nondet_u8(); g_j = nondet_size_t(); g_src = nondet_u8(); \
                       g_la = nondet_size_t(); g_lb = nondet_size_t(); g_str_owned = nondet_bool(); g_slen = nondet_size_t(); g_sw = nondet_size_t(); g_mm = nondet_size_t(); } while (0)

/* ---------------- constructors ---------------- */
void h_new_from_array(void) {
    struct aws_allocator *a; const uint8_t *bytes; size_t len;
    SGHOSTS();
    struct aws_string *s = aws_string_new_from_array(a, bytes, len);
    if (len == 0) CANARY("empty string"); else CANARY("copied");
}
void h_new_from_c_str(void) {
    struct aws_allocator *a; const char *c;
    SGHOSTS();
    struct aws_string *s = aws_string_new_from_c_str(a, c);
    if (g_slen == 0) CANARY("empty string"); else CANARY("copied");
}
void h_new_from_string(void) {
    struct aws_allocator *a; const struct aws_string *str;
    SGHOSTS();
    struct aws_string *s = aws_string_new_from_string(a, str);
    if (g_la == 0) CANARY("empty string"); else CANARY("copied");
}
void h_new_from_cursor(void) {
    struct aws_allocator *a; const struct aws_byte_cursor *c;
    SGHOSTS();
    struct aws_string *s = aws_string_new_from_cursor(a, c);
    if (s->len == 0) CANARY("empty string"); else CANARY("copied");
}
void h_new_from_buf(void) {
    struct aws_allocator *a; const struct aws_byte_buf *b;
    SGHOSTS();
    struct aws_string *s = aws_string_new_from_buf(a, b);
    if (s->len == 0) CANARY("empty string"); else CANARY("copied");
}
void h_clone_or_reuse(void) {
    struct aws_allocator *a; const struct aws_string *str;
    SGHOSTS();
    struct aws_string *s = aws_string_clone_or_reuse(a, str);
    if (s == str) CANARY("reused"); else CANARY("cloned");
}

/* ---------------- destruction ---------------- */
void h_destroy(void) {
    struct aws_string *str;
    SGHOSTS();
    aws_string_destroy(str);
    if (str) CANARY("destroyed"); else CANARY("NULL ignored");
}
void h_destroy_secure(void) {
    struct aws_string *str;
    SGHOSTS(); g_zero_on = true; g_rz = nondet_size_t(); g_rsize = nondet_size_t();
    aws_string_destroy_secure(str);
#ifdef VERIF_STR_NO_ALLOCATOR
    CANARY("zeroed, not released");
#else
    if (str) CANARY("destroyed"); else CANARY("NULL ignored");
#endif
}

/* ---------------- equality / comparison ---------------- */
#define H_EQ(name, fn, TA, TB)                                                                                         \
    void h_##name(void) { TA a; TB b; SGHOSTS(); bool r = fn(a, b);                                                    \
        if (r && a) CANARY("equal"); else if (r) CANARY("both NULL"); else if (a && b) CANARY("different"); else CANARY("one NULL"); }
#define H_EQ2(name, fn)                                                                                                \
    void h_##name(void) { const struct aws_string *a; const struct aws_string *b; SGHOSTS(); bool r = fn(a, b);        \
        if (a && a == b) CANARY("same string"); else if (r && a) CANARY("equal"); else if (r) CANARY("both NULL");    \
        else if (a && b) CANARY("different"); else CANARY("one NULL"); }
H_EQ2(string_eq, aws_string_eq)
H_EQ2(string_eq_ignore_case, aws_string_eq_ignore_case)
H_EQ(string_eq_byte_cursor, aws_string_eq_byte_cursor, const struct aws_string *, const struct aws_byte_cursor *)
H_EQ(string_eq_byte_cursor_ignore_case, aws_string_eq_byte_cursor_ignore_case, const struct aws_string *, const struct aws_byte_cursor *)
H_EQ(string_eq_byte_buf, aws_string_eq_byte_buf, const struct aws_string *, const struct aws_byte_buf *)
H_EQ(string_eq_byte_buf_ignore_case, aws_string_eq_byte_buf_ignore_case, const struct aws_string *, const struct aws_byte_buf *)
H_EQ(string_eq_c_str, aws_string_eq_c_str, const struct aws_string *, const char *)
H_EQ(string_eq_c_str_ignore_case, aws_string_eq_c_str_ignore_case, const struct aws_string *, const char *)

void h_string_compare(void) {
    const struct aws_string *a; const struct aws_string *b;
    SGHOSTS();
    int r = aws_string_compare(a, b);
    if (!a || !b) CANARY("NULL operand"); else if (a == b) CANARY("same string"); else if (r == 0) CANARY("equal"); else if (r < 0) CANARY("less"); else CANARY("greater");
}
void h_comparator_string(void) {
    const void *a; const void *b;
    SGHOSTS(); g_sa = nondet_ptr(); g_sb = nondet_ptr();
    int r = aws_array_list_comparator_string(a, b);
    if (!a || !b) CANARY("NULL slot"); else if (!g_sa || !g_sb) CANARY("NULL element"); else if (r == 0) CANARY("equal"); else CANARY("ordered");
}

/* ---------------- buffer / cursor helpers ---------------- */
void h_write_from_whole_string(void) {
    struct aws_byte_buf *buf; const struct aws_string *src;
    SGHOSTS();
    bool r = aws_byte_buf_write_from_whole_string(buf, src);
    if (r) CANARY("written"); else if (buf && src) CANARY("refused: no room"); else CANARY("refused: NULL");
}
void h_cursor_from_string(void) {
    const struct aws_string *src;
    SGHOSTS();
    struct aws_byte_cursor c = aws_byte_cursor_from_string(src);
    if (src) CANARY("view"); else CANARY("NULL string");
}
void h_secure_strlen(void) {
    const char *str; size_t max; size_t *out;
    SGHOSTS();
    int r = aws_secure_strlen(str, max, out);
    if (r == 0) CANARY("terminated"); else if (str && out) CANARY("not terminated"); else CANARY("NULL argument");
}
