/* Proof unit for C01 (closes the allocator assumptions of the growing byte-buffer operations): the real
 * aws_mem_acquire / aws_mem_calloc / aws_mem_release / aws_mem_realloc of source/allocator.c are checked against the
 * client contracts of contracts/allocator.h, for every allocator whose vtable functions obey the vt_* contracts
 * (function-pointer contracts, __CPROVER_obeys_contract).  Built with -DVERIF_ALLOC_ENFORCE. */
#include "contracts/allocator.h"
#include <stdlib.h>

/* aws_fatal_assert (assert.c) prints a backtrace and aborts.  Under the contracts' preconditions none of the
 * AWS_FATAL_PRECONDITIONs of the entry points may fire: reaching it is an obligation, then the run ends like abort(). */
void aws_fatal_assert(const char *cond_str, const char *file, int line) {
    __CPROVER_assert(0, "aws_fatal_assert is not reached under the contract's precondition");
    abort();
}

#include "source/allocator.c"

/* the contract functions must have their address taken, else obeys_contract has no candidates */
void *keep_vt_acquire = (void *)vt_mem_acquire_contract;
void *keep_vt_release = (void *)vt_mem_release_contract;
void *keep_vt_calloc = (void *)vt_mem_calloc_contract;
void *keep_vt_realloc = (void *)vt_mem_realloc_contract;

#define AGHOSTS() do { GHOST_RESET_COMMON(); GHOST_RESET_ALLOC(); g_on = true; g_k = nondet_size_t(); g_old = nondet_u8(); g_j = nondet_size_t(); \
                       g_has_calloc = nondet_bool(); g_has_realloc = nondet_bool(); } while (0)

void h_mem_acquire(void) { struct aws_allocator *a; size_t n; AGHOSTS();
    void *p = aws_mem_acquire(a, n);
    CANARY("returned");
}
void h_mem_calloc(void) { struct aws_allocator *a; size_t num, size; AGHOSTS();
    void *p = aws_mem_calloc(a, num, size);
    if (g_has_calloc) CANARY("vtable calloc"); else CANARY("emulated by acquire + memset");
}
void h_mem_release(void) { struct aws_allocator *a; void *p; AGHOSTS(); g_zero_on = nondet_bool(); g_rz = nondet_size_t(); g_rsize = nondet_size_t();
    aws_mem_release(a, p);
    if (p) CANARY("released"); else CANARY("NULL ignored");
}
void h_mem_realloc(void) { struct aws_allocator *a; void **pp; size_t o, n; AGHOSTS();
    int r = aws_mem_realloc(a, pp, o, n);
#if defined(VERIF_REALLOC_NULL_EMULATED)
    CANARY("grown from nothing without vtable realloc");
#else
    if (n == 0) CANARY("released"); else if (g_has_realloc) CANARY("vtable realloc"); else if (o >= n) CANARY("emulated: kept"); else CANARY("emulated: moved");
#endif
}
