/* BOUNDED stand-in for the aliasing the API allows ("a buffer appended to itself, a cursor pointing into the
 * destination buffer") on the real s_aws_byte_buf_append_dynamic / aws_byte_buf_append.
 * The contract form of this unit (source view constrained to lie inside the destination object) does not finish in
 * CBMC 6.11 (15 min, even with capacity <= 8), so this is a plain assume/assert harness with a concrete capacity
 * VERIF_ALIAS_CAP: all lengths <= capacity, all source offsets/lengths inside the written part, all byte contents and both
 * values of the secure flag are symbolic.  Allocator entry points are small executable stubs that mirror the client
 * contracts of contracts/allocator.h (acquire = fresh block, never NULL; release = block must show a zero at the witness
 * position when the secure flag is set, then free; secure_zero = memset).  Labelled bounded, never counted as proved. */
#include <stdlib.h>
#include "contracts/common.h"
#include <aws/common/allocator.h>

static bool s_secure;
static size_t s_rz, s_old_cap;
static int s_releases;

void aws_raise_error_private(int err) { (void)err; }
void *aws_mem_acquire(struct aws_allocator *allocator, size_t size) {
    __CPROVER_assert(allocator != NULL && size > 0, "aws_mem_acquire precondition");
    void *p = malloc(size);
    __CPROVER_assume(p != NULL);
    return p;
}
void aws_mem_release(struct aws_allocator *allocator, void *ptr) {
    __CPROVER_assert(allocator != NULL, "aws_mem_release precondition");
    if (ptr != NULL) {
        if (s_secure && s_rz < s_old_cap)
            __CPROVER_assert(((const uint8_t *)ptr)[s_rz] == 0, "secure variant: released block is zero at the witness position");
        s_releases++;
        free(ptr);
    }
}
void aws_secure_zero(void *pBuf, size_t bufsize) {
    if (pBuf != NULL && bufsize > 0) memset(pBuf, 0, bufsize);
}

#include "source/byte_buf.c"

#ifndef VERIF_ALIAS_CAP
#    define VERIF_ALIAS_CAP 4
#endif

void h_alias_dynamic(void) {
    struct aws_allocator alloc;
    struct aws_byte_buf to;
    size_t cap = VERIF_ALIAS_CAP;
    to.allocator = &alloc;
    to.capacity = cap;
    to.buffer = malloc(cap);
    __CPROVER_assume(to.buffer != NULL);
    to.len = nondet_size_t();
    __CPROVER_assume(to.len >= 1 && to.len <= cap);
    /* source view inside the bytes already written */
    size_t off = nondet_size_t(), n = nondet_size_t();
    __CPROVER_assume(off <= to.len && n <= to.len - off);
    struct aws_byte_cursor from = {.len = n, .ptr = to.buffer + off};
    /* witnesses: one old byte, one source byte */
    size_t k = nondet_size_t(), j = nondet_size_t();
    __CPROVER_assume(k < to.len);
    /* replay variables (picked up from the counterexample by the driver) */
    size_t r_to_len = to.len, r_to_capacity = cap, r_from_len = n, r_from_off = off;
    uint8_t old_k = to.buffer[k];
    uint8_t src_j = 0;
    if (j < n) src_j = from.ptr[j];
    size_t old_len = to.len;
    s_secure = nondet_bool();
    bool r_secure = s_secure;
    s_rz = nondet_size_t();
    s_old_cap = cap;
    s_releases = 0;

    int r = s_aws_byte_buf_append_dynamic(&to, &from, s_secure);

    __CPROVER_assert(r == AWS_OP_SUCCESS, "aliased dynamic append succeeds (no overflow possible at this size)");
    __CPROVER_assert(to.len == old_len + n && to.len <= to.capacity, "len advanced by the source length, len <= capacity");
    __CPROVER_assert(to.buffer[k] == old_k, "every previously written byte unchanged");
    if (j < n) __CPROVER_assert(to.buffer[old_len + j] == src_j, "appended bytes equal the (aliased) source bytes");
    if (cap - old_len < n) {
        __CPROVER_assert(s_releases == 1, "old block released exactly once when the buffer grows");
        CANARY("grew");
    } else {
        __CPROVER_assert(s_releases == 0, "no release when the append fits");
        CANARY("fitted");
    }
}

void h_alias_append(void) {
    uint8_t store[VERIF_ALIAS_CAP];
    struct aws_byte_buf to = {.allocator = NULL, .capacity = VERIF_ALIAS_CAP, .buffer = store};
    for (size_t i = 0; i < VERIF_ALIAS_CAP; ++i) store[i] = nondet_u8();
    to.len = nondet_size_t();
    __CPROVER_assume(to.len <= VERIF_ALIAS_CAP);
    size_t off = nondet_size_t(), n = nondet_size_t();
    __CPROVER_assume(off <= to.len && n <= to.len - off);
    struct aws_byte_cursor from = {.len = n, .ptr = store + off};
    size_t k = nondet_size_t(), j = nondet_size_t();
    __CPROVER_assume(k < VERIF_ALIAS_CAP);
    uint8_t old_k = store[k];
    uint8_t src_j = 0;
    if (j < n) src_j = from.ptr[j];
    size_t old_len = to.len;
    int r = aws_byte_buf_append(&to, &from);
    bool fits = VERIF_ALIAS_CAP - old_len >= n;
    __CPROVER_assert((r == AWS_OP_SUCCESS) == fits, "success exactly when the source fits");
    if (r == AWS_OP_SUCCESS) {
        __CPROVER_assert(to.len == old_len + n, "len advanced");
        if (k < old_len) __CPROVER_assert(store[k] == old_k, "previously written byte unchanged");
        if (j < n) __CPROVER_assert(store[old_len + j] == src_j, "appended bytes equal the aliased source");
        CANARY("appended to itself");
    } else {
        __CPROVER_assert(to.len == old_len && store[k] == old_k, "failure changes nothing");
        CANARY("refused");
    }
}
