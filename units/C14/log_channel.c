/* Proof unit for C14 (channels, sequential facts): contracts + the real source/log_channel.c + harnesses. */
#define VERIF_CHANNEL_TU
#define VERIF_TRACK_ERRORS
#include "contracts/logging.h"
#include "source/log_channel.c"
#define VERIF_LOGGING_PASS2
#include "contracts/logging.h"

void *verif_keep_c14_channel[] = {(void *)vt_write_contract, (void *)bg_push_back_contract, (void *)bg_list_clean_up_contract};

void h_foreground_send(void) {
    struct aws_log_channel *channel; struct aws_string *line;
    FMT_GHOST_RESET();
    CH_GHOST_RESET();
    g_mutex = nondet_ptr();
    int r = s_foreground_channel_send(channel, line);
    if (r == AWS_OP_SUCCESS) CANARY("line written and destroyed");
}

void h_background_send(void) {
    struct aws_log_channel *channel; struct aws_string *line;
    FMT_GHOST_RESET();
    CH_GHOST_RESET();
    g_mutex = nondet_ptr(); g_signal = nondet_ptr(); g_pending = nondet_ptr();
    int r = s_background_channel_send(channel, line);
    if (r == AWS_OP_SUCCESS && g_len_at_lock == 0) CANARY("first pending line");
    if (r == AWS_OP_SUCCESS && g_len_at_lock > 10) CANARY("appended behind other pending lines");
}

void h_background_clean_up(void) {
    struct aws_log_channel *channel;
    FMT_GHOST_RESET();
    CH_GHOST_RESET();
    CH_CLEANUP_GHOST_RESET();
    g_mutex = nondet_ptr(); g_signal = nondet_ptr(); g_pending = nondet_ptr(); g_thread = nondet_ptr(); g_finished_flag = nondet_ptr();
    s_background_channel_clean_up(channel);
    CANARY("returned");
}
