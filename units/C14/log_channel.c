/* Proof unit for C14 (channels, sequential facts): contracts + the real source/log_channel.c + harnesses. */
#define VERIF_CHANNEL_TU
#define VERIF_TRACK_ERRORS
#include "contracts/logging.h"
#include "source/log_channel.c"
#define VERIF_LOGGING_PASS2
#include "contracts/logging.h"

void *verif_keep_c14_channel[] = {(void *)vt_write_contract, (void *)bg_push_back_contract, (void *)bg_list_clean_up_contract,
                                  (void *)bgt_write_contract, (void *)bgt_lock_contract, (void *)bgt_unlock_contract,
                                  (void *)bgt_wait_pred_contract, (void *)bgt_init_dynamic_contract, (void *)bgt_length_contract,
                                  (void *)bgt_swap_contract, (void *)bgt_get_at_contract, (void *)bgt_clear_contract,
                                  (void *)bgt_pop_front_n_contract, (void *)bgt_local_clean_up_contract,
                                  (void *)bgt_string_destroy_contract, (void *)bgt_fatal_assert_contract};

void h_foreground_send(void) {
    struct aws_log_channel *channel; struct aws_string *line;
    FMT_GHOST_RESET();
    CH_GHOST_RESET();
    g_mutex = nondet_ptr();
    int r = s_foreground_channel_send(channel, line);
    if (r == AWS_OP_SUCCESS) CANARY("line written and destroyed");
}

void h_background_send(void) {
    struct aws_log_channel *channel; struct aws_string *line;
    FMT_GHOST_RESET();
    CH_GHOST_RESET();
    g_mutex = nondet_ptr(); g_signal = nondet_ptr(); g_pending = nondet_ptr();
    int r = s_background_channel_send(channel, line);
    if (r == AWS_OP_SUCCESS && g_len_at_lock == 0) CANARY("first pending line");
    if (r == AWS_OP_SUCCESS && g_len_at_lock > 10) CANARY("appended behind other pending lines");
}

void h_background_clean_up(void) {
    struct aws_log_channel *channel;
    FMT_GHOST_RESET();
    CH_GHOST_RESET();
    CH_CLEANUP_GHOST_RESET();
    g_mutex = nondet_ptr(); g_signal = nondet_ptr(); g_pending = nondet_ptr(); g_thread = nondet_ptr(); g_finished_flag = nondet_ptr();
    s_background_channel_clean_up(channel);
    CANARY("returned");
}

/* Body of the background thread (contract: contracts/logging.h pass 2).  g_wseq / g_wline stay unconstrained: the
 * per-call preconditions of the write / destroy contracts are checked for an arbitrary line.
 * (Bounded companion without contracts: units/C14/log_channel_thread.c.) */
void h_background_thread(void) {
    void *thread_data;
    FMT_GHOST_RESET();
    CH_GHOST_RESET();
    BGT_GHOST_RESET();
    g_mutex = nondet_ptr(); g_signal = nondet_ptr(); g_pending = nondet_ptr(); g_finished_flag = nondet_ptr();
    g_bgt_writer = nondet_ptr();
    g_wseq = nondet_size_t(); g_wline = nondet_ptr();
    aws_background_logger_thread(thread_data);
    CANARY("returned");
    if (g_accepted == 0) CANARY("returned without ever seeing a line");
    if (g_accepted > 32 && g_wseq == 32) CANARY("more than 32 lines drained, witness is the 33rd");
    if (g_sync_calls > 4) CANARY("more than two wake-ups");
    if (g_sync_calls == 2 && g_accepted > 0) CANARY("finished seen together with pending lines at the first wake-up");
}
