/* Proof unit for C14 (formatter): contracts + the real source/log_formatter.c + harness.
 * snprintf is mapped to the three-parameter model verif_snprintf (see contracts/logging.h). */
#define VERIF_FORMATTER_TU
#define VERIF_HOOK_SNPRINTF
#include "contracts/logging.h"
#include <stdlib.h>
#include "source/log_formatter.c"
#define VERIF_LOGGING_PASS2
#include "contracts/logging.h"

/* VERIF_FMT_STRICT: the property statement as it is (a cut line is still newline-terminated and has no NUL) */
void h_format_line(void) {
    /* harness-owned objects (see FD_OK): every field of the formatting data is arbitrary, the line buffer is one
     * object of total_length bytes with arbitrary contents */
    struct aws_logging_standard_formatting_data *fd = malloc(sizeof(*fd));
    va_list args;
    __CPROVER_assume(fd != NULL && fd->total_length <= FMT_MAX_TOTAL);
    fd->log_line_buffer = fd->total_length ? malloc(fd->total_length) : NULL;
    __CPROVER_assume(fd->total_length == 0 || fd->log_line_buffer != NULL);
    static const char format_object[1], subject_object[1]; /* format and subject are valid strings; their text is not read by the model */
    fd->format = format_object;
    fd->subject_name = nondet_bool() ? subject_object : NULL;
    FMT_GHOST_RESET();
    g_fmt_on = true;
    g_w = nondet_size_t();
    for (int i = 0; i < 8; ++i) g_L[i] = nondet_int();
    g_dlen = nondet_size_t();
    g_derr = nondet_bool();
    g_tid = nondet_u64();
    g_line = fd->log_line_buffer;
#ifdef VERIF_FMT_STRICT
    g_strict = true;
#endif
    int r = aws_format_standard_log_line(fd, args);
    if (r == AWS_OP_SUCCESS && !g_trunc && g_pieces == 01234567u) CANARY("whole line with subject");
    if (r == AWS_OP_SUCCESS && !g_trunc && g_pieces == 0123567u) CANARY("whole line without subject");
    if (r == AWS_OP_SUCCESS && g_trunc && g_pieces == 01234567u) CANARY("message cut");
    if (r == AWS_OP_SUCCESS && g_trunc && g_pieces == 017u) CANARY("level prefix cut");
    if (r != AWS_OP_SUCCESS && g_err) CANARY("callee error");
    if (r != AWS_OP_SUCCESS && !g_err) CANARY("bad level or empty buffer");
}
