/* Proof unit for C14 (level gate, level storage, level names, pipeline log call): contracts + the real
 * source/logging.c + harnesses. */
#define VERIF_LOGGING_TU
#define VERIF_TRACK_ERRORS
#include "contracts/logging.h"
#include "source/logging.c"
#define VERIF_LOGGING_PASS2
#include "contracts/logging.h"

/* body for the plain (non-DFCC) harnesses; the DFCC units replace the call by the contract in contracts/common.h,
 * which says the same */
void aws_raise_error_private(int err) { g_last_error = err; g_raise_count++; }

/* keep the address of the vtable contracts taken (obeys_contract needs it) */
void *verif_keep_c14[] = {(void *)vt_get_log_level_contract, (void *)vt_set_log_level_contract};

#define LOG_GHOST_RESET() do { FMT_GHOST_RESET(); g_level = nondet_u32(); g_set_result = nondet_int(); } while (0)

void h_level_to_string(void) {
    enum aws_log_level level; const char **out;
    LOG_GHOST_RESET();
    int r = aws_log_level_to_string(level, out);
    if (r == AWS_OP_SUCCESS) CANARY("known level"); else CANARY("unknown level");
}
void h_get_conditional(void) {
    aws_log_subject_t subject; enum aws_log_level level;
    LOG_GHOST_RESET();
    struct aws_logger *r = aws_logger_get_conditional(subject, level);
    if (r != NULL) CANARY("passes the gate"); else if (s_root_logger_ptr != NULL) CANARY("filtered"); else CANARY("no root logger");
}
void h_logger_set(void) {
    struct aws_logger *logger;
    LOG_GHOST_RESET();
    aws_logger_set(logger);
    if (logger != NULL) CANARY("installed"); else CANARY("null logger installed");
}
void h_logger_get(void) {
    LOG_GHOST_RESET();
    struct aws_logger *r = aws_logger_get();
    CANARY("returned");
}
void h_pipeline_get_level(void) {
    struct aws_logger *logger; aws_log_subject_t subject;
    LOG_GHOST_RESET();
    enum aws_log_level r = s_aws_logger_pipeline_get_log_level(logger, subject);
    if (r == AWS_LL_TRACE) CANARY("trace"); else if (r == AWS_LL_NONE) CANARY("none");
}
void h_pipeline_set_level(void) {
    struct aws_logger *logger; enum aws_log_level level;
    LOG_GHOST_RESET();
    int r = s_aws_logger_pipeline_set_log_level(logger, level);
    CANARY("returned");
}
void h_noalloc_get_level(void) {
    struct aws_logger *logger; aws_log_subject_t subject;
    LOG_GHOST_RESET();
    enum aws_log_level r = s_noalloc_stderr_logger_get_log_level(logger, subject);
    if (r == AWS_LL_TRACE) CANARY("trace"); else if (r == AWS_LL_NONE) CANARY("none");
}
void h_noalloc_set_level(void) {
    struct aws_logger *logger; enum aws_log_level level;
    LOG_GHOST_RESET();
    int r = s_no_alloc_stderr_logger_set_log_level(logger, level);
    CANARY("returned");
}
void h_set_log_level(void) {
    struct aws_logger *logger; enum aws_log_level level;
    LOG_GHOST_RESET();
    int r = aws_logger_set_log_level(logger, level);
    if (r == AWS_OP_SUCCESS) CANARY("level set");
    else if (g_last_error == AWS_ERROR_UNIMPLEMENTED) CANARY("unimplemented");
    else if (g_last_error == AWS_ERROR_INVALID_ARGUMENT) CANARY("invalid argument");
    else CANARY("setter failed");
}

/* plain harness (statics keep their initialisers): the table holds the right word for each of the seven levels
 * (first two letters: N-O-ne F-A-tal E-R-ror W-A-rn I-N-fo D-E-bug T-R-ace) and every name fits the 7 bytes
 * LOG_LEVEL_PREFIX_PADDING reserves for "[<name>]" */
void h_level_names(void) {
    enum aws_log_level level = nondet_u32();
    const char *name = NULL;
    __CPROVER_assume(LEVEL_REPRESENTABLE(level));
    int r = aws_log_level_to_string(level, &name);
    __CPROVER_assert((r == AWS_OP_SUCCESS) == (level < AWS_LL_COUNT), "names exist exactly for the seven levels");
    if (r == AWS_OP_SUCCESS) {
        __CPROVER_assert(name[0] == "NFEWIDT"[level] && name[1] == "OARANER"[level], "the name is the level's word");
        __CPROVER_assert(name[2] != 0 && name[3] != 0 && (name[4] == 0 || name[5] == 0), "4 or 5 letters, NUL-terminated");
        CANARY("named");
    } else {
        CANARY("no name");
    }
}

/* ------------------------------------------------------------------------------------------------------------------
 * The level gate itself is the AWS_LOGF macro (code behind a macro): instantiate the real macro in a plain harness.
 * The logger is a pipeline logger (real get/set level functions of logging.c over the real atomic word) whose `log`
 * entry counts its calls.  Complete: loop-free, the active level, the call's level, the subject and the later levels
 * are arbitrary (the seven levels; call levels FATAL..TRACE as the macro demands log_level > 0). */
static int r_log_calls;
static int r_arg_evals;
static struct aws_logger *r_log_logger;
static enum aws_log_level r_log_level;
static aws_log_subject_t r_log_subject;
static const char *r_log_format;
static int s_counting_log(struct aws_logger *logger, enum aws_log_level level, aws_log_subject_t subject, const char *format, ...) {
    r_log_calls++;
    r_log_logger = logger;
    r_log_level = level;
    r_log_subject = subject;
    r_log_format = format;
    return AWS_OP_SUCCESS;
}
static int s_evaluated_argument(void) { return ++r_arg_evals; }
static enum aws_log_level s_any_level(void) {
    enum aws_log_level l = nondet_u32();
    __CPROVER_assume(LEVEL_REPRESENTABLE(l) && l < AWS_LL_COUNT);
    return l;
}
static const char s_gate_format[] = "value %d";

void h_macro_gate(void) {
    struct aws_logger_pipeline impl;
    struct aws_logger_vtable vt = {.log = s_counting_log,
                                   .get_log_level = s_aws_logger_pipeline_get_log_level,
                                   .clean_up = NULL,
                                   .set_log_level = s_aws_logger_pipeline_set_log_level};
    struct aws_logger logger = {.vtable = &vt, .allocator = NULL, .p_impl = &impl};
    bool installed = nondet_bool();
    enum aws_log_level active = s_any_level(), call = s_any_level(), active2 = s_any_level(), call2 = s_any_level();
    aws_log_subject_t subject = nondet_u32(), subject2 = nondet_u32();
    __CPROVER_assume(call > AWS_LL_NONE && call2 > AWS_LL_NONE);
    r_log_calls = 0;
    r_arg_evals = 0;

    aws_atomic_init_int(&impl.level, (size_t)active);
    aws_logger_set(installed ? &logger : NULL); /* NULL installs the null logger, whose level is NONE */

    /* one call: exactly one line iff a logger is installed and the call's level is at or below the active level */
    AWS_LOGF(call, subject, s_gate_format, s_evaluated_argument());
    int expected = (installed && call <= active) ? 1 : 0;
    __CPROVER_assert(r_log_calls == expected, "gate: exactly one log call at or below the active level, none above");
    __CPROVER_assert(r_arg_evals == expected, "gate: format arguments are evaluated exactly when the call passes");
    if (expected) {
        __CPROVER_assert(r_log_logger == &logger && r_log_level == call && r_log_subject == subject && r_log_format == s_gate_format,
                         "gate: the call is handed on unchanged");
        CANARY("call passed");
    } else if (installed) {
        CANARY("call filtered");
    } else {
        CANARY("no logger installed");
    }

    /* a level change applies to all later calls */
    int set_result = aws_logger_set_log_level(&logger, active2);
    __CPROVER_assert(set_result == AWS_OP_SUCCESS, "level change succeeds");
    AWS_LOGF(call2, subject2, s_gate_format, s_evaluated_argument());
    int expected2 = expected + ((installed && call2 <= active2) ? 1 : 0);
    __CPROVER_assert(r_log_calls == expected2, "gate after a level change: decided by the new level only");
    __CPROVER_assert(r_arg_evals == expected2, "gate after a level change: arguments evaluated exactly when passing");
    if (installed && call2 <= active2 && call2 > active) CANARY("passes only after raising the level");
    if (installed && call2 > active2 && call2 <= active) CANARY("filtered only after lowering the level");

    /* the six per-level macros use their own level: with level X active exactly the X most severe ones log */
    int before = r_log_calls;
    AWS_LOGF_FATAL(subject, s_gate_format, s_evaluated_argument());
    __CPROVER_assert(r_log_calls == before + (installed && active2 >= AWS_LL_FATAL), "AWS_LOGF_FATAL gate");
    __CPROVER_assert(r_log_calls == before || r_log_level == AWS_LL_FATAL, "AWS_LOGF_FATAL level");
    before = r_log_calls;
    AWS_LOGF_ERROR(subject, s_gate_format, s_evaluated_argument());
    __CPROVER_assert(r_log_calls == before + (installed && active2 >= AWS_LL_ERROR), "AWS_LOGF_ERROR gate");
    __CPROVER_assert(r_log_calls == before || r_log_level == AWS_LL_ERROR, "AWS_LOGF_ERROR level");
    before = r_log_calls;
    AWS_LOGF_WARN(subject, s_gate_format, s_evaluated_argument());
    __CPROVER_assert(r_log_calls == before + (installed && active2 >= AWS_LL_WARN), "AWS_LOGF_WARN gate");
    __CPROVER_assert(r_log_calls == before || r_log_level == AWS_LL_WARN, "AWS_LOGF_WARN level");
    before = r_log_calls;
    AWS_LOGF_INFO(subject, s_gate_format, s_evaluated_argument());
    __CPROVER_assert(r_log_calls == before + (installed && active2 >= AWS_LL_INFO), "AWS_LOGF_INFO gate");
    __CPROVER_assert(r_log_calls == before || r_log_level == AWS_LL_INFO, "AWS_LOGF_INFO level");
    before = r_log_calls;
    AWS_LOGF_DEBUG(subject, s_gate_format, s_evaluated_argument());
    __CPROVER_assert(r_log_calls == before + (installed && active2 >= AWS_LL_DEBUG), "AWS_LOGF_DEBUG gate");
    __CPROVER_assert(r_log_calls == before || r_log_level == AWS_LL_DEBUG, "AWS_LOGF_DEBUG level");
    before = r_log_calls;
    AWS_LOGF_TRACE(subject, s_gate_format, s_evaluated_argument());
    __CPROVER_assert(r_log_calls == before + (installed && active2 >= AWS_LL_TRACE), "AWS_LOGF_TRACE gate");
    __CPROVER_assert(r_log_calls == before || r_log_level == AWS_LL_TRACE, "AWS_LOGF_TRACE level");
    __CPROVER_assert(r_arg_evals == r_log_calls, "arguments evaluated once per passing call");
}

/* ------------------------------------------------------------------------------------------------------------------
 * s_aws_logger_pipeline_log (variadic: DFCC 6.11 cannot enforce or replace contracts of variadic functions, so this is
 * a plain harness; CBMC's own va_list support carries it).  The formatter and the channel are stubs that count their
 * calls and return arbitrary results; aws_string_destroy (string.c) is a counting stub.
 *   exactly one format; send exactly once and only after a successful format that produced a line, with that line;
 *   the line is destroyed exactly once and exactly when send failed (ownership stays with the caller);
 *   result: success iff format and send succeeded. */
static int r_format_calls, r_send_calls, r_destroy_calls;
static int r_format_result, r_send_result;
static bool r_format_makes_line;
static struct aws_string *r_line, *r_sent, *r_destroyed;
static struct aws_log_formatter *r_formatter_seen;
static struct aws_log_channel *r_channel_seen;
static enum aws_log_level r_format_level;
static aws_log_subject_t r_format_subject;
static const char *r_format_format;
static int r_first_vararg;

static int s_stub_format(struct aws_log_formatter *formatter, struct aws_string **formatted_output, enum aws_log_level level,
                         aws_log_subject_t subject, const char *format, va_list args) {
    r_format_calls++;
    r_formatter_seen = formatter;
    r_format_level = level;
    r_format_subject = subject;
    r_format_format = format;
    r_first_vararg = va_arg(args, int);
    __CPROVER_assert(r_send_calls == 0, "format comes before send");
    if (r_format_makes_line) {
        *formatted_output = r_line;
    }
    return r_format_result;
}
static int s_stub_send(struct aws_log_channel *channel, struct aws_string *line) {
    r_send_calls++;
    r_channel_seen = channel;
    r_sent = line;
    __CPROVER_assert(r_format_calls == 1 && r_destroy_calls == 0, "send comes after format, the line is still alive");
    return r_send_result;
}
void aws_string_destroy(struct aws_string *str) {
    r_destroy_calls++;
    r_destroyed = str;
}

void h_pipeline_log(void) {
    struct aws_log_formatter_vtable fvt = {.format = s_stub_format, .clean_up = NULL};
    struct aws_log_channel_vtable cvt = {.send = s_stub_send, .clean_up = NULL};
    struct aws_log_formatter formatter = {.vtable = &fvt, .allocator = NULL, .impl = NULL};
    struct aws_log_channel channel = {.vtable = &cvt, .allocator = NULL, .writer = NULL, .impl = NULL};
    struct aws_logger_pipeline impl = {.formatter = &formatter, .channel = &channel, .writer = NULL, .allocator = NULL};
    struct aws_logger logger = {.vtable = NULL, .allocator = NULL, .p_impl = &impl};
    struct aws_string the_line;
    enum aws_log_level level = nondet_u32();
    aws_log_subject_t subject = nondet_u32();
    int vararg = nondet_int();
    r_format_calls = r_send_calls = r_destroy_calls = 0;
    r_format_result = nondet_int();
    r_send_result = nondet_int();
    r_format_makes_line = nondet_bool();
    r_line = &the_line;
    r_sent = r_destroyed = NULL;

    int r = s_aws_logger_pipeline_log(&logger, level, subject, s_gate_format, vararg);

    bool formatted = r_format_result == AWS_OP_SUCCESS && r_format_makes_line;
    __CPROVER_assert(r_format_calls == 1, "exactly one format call");
    __CPROVER_assert(r_formatter_seen == &formatter && r_format_level == level && r_format_subject == subject &&
                     r_format_format == s_gate_format && r_first_vararg == vararg, "format receives the call's level, subject, format and arguments");
    __CPROVER_assert(r_send_calls == (formatted ? 1 : 0), "exactly one send, and only for a formatted line");
    __CPROVER_assert(!formatted || (r_sent == &the_line && r_channel_seen == &channel), "the formatted line is what is sent, to the pipeline's channel");
    __CPROVER_assert(r_destroy_calls == (formatted && r_send_result != AWS_OP_SUCCESS ? 1 : 0), "line destroyed exactly when send failed (never after ownership moved)");
    __CPROVER_assert(r_destroy_calls == 0 || r_destroyed == &the_line, "the destroyed line is the formatted line");
    __CPROVER_assert((r == AWS_OP_SUCCESS) == (formatted && r_send_result == AWS_OP_SUCCESS), "success iff formatted and sent");
    __CPROVER_assert(r == AWS_OP_SUCCESS || r == AWS_OP_ERR, "result is AWS_OP_SUCCESS or AWS_OP_ERR");
    if (r == AWS_OP_SUCCESS) CANARY("line handed to the channel");
    else if (!formatted) CANARY("format failed");
    else CANARY("send failed");
}
