/* BOUNDED companion of unit background_thread (C14): the real aws_background_logger_thread (source/log_channel.c) run by
 * CBMC's symbolic execution against an environment with counting stubs - no contracts, no loop contracts, so it does
 * not depend on the shape of the thread's loops (a change that restructures them makes the unbounded unit UNDECIDED
 * "overlay anchor lost"; this unit still decides, within its bound).
 *
 * Real code: source/log_channel.c.  The array-list operations it calls are redirected (macros below) to stubs that keep
 * the same ABSTRACT view of a list as the contracts of the unbounded unit: a list is the run of sequence numbers
 * [base, base + length) (real `length` field, ghost base per list); get_at hands out line number base + index.
 * (The real inline list code on real memory was tried first: fine on the unchanged tree - 100 s at 40 lines - but a
 * variant that pops lines off the front (memmove with symbolic size) needed > 24 GB.)
 * Stubs: aws_mutex_lock/unlock (ghost lock state), aws_condition_variable_wait_pred (synchronisation point: an
 * arbitrary number of new lines is appended to the pending list - as senders do under the mutex - and `finished` is
 * left with an arbitrary value), the writer's write function and aws_string_destroy (ghost counters), aws_fatal_assert
 * (assert(0)).
 *
 * Lines are the elements of a static table: line n is &r_store[n]; n is its sequence number (acceptance order).
 * Checked at every call:   write call n is handed line n, which has not been destroyed yet  (in order, exactly once);
 *                          destroy call n destroys line n, after write call n               (exactly once);
 * checked at return:       finished was seen, the pending list is empty, writes == destroys == accepted lines,
 *                          the mutex is released.
 * Bound (VERIF_BGT_LINES / VERIF_BGT_WAITS): at most VERIF_BGT_LINES lines are accepted over the whole run; waits
 * number 1 .. VERIF_BGT_WAITS-1 are unconstrained, from wait number VERIF_BGT_WAITS on `finished` is set and nothing
 * arrives any more; the thread then needs at most VERIF_BGT_WAITS+1 rounds, which is asserted (r_rounds). */
#define VERIF_CHANNEL_TU
#define VERIF_TRACK_ERRORS
#include "contracts/logging.h" /* ghost variables named by the loop contracts that the overlay inserts into log_channel.c */
#include <stdlib.h>

#define aws_array_list_init_dynamic r_list_init_dynamic
#define aws_array_list_length r_list_length
#define aws_array_list_swap_contents r_list_swap_contents
#define aws_array_list_get_at r_list_get_at
#define aws_array_list_clear r_list_clear
#define aws_array_list_clean_up r_list_clean_up
#define aws_array_list_push_back r_list_push_back
#define aws_array_list_pop_front_n r_list_pop_front_n
static int r_list_init_dynamic(struct aws_array_list *list, struct aws_allocator *alloc, size_t initial_item_allocation, size_t item_size);
static size_t r_list_length(const struct aws_array_list *list);
static void r_list_swap_contents(struct aws_array_list *list_a, struct aws_array_list *list_b);
static int r_list_get_at(const struct aws_array_list *list, void *val, size_t index);
static void r_list_clear(struct aws_array_list *list);
static void r_list_clean_up(struct aws_array_list *list);
static int r_list_push_back(struct aws_array_list *list, const void *val);
static void r_list_pop_front_n(struct aws_array_list *list, size_t n);
#include "source/log_channel.c"
#undef aws_array_list_init_dynamic
#undef aws_array_list_length
#undef aws_array_list_swap_contents
#undef aws_array_list_get_at
#undef aws_array_list_clear
#undef aws_array_list_clean_up
#undef aws_array_list_push_back
#undef aws_array_list_pop_front_n

#ifndef VERIF_BGT_LINES
#    define VERIF_BGT_LINES 40
#endif
#ifndef VERIF_BGT_WAITS
#    define VERIF_BGT_WAITS 3
#endif

static struct aws_string r_store[VERIF_BGT_LINES + 1];
#define B_LINE(n) (&r_store[n])
static size_t r_accepted, r_writes, r_destroys, r_waits, r_rounds, r_first_batch;
static bool r_locked, r_finished_at_first_wait;
static struct aws_log_background_channel *r_impl;
static struct aws_log_writer *r_writer;

void aws_fatal_assert(const char *cond_str, const char *file, int line) {
    (void)cond_str; (void)file; (void)line;
    __CPROVER_assert(0, "aws_fatal_assert reached: the thread would abort");
    __CPROVER_assume(0);
}
void aws_raise_error_private(int err) { g_last_error = err; g_raise_count++; }
/* ---- abstract lists: the pending list (r_base_p) and the thread's private list (r_local, r_base_l) */
static size_t r_base_p, r_base_l, r_local_inits, r_local_cleanups;
static struct aws_array_list *r_local;
#define B_PENDING (&r_impl->pending_log_lines)
#define B_CHECK_LIST(l, what)                                                                                          \
    __CPROVER_assert(((l) == B_PENDING && r_locked) || ((l) != B_PENDING && (l) == r_local),                           \
                     what ": the thread's private list, or the pending list while the channel mutex is held")
static int r_list_init_dynamic(struct aws_array_list *list, struct aws_allocator *alloc, size_t initial_item_allocation, size_t item_size) {
    (void)initial_item_allocation;
    __CPROVER_assert(list != B_PENDING && alloc != NULL && item_size == sizeof(struct aws_string *) && r_local_inits == 0,
                     "init_dynamic: the thread's one private list of line pointers");
    list->alloc = alloc;
    list->current_size = 0;
    list->length = 0;
    list->item_size = item_size;
    list->data = NULL; /* no storage: any real list code that touched it would be flagged */
    r_local = list;
    r_base_l = 0;
    r_local_inits++;
    return AWS_OP_SUCCESS; /* cannot fail: 10 * 8 does not overflow, aws_mem_acquire aborts instead of returning NULL */
}
static size_t r_list_length(const struct aws_array_list *list) {
    B_CHECK_LIST(list, "length");
    return list->length;
}
static void r_list_swap_contents(struct aws_array_list *list_a, struct aws_array_list *list_b) {
    __CPROVER_assert(r_locked, "swap_contents: the pending list is only touched while the channel mutex is held");
    __CPROVER_assert((list_a == B_PENDING && list_b == r_local) || (list_a == r_local && list_b == B_PENDING), "swap_contents: pending list and private list");
    __CPROVER_assert(list_a->alloc != NULL && list_a->alloc == list_b->alloc && list_a->item_size == list_b->item_size, "swap_contents: the real function's fatal preconditions");
    struct aws_array_list tmp = *list_a;
    *list_a = *list_b;
    *list_b = tmp;
    size_t t = r_base_p;
    r_base_p = r_base_l;
    r_base_l = t;
}
static int r_list_get_at(const struct aws_array_list *list, void *val, size_t index) {
    B_CHECK_LIST(list, "get_at");
    if (index < list->length) {
        size_t n = (list == B_PENDING ? r_base_p : r_base_l) + index;
        __CPROVER_assert(n < r_accepted, "model: a list holds accepted lines only");
        *(struct aws_string **)val = B_LINE(n);
        return AWS_OP_SUCCESS;
    }
    return aws_raise_error(AWS_ERROR_INVALID_INDEX);
}
static void r_list_clear(struct aws_array_list *list) {
    B_CHECK_LIST(list, "clear");
    list->length = 0;
}
static void r_list_clean_up(struct aws_array_list *list) {
    __CPROVER_assert(list == r_local && r_local_inits == 1 && r_local_cleanups == 0 && !r_locked, "clean_up: the private list, once");
    r_local_cleanups++;
    AWS_ZERO_STRUCT(*list);
}
static int r_list_push_back(struct aws_array_list *list, const void *val) { /* sender side (s_background_channel_send): not part of this unit */
    (void)list; (void)val;
    __CPROVER_assert(0, "push_back is not called by the thread");
    return AWS_OP_ERR;
}
static void r_list_pop_front_n(struct aws_array_list *list, size_t n) { /* the first n elements go, the rest keep their numbers */
    B_CHECK_LIST(list, "pop_front_n");
    size_t k = n >= list->length ? list->length : n;
    list->length -= k;
    if (list == B_PENDING) r_base_p += k; else r_base_l += k;
}

int aws_mutex_lock(struct aws_mutex *mutex) {
    __CPROVER_assert(mutex == &r_impl->sync && !r_locked, "lock: the channel's own mutex, not held yet");
    r_locked = true;
    r_rounds++;
    /* the bounded environment lets the thread finish within VERIF_BGT_WAITS+1 rounds: asserted, then cut */
    __CPROVER_assert(r_rounds <= VERIF_BGT_WAITS + 1, "bounded environment: no further round of the main loop is needed");
    __CPROVER_assume(r_rounds <= VERIF_BGT_WAITS + 1);
    return AWS_OP_SUCCESS;
}
int aws_mutex_unlock(struct aws_mutex *mutex) {
    __CPROVER_assert(mutex == &r_impl->sync && r_locked, "unlock: the channel's own mutex, held");
    r_locked = false;
    return AWS_OP_SUCCESS;
}
int aws_condition_variable_wait_pred(
    struct aws_condition_variable *condition_variable,
    struct aws_mutex *mutex,
    aws_condition_predicate_fn *pred,
    void *pred_ctx) {
    (void)pred; (void)pred_ctx;
    __CPROVER_assert(condition_variable == &r_impl->pending_line_signal && mutex == &r_impl->sync && r_locked,
                     "wait: the channel's signal, with the channel mutex held");
    r_waits++;
    if (r_waits >= VERIF_BGT_WAITS) {
        r_impl->finished = true;
    } else {
        size_t add = nondet_size_t();
        __CPROVER_assume(add <= VERIF_BGT_LINES - r_accepted);
        if (B_PENDING->length == 0) {
            r_base_p = r_accepted;
        } else {
            __CPROVER_assert(r_base_p + B_PENDING->length == r_accepted, "the pending list holds exactly the accepted lines this thread has not taken yet");
        }
        B_PENDING->length += add; /* what `add` calls of s_background_channel_send do */
        r_accepted += add;
        r_impl->finished = nondet_bool();
        if (r_waits == 1) {
            r_first_batch = add;
            r_finished_at_first_wait = r_impl->finished;
        }
    }
    return nondet_int(); /* the thread ignores it */
}

static int r_write(struct aws_log_writer *writer, const struct aws_string *output) {
    __CPROVER_assert(writer == r_writer, "write: the channel's writer");
    __CPROVER_assert(r_writes < r_accepted, "write: no more write calls than accepted lines");
    __CPROVER_assert(r_destroys <= r_writes, "write: the line handed to the writer is still alive");
    __CPROVER_assert(output == B_LINE(r_writes), "write call n is handed line n (in order, exactly once)");
    r_writes++;
    return nondet_int();
}
void aws_string_destroy(struct aws_string *str) {
    __CPROVER_assert(r_destroys < r_writes, "destroy: a line is destroyed only after it was written");
    __CPROVER_assert(str == B_LINE(r_destroys), "destroy call n destroys line n (exactly once)");
    r_destroys++;
}

void h_background_thread_bounded(void) {
    struct aws_allocator alloc;
    struct aws_log_writer_vtable wvt = {.write = r_write, .clean_up = NULL};
    struct aws_log_writer writer = {.vtable = &wvt, .allocator = &alloc, .impl = NULL};
    struct aws_log_background_channel impl;
    struct aws_log_channel channel = {.vtable = &s_background_channel_vtable, .allocator = &alloc, .writer = &writer, .impl = &impl};
    r_accepted = r_writes = r_destroys = r_waits = r_rounds = r_first_batch = 0;
    r_locked = r_finished_at_first_wait = false;
    r_impl = &impl;
    r_writer = &writer;
    /* as aws_log_channel_init_background leaves it */
    impl.finished = false;
    impl.pending_log_lines = (struct aws_array_list){.alloc = &alloc, .current_size = 0, .length = 0, .item_size = sizeof(struct aws_string *), .data = NULL};
    r_base_p = r_base_l = r_local_inits = r_local_cleanups = 0;
    r_local = NULL;

    aws_background_logger_thread(&channel);

    __CPROVER_assert(impl.finished, "returns only after it has seen finished");
    __CPROVER_assert(impl.pending_log_lines.length == 0, "nothing is left pending");
    __CPROVER_assert(r_writes == r_accepted, "every accepted line was handed to the writer");
    __CPROVER_assert(r_destroys == r_accepted, "every accepted line was destroyed");
    __CPROVER_assert(!r_locked, "the mutex is released");
    __CPROVER_assert(r_local_inits == r_local_cleanups, "a private list that was initialised was cleaned up");
    CANARY("returned");
    if (r_accepted == 0) CANARY("returned without ever seeing a line");
    if (r_first_batch > 32 && r_finished_at_first_wait) CANARY("more than 32 lines pending when finished is first seen");
    if (r_accepted > r_first_batch && r_first_batch > 0) CANARY("lines arrived while a batch was being written");
}
