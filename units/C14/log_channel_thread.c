/* BOUNDED companion of unit background_thread (C14): the real aws_background_logger_thread (source/log_channel.c) run by
 * CBMC's symbolic execution against an environment with counting stubs - no contracts, no loop contracts, so it does
 * not depend on the shape of the thread's loops (a change that restructures them makes the unbounded unit UNDECIDED
 * "overlay anchor lost"; this unit still decides, within its bound).
 *
 * Real code: source/log_channel.c and the real inline array-list operations of array_list.inl (push_back/set_at,
 * swap_contents, get_at, clear, length, clean_up, pop_front_n, ...) on real memory; only allocation is simplified
 * (init_dynamic gives every list room for 64 elements, so that the growth path of source/array_list.c is not needed).
 * Stubs: aws_mutex_lock/unlock (ghost lock state), aws_condition_variable_wait_pred (synchronisation point: appends an
 * arbitrary number of new lines with the real aws_array_list_push_back - as a sender would under the mutex - and leaves
 * `finished` with an arbitrary value), the writer's write function and aws_string_destroy (ghost counters),
 * aws_mem_acquire/release (malloc/free, never NULL: OOM aborts in this library version), aws_fatal_assert (assert(0)).
 *
 * Lines are the elements of a static table: line n is &b_store[n]; n is its sequence number (acceptance order).
 * Checked at every call:   write call n is handed line n, which has not been destroyed yet  (in order, exactly once);
 *                          destroy call n destroys line n, after write call n               (exactly once);
 * checked at return:       finished was seen, the pending list is empty, writes == destroys == accepted lines,
 *                          the mutex is released.
 * Bound (VERIF_BGT_LINES / VERIF_BGT_WAITS): at most VERIF_BGT_LINES lines are accepted over the whole run; waits
 * number 1 .. VERIF_BGT_WAITS-1 are unconstrained, from wait number VERIF_BGT_WAITS on `finished` is set and nothing
 * arrives any more; the thread then needs at most VERIF_BGT_WAITS+1 rounds, which is asserted (b_rounds). */
#define VERIF_CHANNEL_TU
#define VERIF_TRACK_ERRORS
#include "contracts/logging.h" /* ghost variables named by the loop contracts that the overlay inserts into log_channel.c */
#include "source/log_channel.c"
#include <stdlib.h>

#ifndef VERIF_BGT_LINES
#    define VERIF_BGT_LINES 40
#endif
#ifndef VERIF_BGT_WAITS
#    define VERIF_BGT_WAITS 3
#endif

static struct aws_string b_store[VERIF_BGT_LINES + 1];
#define B_LINE(n) (&b_store[n])
static size_t b_accepted, b_writes, b_destroys, b_waits, b_rounds, b_first_batch;
static bool b_locked, b_finished_at_first_wait;
static struct aws_log_background_channel *b_impl;
static struct aws_log_writer *b_writer;

void aws_fatal_assert(const char *cond_str, const char *file, int line) {
    (void)cond_str; (void)file; (void)line;
    __CPROVER_assert(0, "aws_fatal_assert reached: the thread would abort");
    __CPROVER_assume(0);
}
void aws_raise_error_private(int err) { g_last_error = err; g_raise_count++; }
void *aws_mem_acquire(struct aws_allocator *allocator, size_t size) {
    (void)allocator;
    void *p = malloc(size);
    __CPROVER_assume(p != NULL);
    return p;
}
void aws_mem_release(struct aws_allocator *allocator, void *ptr) {
    (void)allocator;
    free(ptr);
}
/* source/array_list.c is not part of this unit: a dynamic list gets room for B_CAP (> VERIF_BGT_LINES) elements at once,
 * so growing is never needed (asserted).  Everything else - push_back/set_at, swap_contents, get_at, clear, length,
 * pop_front_n, clean_up - is the real inline code of array_list.inl working on that memory. */
#define B_CAP 64
int aws_array_list_init_dynamic(struct aws_array_list *list, struct aws_allocator *alloc, size_t initial_item_allocation, size_t item_size) {
    __CPROVER_assert(alloc != NULL && item_size == sizeof(struct aws_string *) && initial_item_allocation <= B_CAP, "init_dynamic: a list of line pointers");
    list->alloc = alloc;
    list->current_size = B_CAP * sizeof(struct aws_string *);
    list->length = 0;
    list->item_size = item_size;
    list->data = aws_mem_acquire(alloc, B_CAP * sizeof(struct aws_string *));
    return AWS_OP_SUCCESS;
}
int aws_array_list_ensure_capacity(struct aws_array_list *list, size_t index) {
    __CPROVER_assert(index < B_CAP && list->current_size == B_CAP * sizeof(struct aws_string *), "bounded environment: the list never has to grow");
    return AWS_OP_SUCCESS;
}

int aws_mutex_lock(struct aws_mutex *mutex) {
    __CPROVER_assert(mutex == &b_impl->sync && !b_locked, "lock: the channel's own mutex, not held yet");
    b_locked = true;
    b_rounds++;
    /* the bounded environment lets the thread finish within VERIF_BGT_WAITS+1 rounds: asserted, then cut */
    __CPROVER_assert(b_rounds <= VERIF_BGT_WAITS + 1, "bounded environment: no further round of the main loop is needed");
    __CPROVER_assume(b_rounds <= VERIF_BGT_WAITS + 1);
    return AWS_OP_SUCCESS;
}
int aws_mutex_unlock(struct aws_mutex *mutex) {
    __CPROVER_assert(mutex == &b_impl->sync && b_locked, "unlock: the channel's own mutex, held");
    b_locked = false;
    return AWS_OP_SUCCESS;
}
int aws_condition_variable_wait_pred(
    struct aws_condition_variable *condition_variable,
    struct aws_mutex *mutex,
    aws_condition_predicate_fn *pred,
    void *pred_ctx) {
    (void)pred; (void)pred_ctx;
    __CPROVER_assert(condition_variable == &b_impl->pending_line_signal && mutex == &b_impl->sync && b_locked,
                     "wait: the channel's signal, with the channel mutex held");
    b_waits++;
    if (b_waits >= VERIF_BGT_WAITS) {
        b_impl->finished = true;
    } else {
        size_t add = nondet_size_t();
        __CPROVER_assume(add <= VERIF_BGT_LINES - b_accepted);
        for (size_t k = 0; k < add; ++k) {
            struct aws_string *line = B_LINE(b_accepted);
            int r = aws_array_list_push_back(&b_impl->pending_log_lines, &line); /* what s_background_channel_send does */
            __CPROVER_assert(r == AWS_OP_SUCCESS, "environment: the sender's push succeeds");
            b_accepted++;
        }
        b_impl->finished = nondet_bool();
        if (b_waits == 1) {
            b_first_batch = add;
            b_finished_at_first_wait = b_impl->finished;
        }
    }
    return nondet_int(); /* the thread ignores it */
}

static int b_write(struct aws_log_writer *writer, const struct aws_string *output) {
    __CPROVER_assert(writer == b_writer, "write: the channel's writer");
    __CPROVER_assert(b_writes < b_accepted, "write: no more write calls than accepted lines");
    __CPROVER_assert(b_destroys <= b_writes, "write: the line handed to the writer is still alive");
    __CPROVER_assert(output == B_LINE(b_writes), "write call n is handed line n (in order, exactly once)");
    b_writes++;
    return nondet_int();
}
void aws_string_destroy(struct aws_string *str) {
    __CPROVER_assert(b_destroys < b_writes, "destroy: a line is destroyed only after it was written");
    __CPROVER_assert(str == B_LINE(b_destroys), "destroy call n destroys line n (exactly once)");
    b_destroys++;
}

void h_background_thread_bounded(void) {
    struct aws_allocator alloc;
    struct aws_log_writer_vtable wvt = {.write = b_write, .clean_up = NULL};
    struct aws_log_writer writer = {.vtable = &wvt, .allocator = &alloc, .impl = NULL};
    struct aws_log_background_channel impl;
    struct aws_log_channel channel = {.vtable = &s_background_channel_vtable, .allocator = &alloc, .writer = &writer, .impl = &impl};
    b_accepted = b_writes = b_destroys = b_waits = b_rounds = b_first_batch = 0;
    b_locked = b_finished_at_first_wait = false;
    b_impl = &impl;
    b_writer = &writer;
    /* as aws_log_channel_init_background leaves it */
    impl.finished = false;
    int r0 = aws_array_list_init_dynamic(&impl.pending_log_lines, &alloc, 10, sizeof(struct aws_string *));
    __CPROVER_assert(r0 == AWS_OP_SUCCESS, "environment: pending list initialised");

    aws_background_logger_thread(&channel);

    __CPROVER_assert(impl.finished, "returns only after it has seen finished");
    __CPROVER_assert(aws_array_list_length(&impl.pending_log_lines) == 0, "nothing is left pending");
    __CPROVER_assert(b_writes == b_accepted, "every accepted line was handed to the writer");
    __CPROVER_assert(b_destroys == b_accepted, "every accepted line was destroyed");
    __CPROVER_assert(!b_locked, "the mutex is released");
    CANARY("returned");
    if (b_accepted == 0) CANARY("returned without ever seeing a line");
    if (b_first_batch > 32 && b_finished_at_first_wait) CANARY("more than 32 lines pending when finished is first seen");
    if (b_accepted > b_first_batch && b_first_batch > 0) CANARY("lines arrived while a batch was being written");
}
