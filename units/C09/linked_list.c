/* Proof unit for C09 (intrusive linked list): the real include/aws/common/linked_list.inl (through linked_list.h)
 * run on the closed node universe of contracts/linked_list.h.  Every harness: arbitrary universe, the operation's
 * precondition, the real call, then the whole universe is compared with the reference result (exact links, frame,
 * mirror invariant).  All loops range over the LL_N universe nodes (constant), so unwinding LL_N+1 is complete.
 * r_p0 / r_p1 (contracts/linked_list.h) record the operation's arguments (node / list indices) for the native replay. */
#include "contracts/linked_list.h"

void aws_fatal_assert(const char *cond_str, const char *file, int line) {
    (void)cond_str; (void)file; (void)line;
    __CPROVER_assert(0, "aws_fatal_assert reached: the library would abort");
    __CPROVER_assume(0);
}

static size_t any_node(void) { size_t i = nondet_size_t(); __CPROVER_assume(i < LL_N); return i; }
static size_t any_list(void) { size_t l = nondet_size_t(); __CPROVER_assume(l < LL_NL); return l; }
/* a node a client may insert: not a sentinel */
static size_t any_client_node(void) { size_t i = any_node(); __CPROVER_assume(i < LL_K || i == LL_OUTSIDE); return i; }

void h_init(void) {
    ll_setup();
    size_t l = any_list();
    r_p0 = l;
    aws_linked_list_init(&ll_list[l]);
    ll_ex_nx[LL_HEAD(l)] = LL_TAIL(l); ll_ex_pv[LL_HEAD(l)] = LL_NONE;
    ll_ex_pv[LL_TAIL(l)] = LL_HEAD(l); ll_ex_nx[LL_TAIL(l)] = LL_NONE;
    for (size_t i = 0; i < LL_N; ++i) {
        __CPROVER_assert(ll_u(i)->next == ll_u(ll_ex_nx[i]) && ll_u(i)->prev == ll_u(ll_ex_pv[i]), "init: list empty, nothing else changed");
    }
    __CPROVER_assert(aws_linked_list_empty(&ll_list[l]) && aws_linked_list_is_valid(&ll_list[l]), "init: empty and valid");
    CANARY("init returned");
}

void h_insert_after(void) {
    ll_setup();
    size_t a = any_node(), t = any_node();
    __CPROVER_assume(a != t && ll_nx[a] != LL_NONE); /* aws_linked_list_node_next_is_valid(after) */
    __CPROVER_assume(ll_pre_inv(t) && ll_detached(t));
    r_p0 = a; r_p1 = t;
    aws_linked_list_insert_after(ll_u(a), ll_u(t));
    ll_ref_insert_between(a, t, ll_nx[a]);
    ll_check_post();
    if (ll_pv[a] == LL_NONE) CANARY("after a head sentinel (node without predecessor)"); else CANARY("after an interior node");
    if (ll_nx[ll_nx[a]] == LL_NONE) CANARY("before a tail sentinel (node without successor)");
}

void h_insert_before(void) {
    ll_setup();
    size_t b = any_node(), t = any_node();
    __CPROVER_assume(b != t && ll_pv[b] != LL_NONE); /* aws_linked_list_node_prev_is_valid(before) */
    __CPROVER_assume(ll_pre_inv(t) && ll_detached(t));
    r_p0 = b; r_p1 = t;
    aws_linked_list_insert_before(ll_u(b), ll_u(t));
    ll_ref_insert_between(ll_pv[b], t, b);
    ll_check_post();
    if (ll_nx[b] == LL_NONE) CANARY("before a tail sentinel (node without successor)"); else CANARY("before an interior node");
    if (ll_pv[ll_pv[b]] == LL_NONE) CANARY("after a head sentinel (node without predecessor)");
}

void h_remove(void) {
    ll_setup();
    size_t x = any_node();
    __CPROVER_assume(ll_nx[x] != LL_NONE && ll_pv[x] != LL_NONE);
    __CPROVER_assume(ll_pre_inv(LL_NONE));
    r_p0 = x;
    aws_linked_list_remove(ll_u(x));
    ll_ref_remove(x);
    ll_check_post();
    __CPROVER_assert(ll_u(x)->next == NULL && ll_u(x)->prev == NULL, "removed node has no links");
    for (size_t i = 0; i < LL_N; ++i) {
        __CPROVER_assert(ll_u(i)->next != ll_u(x) && ll_u(i)->prev != ll_u(x), "removed node is fully detached: no node links to it");
    }
    if (ll_pv[ll_pv[x]] == LL_NONE && ll_nx[ll_nx[x]] == LL_NONE) CANARY("only element between two sentinels"); else CANARY("interior element");
}

void h_swap_nodes(void) {
    ll_setup();
    size_t a = any_node(), b = any_node();
    __CPROVER_assume(ll_nx[a] != LL_NONE && ll_pv[a] != LL_NONE && ll_nx[b] != LL_NONE && ll_pv[b] != LL_NONE);
    __CPROVER_assume(ll_pre_inv(LL_NONE));
    size_t pa = ll_pv[a], na = ll_nx[a], pb = ll_pv[b], nb = ll_nx[b];
    r_p0 = a; r_p1 = b;
    aws_linked_list_swap_nodes(ll_u(a), ll_u(b));
    /* reference: a and b exchange their positions in the sequence(s) */
    if (a == b) {
    } else if (na == b) { /* ... pa a b nb ...  ->  ... pa b a nb ... */
        ll_ex_nx[pa] = b; ll_ex_pv[b] = pa; ll_ex_nx[b] = a; ll_ex_pv[a] = b; ll_ex_nx[a] = nb; ll_ex_pv[nb] = a;
    } else if (nb == a) { /* ... pb b a na ...  ->  ... pb a b na ... */
        ll_ex_nx[pb] = a; ll_ex_pv[a] = pb; ll_ex_nx[a] = b; ll_ex_pv[b] = a; ll_ex_nx[b] = na; ll_ex_pv[na] = b;
    } else { /* apart (possibly one shared neighbour, possibly different lists) */
        ll_ex_nx[pa] = b; ll_ex_pv[b] = pa; ll_ex_nx[b] = na; ll_ex_pv[na] = b;
        ll_ex_nx[pb] = a; ll_ex_pv[a] = pb; ll_ex_nx[a] = nb; ll_ex_pv[nb] = a;
    }
    ll_check_post();
    if (a == b) CANARY("identical nodes");
    else if (na == b) CANARY("adjacent, a first");
    else if (nb == a) CANARY("adjacent, b first");
    else if (na == pb) CANARY("one node between, a first");
    else if (nb == pa) CANARY("one node between, b first");
    else CANARY("apart");
    if (a != b && ll_pv[pa] == LL_NONE && ll_nx[nb] == LL_NONE && na == b) CANARY("the two only elements between two sentinels");
}

void h_push_back(void) {
    ll_setup();
    size_t l = any_list(), t = any_client_node();
    __CPROVER_assume(ll_list_ok(l) && ll_pre_inv(t) && ll_detached(t));
    r_p0 = l; r_p1 = t;
    aws_linked_list_push_back(&ll_list[l], ll_u(t));
    ll_ref_insert_between(ll_pv[LL_TAIL(l)], t, LL_TAIL(l));
    ll_check_post();
    __CPROVER_assert(ll_list[l].tail.prev == ll_u(t), "node is the new last element");
    if (ll_nx[LL_HEAD(l)] == LL_TAIL(l)) CANARY("into an empty list"); else CANARY("into a non-empty list");
}

void h_push_front(void) {
    ll_setup();
    size_t l = any_list(), t = any_client_node();
    __CPROVER_assume(ll_list_ok(l) && ll_pre_inv(t) && ll_detached(t));
    r_p0 = l; r_p1 = t;
    aws_linked_list_push_front(&ll_list[l], ll_u(t));
    ll_ref_insert_between(LL_HEAD(l), t, ll_nx[LL_HEAD(l)]);
    ll_check_post();
    __CPROVER_assert(ll_list[l].head.next == ll_u(t), "node is the new first element");
    if (ll_nx[LL_HEAD(l)] == LL_TAIL(l)) CANARY("into an empty list"); else CANARY("into a non-empty list");
}

void h_pop_back(void) {
    ll_setup();
    size_t l = any_list();
    __CPROVER_assume(ll_list_ok(l) && ll_pre_inv(LL_NONE));
    __CPROVER_assume(ll_nx[LL_HEAD(l)] != LL_TAIL(l)); /* !aws_linked_list_empty(list) */
    size_t x = ll_pv[LL_TAIL(l)];
    __CPROVER_assume(ll_pv[x] != LL_NONE); /* the back element is reachable from head, so it has a predecessor */
    r_p0 = l;
    struct aws_linked_list_node *r = aws_linked_list_pop_back(&ll_list[l]);
    __CPROVER_assert(r == ll_u(x), "pop_back returns the old last element");
    ll_ref_remove(x);
    ll_check_post();
    __CPROVER_assert(r->next == NULL && r->prev == NULL, "popped node is detached");
    if (ll_pv[x] == LL_HEAD(l)) CANARY("list becomes empty"); else CANARY("list stays non-empty");
}

void h_pop_front(void) {
    ll_setup();
    size_t l = any_list();
    __CPROVER_assume(ll_list_ok(l) && ll_pre_inv(LL_NONE));
    __CPROVER_assume(ll_nx[LL_HEAD(l)] != LL_TAIL(l));
    size_t x = ll_nx[LL_HEAD(l)];
    __CPROVER_assume(ll_nx[x] != LL_NONE); /* the front element reaches the tail, so it has a successor */
    r_p0 = l;
    struct aws_linked_list_node *r = aws_linked_list_pop_front(&ll_list[l]);
    __CPROVER_assert(r == ll_u(x), "pop_front returns the old first element");
    ll_ref_remove(x);
    ll_check_post();
    __CPROVER_assert(r->next == NULL && r->prev == NULL, "popped node is detached");
    if (ll_nx[x] == LL_TAIL(l)) CANARY("list becomes empty"); else CANARY("list stays non-empty");
}

/* a := old b, b := old a (interior links untouched, so the element order of both sequences is kept) */
void h_swap_contents(void) {
    ll_setup();
    size_t a = any_list(), b = any_list();
    __CPROVER_assume(a != b && ll_list_ok(a) && ll_list_ok(b) && ll_pre_inv(LL_NONE));
    size_t af = ll_nx[LL_HEAD(a)], al = ll_pv[LL_TAIL(a)], bf = ll_nx[LL_HEAD(b)], bl = ll_pv[LL_TAIL(b)];
    bool a_empty = af == LL_TAIL(a), b_empty = bf == LL_TAIL(b);
    r_p0 = a; r_p1 = b;
    aws_linked_list_swap_contents(&ll_list[a], &ll_list[b]);
    if (b_empty) ll_ref_make_empty(a);
    else { ll_ex_nx[LL_HEAD(a)] = bf; ll_ex_pv[bf] = LL_HEAD(a); ll_ex_pv[LL_TAIL(a)] = bl; ll_ex_nx[bl] = LL_TAIL(a); }
    if (a_empty) ll_ref_make_empty(b);
    else { ll_ex_nx[LL_HEAD(b)] = af; ll_ex_pv[af] = LL_HEAD(b); ll_ex_pv[LL_TAIL(b)] = al; ll_ex_nx[al] = LL_TAIL(b); }
    ll_check_post();
    if (a_empty && b_empty) CANARY("both empty");
    else if (a_empty) CANARY("a empty");
    else if (b_empty) CANARY("b empty");
    else if (af == al && bf == bl) CANARY("single elements"); else CANARY("both non-empty");
}

/* dst := old dst ++ old src, src := empty */
void h_move_all_back(void) {
    ll_setup();
    size_t d = any_list(), s = any_list();
    __CPROVER_assume(d != s && ll_list_ok(d) && ll_list_ok(s) && ll_pre_inv(LL_NONE));
    size_t sf = ll_nx[LL_HEAD(s)], sl = ll_pv[LL_TAIL(s)], dl = ll_pv[LL_TAIL(d)];
    r_p0 = d; r_p1 = s;
    aws_linked_list_move_all_back(&ll_list[d], &ll_list[s]);
    if (sf != LL_TAIL(s)) {
        ll_ex_nx[dl] = sf; ll_ex_pv[sf] = dl; ll_ex_pv[LL_TAIL(d)] = sl; ll_ex_nx[sl] = LL_TAIL(d);
        ll_ref_make_empty(s);
    }
    ll_check_post();
    if (sf == LL_TAIL(s)) CANARY("source empty");
    else if (dl == LL_HEAD(d)) CANARY("destination empty"); else CANARY("both non-empty");
}

/* dst := old src ++ old dst, src := empty */
void h_move_all_front(void) {
    ll_setup();
    size_t d = any_list(), s = any_list();
    __CPROVER_assume(d != s && ll_list_ok(d) && ll_list_ok(s) && ll_pre_inv(LL_NONE));
    size_t sf = ll_nx[LL_HEAD(s)], sl = ll_pv[LL_TAIL(s)], df = ll_nx[LL_HEAD(d)];
    r_p0 = d; r_p1 = s;
    aws_linked_list_move_all_front(&ll_list[d], &ll_list[s]);
    if (sf != LL_TAIL(s)) {
        ll_ex_nx[LL_HEAD(d)] = sf; ll_ex_pv[sf] = LL_HEAD(d); ll_ex_nx[sl] = df; ll_ex_pv[df] = sl;
        ll_ref_make_empty(s);
    }
    ll_check_post();
    if (sf == LL_TAIL(s)) CANARY("source empty");
    else if (df == LL_TAIL(d)) CANARY("destination empty"); else CANARY("both non-empty");
}

/* observers: results are the links themselves, nothing is written */
void h_observers(void) {
    ll_setup();
    size_t l = any_list(), x = any_node();
    __CPROVER_assume(ll_list_ok(l) && ll_pre_inv(LL_NONE));
    const struct aws_linked_list *list = &ll_list[l];
    r_p0 = l; r_p1 = x;
    __CPROVER_assert(aws_linked_list_is_valid(list), "is_valid on a valid list");
    __CPROVER_assert(aws_linked_list_empty(list) == (ll_nx[LL_HEAD(l)] == LL_TAIL(l)), "empty <=> head.next == tail");
    __CPROVER_assert(aws_linked_list_empty(list) == (ll_pv[LL_TAIL(l)] == LL_HEAD(l)), "empty <=> tail.prev == head (mirror)");
    __CPROVER_assert(aws_linked_list_begin(list) == ll_u(ll_nx[LL_HEAD(l)]), "begin");
    __CPROVER_assert(aws_linked_list_end(list) == ll_u(LL_TAIL(l)), "end");
    __CPROVER_assert(aws_linked_list_rbegin(list) == ll_u(ll_pv[LL_TAIL(l)]), "rbegin");
    __CPROVER_assert(aws_linked_list_rend(list) == ll_u(LL_HEAD(l)), "rend");
    if (ll_nx[LL_HEAD(l)] != LL_TAIL(l)) {
        __CPROVER_assert(aws_linked_list_front(list) == ll_u(ll_nx[LL_HEAD(l)]), "front");
        __CPROVER_assert(aws_linked_list_back(list) == ll_u(ll_pv[LL_TAIL(l)]), "back");
        CANARY("non-empty list");
    } else CANARY("empty list");
    __CPROVER_assert(aws_linked_list_node_next_is_valid(ll_u(x)) == (ll_nx[x] != LL_NONE), "next_is_valid");
    __CPROVER_assert(aws_linked_list_node_prev_is_valid(ll_u(x)) == (ll_pv[x] != LL_NONE), "prev_is_valid");
    __CPROVER_assert(aws_linked_list_node_is_in_list(ll_u(x)) == (ll_nx[x] != LL_NONE && ll_pv[x] != LL_NONE), "node_is_in_list");
    if (ll_nx[x] != LL_NONE) {
        struct aws_linked_list_node *n = aws_linked_list_next(ll_u(x));
        __CPROVER_assert(n == ll_u(ll_nx[x]) && aws_linked_list_prev(n) == ll_u(x), "prev(next(x)) == x");
        CANARY("has successor");
    }
    if (ll_pv[x] != LL_NONE) {
        struct aws_linked_list_node *p = aws_linked_list_prev(ll_u(x));
        __CPROVER_assert(p == ll_u(ll_pv[x]) && aws_linked_list_next(p) == ll_u(x), "next(prev(x)) == x");
        CANARY("has predecessor");
    }
    ll_check_post();
}

void h_node_reset(void) {
    ll_setup();
    size_t x = any_node();
    r_p0 = x;
    aws_linked_list_node_reset(ll_u(x));
    ll_ex_nx[x] = LL_NONE; ll_ex_pv[x] = LL_NONE;
    for (size_t i = 0; i < LL_N; ++i) {
        __CPROVER_assert(ll_u(i)->next == ll_u(ll_ex_nx[i]) && ll_u(i)->prev == ll_u(ll_ex_pv[i]), "reset: node cleared, nothing else changed");
    }
    CANARY("reset returned");
}
