/* The contracts of C09 see the thread-local error slot of source/error.c through the ghost g_last_error
 * (aws_raise_error_private sets it, aws_last_error reads it).  This unit checks that model against the real
 * source/error.c in the configuration without installed error handlers (handlers are user callbacks). */
#include "contracts/common.h"
#include "source/error.c"

void h_error_slot(void) {
    int e = nondet_int();
    aws_raise_error_private(e);
    __CPROVER_assert(aws_last_error() == e, "aws_last_error returns the code most recently raised");
    int r = aws_raise_error(e);
    __CPROVER_assert(r == AWS_OP_ERR && aws_last_error() == e, "aws_raise_error returns AWS_OP_ERR and records the code");
    CANARY("returned");
}
