/* Proof unit for C09 (array list): contracts + the real array_list.inl (via the header) + the real
 * source/array_list.c + one harness per function under contract.  Compiled once per element size
 * (-DVERIF_ITEM_SIZE=n).  The harness only declares the parameters (DFCC allocates them according to the
 * requires clauses), switches the ghost witnesses on with arbitrary values, calls the function and plants
 * canaries on every return path.  The r_* ghosts (contracts/array_list.h) record the list's pre-state for the native
 * replay; they are arbitrary here and tied to the list by AL_REQ_OK. */
#define VERIF_TRACK_ERRORS
#include "contracts/array_list.h"
#include "source/array_list.c"

/* AWS_FATAL_PRECONDITION/-ASSERT call this (noreturn, aborts).  Reaching it under a contract's precondition is a
 * failed obligation: "the library does not abort on valid input". */
void aws_fatal_assert(const char *cond_str, const char *file, int line) {
    (void)cond_str; (void)file; (void)line;
    __CPROVER_assert(0, "aws_fatal_assert reached: the library would abort");
    __CPROVER_assume(0);
}

#define GHOSTS() do { AL_GHOST_RESET(); g_on = true; g_k = nondet_size_t(); g_old = nondet_u8(); g_j = nondet_size_t(); g_src = nondet_u8(); \
                      g_va = nondet_u8(); g_vb = nondet_u8(); g_mm = nondet_size_t(); g_last_error = nondet_int(); g_raise_count = nondet_int(); \
                      r_al_on = true; r_length = nondet_size_t(); r_current_size = nondet_size_t(); r_dynamic = (nondet_int() != 0); \
                      r_length2 = nondet_size_t(); r_current_size2 = nondet_size_t(); r_dynamic2 = (nondet_int() != 0); } while (0)
#define SMALL 1000 /* canary split only: "small" vs "huge" index */

/* ---------------------------------------------------------------- observers */
void h_length(void) {
    const struct aws_array_list *l;
    GHOSTS();
    size_t n = aws_array_list_length(l);
    if (n == 0) CANARY("empty"); else CANARY("non-empty");
}
void h_capacity(void) {
    const struct aws_array_list *l;
    GHOSTS();
    size_t n = aws_array_list_capacity(l);
    if (n == 0) CANARY("no capacity"); else CANARY("capacity");
}
void h_get_at(void) {
    const struct aws_array_list *l; void *v; size_t i;
    GHOSTS();
    int r = aws_array_list_get_at(l, v, i);
    if (r == 0) CANARY("got"); else CANARY("invalid index");
}
void h_get_at_ptr(void) {
    const struct aws_array_list *l; void **v; size_t i;
    GHOSTS();
    int r = aws_array_list_get_at_ptr(l, v, i);
    if (r == 0) CANARY("got"); else CANARY("invalid index");
}
void h_front(void) {
    const struct aws_array_list *l; void *v;
    GHOSTS();
    int r = aws_array_list_front(l, v);
    if (r == 0) CANARY("got"); else CANARY("empty");
}
void h_back(void) {
    const struct aws_array_list *l; void *v;
    GHOSTS();
    int r = aws_array_list_back(l, v);
    if (r == 0) CANARY("got"); else CANARY("empty");
}

/* ---------------------------------------------------------------- capacity */
void h_calc_necessary_size(void) {
    struct aws_array_list *l; size_t i; size_t *out;
    GHOSTS();
    int r = aws_array_list_calc_necessary_size(l, i, out);
    if (r == 0) CANARY("fits"); else if (i == SIZE_MAX) CANARY("index+1 overflows");
#if VERIF_ITEM_SIZE > 1
    else CANARY("product overflows");
#endif
}
void h_ensure_capacity(void) {
    struct aws_array_list *l; size_t i;
    GHOSTS();
    int r = aws_array_list_ensure_capacity(l, i);
    if (r == 0) { if (i < SMALL) CANARY("ok small index"); else CANARY("ok large index"); }
    else if (i < SMALL) CANARY("static refusal"); else if (i >= SIZE_MAX / ISZ) CANARY("overflow"); else CANARY("static refusal, large index");
}

/* ---------------------------------------------------------------- set / push */
void h_set_at(void) {
    struct aws_array_list *l; const void *v; size_t i;
    GHOSTS(); g_lemma = AL_FN_SET_AT;
    int r = aws_array_list_set_at(l, v, i);
    if (r == 0) { if (i < SMALL) CANARY("set small index"); else CANARY("set large index"); }
    else if (i < SMALL) CANARY("static refusal"); else CANARY("overflow or static refusal");
}
void h_push_back(void) {
    struct aws_array_list *l; const void *v;
    GHOSTS(); g_lemma = AL_FN_PUSH_BACK;
    int r = aws_array_list_push_back(l, v);
    if (r == 0) CANARY("pushed"); else CANARY("refused");
}
void h_push_front(void) {
    struct aws_array_list *l; const void *v;
    GHOSTS(); g_lemma = AL_FN_PUSH_FRONT;
    int r = aws_array_list_push_front(l, v);
    if (r == 0) CANARY("pushed"); else CANARY("refused");
}

/* ---------------------------------------------------------------- pop / erase / clear */
void h_pop_back(void) {
    struct aws_array_list *l;
    GHOSTS();
    int r = aws_array_list_pop_back(l);
    if (r == 0) CANARY("popped"); else CANARY("empty");
}
void h_clear(void) {
    struct aws_array_list *l;
    GHOSTS();
    aws_array_list_clear(l);
    CANARY("returned");
}
void h_pop_front_n(void) {
    struct aws_array_list *l; size_t n;
    GHOSTS(); g_lemma = AL_FN_POP_FRONT_N;
    aws_array_list_pop_front_n(l, n);
    if (n == 0) CANARY("n == 0"); else if (n < SMALL) CANARY("small n"); else CANARY("huge n");
}
void h_pop_front(void) {
    struct aws_array_list *l;
    GHOSTS(); g_lemma = AL_FN_POP_FRONT;
    int r = aws_array_list_pop_front(l);
    if (r == 0) CANARY("popped"); else CANARY("empty");
}
void h_erase(void) {
    struct aws_array_list *l; size_t i;
    GHOSTS(); g_lemma = AL_FN_ERASE;
    int r = aws_array_list_erase(l, i);
    if (r == 0) { if (i == 0) CANARY("erased front"); else CANARY("erased middle or back"); } else CANARY("invalid index");
}

/* ---------------------------------------------------------------- swap */
/* mem_swap: (1) two separate objects; (2) two slots of ONE 3-slot block, every ordered placement (the call site in
 * aws_array_list_swap passes data + a*ISZ and data + b*ISZ of one block).  Symbolic byte offsets inside a block of
 * symbolic size make CBMC flatten every memcpy against the whole block (minutes, GBs), so the placements are
 * enumerated as constants, one harness each. */
void h_mem_swap_two_objects(void) {
    uint8_t *p = malloc(ISZ), *q = malloc(ISZ);
    __CPROVER_assume(p != NULL && q != NULL);
    GHOSTS();
    aws_array_list_mem_swap(p, q, ISZ);
    CANARY("returned");
}
static uint8_t s_block[3 * VERIF_ITEM_SIZE];
#define H_MEM_SWAP_SLOTS(A, B)                                                                                         \
    void h_mem_swap_##A##B(void) {                                                                                     \
        GHOSTS();                                                                                                      \
        aws_array_list_mem_swap(s_block + A * ISZ, s_block + B * ISZ, ISZ);                                            \
        CANARY("returned");                                                                                            \
    }
H_MEM_SWAP_SLOTS(0, 1)
H_MEM_SWAP_SLOTS(1, 0)
H_MEM_SWAP_SLOTS(0, 2)
H_MEM_SWAP_SLOTS(2, 0)
H_MEM_SWAP_SLOTS(1, 2)
H_MEM_SWAP_SLOTS(2, 1)
void h_swap(void) {
    struct aws_array_list *l; size_t a, b;
    GHOSTS(); g_lemma = AL_FN_SWAP;
    aws_array_list_swap(l, a, b);
    if (a == b) CANARY("same index"); else if (a + 1 == b) CANARY("adjacent"); else CANARY("apart");
}

/* ---------------------------------------------------------------- copy / shrink / swap_contents / init / clean_up / sort */
void h_copy(void) {
    const struct aws_array_list *from; struct aws_array_list *to;
    GHOSTS();
    int r = aws_array_list_copy(from, to);
    if (r == 0) CANARY("copied"); else CANARY("destination too small");
}
void h_shrink_to_fit(void) {
    struct aws_array_list *l;
    GHOSTS();
    int r = aws_array_list_shrink_to_fit(l);
    if (r == 0) CANARY("shrunk or already tight"); else CANARY("static mode");
}
void h_swap_contents(void) {
    struct aws_array_list *a, *b;
    GHOSTS();
    aws_array_list_swap_contents(a, b);
    CANARY("returned");
}
void h_init_dynamic(void) {
    struct aws_array_list *l; struct aws_allocator *al; size_t n, sz;
    GHOSTS();
    int r = aws_array_list_init_dynamic(l, al, n, sz);
    if (r == 0) { if (n == 0) CANARY("no initial allocation"); else CANARY("allocated"); }
#if VERIF_ITEM_SIZE > 1
    else CANARY("size overflow");
#endif
}
void h_init_static(void) {
    struct aws_array_list *l; void *raw; size_t n, sz;
    GHOSTS();
    aws_array_list_init_static(l, raw, n, sz);
    CANARY("returned");
}
void h_init_static_from_initialized(void) {
    struct aws_array_list *l; void *raw; size_t n, sz;
    GHOSTS();
    aws_array_list_init_static_from_initialized(l, raw, n, sz);
    CANARY("returned");
}
void h_clean_up(void) {
    struct aws_array_list *l;
    GHOSTS();
    aws_array_list_clean_up(l);
    CANARY("returned");
}
void h_sort(void) {
    struct aws_array_list *l; aws_array_list_comparator_fn *cmp;
    GHOSTS();
    aws_array_list_sort(l, cmp);
    CANARY("returned");
}

/* ---------------------------------------------------------------- arithmetic lemmas (see contracts/array_list.h):
 * pure size_t arithmetic, every operand arbitrary; the canary shows that the hypothesis is satisfiable */
#define H_LEMMA2(name, LEM, HYP)                                                                                       \
    void h_lemma_##name(void) {                                                                                        \
        size_t x = nondet_size_t(), y = nondet_size_t(), z = nondet_size_t();                                          \
        (void)z;                                                                                                       \
        __CPROVER_assert(LEM, "arithmetic lemma holds for all values");                                              \
        if (HYP) CANARY("hypothesis satisfiable");                                                                   \
    }
H_LEMMA2(erase, AL_LEM_ERASE(x, y), x < y && y <= AL_LEN_MAX)
H_LEMMA2(slot, AL_LEM_SLOT(x, y, z), x < y && y <= AL_LEN_MAX && y * ISZ <= z)
H_LEMMA2(ord, AL_LEM_ORD(x, y), x < y && y <= AL_LEN_MAX)
H_LEMMA2(popn, AL_LEM_POPN(x, y), x < y && y <= AL_LEN_MAX)
H_LEMMA2(next, AL_LEM_NEXT(x), x < AL_LEN_MAX)

/* the two forms of "the elements fit the storage" used by the contracts are equivalent, for every length and size */
void h_inv_forms(void) {
    size_t len = nondet_size_t(), cur = nondet_size_t();
    __CPROVER_assert(AL_FITS_P(len, cur) == AL_FITS_Q(len, cur), "product form <=> quotient form");
    if (AL_FITS_P(len, cur)) CANARY("fits"); else CANARY("does not fit");
}
