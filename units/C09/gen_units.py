#!/usr/bin/env python3
"""Generates units/C09/units.json.  The array-list units are instantiated per element size (-DVERIF_ITEM_SIZE=n,
see DESIGN C09 and contracts/array_list.h); writing ~200 near-identical JSON entries by hand would be error-prone.
Run:  python3 units/C09/gen_units.py          (the check never runs this; units.json is the committed artefact)
      python3 units/C09/gen_units.py 3 24     (development: only these sizes for every array-list function)"""
import json, os, sys
HERE = os.path.dirname(os.path.abspath(__file__))
R = ["aws_raise_error_private"]
GROW = R + ["aws_array_list_ensure_capacity"]
CADICAL = ["--sat-solver", "cadical"]
MINISAT = []  # cbmc default

SMALL = [1, 3, 8, 16, 24]           # every operation
HEAVY = [1, 3, 16, 24]              # quick-tier sizes of the expensive units (growth, memmove family); the rest of SMALL is thorough-only
LARGE = [127, 128, 129, 300]     # only where CBMC's array theory copes (cost grows with size^2), see meta.json
THOROUGH_ONLY = {}               # unit name -> True
INL = "include/aws/common/array_list.inl"
SRC = "source/array_list.c"
LL = "include/aws/common/linked_list.inl"
# native replay drivers (DESIGN 3.5): the unit name is the op; lemma_*, inv_forms_*, error_slot and sort_native have none
# (pure arithmetic over harness locals / a model check / already a native run)
AL_REPLAY = "array_list_replay.c"
LL_REPLAY = "linked_list_replay.c"

# name -> (enforce, replace, extra unit fields, sizes, mutants on the size given as key)
AL = [
 ("length", ["aws_array_list_length"], R, {}, SMALL + LARGE),
 ("capacity", ["aws_array_list_capacity"], R, {}, SMALL),
 ("get_at", ["aws_array_list_get_at"], R, {}, SMALL),
 ("get_at_ptr", ["aws_array_list_get_at_ptr"], R, {}, SMALL),
 ("front", ["aws_array_list_front"], R, {}, SMALL + LARGE),
 ("back", ["aws_array_list_back"], R, {}, SMALL),
 ("calc_necessary_size", ["aws_array_list_calc_necessary_size"], R, {}, SMALL),
 ("ensure_capacity", ["aws_array_list_ensure_capacity"], R + ["aws_array_list_calc_necessary_size", "aws_mem_acquire", "aws_mem_release"], {"timeout": 900}, HEAVY + [-8]),
 ("set_at", ["aws_array_list_set_at"], GROW, {"timeout": 1200}, HEAVY + [-8]),
 ("push_back", ["aws_array_list_push_back"], R + ["aws_array_list_set_at", "aws_last_error"], {"timeout": 1200}, HEAVY + [-8]),
 ("push_front", ["aws_array_list_push_front"], GROW + ["aws_last_error", "memmove"], {"timeout": 1200}, HEAVY + [-8]),
 ("pop_back", ["aws_array_list_pop_back"], R, {}, SMALL),
 ("clear", ["aws_array_list_clear"], R, {}, SMALL + LARGE),
 ("pop_front_n", ["aws_array_list_pop_front_n"], R + ["aws_array_list_clear", "memmove"], {"timeout": 900}, HEAVY + [-8]),
 ("pop_front", ["aws_array_list_pop_front"], R + ["aws_array_list_pop_front_n"], {"solver": MINISAT}, SMALL),
 ("erase", ["aws_array_list_erase"], R + ["aws_array_list_pop_front", "aws_array_list_pop_back", "memmove"], {"timeout": 1200}, HEAVY + [-8]),
 ("mem_swap_two_objects", ["aws_array_list_mem_swap"], R, {"mode": "complete", "unwind": 4}, SMALL + LARGE),
] + [("mem_swap_slots_%d%d" % ab, ["aws_array_list_mem_swap"], R, {"mode": "complete", "unwind": 4, "harness": "h_mem_swap_%d%d" % ab}, SMALL + LARGE)
     for ab in ((0, 1), (1, 0), (0, 2), (2, 0), (1, 2), (2, 1))] + [
 ("swap", ["aws_array_list_swap"], R + ["aws_array_list_mem_swap"], {"solver": MINISAT, "timeout": 900}, [1, 3, 8, 16, -24]),
 ("copy", ["aws_array_list_copy"], R + ["aws_mem_acquire", "aws_mem_release"], {"timeout": 900}, HEAVY + [-8]),
 ("shrink_to_fit", ["aws_array_list_shrink_to_fit"], R + ["aws_mem_acquire", "aws_mem_release"], {"timeout": 900}, HEAVY + [-8]),
 ("swap_contents", ["aws_array_list_swap_contents"], R, {}, SMALL),
 ("init_dynamic", ["aws_array_list_init_dynamic"], R + ["aws_mem_acquire"], {}, SMALL + LARGE),
 ("init_static", ["aws_array_list_init_static"], R, {}, SMALL + LARGE),
 ("init_static_from_initialized", ["aws_array_list_init_static_from_initialized"], R + ["aws_array_list_init_static"], {}, SMALL + LARGE),
 ("clean_up", ["aws_array_list_clean_up"], R + ["aws_mem_release"], {}, SMALL + LARGE),
 ("sort", ["aws_array_list_sort"], R + ["qsort"], {}, SMALL + LARGE),
]

def M(file, find, repl, expect, note, **kw):
    d = {"file": file, "find": find, "repl": repl, "expect": expect, "note": note}
    d.update(kw)
    return d

# built-in mutants, attached to ONE size of the function's unit (unit name -> list)
MUTANTS = {
 "get_at_s24": [
  M(INL, "memcpy(val, (void *)((uint8_t *)list->data + (list->item_size * index)), list->item_size);",
    "memcpy(val, (void *)((uint8_t *)list->data + (list->item_size * index) + 1), list->item_size);",
    r"postcondition|precondition_instance", "get_at reads one byte too far to the right"),
  M(INL, "if (aws_array_list_length(list) > index) {\n        memcpy(val,", "if (aws_array_list_length(list) >= index) {\n        memcpy(val,",
    r"postcondition|precondition_instance|assigns", "get_at accepts index == length")],
 "get_at_ptr_s3": [
  M(INL, "*val = (void *)((uint8_t *)list->data + (list->item_size * index));", "*val = (void *)((uint8_t *)list->data + (list->item_size * (index + 1)));",
    r"postcondition", "get_at_ptr returns the next slot")],
 "back_s3": [
  M(INL, "memcpy(val, (void *)((uint8_t *)list->data + last_item_offset), list->item_size);", "memcpy(val, (void *)((uint8_t *)list->data), list->item_size);",
    r"postcondition", "back returns the first element")],
 "calc_necessary_size_s24": [
  M(SRC, "aws_add_size_checked(index, 1, &index_inc)", "aws_add_size_checked(index, 0, &index_inc)", r"postcondition", "necessary size computed for index instead of index+1")],
 "ensure_capacity_s3": [
  M(SRC, "if (list->current_size < necessary_size) {", "if (list->current_size <= necessary_size) {", r"postcondition|assigns", "exact fit treated as too small"),
  M(SRC, "size_t next_allocation_size = list->current_size << 1;", "size_t next_allocation_size = list->current_size << 2;", r"postcondition", "quadrupling instead of doubling"),
  M(SRC, "memcpy(temp, list->data, list->current_size);", "memcpy(temp, list->data, list->current_size - 1);", r"postcondition", "last old byte not carried over on growth")],
 "set_at_s3": [
  M(INL, "if (index >= aws_array_list_length(list)) {", "if (index > aws_array_list_length(list)) {", r"postcondition", "set_at at index == length does not extend the list"),
  M(INL, "memcpy((void *)((uint8_t *)list->data + (list->item_size * index)), val, list->item_size);",
    "memcpy((void *)((uint8_t *)list->data + (list->item_size * index)), val, list->item_size - 1);", r"postcondition", "last byte of the element not stored")],
 "push_back_s3": [
  M(INL, "int err_code = aws_array_list_set_at(list, val, aws_array_list_length(list));", "int err_code = aws_array_list_set_at(list, val, aws_array_list_length(list) + 1);",
    r"postcondition|assigns|precondition", "push_back leaves a gap"),
  M(INL, "if (err_code && aws_last_error() == AWS_ERROR_INVALID_INDEX && !list->alloc) {\n        AWS_POSTCONDITION(aws_array_list_is_valid(list));\n        return aws_raise_error(AWS_ERROR_LIST_EXCEEDS_MAX_SIZE);\n    }\n\n    AWS_POSTCONDITION(aws_array_list_is_valid(list));\n    return err_code;",
    "AWS_POSTCONDITION(aws_array_list_is_valid(list));\n    return err_code;", r"postcondition", "static-mode refusal keeps the inner error code")],
 "push_front_s3": [
  M(INL, "++list->length;", "", r"postcondition", "push_front forgets to count the new element"),
  M(INL, "memmove((uint8_t *)list->data + list->item_size, list->data, orig_len * list->item_size);",
    "memmove((uint8_t *)list->data + list->item_size, list->data, (orig_len - 1) * list->item_size);", r"postcondition|precondition", "last old element not moved up")],
 "pop_back_s3": [
  M(INL, "list->length--;", "", r"postcondition", "pop_back does not shorten the list"),
  M(INL, "size_t last_item_offset = list->item_size * (aws_array_list_length(list) - 1);\n\n        memset(", "size_t last_item_offset = list->item_size * (aws_array_list_length(list));\n\n        memset(",
    r"assigns|precondition_instance", "pop_back zeroes the slot behind the last element")],
 "clear_s3": [
  M(INL, "#endif\n        list->length = 0;", "#endif\n        list->length = 1;", r"postcondition", "clear leaves one element")],
 "pop_front_n_s3": [
  M(INL, "size_t popping_bytes = list->item_size * n;", "size_t popping_bytes = list->item_size * (n - 1);", r"postcondition|precondition", "pop_front_n moves from one element too early"),
  M(INL, "list->length = remaining_items;", "list->length = remaining_items + 1;", r"postcondition", "pop_front_n keeps one element too many")],
 "pop_front_s3": [
  M(INL, "aws_array_list_pop_front_n(list, 1);", "aws_array_list_pop_front_n(list, 2);", r"postcondition|assigns", "pop_front drops two elements")],
 "erase_s3": [
  M(INL, "size_t trailing_items = (length - index) - 1;", "size_t trailing_items = (length - index);", r"precondition|assigns|postcondition", "erase moves one element too many (reads past the live range)"),
  M(INL, "} else if (index == (length - 1)) {", "} else if (index == (length - 2)) {", r"postcondition", "erase of the last-but-one element only pops the back")],
 "mem_swap_two_objects_s300": [
  M(SRC, "size_t slice_count = item_size / SLICE;", "size_t slice_count = item_size / (SLICE * 2);", r"postcondition", "second 128-byte slice not swapped")],
 "mem_swap_slots_01_s129": [
  M(SRC, "size_t remainder = item_size & (SLICE - 1);", "size_t remainder = item_size & (SLICE - 2);", r"postcondition", "odd trailing byte not swapped")],
 "mem_swap_slots_10_s3": [
  M(SRC, "memcpy((void *)item2, (void *)temp, remainder);", "memcpy((void *)item2, (void *)temp, remainder - 1);", r"postcondition", "last byte of the second item keeps its old value")],
 "swap_s3": [
  M(SRC, "aws_array_list_get_at_ptr(list, &item2, b);", "aws_array_list_get_at_ptr(list, &item2, a);", r"precondition|postcondition", "swap exchanges a with itself")],
 "copy_s3": [
  M(SRC, "to->current_size = copy_size;", "", r"postcondition", "copy into a grown list keeps the old capacity field"),
  M(SRC, "if (to->current_size >= copy_size) {", "if (to->current_size > copy_size) {", r"postcondition|assigns", "exact-fit destination is reallocated / refused")],
 "shrink_to_fit_s3": [
  M(SRC, "if (ideal_size < list->current_size) {", "if (ideal_size <= list->current_size) {", r"assigns|postcondition", "already tight list is reallocated"),
  M(SRC, "memcpy(raw_data, list->data, ideal_size);", "memcpy(raw_data, list->data, ideal_size - 1);", r"postcondition", "last live byte lost on shrink")],
 "swap_contents_s24": [
  M(INL, "*list_b = tmp;", "*list_b = *list_a;", r"postcondition", "swap_contents duplicates one list")],
 "init_dynamic_s24": [
  M(INL, "list->current_size = allocation_size;", "", r"postcondition", "init_dynamic forgets the capacity")],
 "init_static_s24": [
  M(INL, "list->current_size = current_size;", "list->current_size = item_count;", r"postcondition", "init_static records the item count as byte size")],
 "clean_up_s24": [
  M(INL, "if (list->alloc && list->data) {\n        aws_mem_release(list->alloc, list->data);\n    }\n\n    AWS_ZERO_STRUCT(*list);\n}\n\nAWS_STATIC_IMPL\nvoid aws_array_list_clean_up_secure",
    "if (list->alloc && list->data) {\n        aws_mem_release(list->alloc, list->data);\n    }\n\n    list->length = 0;\n}\n\nAWS_STATIC_IMPL\nvoid aws_array_list_clean_up_secure", r"postcondition", "clean_up leaves the dangling data pointer")],
 "sort_s24": [
  M(SRC, "qsort(list->data, aws_array_list_length(list), list->item_size, compare_fn);", "qsort(list->data, list->item_size, aws_array_list_length(list), compare_fn);", r"postcondition|precondition", "element count and element size exchanged in the qsort call")],
 # linked list
 "ll_insert_after": [M(LL, "    after->next->prev = to_add;\n", "", r"assertion", "insert_after does not fix the successor's prev")],
 "ll_insert_before": [M(LL, "    before->prev->next = to_add;\n", "", r"assertion", "insert_before does not fix the predecessor's next")],
 "ll_remove": [M(LL, "node->next->prev = node->prev;", "node->next->prev = node;", r"assertion", "remove leaves the successor pointing at the removed node")],
 "ll_swap_nodes": [
  M(LL, "    tmp.next->prev = a;\n", "", r"assertion", "swap_nodes does not fix b's old successor"),
  M(LL, "struct aws_linked_list_node tmp = *b;\n    a->prev->next = b;", "struct aws_linked_list_node tmp = *b;\n    a->prev->next = b;\n    tmp = *b;", r"assertion", "adjacency snapshot taken after the first store (clobbered when b precedes a)")],
 "ll_push_front": [M(LL, "aws_linked_list_insert_before(list->head.next, node);", "aws_linked_list_insert_after(list->head.next, node);", r"assertion|pointer", "push_front inserts behind the first element")],
 "ll_pop_back": [M(LL, "struct aws_linked_list_node *back = aws_linked_list_back(list);", "struct aws_linked_list_node *back = aws_linked_list_front(list);", r"assertion", "pop_back removes the front element")],
 "ll_swap_contents": [M(LL, "a->tail.prev->next = &a->tail;", "", r"assertion", "swap_contents leaves b's last node pointing at b's tail")],
 "ll_move_all_back": [M(LL, "src_back->next = &dst->tail;", "src_back->next = &src->tail;", r"assertion", "moved chain still ends in the source's tail")],
 "ll_move_all_front": [M(LL, "dst_front->prev = src_back;", "", r"assertion", "old first element of dst keeps head as predecessor")],
}

LEMMAS = ["erase", "slot", "ord", "popn", "next"]

# linked list: (name, covers, LL_K, LL_NL)
LLU = [
 ("init", ["aws_linked_list_init", "aws_linked_list_empty", "aws_linked_list_is_valid"], 2, 1),
 ("node_reset", ["aws_linked_list_node_reset"], 2, 0),
 ("insert_after", ["aws_linked_list_insert_after"], 4, 0),
 ("insert_before", ["aws_linked_list_insert_before"], 4, 0),
 ("remove", ["aws_linked_list_remove", "aws_linked_list_node_reset"], 4, 0),
 ("swap_nodes", ["aws_linked_list_swap_nodes"], 6, 0),
 ("push_back", ["aws_linked_list_push_back", "aws_linked_list_insert_before"], 3, 1),
 ("push_front", ["aws_linked_list_push_front", "aws_linked_list_insert_before"], 3, 1),
 ("pop_back", ["aws_linked_list_pop_back", "aws_linked_list_back", "aws_linked_list_remove"], 3, 1),
 ("pop_front", ["aws_linked_list_pop_front", "aws_linked_list_front", "aws_linked_list_remove"], 3, 1),
 ("swap_contents", ["aws_linked_list_swap_contents", "aws_linked_list_init", "aws_linked_list_empty"], 5, 2),
 ("move_all_back", ["aws_linked_list_move_all_back", "aws_linked_list_empty"], 4, 2),
 ("move_all_front", ["aws_linked_list_move_all_front", "aws_linked_list_empty"], 4, 2),
 ("observers", ["aws_linked_list_begin", "aws_linked_list_end", "aws_linked_list_rbegin", "aws_linked_list_rend", "aws_linked_list_front",
                "aws_linked_list_back", "aws_linked_list_next", "aws_linked_list_prev", "aws_linked_list_empty", "aws_linked_list_is_valid",
                "aws_linked_list_node_next_is_valid", "aws_linked_list_node_prev_is_valid", "aws_linked_list_node_is_in_list"], 3, 1),
]

META = {
 "property": "C09", "level": "proof",
 "explanation": "see META_TEXT in gen_units.py",
}

def build(only_sizes=None):
    units = []
    for name, enforce, replace, extra, sizes in AL:
        for sz in (only_sizes or sizes):
            thorough_only = sz < 0   # negative size in the table: unit exists in the thorough tier only
            sz = abs(sz)
            uname = "%s_s%d" % (name, sz)
            u = {"name": uname, "harness": "h_" + name, "enforce": enforce, "replace": replace, "defines": ["-DVERIF_ITEM_SIZE=%d" % sz]}
            if sz in LARGE:
                u["defines"].append("-DVERIF_AL_P_ONLY")
            u.update(extra)
            u["replay"] = {"driver": AL_REPLAY, "op": uname}   # replay/array_list_replay.c parses <function>_s<size>
            if thorough_only:
                u["only_tier"] = "thorough"
            if uname == "swap_s24":   # 48 havocked bytes at symbolic offsets: minutes, cadical is the steadier solver here
                u.update({"solver": CADICAL, "timeout": 1800, "mem_gb": 24})
            if uname in MUTANTS:
                u["mutants"] = MUTANTS[uname]
            units.append(u)
    for sz in (only_sizes or SMALL):
        for l in LEMMAS:
            units.append({"name": "lemma_%s_s%d" % (l, sz), "harness": "h_lemma_" + l, "mode": "complete", "replace": [], "covers": [],
                          "defines": ["-DVERIF_ITEM_SIZE=%d" % sz], "min_obligations": 1, "timeout": 600})
    for sz in (only_sizes or SMALL):
        units.append({"name": "inv_forms_s%d" % sz, "harness": "h_inv_forms", "mode": "complete", "replace": [], "covers": [],
                      "defines": ["-DVERIF_ITEM_SIZE=%d" % sz], "min_obligations": 1, "timeout": 600})
    for name, covers, k, nl in LLU:
        u = {"name": "ll_" + name, "src": "linked_list.c", "harness": "h_" + name, "mode": "complete", "replace": [], "covers": covers,
             "unwind": 12, "defines": ["-DLL_K=%d" % k, "-DLL_NL=%d" % nl], "min_obligations": 30, "timeout": 900}
        u["replay"] = {"driver": LL_REPLAY, "sources": [], "op": "ll_" + name}   # header-only code: no library sources needed
        if "ll_" + name in MUTANTS:
            u["mutants"] = MUTANTS["ll_" + name]
        units.append(u)
    units.append({"name": "error_slot", "src": "error_slot.c", "harness": "h_error_slot", "mode": "complete", "replace": [],
                  "covers": ["aws_raise_error_private", "aws_last_error", "aws_raise_error"], "min_obligations": 2, "solver": MINISAT})
    units.append({"name": "sort_native", "src": "sort_native.c", "mode": "native", "extra_src": ["$REPO/source/array_list.c"], "args": ["$SEED", "$TIER"],
                  "covers": ["aws_array_list_sort"], "bound": "element sizes {1,2,3,8,24,127,128,129,300}, lengths 0..48 (thorough: 0..200), 4 (20) pseudo-random fillings each, seed VERIF_SEED",
                  "min_obligations": 1, "ldflags": []})
    spec = dict(META)
    spec.update(json.load(open(os.path.join(HERE, "meta.json"))))
    spec["defaults"] = {"src": "array_list.c", "mode": "proof", "replace": R, "timeout": 300, "min_obligations": 80, "solver": CADICAL}
    spec["units"] = units
    spec["claim"] = True
    return spec

if __name__ == "__main__":
    sizes = [int(x) for x in sys.argv[1:]] or None
    spec = build(sizes)
    json.dump(spec, open(os.path.join(HERE, "units.json"), "w"), indent=1)
    print(len(spec["units"]), "units")
