#!/usr/bin/env python3
"""Generates units/C09/units.json (array-list units are instantiated per element size; see DESIGN C09).
Run: python3 units/C09/gen_units.py   (the check never runs this; units.json is the committed artefact)."""
import json, os, sys
HERE = os.path.dirname(os.path.abspath(__file__))
R = ["aws_raise_error_private"]
GROW = R + ["aws_array_list_ensure_capacity"]
CADICAL = ["--sat-solver", "cadical"]

# (name, harness, enforce, replace, extra)
AL = [
 ("length", ["aws_array_list_length"], R, {}),
 ("capacity", ["aws_array_list_capacity"], R, {}),
 ("get_at", ["aws_array_list_get_at"], R, {}),
 ("get_at_ptr", ["aws_array_list_get_at_ptr"], R, {}),
 ("front", ["aws_array_list_front"], R, {}),
 ("back", ["aws_array_list_back"], R, {}),
 ("calc_necessary_size", ["aws_array_list_calc_necessary_size"], R, {}),
 ("ensure_capacity", ["aws_array_list_ensure_capacity"], R + ["aws_array_list_calc_necessary_size", "aws_mem_acquire", "aws_mem_release"], {}),
 ("set_at", ["aws_array_list_set_at"], GROW, {}),
 ("push_back", ["aws_array_list_push_back"], R + ["aws_array_list_set_at", "aws_last_error"], {}),
 ("push_front", ["aws_array_list_push_front"], GROW + ["aws_last_error", "memmove"], {}),
 ("pop_back", ["aws_array_list_pop_back"], R, {}),
 ("clear", ["aws_array_list_clear"], R, {}),
 ("pop_front_n", ["aws_array_list_pop_front_n"], R + ["aws_array_list_clear", "memmove"], {}),
 ("pop_front", ["aws_array_list_pop_front"], R + ["aws_array_list_pop_front_n"], {}),
 ("erase", ["aws_array_list_erase"], R + ["aws_array_list_pop_front", "aws_array_list_pop_back", "memmove"], {}),
 ("mem_swap_two_objects", ["aws_array_list_mem_swap"], R, {"mode": "complete", "unwind": 4}),
] + [("mem_swap_slots_%d%d" % ab, ["aws_array_list_mem_swap"], R, {"mode": "complete", "unwind": 4, "harness": "h_mem_swap_%d%d" % ab})
     for ab in ((0, 1), (1, 0), (0, 2), (2, 0), (1, 2), (2, 1))] + [
 ("swap", ["aws_array_list_swap"], R + ["aws_array_list_mem_swap"], {}),
 ("copy", ["aws_array_list_copy"], R + ["aws_mem_acquire", "aws_mem_release"], {}),
 ("shrink_to_fit", ["aws_array_list_shrink_to_fit"], R + ["aws_mem_acquire", "aws_mem_release"], {}),
 ("swap_contents", ["aws_array_list_swap_contents"], R, {}),
 ("init_dynamic", ["aws_array_list_init_dynamic"], R + ["aws_mem_acquire"], {}),
 ("init_static", ["aws_array_list_init_static"], R, {}),
 ("init_static_from_initialized", ["aws_array_list_init_static_from_initialized"], R + ["aws_array_list_init_static"], {}),
 ("clean_up", ["aws_array_list_clean_up"], R + ["aws_mem_release"], {}),
 ("sort", ["aws_array_list_sort"], R + ["qsort"], {}),
]

def build(sizes_for, extra_units, meta):
    units = []
    for name, enforce, replace, extra in AL:
        for sz in sizes_for(name):
            u = {"name": "%s_s%d" % (name, sz), "harness": "h_" + name, "enforce": enforce, "replace": replace,
                 "defines": ["-DVERIF_ITEM_SIZE=%d" % sz]}
            u.update(extra)
            units.append(u)
    spec = dict(meta)
    spec["defaults"] = {"src": "array_list.c", "mode": "proof", "replace": R, "timeout": 300, "min_obligations": 80,
                        "solver": CADICAL}
    spec["units"] = units + extra_units
    return spec

if __name__ == "__main__":
    sizes = [int(x) for x in (sys.argv[1:] or ["24"])]
    spec = build(lambda n: sizes, [], {"property": "C09", "level": "proof", "explanation": "wip", "assumptions": [], "not_decided": []})
    json.dump(spec, open(os.path.join(HERE, "units.json"), "w"), indent=1)
    print(len(spec["units"]), "units")
