/* Bounded NATIVE stand-in for aws_array_list_sort (mode "native", never counted as proved): the library hands the live
 * range to libc qsort (that hand-over is proved in unit sort_s*); libc itself is outside CBMC's reach.  This driver
 * runs the real aws_array_list_sort on pseudo-random lists and compares with an independent insertion sort.
 * Bound: element sizes {1,2,3,8,24,127,128,129,300}, lengths 0..LEN_MAX, ROUNDS random fillings each (seeded). */
#include <aws/common/array_list.h>
#include <stdio.h>
#include <stdlib.h>
#include <string.h>

/* the pieces of the library that array_list.c links against but sort does not use */
void aws_raise_error_private(int err) { (void)err; }
int aws_last_error(void) { return 0; }
void aws_fatal_assert(const char *c, const char *f, int l) { fprintf(stderr, "fatal assert %s %s:%d\n", c, f, l); abort(); }
void *aws_mem_acquire(struct aws_allocator *a, size_t n) { (void)a; return malloc(n); }
void aws_mem_release(struct aws_allocator *a, void *p) { (void)a; free(p); }

static size_t g_size;
static int cmp(const void *a, const void *b) { return memcmp(a, b, g_size); }

static unsigned long long rng;
static unsigned next_rand(void) { rng = rng * 6364136223846793005ULL + 1442695040888963407ULL; return (unsigned)(rng >> 33); }

int main(int argc, char **argv) {
    rng = argc > 1 ? strtoull(argv[1], NULL, 10) : 1;
    int thorough = argc > 2 && strcmp(argv[2], "thorough") == 0;
    const size_t sizes[] = {1, 2, 3, 8, 24, 127, 128, 129, 300};
    const size_t len_max = thorough ? 200 : 48;
    const int rounds = thorough ? 20 : 4;
    unsigned long cases = 0, fails = 0;
    for (size_t si = 0; si < sizeof(sizes) / sizeof(sizes[0]); ++si) {
        g_size = sizes[si];
        for (size_t len = 0; len <= len_max; ++len) {
            for (int r = 0; r < rounds; ++r) {
                size_t cap = len + (next_rand() % 3) + 1; /* spare capacity behind the live range must stay untouched */
                uint8_t *raw = malloc(cap * g_size), *ref = malloc(cap * g_size), *tmp = malloc(g_size);
                for (size_t i = 0; i < cap * g_size; ++i) raw[i] = (uint8_t)(next_rand() % (r == 0 ? 2 : 251)); /* r==0: many ties */
                memcpy(ref, raw, cap * g_size);
                struct aws_array_list list;
                aws_array_list_init_static(&list, raw, cap, g_size);
                list.length = len;
                aws_array_list_sort(&list, cmp);
                for (size_t i = 1; i < len; ++i) { /* reference: insertion sort */
                    memcpy(tmp, ref + i * g_size, g_size);
                    size_t j = i;
                    while (j > 0 && memcmp(ref + (j - 1) * g_size, tmp, g_size) > 0) { memcpy(ref + j * g_size, ref + (j - 1) * g_size, g_size); --j; }
                    memcpy(ref + j * g_size, tmp, g_size);
                }
                ++cases;
                if (memcmp(raw, ref, cap * g_size) != 0 || list.length != len || list.data != raw || list.current_size != cap * g_size) {
                    ++fails;
                    printf("FAIL sort size=%zu len=%zu round=%d\n", g_size, len, r);
                }
                free(raw); free(ref); free(tmp);
            }
        }
    }
    printf("CASES %lu\n", cases);
    return fails ? 1 : 0;
}
