/* Proof TU for C10: the real source/cbor.c with the real libcbor encoder / streaming decoder / loaders inside,
 * contracts from contracts/cbor.h, one harness per unit. */
#define VERIF_TRACK_ERRORS
#include "contracts/common.h"
#include "contracts/byte_buf.h"
#include <math.h>
/* isfinite() expands to __builtin_isfinite, which CBMC 6.11 leaves without a body: ASSUMED to be IEEE isfinite */
int __builtin_isfinite(double x) { return __CPROVER_isfinited(x); }

/* ---- environment stubs (each is an assumption or an obligation, listed in units.json) ---- */
/* AWS_FATAL_ASSERT target: reaching it is a failed obligation ("the encoder never aborts") */
void aws_fatal_assert(const char *cond_str, const char *file, int line) {
    (void)cond_str; (void)file; (void)line;
    __CPROVER_assert(0, "aws_fatal_assert reached (AWS_FATAL_ASSERT failed)");
    __CPROVER_assume(0);
}
/* no logger installed: the AWS_LOGF_ERROR lines of the decoder's error paths do nothing (logging is C14) */
struct aws_logger;
struct aws_logger *aws_logger_get(void) { return NULL; }

#include "source/cbor.c"
#include "source/byte_buf.c"
#include "source/external/libcbor/cbor/encoding.c"
#include "source/external/libcbor/cbor/internal/encoders.c"
#include "source/external/libcbor/cbor/streaming.c"
#include "source/external/libcbor/cbor/internal/loaders.c"

#include "contracts/cbor.h"

/* witnesses: g_on is itself arbitrary (with g_on the contracts require g_k to point at an existing byte, which an
 * empty encoder does not have) */
#define GHOSTS() do { C10_RESET(); g_on = (nondet_int() != 0); g_k = nondet_size_t(); g_old = nondet_u8(); g_j = nondet_size_t(); g_src = nondet_u8(); } while (0)

/* ------------------------------------------------------------------ libcbor leaf encoders under contract */
#define H_LEAF(name, T) void h_leaf_##name(void) { T v; unsigned char *b; size_t n; uint8_t off; GHOSTS(); \
    size_t r = name(v, b, n, off); if (r) CANARY("written"); else CANARY("does not fit"); }
H_LEAF(_cbor_encode_uint, uint64_t)
H_LEAF(_cbor_encode_uint8, uint8_t)
H_LEAF(_cbor_encode_uint32, uint32_t)
H_LEAF(_cbor_encode_uint64, uint64_t)
void h_leaf__cbor_encode_byte(void) { uint8_t v; unsigned char *b; size_t n; GHOSTS();
    size_t r = _cbor_encode_byte(v, b, n); if (r) CANARY("written"); else CANARY("does not fit"); }

/* ------------------------------------------------------------------ encoder functions under contract */
#define H_ENC1(name, T) void h_##name(void) { struct aws_cbor_encoder *encoder; T v; GHOSTS(); aws_cbor_encoder_##name(encoder, v); CANARY("returned"); }
#define H_ENC0(name) void h_##name(void) { struct aws_cbor_encoder *encoder; GHOSTS(); aws_cbor_encoder_##name(encoder); CANARY("returned"); }
H_ENC1(write_uint, uint64_t)
H_ENC1(write_negint, uint64_t)
H_ENC1(write_tag, uint64_t)
H_ENC1(write_array_start, size_t)
H_ENC1(write_map_start, size_t)
/* an uninitialised _Bool is an arbitrary 8-bit pattern in CBMC; a C caller can only pass 0 or 1 */
void h_write_bool(void) { struct aws_cbor_encoder *encoder; bool v = (nondet_int() != 0); GHOSTS(); aws_cbor_encoder_write_bool(encoder, v); CANARY("returned"); }
H_ENC0(write_null)
H_ENC0(write_undefined)
H_ENC0(write_indef_bytes_start)
H_ENC0(write_indef_text_start)
H_ENC0(write_indef_array_start)
H_ENC0(write_indef_map_start)
H_ENC0(write_break)
H_ENC1(write_single_float, float)
H_ENC1(write_float, double)
/* the same contract, input domain split into the four regimes (together: every double) to stay inside the time budget */
#define H_FLOAT(name, cond) void h_write_float_##name(void) { struct aws_cbor_encoder *encoder; double v; GHOSTS(); __CPROVER_assume(cond); aws_cbor_encoder_write_float(encoder, v); CANARY("returned"); }
H_FLOAT(nonfinite, !__CPROVER_isfinited(v))
H_FLOAT(int, FL_INT(v))
H_FLOAT(single, __CPROVER_isfinited(v) && FL_SINGLE(v))
H_FLOAT(double, FL_DOUBLE(v))
H_ENC1(write_bytes, struct aws_byte_cursor)
H_ENC1(write_text, struct aws_byte_cursor)
