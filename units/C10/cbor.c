/* Proof TU for C10: the real source/cbor.c with the real libcbor encoder / streaming decoder / loaders inside,
 * contracts from contracts/cbor.h, one harness per unit. */
#define VERIF_TRACK_ERRORS
#include "contracts/common.h"
#include "contracts/byte_buf.h"
#include <math.h>
/* isfinite() expands to __builtin_isfinite, which CBMC 6.11 leaves without a body: ASSUMED to be IEEE isfinite */
int __builtin_isfinite(double x) { return __CPROVER_isfinited(x); }

/* ---- environment stubs (each is an assumption or an obligation, listed in units.json) ---- */
/* AWS_FATAL_ASSERT target: reaching it is a failed obligation ("the encoder never aborts") */
void aws_fatal_assert(const char *cond_str, const char *file, int line) {
    (void)cond_str; (void)file; (void)line;
    __CPROVER_assert(0, "aws_fatal_assert reached (AWS_FATAL_ASSERT failed)");
    __CPROVER_assume(0);
}
/* no logger installed: the AWS_LOGF_ERROR lines of the decoder's error paths do nothing (logging is C14) */
struct aws_logger;
struct aws_logger *aws_logger_get(void) { return NULL; }

#include "source/cbor.c"
#include "source/byte_buf.c"
#include "source/external/libcbor/cbor/encoding.c"
#include "source/external/libcbor/cbor/internal/encoders.c"
#include "source/external/libcbor/cbor/streaming.c"
#include "source/external/libcbor/cbor/internal/loaders.c"

#include "contracts/cbor.h"

/* witnesses: g_on is itself arbitrary (with g_on the contracts require g_k to point at an existing byte, which an
 * empty encoder does not have) */
#define GHOSTS() do { C10_RESET(); g_on = (nondet_int() != 0); g_k = nondet_size_t(); g_old = nondet_u8(); g_j = nondet_size_t(); g_src = nondet_u8(); R_ENC_ON(); } while (0)

/* ------------------------------------------------------------------ libcbor leaf encoders under contract */
#define H_LEAF(name, T) void h_leaf_##name(void) { T v; unsigned char *b; size_t n; uint8_t off; GHOSTS(); \
    size_t r = name(v, b, n, off); if (r) CANARY("written"); else CANARY("does not fit"); }
H_LEAF(_cbor_encode_uint, uint64_t)
H_LEAF(_cbor_encode_uint8, uint8_t)
H_LEAF(_cbor_encode_uint32, uint32_t)
H_LEAF(_cbor_encode_uint64, uint64_t)
void h_leaf__cbor_encode_byte(void) { uint8_t v; unsigned char *b; size_t n; GHOSTS();
    size_t r = _cbor_encode_byte(v, b, n); if (r) CANARY("written"); else CANARY("does not fit"); }

/* ------------------------------------------------------------------ encoder functions under contract */
#define H_ENC1(name, T) void h_##name(void) { struct aws_cbor_encoder *encoder; T v; GHOSTS(); aws_cbor_encoder_##name(encoder, v); CANARY("returned"); }
#define H_ENC0(name) void h_##name(void) { struct aws_cbor_encoder *encoder; GHOSTS(); aws_cbor_encoder_##name(encoder); CANARY("returned"); }
H_ENC1(write_uint, uint64_t)
H_ENC1(write_negint, uint64_t)
H_ENC1(write_tag, uint64_t)
H_ENC1(write_array_start, size_t)
H_ENC1(write_map_start, size_t)
/* an uninitialised _Bool is an arbitrary 8-bit pattern in CBMC; a C caller can only pass 0 or 1 */
void h_write_bool(void) { struct aws_cbor_encoder *encoder; bool v = (nondet_int() != 0); GHOSTS(); aws_cbor_encoder_write_bool(encoder, v); CANARY("returned"); }
H_ENC0(write_null)
H_ENC0(write_undefined)
H_ENC0(write_indef_bytes_start)
H_ENC0(write_indef_text_start)
H_ENC0(write_indef_array_start)
H_ENC0(write_indef_map_start)
H_ENC0(write_break)
/* r_bits: the exact argument for the native replay (the trace prints floating-point values rounded) */
void h_write_single_float(void) { struct aws_cbor_encoder *encoder; float v; GHOSTS(); r_bits = F32_BITS(v); aws_cbor_encoder_write_single_float(encoder, v); CANARY("returned"); }
void h_write_float(void) { struct aws_cbor_encoder *encoder; double v; GHOSTS(); r_bits = F64_BITS(v); aws_cbor_encoder_write_float(encoder, v); CANARY("returned"); }
/* the same contract, input domain split into the four regimes (together: every double) to stay inside the time budget */
#define H_FLOAT(name, cond) void h_write_float_##name(void) { struct aws_cbor_encoder *encoder; double v; GHOSTS(); __CPROVER_assume(cond); r_bits = F64_BITS(v); aws_cbor_encoder_write_float(encoder, v); CANARY("returned"); }
H_FLOAT(nonfinite, !__CPROVER_isfinited(v))
H_FLOAT(int, FL_INT(v))
H_FLOAT(single, __CPROVER_isfinited(v) && FL_SINGLE(v))
H_FLOAT(double, FL_DOUBLE(v))
/* DESIGN section 6, F5: every double -> int64_t conversion in write_float must be defined C (checked with --conversion-check;
 * ghost content clauses off, so only the library's own conversions are examined) */
void h_write_float_conversion(void) { struct aws_cbor_encoder *encoder; double v; C10_RESET(); R_ENC_ON(); r_bits = F64_BITS(v);
    /* CBMC's check compares against the lower bound -2^63 - 1 rounded to double (= -2^63) and so flags -2^63 itself,
     * which IS representable; that one value is left to the functional units */
    __CPROVER_assume(v != -TWO63);
    aws_cbor_encoder_write_float(encoder, v); CANARY("returned"); }
#define H_ENC_STR(name) void h_##name(void) { struct aws_cbor_encoder *encoder; struct aws_byte_cursor v; GHOSTS(); r_from_len = v.len; aws_cbor_encoder_##name(encoder, v); CANARY("returned"); }
H_ENC_STR(write_bytes)
H_ENC_STR(write_text)

/* ------------------------------------------------------------------ decoder */
/* DFCC starts every mutable static as NONDET, and the callback table of cbor.c is a non-const static: the DFCC
 * harnesses set it to the values below; the plain (non-DFCC) unit callbacks_table proves that these ARE the values of
 * the real static initialiser, and no function under contract lists s_callbacks in its assigns clause. */
static void c10_callbacks_init(void) {
    s_callbacks.uint8 = s_uint8_callback; s_callbacks.uint16 = s_uint16_callback; s_callbacks.uint32 = s_uint32_callback;
    s_callbacks.uint64 = s_unsigned_int_val_callback;
    s_callbacks.negint8 = s_negint8_callback; s_callbacks.negint16 = s_negint16_callback; s_callbacks.negint32 = s_negint32_callback;
    s_callbacks.negint64 = s_negative_int_val_callback;
    s_callbacks.byte_string_start = s_inf_bytes_callback; s_callbacks.byte_string = s_bytes_callback;
    s_callbacks.string = s_str_callback; s_callbacks.string_start = s_inf_str_callback;
    s_callbacks.indef_array_start = s_inf_array_callback; s_callbacks.array_start = s_array_start_callback;
    s_callbacks.indef_map_start = s_inf_map_callback; s_callbacks.map_start = s_map_start_callback;
    s_callbacks.tag = s_tag_val_callback;
    s_callbacks.float2 = s_float_callback; s_callbacks.float4 = s_float_callback; s_callbacks.float8 = s_float_val_callback;
    s_callbacks.undefined = s_undefined_callback; s_callbacks.null = s_null_callback; s_callbacks.boolean = s_boolean_val_callback;
    s_callbacks.indef_break = s_inf_break_callback;
}
void h_callbacks_table(void) {
    struct cbor_callbacks real = s_callbacks; /* plain unit: the static initialiser of cbor.c is in force */
    c10_callbacks_init();
    __CPROVER_assert(memcmp(&real, &s_callbacks, sizeof(real)) == 0, "callback table of cbor.c equals the table the DFCC harnesses install");
    __CPROVER_assert(real.uint8 == s_uint8_callback && real.negint64 == s_negative_int_val_callback && real.float4 == s_float_callback &&
                     real.byte_string == s_bytes_callback && real.string == s_str_callback && real.indef_break == s_inf_break_callback, "spot check of the table");
    CANARY("reached");
}
void h_decode_next_element(void) {
    struct aws_cbor_decoder *decoder;
    C10_RESET(); R_DEC_ON(); c10_callbacks_init();
    int r = s_cbor_decode_next_element(decoder);
    if (r == 0) CANARY("decoded"); else CANARY("rejected");
}

#define H_POP(name, T) void h_pop_##name(void) { struct aws_cbor_decoder *decoder; T *out; C10_RESET(); R_DEC_ON(); \
    int r = aws_cbor_decoder_pop_next_##name(decoder, out); if (r == 0) CANARY("popped"); else CANARY("refused"); }
H_POP(unsigned_int_val, uint64_t)
H_POP(negative_int_val, uint64_t)
H_POP(tag_val, uint64_t)
H_POP(array_start, uint64_t)
H_POP(map_start, uint64_t)
H_POP(boolean_val, bool)
H_POP(float_val, double)
H_POP(bytes_val, struct aws_byte_cursor)
H_POP(text_val, struct aws_byte_cursor)
void h_peek_type(void) { struct aws_cbor_decoder *decoder; enum aws_cbor_type *t; C10_RESET(); R_DEC_ON();
    int r = aws_cbor_decoder_peek_type(decoder, t); if (r == 0) CANARY("peeked"); else CANARY("refused"); }
void h_consume_single(void) { struct aws_cbor_decoder *decoder; C10_RESET(); R_DEC_ON();
    int r = aws_cbor_decoder_consume_next_single_element(decoder); if (r == 0) CANARY("skipped"); else CANARY("refused"); }
void h_remaining(void) { struct aws_cbor_decoder *decoder; C10_RESET(); R_DEC_ON();
    size_t r = aws_cbor_decoder_get_remaining_length(decoder); if (r) CANARY("some left"); else CANARY("nothing left"); }

/* ------------------------------------------------------------------ lemma units: writer-side spec o reader-side spec = id
 * (pure specification level, no library code: what the encoder contracts promise is exactly what the decoder
 * contracts read back) */
static enum aws_cbor_type c10_type_of_base(uint8_t b0base) {
    return b0base == CBOR_MT_UINT ? AWS_CBOR_TYPE_UINT : b0base == CBOR_MT_NEGINT ? AWS_CBOR_TYPE_NEGINT
         : b0base == CBOR_MT_BYTES ? AWS_CBOR_TYPE_BYTES : b0base == CBOR_MT_TEXT ? AWS_CBOR_TYPE_TEXT
         : b0base == CBOR_MT_ARRAY ? AWS_CBOR_TYPE_ARRAY_START : b0base == CBOR_MT_MAP ? AWS_CBOR_TYPE_MAP_START : AWS_CBOR_TYPE_TAG;
}
void h_lemma_head(void) {
    uint8_t b[9]; uint64_t v = nondet_u64(); uint8_t k = nondet_u8(); size_t n = nondet_size_t();
    __CPROVER_assume(k < 7);
    uint8_t b0base = (uint8_t)(k << 5);
    /* the bytes every head-writing encoder function appends (ENS_HEAD, for every witness index) */
    for (size_t j = 0; j < 9; ++j) { if (j < CBOR_HEAD_LEN(v)) __CPROVER_assume(b[j] == CBOR_HEAD_BYTE(b0base, v, j)); }
    bool is_string = (b0base == CBOR_MT_BYTES || b0base == CBOR_MT_TEXT);
    /* available input: exactly the item, or more */
    __CPROVER_assume(n >= CBOR_HEAD_LEN(v) && (!is_string || v <= n - CBOR_HEAD_LEN(v)));
    __CPROVER_assert(CBOR_HEAD_LEN(v) == (v < 24 ? 1 : v <= 0xFF ? 2 : v <= 0xFFFF ? 3 : v <= 0xFFFFFFFFull ? 5 : 9), "shortest head: 1/2/3/5/9 bytes at the RFC 8949 boundaries");
    __CPROVER_assert(CBOR_IN_OK(b, n), "reader accepts the head and finds the element complete");
    __CPROVER_assert(CBOR_IN_TYPE(b) == c10_type_of_base(b0base), "same item type");
    __CPROVER_assert(CBOR_IN_ARG(b) == v, "same argument (value / length / count / tag)");
    __CPROVER_assert(CBOR_IN_HEADLEN(b) == CBOR_HEAD_LEN(v), "reader's head length = bytes written");
    __CPROVER_assert(CBOR_IN_ELEMLEN(b) == CBOR_HEAD_LEN(v) + (is_string ? v : 0), "consumes exactly head (+ payload of a string)");
    /* one byte less than the item is never accepted: the item is not decodable from a proper prefix */
    __CPROVER_assert(!CBOR_IN_OK(b, CBOR_IN_ELEMLEN(b) - 1), "a truncated item is refused");
    if (v < 24) CANARY("embedded"); else if (v <= 0xFF) CANARY("1 byte"); else if (v <= 0xFFFF) CANARY("2 bytes"); else if (v <= 0xFFFFFFFFull) CANARY("4 bytes"); else CANARY("8 bytes");
}
void h_lemma_fixed(void) {
    uint8_t b[9]; bool dbl = (nondet_int() != 0); uint64_t bits = nondet_u64(); size_t n = nondet_size_t();
    if (!dbl) bits &= 0xFFFFFFFFull;
    size_t w = dbl ? 8 : 4;
    for (size_t j = 0; j < 9; ++j) { if (j < 1 + w) __CPROVER_assume(b[j] == CBOR_FIXED_BYTE(dbl ? 0xFB : 0xFA, w, bits, j)); }
    __CPROVER_assume(n >= 1 + w);
    __CPROVER_assert(CBOR_IN_OK(b, n) && CBOR_IN_TYPE(b) == AWS_CBOR_TYPE_FLOAT, "float accepted");
    __CPROVER_assert(CBOR_IN_AI(b) == (dbl ? 27 : 26) && CBOR_IN_ARG(b) == bits, "same bit pattern, same width");
    __CPROVER_assert(CBOR_IN_ELEMLEN(b) == 1 + w && !CBOR_IN_OK(b, w), "consumes exactly 5 / 9 bytes");
    if (dbl) CANARY("double"); else CANARY("single");
}
void h_lemma_onebyte(void) {
    uint8_t b[1]; b[0] = nondet_u8(); size_t n = nondet_size_t(); __CPROVER_assume(n >= 1);
    __CPROVER_assume(b[0] == 0xF4 || b[0] == 0xF5 || b[0] == 0xF6 || b[0] == 0xF7 || b[0] == 0xFF || b[0] == 0x5F || b[0] == 0x7F || b[0] == 0x9F || b[0] == 0xBF);
    __CPROVER_assert(CBOR_IN_OK(b, n) && CBOR_IN_ELEMLEN(b) == 1, "accepted, one byte");
    __CPROVER_assert(CBOR_IN_TYPE(b) == (b[0] == 0xF4 || b[0] == 0xF5 ? AWS_CBOR_TYPE_BOOL : b[0] == 0xF6 ? AWS_CBOR_TYPE_NULL : b[0] == 0xF7 ? AWS_CBOR_TYPE_UNDEFINED
                     : b[0] == 0xFF ? AWS_CBOR_TYPE_BREAK : b[0] == 0x5F ? AWS_CBOR_TYPE_INDEF_BYTES_START : b[0] == 0x7F ? AWS_CBOR_TYPE_INDEF_TEXT_START
                     : b[0] == 0x9F ? AWS_CBOR_TYPE_INDEF_ARRAY_START : AWS_CBOR_TYPE_INDEF_MAP_START), "same item type");
    __CPROVER_assert(CBOR_IN_TYPE(b) != AWS_CBOR_TYPE_BOOL || (CBOR_IN_AI(b) == 21) == (b[0] == 0xF5), "same boolean");
    CANARY("reached");
}
/* numeric value of what aws_cbor_encoder_write_float's contract says is written, as the decoder contracts read it */
void h_lemma_float_value(void) {
    double v = nondet_double();
    if (FL_INT(v)) {
        uint64_t arg = FL_INT_ARG(v);
        if (FL_I64(v) >= 0) __CPROVER_assert((double)arg == v, "UINT: exact");
        else __CPROVER_assert(arg <= (uint64_t)INT64_MAX && (double)(-1 - (int64_t)arg) == v, "NEGINT: -1 - n is exact");
        CANARY("integer");
    } else if (FL_SINGLE(v)) {
        double d = (double)BITS_F32(F32_BITS((float)v)); /* what pop_next_float_val returns for a single (DEC_F64_IN) */
        __CPROVER_assert(__CPROVER_isnand(v) ? __CPROVER_isnand(d) : d == v, "SINGLE: widening the written single gives the value back (NaN stays NaN)");
        CANARY("single");
    } else {
        __CPROVER_assert(FL_DOUBLE(v) && __CPROVER_isfinited(v), "third regime");
        __CPROVER_assert(BITS_F64(F64_BITS(v)) == v, "DOUBLE: bit-exact");
        __CPROVER_assert((double)(float)v != v, "a double is used only when the single would lose");
        __CPROVER_assert(!(FL_IN_I64(v) && (double)(int64_t)v == v), "and only when it is not an integer in the int64 range");
        CANARY("double");
    }
}

/* ------------------------------------------------------------------ direct round trips through the REAL code on both sides
 * (plain harness units: real aws_cbor_encoder_write_*, real reserve (no growth needed: the buffer has room), real
 * libcbor encoders, real cbor_stream_decode + callbacks with the real static callback table, real pop functions).
 * The encoder starts empty; the decoder gets exactly the appended bytes.  A pop_next_X that succeeds has checked the
 * item type itself (it fails with AWS_ERROR_CBOR_UNEXPECTED_TYPE otherwise), so the type needs no separate peek
 * (a peek followed by a pop doubles the decoder paths and the run time). */
#define RT_CAP 80
struct c10_rt { uint8_t storage[RT_CAP]; struct aws_allocator alloc; struct aws_cbor_encoder enc; struct aws_cbor_decoder dec; };
static void c10_rt_begin(struct c10_rt *rt, size_t cap) {
    rt->enc.allocator = &rt->alloc;
    rt->enc.encoded_buf = aws_byte_buf_from_empty_array(rt->storage, cap); /* an arbitrary append position is covered by the contract units */
    rt->enc.encoded_buf.allocator = &rt->alloc;
}
/* hand exactly the bytes appended since c10_rt_begin to a new decoder */
static size_t c10_rt_decode(struct c10_rt *rt) {
    size_t n = rt->enc.encoded_buf.len;
    __CPROVER_assert(n <= rt->enc.encoded_buf.capacity && rt->enc.encoded_buf.buffer == rt->storage, "appended in place");
    memset(&rt->dec, 0, sizeof(rt->dec));
    rt->dec.src = aws_byte_cursor_from_array(rt->storage, n);
    return n;
}
#define RT_DONE(rt) __CPROVER_assert(aws_cbor_decoder_get_remaining_length(&(rt)->dec) == 0 && (rt)->dec.error_code == 0 && \
                                     (rt)->dec.cached_context.type == AWS_CBOR_TYPE_UNKNOWN, "consumed exactly the encoded bytes")

#define H_RT_U64(name, wr, pop) void h_rt_##name(void) { struct c10_rt rt; c10_rt_begin(&rt, 16); uint64_t v = nondet_u64(), out = 0; r_v = v; \
    aws_cbor_encoder_write_##wr(&rt.enc, v); size_t n = c10_rt_decode(&rt); \
    __CPROVER_assert(n == (v < 24 ? 1 : v <= 0xFF ? 2 : v <= 0xFFFF ? 3 : v <= 0xFFFFFFFFull ? 5 : 9), "shortest head"); \
    __CPROVER_assert(aws_cbor_decoder_pop_next_##pop(&rt.dec, &out) == AWS_OP_SUCCESS && out == v, "same item type and value"); RT_DONE(&rt); \
    if (v < 24) CANARY("embedded"); else if (v > 0xFFFFFFFFull) CANARY("8 bytes"); else CANARY("1/2/4 bytes"); }
H_RT_U64(uint, uint, unsigned_int_val)
H_RT_U64(negint, negint, negative_int_val)
H_RT_U64(tag, tag, tag_val)
H_RT_U64(array_start, array_start, array_start)
H_RT_U64(map_start, map_start, map_start)

void h_rt_simple(void) {
    struct c10_rt rt; c10_rt_begin(&rt, 16); uint8_t which = nondet_u8(); bool bv = (nondet_int() != 0), bout = !bv; enum aws_cbor_type expect, got = AWS_CBOR_TYPE_UNKNOWN;
    r_v = which < 7 ? which : 7; r_v2 = bv; /* replay variables */
    switch (which) {
        case 0: aws_cbor_encoder_write_bool(&rt.enc, bv); expect = AWS_CBOR_TYPE_BOOL; break;
        case 1: aws_cbor_encoder_write_null(&rt.enc); expect = AWS_CBOR_TYPE_NULL; break;
        case 2: aws_cbor_encoder_write_undefined(&rt.enc); expect = AWS_CBOR_TYPE_UNDEFINED; break;
        case 3: aws_cbor_encoder_write_break(&rt.enc); expect = AWS_CBOR_TYPE_BREAK; break;
        case 4: aws_cbor_encoder_write_indef_bytes_start(&rt.enc); expect = AWS_CBOR_TYPE_INDEF_BYTES_START; break;
        case 5: aws_cbor_encoder_write_indef_text_start(&rt.enc); expect = AWS_CBOR_TYPE_INDEF_TEXT_START; break;
        case 6: aws_cbor_encoder_write_indef_array_start(&rt.enc); expect = AWS_CBOR_TYPE_INDEF_ARRAY_START; break;
        default: aws_cbor_encoder_write_indef_map_start(&rt.enc); expect = AWS_CBOR_TYPE_INDEF_MAP_START; break;
    }
    size_t n = c10_rt_decode(&rt);
    __CPROVER_assert(n == 1, "one byte");
    if (which == 0) { __CPROVER_assert(aws_cbor_decoder_pop_next_boolean_val(&rt.dec, &bout) == AWS_OP_SUCCESS && bout == bv, "same boolean"); RT_DONE(&rt); CANARY("bool"); }
    else { /* markers carry no value: peek decodes the element into the cache, which must leave nothing in the input */
        __CPROVER_assert(aws_cbor_decoder_peek_type(&rt.dec, &got) == AWS_OP_SUCCESS && got == expect, "decodes to the same item type");
        __CPROVER_assert(aws_cbor_decoder_get_remaining_length(&rt.dec) == 0 && rt.dec.error_code == 0, "consumed exactly the encoded byte");
        CANARY("marker"); }
}
/* two items in a row: the second starts where the first ended, on both sides */
void h_rt_sequence(void) {
    struct c10_rt rt; c10_rt_begin(&rt, 24); uint64_t v1 = nondet_u64(), v2 = nondet_u64(), o1 = 0, o2 = 0; r_v = v1; r_v2 = v2;
    aws_cbor_encoder_write_negint(&rt.enc, v1); aws_cbor_encoder_write_uint(&rt.enc, v2);
    c10_rt_decode(&rt);
    __CPROVER_assert(aws_cbor_decoder_pop_next_negative_int_val(&rt.dec, &o1) == AWS_OP_SUCCESS && o1 == v1, "first item");
    __CPROVER_assert(aws_cbor_decoder_pop_next_unsigned_int_val(&rt.dec, &o2) == AWS_OP_SUCCESS && o2 == v2, "second item");
    RT_DONE(&rt); CANARY("reached");
}
/* strings: payload of up to RT_STR_MAX bytes (both the embedded and the one-byte length head); content by witness */
#define RT_STR_MAX 40
#define H_RT_STR(name) void h_rt_##name(void) { struct c10_rt rt; uint8_t payload[RT_STR_MAX]; struct aws_byte_cursor from, out; \
    size_t len = nondet_size_t(); __CPROVER_assume(len <= RT_STR_MAX); r_from_len = len; c10_rt_begin(&rt, RT_CAP); \
    from = aws_byte_cursor_from_array(payload, len); \
    aws_cbor_encoder_write_##name(&rt.enc, from); size_t n = c10_rt_decode(&rt); \
    __CPROVER_assert(n == (len < 24 ? 1 : 2) + len, "shortest head + payload"); \
    __CPROVER_assert(aws_cbor_decoder_pop_next_##name##_val(&rt.dec, &out) == AWS_OP_SUCCESS && out.len == len, "same item type and length"); \
    size_t j = nondet_size_t(); if (j < len) __CPROVER_assert(out.ptr[j] == payload[j], "same content (arbitrary index)"); \
    RT_DONE(&rt); if (len == 0) CANARY("empty"); else if (len < 24) CANARY("short"); else CANARY("one-byte length"); }
H_RT_STR(bytes)
H_RT_STR(text)

/* floats through the real code: the regimes of write_float and the explicit single.  The harness derives the expected
 * item kind from the statement (integer iff integral inside the int64 range; single iff that loses nothing). */
#define RT_POP_FLOAT(rt, v, n, expect_n) do { double d_ = 0; \
    __CPROVER_assert(aws_cbor_decoder_pop_next_float_val(&(rt)->dec, &d_) == AWS_OP_SUCCESS && (__CPROVER_isnand(v) ? __CPROVER_isnand(d_) : d_ == (v)), "float item, same numeric value"); \
    __CPROVER_assert((n) == (expect_n), "smallest form that loses nothing (5 = single, 9 = double; never a half)"); } while (0)
void h_rt_float_nonfinite(void) { struct c10_rt rt; c10_rt_begin(&rt, 16); double v = nondet_double(); __CPROVER_assume(!__CPROVER_isfinited(v)); r_bits = F64_BITS(v);
    aws_cbor_encoder_write_float(&rt.enc, v); size_t n = c10_rt_decode(&rt); RT_POP_FLOAT(&rt, v, n, 5); RT_DONE(&rt);
    if (__CPROVER_isnand(v)) CANARY("NaN"); else CANARY("infinity"); }
void h_rt_float_int(void) { struct c10_rt rt; c10_rt_begin(&rt, 16); double v = nondet_double(); uint64_t u = 0;
    __CPROVER_assume(__CPROVER_isfinited(v) && v >= -TWO63 && v < TWO63 && (double)(int64_t)v == v); r_bits = F64_BITS(v);
    aws_cbor_encoder_write_float(&rt.enc, v); size_t n = c10_rt_decode(&rt);
    if (v >= 0) { __CPROVER_assert(aws_cbor_decoder_pop_next_unsigned_int_val(&rt.dec, &u) == AWS_OP_SUCCESS && (double)u == v, "stored as unsigned integer, exact"); CANARY("non-negative"); }
    else { __CPROVER_assert(aws_cbor_decoder_pop_next_negative_int_val(&rt.dec, &u) == AWS_OP_SUCCESS && u <= (uint64_t)INT64_MAX && (double)(-1 - (int64_t)u) == v, "stored as negative integer, exact"); CANARY("negative"); }
    __CPROVER_assert(n == (u < 24 ? 1 : u <= 0xFF ? 2 : u <= 0xFFFF ? 3 : u <= 0xFFFFFFFFull ? 5 : 9), "shortest head");
    RT_DONE(&rt); }
void h_rt_float_single(void) { struct c10_rt rt; c10_rt_begin(&rt, 16); double v = nondet_double();
    __CPROVER_assume(__CPROVER_isfinited(v) && !(v >= -TWO63 && v < TWO63 && (double)(int64_t)v == v) && (double)(float)v == v); r_bits = F64_BITS(v);
    aws_cbor_encoder_write_float(&rt.enc, v); size_t n = c10_rt_decode(&rt); RT_POP_FLOAT(&rt, v, n, 5); RT_DONE(&rt);
    if (v == TWO63) CANARY("2^63"); else CANARY("other single"); }
void h_rt_float_double(void) { struct c10_rt rt; c10_rt_begin(&rt, 16); double v = nondet_double();
    __CPROVER_assume(__CPROVER_isfinited(v) && !(v >= -TWO63 && v < TWO63 && (double)(int64_t)v == v) && (double)(float)v != v); r_bits = F64_BITS(v);
    aws_cbor_encoder_write_float(&rt.enc, v); size_t n = c10_rt_decode(&rt); RT_POP_FLOAT(&rt, v, n, 9); RT_DONE(&rt);
    CANARY("reached"); }
void h_rt_single_float(void) { struct c10_rt rt; c10_rt_begin(&rt, 16); float f = nondet_float(); double d = 0; r_bits = F32_BITS(f);
    aws_cbor_encoder_write_single_float(&rt.enc, f); size_t n = c10_rt_decode(&rt);
    __CPROVER_assert(n == 5, "five bytes");
    __CPROVER_assert(aws_cbor_decoder_pop_next_float_val(&rt.dec, &d) == 0 && (__CPROVER_isnanf(f) ? __CPROVER_isnand(d) : d == (double)f), "float item, same value");
    RT_DONE(&rt); CANARY("reached"); }

/* ------------------------------------------------------------------ construction / observation */
void h_encoder_new(void) { struct aws_allocator *a; C10_RESET(); struct aws_cbor_encoder *e = aws_cbor_encoder_new(a); if (e) CANARY("created"); }
void h_decoder_new(void) { struct aws_allocator *a; struct aws_byte_cursor src; C10_RESET(); g_j = nondet_size_t(); struct aws_cbor_decoder *d = aws_cbor_decoder_new(a, src); if (d) CANARY("created"); }
void h_get_encoded_data(void) { struct aws_cbor_encoder *encoder; C10_RESET(); struct aws_byte_cursor c = aws_cbor_encoder_get_encoded_data(encoder); if (c.len) CANARY("some data"); else CANARY("empty"); }
void h_encoder_reset(void) { struct aws_cbor_encoder *encoder; C10_RESET(); aws_cbor_encoder_reset(encoder); CANARY("returned"); }
