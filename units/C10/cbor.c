/* Proof TU for C10: the real source/cbor.c with the real libcbor encoder / streaming decoder / loaders inside,
 * contracts from contracts/cbor.h, one harness per unit. */
#define VERIF_TRACK_ERRORS
#include "contracts/common.h"
#include "contracts/byte_buf.h"
#include <math.h>

/* ---- environment stubs (each is an assumption or an obligation, listed in units.json) ---- */
/* AWS_FATAL_ASSERT target: reaching it is a failed obligation ("the encoder never aborts") */
void aws_fatal_assert(const char *cond_str, const char *file, int line) {
    (void)cond_str; (void)file; (void)line;
    __CPROVER_assert(0, "aws_fatal_assert reached (AWS_FATAL_ASSERT failed)");
    __CPROVER_assume(0);
}
/* no logger installed: the AWS_LOGF_ERROR lines of the decoder's error paths do nothing (logging is C14) */
struct aws_logger;
struct aws_logger *aws_logger_get(void) { return NULL; }

#include "source/cbor.c"
#include "source/byte_buf.c"
#include "source/external/libcbor/cbor/encoding.c"
#include "source/external/libcbor/cbor/internal/encoders.c"
#include "source/external/libcbor/cbor/streaming.c"
#include "source/external/libcbor/cbor/internal/loaders.c"

#include "contracts/cbor.h"

#define GHOSTS() do { g_on = true; g_k = nondet_size_t(); g_old = nondet_u8(); g_j = nondet_size_t(); g_src = nondet_u8(); } while (0)

/* ------------------------------------------------------------------ encoder functions under contract */
void h_write_uint(void) {
    struct aws_cbor_encoder *encoder; uint64_t v;
    GHOSTS();
    aws_cbor_encoder_write_uint(encoder, v);
    CANARY("returned");
}
