/* C10, "skipping a whole data item advances past exactly that item however deeply it nests":
 * NATIVE BOUNDED stand-in (mode "native", never counted as proved).  CBMC cannot unwind the recursion of
 * aws_cbor_decoder_consume_next_whole_data_item over symbolic input even at depth 2 (no result in 15 min), so the real
 * function is RUN here on nested items that are built with the real encoder:
 *   - exhaustively: every nesting of depth <= 2 over 4 leaf kinds and the 7 container kinds below (<= 1 item / pair each),
 *   - sampled: pseudo-random nestings up to depth 12 over 14 leaf kinds, <= 3 items / pairs per container (seed from argv).
 * Oracles: (a) the item ends where the encoder stopped writing it, (b) an independent skipper written from RFC 8949.
 * After the skip the decoder must stand exactly at the trailing bytes that follow the item, and decoding the next
 * element there must give the sentinel that was written behind the item.
 *
 * Real code: source/cbor.c, the libcbor encoder/decoder files and source/byte_buf.c are compiled from /repo as they are.
 * Stubbed environment: allocator entry points (malloc), error slot, logger (none), fatal assert (abort). */
#include <stdio.h>
#include <stdlib.h>
#include <string.h>
#include <stdint.h>
#include <stdbool.h>
#include <aws/common/common.h>
#include <aws/common/byte_buf.h>
#include <aws/common/cbor.h>
#include <aws/common/logging.h>

#include "source/cbor.c"
#include "source/byte_buf.c"
#include "source/external/libcbor/cbor/encoding.c"
#include "source/external/libcbor/cbor/internal/encoders.c"
#include "source/external/libcbor/cbor/streaming.c"
#include "source/external/libcbor/cbor/internal/loaders.c"
#include "source/external/libcbor/allocators.c"

/* ---- environment stubs ---- */
static int s_last_error;
void aws_raise_error_private(int err) { s_last_error = err; }
int aws_last_error(void) { return s_last_error; }
void aws_fatal_assert(const char *cond_str, const char *file, int line) {
    printf("FAIL fatal assert %s at %s:%d\n", cond_str, file, line);
    exit(1);
}
struct aws_logger *aws_logger_get(void) { return NULL; }
void *aws_mem_acquire(struct aws_allocator *a, size_t n) { (void)a; void *p = malloc(n); if (!p) abort(); return p; }
void *aws_mem_calloc(struct aws_allocator *a, size_t n, size_t m) { (void)a; void *p = calloc(n, m); if (!p) abort(); return p; }
void aws_mem_release(struct aws_allocator *a, void *p) { (void)a; free(p); }
int aws_mem_realloc(struct aws_allocator *a, void **p, size_t o, size_t n) { (void)a; (void)o; void *q = realloc(*p, n); if (!q && n) abort(); *p = q; return 0; }
void aws_secure_zero(void *p, size_t n) { if (p) memset(p, 0, n); }
bool aws_allocator_is_valid(const struct aws_allocator *alloc) { return alloc != NULL; }
int aws_array_list_ensure_capacity(struct aws_array_list *list, size_t index) { (void)list; (void)index; abort(); } /* inline header code only; never called */
static struct aws_allocator s_alloc;

/* ---- independent skipper (RFC 8949 section 3; no depth limit) ---- */
static size_t spec_item(const uint8_t *p, size_t n) {
    if (n < 1) return 0;
    uint8_t mt = p[0] >> 5, ai = p[0] & 31;
    if (ai >= 28 && ai != 31) return 0;
    if (ai == 31) {
        if (mt < 2 || mt > 5) return 0;
        size_t off = 1; unsigned cnt = 0;
        for (;;) {
            if (off >= n) return 0;
            if (p[off] == 0xFF) return (mt == 5 && (cnt & 1)) ? 0 : off + 1;
            if ((mt == 2 || mt == 3) && ((p[off] >> 5) != mt || (p[off] & 31) > 27)) return 0;
            size_t l = spec_item(p + off, n - off);
            if (!l) return 0;
            off += l; ++cnt;
        }
    }
    size_t al = ai < 24 ? 0 : (size_t)1 << (ai - 24);
    if (n < 1 + al) return 0;
    uint64_t arg = ai;
    if (ai >= 24) { arg = 0; for (size_t i = 0; i < al; ++i) arg = (arg << 8) | p[1 + i]; }
    if (mt == 0 || mt == 1 || mt == 7) return 1 + al;
    if (mt == 2 || mt == 3) return arg <= n - 1 - al ? 1 + al + (size_t)arg : 0;
    size_t off = 1 + al;
    uint64_t items = mt == 6 ? 1 : mt == 4 ? arg : 2 * arg;
    for (uint64_t i = 0; i < items; ++i) { size_t l = spec_item(p + off, n - off); if (!l) return 0; off += l; }
    return off;
}

/* ---- structure generator ---- */
static uint64_t s_rng;
static uint64_t rnd(void) { s_rng ^= s_rng << 13; s_rng ^= s_rng >> 7; s_rng ^= s_rng << 17; return s_rng; }

#define N_LEAF 14
static void write_leaf(struct aws_cbor_encoder *e, unsigned k) {
    static const uint8_t blob[300] = {1, 2, 3};
    switch (k) {
        case 0: aws_cbor_encoder_write_uint(e, 0); break;
        case 1: aws_cbor_encoder_write_uint(e, 24); break;
        case 2: aws_cbor_encoder_write_uint(e, 0x10000); break;
        case 3: aws_cbor_encoder_write_uint(e, UINT64_MAX); break;
        case 4: aws_cbor_encoder_write_negint(e, 255); break;
        case 5: aws_cbor_encoder_write_negint(e, 256); break;
        case 6: aws_cbor_encoder_write_bool(e, true); break;
        case 7: aws_cbor_encoder_write_null(e); break;
        case 8: aws_cbor_encoder_write_undefined(e); break;
        case 9: aws_cbor_encoder_write_float(e, 1.5); break;
        case 10: aws_cbor_encoder_write_float(e, 0.1); break;
        case 11: aws_cbor_encoder_write_bytes(e, aws_byte_cursor_from_array(blob, 0)); break;
        case 12: aws_cbor_encoder_write_text(e, aws_byte_cursor_from_array(blob, 23)); break;
        default: aws_cbor_encoder_write_bytes(e, aws_byte_cursor_from_array(blob, 300)); break; /* payload bytes 0xFF-free but long */
    }
}
/* container kinds: 0 tag, 1 array(n), 2 map(n pairs), 3 indef array, 4 indef map, 5 indef bytes, 6 indef text */
#define N_CONT 7

/* exhaustive enumeration: a mixed-radix counter drives every choice; `next` consumes one digit */
static unsigned s_digits[64], s_radix[64], s_ndig, s_pos;
static bool s_random;
static unsigned choose(unsigned radix) {
    if (s_random) return (unsigned)(rnd() % radix);
    if (s_pos == s_ndig) { s_digits[s_ndig] = 0; s_radix[s_ndig] = radix; ++s_ndig; }
    return s_digits[s_pos++];
}
static bool advance_counter(void) {
    while (s_ndig > 0) {
        if (++s_digits[s_ndig - 1] < s_radix[s_ndig - 1]) return true;
        --s_ndig;
    }
    return false;
}
static unsigned s_max_children;
static void gen_item(struct aws_cbor_encoder *e, unsigned depth) {
    /* the exhaustive pass uses four representative leaves (embedded head, 4-byte head, short text, long bytes) */
    static const unsigned few[4] = {0, 2, 12, 13};
    unsigned nleaf = s_random ? N_LEAF : 4;
    unsigned k = choose(depth == 0 ? nleaf : nleaf + N_CONT);
    if (k < nleaf) { write_leaf(e, s_random ? k : few[k]); return; }
    k -= nleaf;
    unsigned n = k == 0 ? 1 : choose(s_max_children + 1);
    switch (k) {
        case 0: aws_cbor_encoder_write_tag(e, choose(2) ? 1 : 1000000); gen_item(e, depth - 1); break;
        case 1: aws_cbor_encoder_write_array_start(e, n); for (unsigned i = 0; i < n; ++i) gen_item(e, depth - 1); break;
        case 2: aws_cbor_encoder_write_map_start(e, n); for (unsigned i = 0; i < 2 * n; ++i) gen_item(e, depth - 1); break;
        case 3: aws_cbor_encoder_write_indef_array_start(e); for (unsigned i = 0; i < n; ++i) gen_item(e, depth - 1); aws_cbor_encoder_write_break(e); break;
        case 4: aws_cbor_encoder_write_indef_map_start(e); for (unsigned i = 0; i < 2 * n; ++i) gen_item(e, depth - 1); aws_cbor_encoder_write_break(e); break;
        case 5: aws_cbor_encoder_write_indef_bytes_start(e); for (unsigned i = 0; i < n; ++i) write_leaf(e, 11 + 2 * (i & 1)); aws_cbor_encoder_write_break(e); break;
        default: aws_cbor_encoder_write_indef_text_start(e); for (unsigned i = 0; i < n; ++i) write_leaf(e, 12); aws_cbor_encoder_write_break(e); break;
    }
}

static unsigned long s_cases, s_fails;
static void fail(const char *what, const uint8_t *p, size_t n) {
    if (++s_fails > 10) return;
    printf("FAIL %s: item", what);
    for (size_t i = 0; i < n && i < 48; ++i) printf(" %02x", p[i]);
    printf("%s\n", n > 48 ? " ..." : "");
}
static void one_case(unsigned depth, bool cached_first) {
    struct aws_cbor_encoder *e = aws_cbor_encoder_new(&s_alloc);
    s_pos = 0;
    gen_item(e, depth);
    size_t item_len = aws_cbor_encoder_get_encoded_data(e).len;
    const uint64_t sentinel = 0x1122334455667788ull;
    aws_cbor_encoder_write_uint(e, sentinel); /* what follows the item */
    struct aws_byte_cursor all = aws_cbor_encoder_get_encoded_data(e);
    ++s_cases;
    if (spec_item(all.ptr, all.len) != item_len) fail("independent skipper disagrees with the encoder about the item's extent", all.ptr, item_len);
    struct aws_cbor_decoder *d = aws_cbor_decoder_new(&s_alloc, all);
    if (cached_first) { enum aws_cbor_type t; if (aws_cbor_decoder_peek_type(d, &t)) fail("peek before skip failed", all.ptr, item_len); }
    if (aws_cbor_decoder_consume_next_whole_data_item(d) != AWS_OP_SUCCESS) fail("skip reported an error", all.ptr, item_len);
    else if (aws_cbor_decoder_get_remaining_length(d) != all.len - item_len) fail("skip did not stop exactly behind the item", all.ptr, item_len);
    else {
        uint64_t v = 0;
        if (aws_cbor_decoder_pop_next_unsigned_int_val(d, &v) != AWS_OP_SUCCESS || v != sentinel || aws_cbor_decoder_get_remaining_length(d) != 0)
            fail("the element after the item is not the sentinel", all.ptr, item_len);
    }
    aws_cbor_decoder_destroy(d);
    aws_cbor_encoder_destroy(e);
}


/* long runs through ONE decoder: state that a skip leaves behind in the decoder (nesting counters, caches) must not build
 * up - N tagged items skipped one after the other, and one array of N tagged items skipped as a whole (N = 1000) */
static void long_runs(void) {
    enum { N = 1000 };
    struct aws_allocator *a = &s_alloc;
    for (int as_array = 0; as_array < 2; ++as_array) {
        struct aws_cbor_encoder *e = aws_cbor_encoder_new(a);
        if (as_array) aws_cbor_encoder_write_array_start(e, N);
        for (int i = 0; i < N; ++i) {
            aws_cbor_encoder_write_tag(e, (uint64_t)(i % 3) + 1);
            if (i % 2) { aws_cbor_encoder_write_array_start(e, 1); aws_cbor_encoder_write_uint(e, (uint64_t)i); }
            else aws_cbor_encoder_write_uint(e, (uint64_t)i * 1000003u);
        }
        aws_cbor_encoder_write_uint(e, 99); /* sentinel */
        struct aws_byte_cursor all = aws_cbor_encoder_get_encoded_data(e);
        struct aws_cbor_decoder *d = aws_cbor_decoder_new(a, all);
        int skips = as_array ? 1 : N;
        for (int i = 0; i < skips; ++i) {
            if (aws_cbor_decoder_consume_next_whole_data_item(d)) {
                printf("FAIL long run (%s): skip %d of %d reported an error on well-formed data\n", as_array ? "array of 1000 tagged items" : "1000 tagged items in a row", i + 1, skips);
                fflush(stdout);
                s_fails++;
                break;
            }
        }
        uint64_t v = 0;
        if (!s_fails && (aws_cbor_decoder_pop_next_unsigned_int_val(d, &v) || v != 99 || aws_cbor_decoder_get_remaining_length(d) != 0)) {
            printf("FAIL long run (%s): the element after the skipped items is not the sentinel\n", as_array ? "array" : "sequence");
            fflush(stdout);
            s_fails++;
        }
        s_cases++;
        aws_cbor_decoder_destroy(d);
        aws_cbor_encoder_destroy(e);
    }
}

int main(int argc, char **argv) {
    uint64_t seed = argc > 1 ? strtoull(argv[1], NULL, 10) : 1;
    unsigned long samples = argc > 2 && strcmp(argv[2], "thorough") == 0 ? 2000000ul : 200000ul;
    /* exhaustive: depth <= 2, up to 1 array item / map pair / indefinite member per container, 4 leaf kinds */
    s_random = false; s_max_children = 1;
    for (unsigned depth = 0; depth <= 2; ++depth) {
        s_ndig = 0;
        do { one_case(depth, (s_cases & 1) != 0); } while (advance_counter() && s_fails == 0 && s_cases < 40000000ul);
    }
    unsigned long exhaustive = s_cases;
    if (s_fails == 0) long_runs();
    /* sampled: depth up to 12, up to 3 children */
    s_random = true; s_max_children = 3; s_rng = seed * 0x9E3779B97F4A7C15ull + 1;
    for (unsigned long i = 0; i < samples && s_fails == 0; ++i) one_case(1 + (unsigned)(rnd() % 12), (rnd() & 1) != 0);
    printf("exhaustive depth<=2: %lu, sampled depth<=12: %lu (seed %llu)\n", exhaustive, s_cases - exhaustive, (unsigned long long)seed);
    printf("CASES %lu\n", s_cases);
    return s_fails ? 1 : 0;
}
