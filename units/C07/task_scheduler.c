/* Proof units for C07 (task scheduler), function level: contracts + the REAL source/task_scheduler.c with the REAL
 * inline linked-list functions of include/aws/common/linked_list.inl.  The heap calls are replaced by the client
 * contracts of contracts/task_scheduler.h.  See that header for the model (arena of tasks, sentinels, ghost heap). */
#include "contracts/task_scheduler.h"
#include "source/task_scheduler.c"

/* reaching an abort from a state that satisfies the contract's precondition is a failed obligation */
void aws_fatal_assert(const char *cond_str, const char *file, int line) {
    (void)cond_str; (void)file; (void)line;
    __CPROVER_assert(0, "aws_fatal_assert reached: the library would abort");
    __CPROVER_assume(0);
}

/* ---- arbitrary pre-state over the arena (shape only; the requires clauses select the meaningful ones) ---- */
static struct aws_linked_list_node *ts_pick(void) {
    size_t c = nondet_size_t();
    if (c < TSK) return &g_tk[c].node;
    switch (c - TSK) {
        case 0: return &g_sc.asap_list.head;
        case 1: return &g_sc.asap_list.tail;
        case 2: return &g_sc.timed_list.head;
        case 3: return &g_sc.timed_list.tail;
        case 4: return &g_run.head;
        case 5: return &g_run.tail;
        default: return NULL;
    }
}
#if VERIF_TS_K != 4
#    error "ts_build is written out for 4 arena tasks"
#endif
#define TS_BUILD_TASK(i) do { g_tk[i].node.next = ts_pick(); g_tk[i].node.prev = ts_pick(); } while (0)
static void ts_build(void) {
    /* fn, arg, timestamp, handle, flag, type_tag of the tasks: arbitrary (DFCC leaves statics nondeterministic).
     * No loop here: the units' unwind settings are meant for library loops only. */
    TS_BUILD_TASK(0); TS_BUILD_TASK(1); TS_BUILD_TASK(2); TS_BUILD_TASK(3);
    g_sc.asap_list.head.next = ts_pick();  g_sc.asap_list.head.prev = NULL;
    g_sc.asap_list.tail.prev = ts_pick();  g_sc.asap_list.tail.next = NULL;
    g_sc.timed_list.head.next = ts_pick(); g_sc.timed_list.head.prev = NULL;
    g_sc.timed_list.tail.prev = ts_pick(); g_sc.timed_list.tail.next = NULL;
    g_run.head.next = ts_pick();           g_run.head.prev = NULL;
    g_run.tail.prev = ts_pick();           g_run.tail.next = NULL;
    g_sc.alloc = &g_ts_alloc;
    g_q_slot[0] = &g_tk[0]; g_q_slot[1] = &g_tk[1]; g_q_slot[2] = &g_tk[2]; g_q_slot[3] = &g_tk[3];
}
static struct aws_task *ts_any_task(void) {
    size_t i = nondet_size_t();
    __CPROVER_assume(i < TSK);
    return &g_tk[i];
}
#define TS_GHOSTS()                                                                                                    \
    do {                                                                                                               \
        GHOST_RESET_TS();                                                                                              \
        g_fn_calls = nondet_size_t(); g_q_npush = nondet_size_t(); g_q_ntop = nondet_size_t(); g_q_nremove = nondet_size_t(); \
        g_fn_task = NULL; g_fn_arg = NULL; g_q_pushed = NULL; g_q_pushed_bp = NULL; g_q_removed_bp = NULL; \
        g_w = NULL; g_wn = NULL; g_wn_next = NULL; g_wn_prev = NULL;                                                   \
    } while (0)

/* ---------------------------------------------------------------- task level */
void h_task_init(void) {
    TS_GHOSTS();
    struct aws_task *task; aws_task_fn *fn; void *arg; const char *tag;
    aws_task_init(task, fn, arg, tag);
    CANARY("returned");
}

void h_task_run(void) {
    TS_GHOSTS(); ts_build();
    g_fn_req_detached = nondet_bool();
    struct aws_task *task = ts_any_task();
    enum aws_task_status st = nondet_bool() ? AWS_TASK_STATUS_RUN_READY : AWS_TASK_STATUS_CANCELED;
    bool was = task->abi_extension.scheduled;
    aws_task_run(task, st);
    if (st == AWS_TASK_STATUS_CANCELED) CANARY("cancelled"); else if (was) CANARY("run, flag was set"); else CANARY("run, flag was clear");
}

/* ---------------------------------------------------------------- schedule */
void h_schedule_now(void) {
    TS_GHOSTS(); ts_build();
    struct aws_task *task = ts_any_task();
    bool empty = g_sc.asap_list.tail.prev == &g_sc.asap_list.head;
    aws_task_scheduler_schedule_now(&g_sc, task);
    if (empty) CANARY("FIFO was empty"); else CANARY("appended behind another task");
}

void h_schedule_future(void) {
    TS_GHOSTS(); ts_build();
    struct aws_task *task = ts_any_task();
    uint64_t t = nondet_u64();
    g_wn = ts_pick(); g_wn_next = nondet_ptr(); g_wn_prev = nondet_ptr();
    g_q_push_fails = nondet_bool();
    aws_task_scheduler_schedule_future(&g_sc, task, t);
    if (t == 0) CANARY("time 0"); else if (t == UINT64_MAX) CANARY("time UINT64_MAX"); else CANARY("other time");
}

/* ---------------------------------------------------------------- cancel */
void h_cancel(void) {
    TS_GHOSTS(); ts_build();
    g_fn_req_detached = true;
    struct aws_task *task = ts_any_task();
    struct aws_linked_list_node *n = task->node.next, *p = task->node.prev;
    bool sch = task->abi_extension.scheduled;
    aws_task_scheduler_cancel_task(&g_sc, task);
    if (n == NULL) { if (sch) CANARY("was in the heap"); else CANARY("was not scheduled"); }
    else if (p == &g_run.head && n == &g_run.tail) CANARY("only task of the current run's batch");
    else if (p == &g_sc.asap_list.head) CANARY("front of the FIFO");
    else if (n == &g_sc.timed_list.tail) CANARY("back of the overflow list");
    else if (n != &g_sc.asap_list.tail && n != &g_run.tail && p != &g_sc.timed_list.head && p != &g_run.head) CANARY("between two tasks");
    else CANARY("other list position");
}

/* ---------------------------------------------------------------- has_tasks */
void h_has_tasks(void) {
    TS_GHOSTS(); ts_build();
    g_on = true;
    g_w = ts_any_task(); g_w_asap = nondet_bool(); g_w_list = nondet_bool(); g_w_heap = nondet_bool();
    g_q_size = nondet_size_t(); g_q_top_i = nondet_size_t();
    uint64_t *out = nondet_bool() ? &g_next_out : NULL;
    bool r = aws_task_scheduler_has_tasks(&g_sc, out);
    if (!out) CANARY("no out parameter");
    else if (g_next_out == 0 && g_w_asap) CANARY("run-now task pending");
    else if (g_w_list && g_next_out == g_w->timestamp) CANARY("overflow list front is the earliest");
    else if (g_w_heap && g_next_out == g_w->timestamp) CANARY("heap top is the earliest");
    else CANARY("other");
}
void h_has_tasks_none(void) {
    TS_GHOSTS(); ts_build();
    g_q_size = nondet_size_t(); g_q_top_i = nondet_size_t();
    uint64_t *out = nondet_bool() ? &g_next_out : NULL;
    bool r = aws_task_scheduler_has_tasks(&g_sc, out);
    if (!r && out && g_next_out == UINT64_MAX) CANARY("nothing pending: UINT64_MAX");
    else if (r && out && g_next_out == UINT64_MAX) CANARY("pending task with time UINT64_MAX");
    else if (!r) CANARY("nothing pending"); else CANARY("pending");
}

/* ---------------------------------------------------------------- the heap's ordering function */
/* ALL pairs of heap slots (same slot, two slots with the same task, different tasks) and ALL 64-bit time stamps (the
 * arena tasks' fields are arbitrary).  Unbounded: the function is loop-free, nothing is cut down. */
uint64_t r_ta, r_tb; /* replay variables: copies of the two time stamps (read back from a counterexample trace by the driver) */
void h_compare_timestamps(void) {
    TS_GHOSTS(); ts_build();
    size_t i = nondet_size_t(), j = nondet_size_t();
    __CPROVER_assume(i < TSK && j < TSK);
    uint64_t ta = g_tk[i].timestamp, tb = g_tk[j].timestamp;
    r_ta = ta; r_tb = tb;
    int r = s_compare_timestamps(&g_q_slot[i], &g_q_slot[j]);
    if (i == j) CANARY("same slot");
    else if (ta == tb) CANARY("two tasks of equal time");
    else if (ta == 0 && tb == UINT64_MAX) CANARY("0 against UINT64_MAX");
    else if (ta == UINT64_MAX && tb == 0) CANARY("UINT64_MAX against 0");
    else if (ta > tb && ta - tb > ((uint64_t)1 << 63)) CANARY("later, more than 2^63 apart");
    else if (ta < tb && tb - ta > ((uint64_t)1 << 63)) CANARY("earlier, more than 2^63 apart");
    else if (ta > tb) CANARY("later"); else CANARY("earlier");
    if (r > 0) CANARY("result: a sinks below b"); else CANARY("result: a stays");
}

/* ---------------------------------------------------------------- forwarders */
void h_init(void) {
    TS_GHOSTS();
    g_init_fails = nondet_bool();
    int r = aws_task_scheduler_init(&g_sc, &g_ts_alloc);
    if (r == AWS_OP_SUCCESS) CANARY("initialised"); else CANARY("refused");
}
void h_run_all(void) {
    TS_GHOSTS(); ts_build();
    uint64_t t = nondet_u64();
    aws_task_scheduler_run_all(&g_sc, t);
    CANARY("returned");
}

void h_clean_up(void) {
    TS_GHOSTS(); ts_build();
    g_pq_valid = nondet_bool();
    if (nondet_bool()) g_sc.alloc = NULL;
    g_cu_valid = nondet_bool();
    size_t ra0 = g_ra_calls;
    aws_task_scheduler_clean_up(&g_sc);
    if (!g_cu_valid) CANARY("scheduler was not valid: nothing cancelled");
    else if (g_ra_calls == ra0) CANARY("no task pending");
    else if (g_ra_calls == ra0 + 1) CANARY("one round");
    else CANARY("several rounds");
}

/* ---------------------------------------------------------------- overflow list (heap refused the push): bounded */
#ifdef VERIF_TS_OVERFLOW
#    ifndef VERIF_TS_OVF_N
#        define VERIF_TS_OVF_N 3 /* tasks in the overflow list before the insertion: at most this many (<= 3) */
#    endif
void h_schedule_future_overflow(void) {
    TS_GHOSTS(); ts_build();
    size_t a = nondet_size_t(), o[3] = {nondet_size_t(), nondet_size_t(), nondet_size_t()}, n = nondet_size_t();
    __CPROVER_assume(a < TSK && o[0] < TSK && o[1] < TSK && o[2] < TSK && n <= VERIF_TS_OVF_N);
    __CPROVER_assume(a != o[0] && a != o[1] && a != o[2] && o[0] != o[1] && o[0] != o[2] && o[1] != o[2]);
    struct aws_task *task = &g_tk[a];
    uint64_t t = nondet_u64();
    /* the overflow list: n of the other arena tasks in arbitrary order, well linked, sorted by time (scheduler invariant) */
    struct aws_linked_list_node *prev = &g_sc.timed_list.head;
    for (size_t i = 0; i < 3; i++) {
        if (i < n) {
            struct aws_linked_list_node *nd = &g_tk[o[i]].node;
            prev->next = nd; nd->prev = prev;
            if (i > 0) __CPROVER_assume(g_tk[o[i - 1]].timestamp <= g_tk[o[i]].timestamp);
            prev = nd;
        }
    }
    prev->next = &g_sc.timed_list.tail; g_sc.timed_list.tail.prev = prev;
    g_q_push_fails = true;
    g_wn = ts_pick(); __CPROVER_assume(g_wn != NULL && g_wn != &task->node);
    g_wn_next = g_wn->next; g_wn_prev = g_wn->prev;

    aws_task_scheduler_schedule_future(&g_sc, task, t);

    /* whole-list view after the call: old sequence with the task inserted behind the last task whose time is <= t */
    size_t pos = 0;
    for (size_t i = 0; i < 3; i++) if (i < n && g_tk[o[i]].timestamp <= t) pos = i + 1;
    struct aws_linked_list_node *nd = g_sc.timed_list.head.next; prev = &g_sc.timed_list.head;
    for (size_t i = 0; i < 4; i++) {
        if (i < n + 1) {
            struct aws_linked_list_node *want = i == pos ? &task->node : &g_tk[o[i < pos ? i : i - 1]].node;
            __CPROVER_assert(nd == want, "overflow list: expected sequence (old order kept, task behind the last task with time <= t)");
            __CPROVER_assert(nd->prev == prev, "overflow list: prev links mirror next links");
            prev = nd; nd = nd->next;
        }
    }
    __CPROVER_assert(nd == &g_sc.timed_list.tail && g_sc.timed_list.tail.prev == prev, "overflow list: ends at the tail sentinel");
    if (n == 0) CANARY("overflow list was empty");
    else if (pos == 0) CANARY("inserted at the front");
    else if (pos == n && n == VERIF_TS_OVF_N && g_tk[o[n - 1]].timestamp == t) CANARY("inserted at the back behind a task of the same time");
    else if (pos == n) CANARY("inserted at the back");
    else CANARY("inserted in the middle");
}
#endif
