/* C07, unit run_all_logic: the REAL s_run_all over ABSTRACT containers - unbounded, by loop contracts.
 * See contracts/task_scheduler.h, section "s_run_all: decision logic over ABSTRACT containers" for the model.
 *
 * The five container operations that move tasks are routed (by #define, the library text is unchanged) to the client
 * models below; each model ASSERTS what the caller owes (named obligations) and then produces ANY result the real
 * container could produce (nondeterministic "next front", constrained only by the container's own invariants).  They are
 * written as C bodies rather than as replaced contracts because one more contract replacement per call site exceeds
 * CBMC's object numbering (> 2^10 addressed objects with DFCC) - same content, cheaper encoding. */
#include "contracts/task_scheduler.h"

static bool ts_is_batch(const struct aws_linked_list *l) { return l != &g_sc.asap_list && l != &g_sc.timed_list; }

/* a new front / top: any arena task that is not one of `a`, `b`, `c` (containers are disjoint) with an idle handle */
static size_t ts_new_front(bool needed, size_t a, size_t b, size_t c) {
    size_t n = nondet_size_t();
    if (needed) __CPROVER_assume(n < TSK && n != a && n != b && n != c);
    return n;
}
#define TS_NONE ((size_t)-1)

static void ts_abs_swap_contents(struct aws_linked_list *a, struct aws_linked_list *b) {
    __CPROVER_assert(ts_is_batch(a) && b == &g_sc.asap_list, "swap_contents: the batch takes over the run-now FIFO");
    __CPROVER_assert(a->head.next == &a->tail && !g_moved_any, "swap_contents: the batch is still empty (run-now tasks first)");
    g_run_len = g_asap_len;
    g_asap_len = 0;
    g_swapped = true;
    a->head.next = g_run_len > 0 ? &g_tk[g_run_front_i].node : &a->tail;
    b->head.next = &b->tail;
    b->tail.prev = &b->head;
}

static struct aws_linked_list_node *ts_abs_pop_front(struct aws_linked_list *list) {
    if (list == &g_sc.timed_list) {
        __CPROVER_assert(g_tl_len > 0, "pop_front(overflow list): list is not empty");
        size_t old = g_tl_front_i;
        g_tl_len--;
        g_tk[old].node.next = NULL; g_tk[old].node.prev = NULL;
        size_t n = ts_new_front(g_tl_len > 0, old, g_q_size > 0 ? g_q_top_i : TS_NONE, g_run_len > 0 ? g_run_front_i : TS_NONE);
        if (g_tl_len > 0) __CPROVER_assume(g_tk[n].timestamp >= g_tk[old].timestamp && TS_HANDLE(&g_tk[n]) == SIZE_MAX); /* sorted; idle handle */
        g_tl_front_i = n;
        list->head.next = g_tl_len > 0 ? &g_tk[n].node : &list->tail;
        return &g_tk[old].node;
    }
    __CPROVER_assert(ts_is_batch(list), "pop_front: only the overflow list and the batch are popped");
    __CPROVER_assert(g_run_len > 0, "pop_front(batch): batch is not empty");
    size_t old = g_run_front_i;
    g_run_len--;
    g_tk[old].node.next = NULL; g_tk[old].node.prev = NULL;
    size_t n = ts_new_front(g_run_len > 0, old, g_q_size > 0 ? g_q_top_i : TS_NONE, g_tl_len > 0 ? g_tl_front_i : TS_NONE);
    if (g_run_len > 0) __CPROVER_assume(TS_HANDLE(&g_tk[n]) == SIZE_MAX);
    g_run_front_i = n;
    list->head.next = g_run_len > 0 ? &g_tk[n].node : &list->tail;
    return &g_tk[old].node;
}

static void ts_abs_push_back(struct aws_linked_list *list, struct aws_linked_list_node *node) {
    __CPROVER_assert(ts_is_batch(list), "push_back: s_run_all appends to its private batch only");
    __CPROVER_assert(TS_IS_TNODE(node), "push_back: a task's node");
    __CPROVER_assert(g_swapped, "order: run-now tasks are moved to the batch before any timed task");
    __CPROVER_assert(TS_TASK_OF(node)->timestamp <= g_now, "never early: only tasks with time <= current_time enter the batch");
    __CPROVER_assert(!g_moved_any || TS_TASK_OF(node)->timestamp >= g_last_moved_ts, "order: timed tasks enter the batch in non-decreasing time order");
    __CPROVER_assert(TS_HANDLE(TS_TASK_OF(node)) == SIZE_MAX && node->next == NULL, "push_back: the task was taken out of its container first");
    g_last_moved_ts = TS_TASK_OF(node)->timestamp;
    g_moved_any = true;
    g_moved_timed++;
    if (g_run_len == 0) { g_run_front_i = TS_TNODE_INDEX(node); list->head.next = node; }
    g_run_len++;
    node->next = &list->tail; node->prev = &list->head; /* some non-NULL links */
    list->tail.prev = node;
}

static int ts_abs_top(const struct aws_priority_queue *queue, void **item) {
    __CPROVER_assert(queue == &g_sc.timed_queue, "top: the scheduler's heap");
    if (g_q_size == 0) return AWS_OP_ERR;
    *item = &g_q_slot[g_q_top_i];
    return AWS_OP_SUCCESS;
}
static int ts_abs_pop(struct aws_priority_queue *queue, void *item) {
    __CPROVER_assert(queue == &g_sc.timed_queue && g_q_size > 0, "pop: the scheduler's heap, not empty");
    size_t old = g_q_top_i;
    *(struct aws_task **)item = &g_tk[old];
    g_tk[old].priority_queue_node.current_index = SIZE_MAX;
    g_q_size--;
    size_t n = ts_new_front(g_q_size > 0, old, g_tl_len > 0 ? g_tl_front_i : TS_NONE, g_run_len > 0 ? g_run_front_i : TS_NONE);
    if (g_q_size > 0) __CPROVER_assume(g_tk[n].timestamp >= g_tk[old].timestamp && g_tk[n].node.next == NULL); /* heap order; heap tasks are not linked */
    g_q_top_i = n;
    return AWS_OP_SUCCESS;
}

#define aws_linked_list_swap_contents ts_abs_swap_contents
#define aws_linked_list_pop_front ts_abs_pop_front
#define aws_linked_list_push_back ts_abs_push_back
#define aws_priority_queue_top ts_abs_top
#define aws_priority_queue_pop ts_abs_pop
#include "source/task_scheduler.c"

void aws_fatal_assert(const char *cond_str, const char *file, int line) {
    (void)cond_str; (void)file; (void)line;
    __CPROVER_assert(0, "aws_fatal_assert reached: the library would abort");
    __CPROVER_assume(0);
}

void h_run_all_logic(void) {
    GHOST_RESET_TS();
    g_fn_calls = nondet_size_t(); g_fn_task = NULL; g_fn_arg = NULL;
    g_q_slot[0] = &g_tk[0]; g_q_slot[1] = &g_tk[1]; g_q_slot[2] = &g_tk[2]; g_q_slot[3] = &g_tk[3];
    g_fn_req_detached = true;
    uint64_t t = nondet_u64();
    enum aws_task_status st = nondet_bool() ? AWS_TASK_STATUS_RUN_READY : AWS_TASK_STATUS_CANCELED;
    g_now = t; g_expect_status = (int)st;
    g_asap_len = nondet_size_t(); g_tl_len = nondet_size_t(); g_q_size = nondet_size_t(); g_run_len = nondet_size_t();
    g_tl_front_i = nondet_size_t(); g_run_front_i = nondet_size_t(); g_q_top_i = nondet_size_t();
    g_sc.alloc = &g_ts_alloc;
    g_sc.asap_list.head.next = NULL; g_sc.asap_list.head.prev = NULL; g_sc.asap_list.tail.next = NULL; g_sc.asap_list.tail.prev = NULL;
    g_sc.timed_list.head.prev = NULL; g_sc.timed_list.tail.next = NULL; g_sc.timed_list.tail.prev = NULL;
    g_sc.timed_list.head.next = (g_tl_len > 0 && g_tl_front_i < TSK) ? &g_tk[g_tl_front_i].node : &g_sc.timed_list.tail;
    g_tk[0].node.next = NULL; g_tk[0].node.prev = NULL; g_tk[1].node.next = NULL; g_tk[1].node.prev = NULL;
    g_tk[2].node.next = NULL; g_tk[2].node.prev = NULL; g_tk[3].node.next = NULL; g_tk[3].node.prev = NULL;
    size_t a0 = g_asap_len, l0 = g_tl_len, q0 = g_q_size;
    s_run_all(&g_sc, t, st);
    if (l0 > 0 && g_tl_len < l0 && g_q_size < q0 && a0 > 0) CANARY("run-now tasks and tasks from both the overflow list and the heap run");
    else CANARY("other");
}
