/* C07, whole-scheduler units (BOUNDED): the REAL source/task_scheduler.c, source/priority_queue.c, source/array_list.c
 * and the inline linked-list / array-list functions, driven through sequences of the public operations with task
 * functions that re-enter the scheduler, against a reference model that states the property literally:
 *
 *   - a task's function is invoked only while the task is pending, and then it stops being pending   (exactly once)
 *   - RUN_READY only inside run_all(t), only if the task is a run-now task or its time is <= t        (never early)
 *     and only if it was handed over before this run_all began                    (scheduled from inside: next run)
 *   - inside one run_all: all run-now tasks before any timed task, run-now tasks in hand-over order,
 *     timed tasks in non-decreasing time order                                                               (order)
 *   - when run_all(t) returns no task handed over before it with (run-now or time <= t) is still pending  (first run)
 *   - CANCELED only from cancel_task(that task) or from clean_up; after clean_up nothing is pending
 *   - has_tasks: true iff something is pending; time 0 if a run-now task is pending, else the minimum pending time,
 *     UINT64_MAX if nothing is pending                                                                   (next time)
 *
 * Mode "native" (compiled with cc and run; never counted as proved): the scenario function is run for every choice
 * sequence (exhaustive: operations, task indices, times from a small table with 0, equal, decreasing and UINT64_MAX
 * values, heap refusal on/off, re-entrant actions) or for pseudo-random choice sequences with larger bounds.
 * The scheduler only compares time stamps with each other and with the run time (and uses the constants 0 and
 * UINT64_MAX), so what matters is the order type of the <= 4 times a 3-operation scenario contains; the 4-value table
 * realises every order type (when all four differ, the smallest is 0 and the largest UINT64_MAX; the random unit uses 6 values).
 * (A symbolic CBMC run of the same scenarios was tried with the real heap and with an executable heap model: one
 * schedule_future + two run_all calls on ONE task do not finish within 10 minutes - the pointer structure of the lists
 * after a symbolic branch makes the formula explode; the function-level units are where CBMC decides things.)
 *
 * Environment: the heap refuses a push only when told to (hook ts_hook_push_ref around the REAL aws_priority_queue_push_ref;
 * the library text is unchanged) - this is the only way to reach the overflow list, since aws_mem_acquire never returns NULL.
 */
#include <stdbool.h>
#include <stddef.h>
#include <stdint.h>
#include <stdio.h>
#include <stdlib.h>
#include <string.h>

#ifndef VERIF_SEQ_NT
#    define VERIF_SEQ_NT 3
#endif
#ifndef VERIF_SEQ_STEPS
#    define VERIF_SEQ_STEPS 3
#endif
#ifndef VERIF_SEQ_BUDGET
#    define VERIF_SEQ_BUDGET 1
#endif
#define NT VERIF_SEQ_NT

/* the overlay copy of task_scheduler.c (used when a built-in mutant is applied) carries loop-contract annotations */
#define __CPROVER_assigns(...)
#define __CPROVER_loop_invariant(...)
#define __CPROVER_decreases(...)
#include <aws/common/task_scheduler.h>
#include <signal.h>
#include <unistd.h>
static unsigned long n_fail, n_cases, n_checks;
static const char *cur_desc(void);
static void fail_now(const char *msg);
#define CHK(c, msg) do { n_checks++; if (!(c)) fail_now(msg); } while (0)
static size_t CH(size_t n);
static uint64_t CHT(void);
static unsigned SEQ_STEPS = VERIF_SEQ_STEPS, SEQ_BUDGET = VERIF_SEQ_BUDGET;

/* ---- system under test ---- */
static struct aws_task T[NT];
static struct aws_task_scheduler S;
static struct aws_allocator A;

/* ---- the real sources (overlay copy when a built-in mutant is applied to a native unit) ---- */
#if defined(__has_include)
#    if __has_include("ovl/source/task_scheduler.c")
#        define SEQ_OVL 1
#    endif
#endif
static bool env_push_fails;
#include "source/array_list.c"
#include "source/priority_queue.c"
static int ts_hook_push_ref(struct aws_priority_queue *q, void *item, struct aws_priority_queue_node *bp) {
    if (env_push_fails) return aws_raise_error(AWS_ERROR_OOM);
    return aws_priority_queue_push_ref(q, item, bp);
}
#define aws_priority_queue_push_ref ts_hook_push_ref
#ifdef SEQ_OVL
#    include "ovl/source/task_scheduler.c"
#else
#    include "source/task_scheduler.c"
#endif
#undef aws_priority_queue_push_ref

/* ---- environment bodies ---- */
static int env_last_error;
void aws_raise_error_private(int err) { env_last_error = err; }
int aws_last_error(void) { return env_last_error; }
struct aws_logger *aws_logger_get(void) { return NULL; }
void aws_fatal_assert(const char *cond_str, const char *file, int line) {
    (void)file; (void)line;
    fail_now(cond_str);
    abort();
}
void *aws_mem_acquire(struct aws_allocator *a, size_t n) { (void)a; return malloc(n); }
void *aws_mem_calloc(struct aws_allocator *a, size_t n, size_t s) { (void)a; return calloc(n, s); }
void aws_mem_release(struct aws_allocator *a, void *p) { (void)a; free(p); }

/* ---- reference model ---- */

static bool m_pend[NT], m_now[NT];
static uint64_t m_due[NT];
static unsigned m_seq[NT], m_epoch[NT], m_calls[NT];
static unsigned m_clock, m_cur_epoch, m_budget;
static bool m_in_run, m_in_cleanup, m_seen_timed, m_seen_now;
static uint64_t m_run_time, m_last_ts;
static unsigned m_last_now_seq;
static int m_cancel_target[VERIF_SEQ_BUDGET + 8];
static unsigned m_cancel_depth;

static void do_schedule_now(size_t j) {
    m_pend[j] = true; m_now[j] = true; m_due[j] = 0; m_seq[j] = ++m_clock; m_epoch[j] = m_cur_epoch;
    aws_task_scheduler_schedule_now(&S, &T[j]);
}
static void do_schedule_future(size_t j, uint64_t t, bool refuse) {
    m_pend[j] = true; m_now[j] = false; m_due[j] = t; m_seq[j] = ++m_clock; m_epoch[j] = m_cur_epoch;
    env_push_fails = refuse;
    aws_task_scheduler_schedule_future(&S, &T[j], t);
    env_push_fails = false;
}
static void do_cancel(size_t j) {
    unsigned before = m_calls[j];
    m_cancel_target[m_cancel_depth++] = (int)j;
    aws_task_scheduler_cancel_task(&S, &T[j]);
    m_cancel_depth--;
    CHK(m_calls[j] >= before + 1, "cancel: the task function was invoked");
}
#ifndef VERIF_SEQ_NO_OVERFLOW
#    define SEQ_REFUSE() (CH(2) == 1)
#else
#    define SEQ_REFUSE() false
#endif

static void tf(struct aws_task *task, void *arg, enum aws_task_status st) {
    size_t i = (size_t)(task - T);
    CHK(i < NT && arg == (void *)&m_calls[i], "task function called with its own task and arg");
    CHK(m_pend[i], "exactly once: function invoked although the task is not pending");
    m_pend[i] = false;
    m_calls[i]++;
    CHK(!task->abi_extension.scheduled, "scheduled flag cleared before the function is invoked");
    CHK(task->node.next == NULL && task->node.prev == NULL, "task is unlinked when its function runs");
    if (st == AWS_TASK_STATUS_RUN_READY) {
        CHK(m_in_run, "RUN_READY only from run_all");
        CHK(m_now[i] || m_due[i] <= m_run_time, "never early: task run before its time");
        CHK(m_epoch[i] < m_cur_epoch, "task scheduled from inside a running task must wait for the next run_all");
        if (m_now[i]) {
            CHK(!m_seen_timed, "order: run-now task after a timed task");
            CHK(!m_seen_now || m_seq[i] > m_last_now_seq, "order: run-now tasks in the order they were scheduled");
            m_seen_now = true; m_last_now_seq = m_seq[i];
        } else {
            CHK(!m_seen_timed || m_due[i] >= m_last_ts, "order: timed tasks in non-decreasing time order");
            m_seen_timed = true; m_last_ts = m_due[i];
        }
    } else {
        CHK(st == AWS_TASK_STATUS_CANCELED, "status is RUN_READY or CANCELED");
        CHK(m_in_cleanup || (m_cancel_depth > 0 && m_cancel_target[m_cancel_depth - 1] == (int)i), "CANCELED only for the cancelled task or during clean_up");
    }
    /* re-entrant action */
    if (m_budget > 0) {
        size_t act = CH(4), j = CH(NT);
        if (act == 1 && !m_pend[j]) { m_budget--; do_schedule_now(j); }
        else if (act == 2 && !m_pend[j]) { m_budget--; uint64_t t = CHT(); bool r = SEQ_REFUSE(); do_schedule_future(j, t, r); }
        else if (act == 3 && m_pend[j]) { m_budget--; do_cancel(j); }
    }
}

static void check_has_tasks(void) {
    uint64_t got = 12345, want = UINT64_MAX;
    bool any = false;
    for (size_t i = 0; i < NT; i++) {
        if (m_pend[i]) { any = true; uint64_t d = m_now[i] ? 0 : m_due[i]; if (d < want) want = d; }
    }
    bool r = aws_task_scheduler_has_tasks(&S, &got);
    CHK(r == any, "has_tasks: true iff a task is pending");
    CHK(got == want, "has_tasks: reports the earliest pending time (0 run-now, UINT64_MAX none)");
    CHK(aws_task_scheduler_has_tasks(&S, NULL) == any, "has_tasks without out parameter");
}

static void do_run_all(uint64_t t) {
    m_cur_epoch++;
    m_in_run = true; m_run_time = t; m_seen_timed = false; m_seen_now = false; m_last_ts = 0;
    aws_task_scheduler_run_all(&S, t);
    m_in_run = false;
    for (size_t i = 0; i < NT; i++)
        CHK(!(m_pend[i] && m_epoch[i] < m_cur_epoch && (m_now[i] || m_due[i] <= t)), "first run: a due task was not run by this run_all");
}

static void scenario(void) {
    memset(T, 0, sizeof(T)); memset(&S, 0, sizeof(S));
    for (size_t i = 0; i < NT; i++) { m_pend[i] = false; m_now[i] = false; m_due[i] = 0; m_seq[i] = 0; m_epoch[i] = 0; m_calls[i] = 0; }
    m_clock = 0; m_cur_epoch = 0; m_budget = SEQ_BUDGET; m_in_run = false; m_in_cleanup = false; m_cancel_depth = 0; env_push_fails = false;
    for (size_t i = 0; i < NT; i++) aws_task_init(&T[i], tf, &m_calls[i], "seq");
    int rc = aws_task_scheduler_init(&S, &A);
    CHK(rc == AWS_OP_SUCCESS, "init succeeds");
    check_has_tasks();
    for (unsigned s = 0; s < SEQ_STEPS; s++) {
        size_t op = CH(4), j = CH(NT);
        if (op == 0) { if (!m_pend[j]) do_schedule_now(j); }
        else if (op == 1) { if (!m_pend[j]) { uint64_t t = CHT(); bool r = SEQ_REFUSE(); do_schedule_future(j, t, r); } }
        else if (op == 2) { if (m_pend[j]) do_cancel(j); }
        else { do_run_all(CHT()); }
        check_has_tasks();
    }
    m_in_cleanup = true;
    aws_task_scheduler_clean_up(&S);
    m_in_cleanup = false;
    for (size_t i = 0; i < NT; i++) CHK(!m_pend[i], "clean_up: every pending task was cancelled");
}

/* ---- choice source: exhaustive odometer or PRNG ---- */
#define MAXC 256
static unsigned ch_val[MAXC], ch_lim[MAXC], ch_len, ch_pos;
static bool rnd_mode;
static uint64_t rng;
static uint64_t rnd(void) { rng ^= rng << 13; rng ^= rng >> 7; rng ^= rng << 17; return rng; }
static size_t CH(size_t n) {
    if (rnd_mode) { size_t c = (size_t)(rnd() % n); if (ch_pos < MAXC) { ch_val[ch_pos] = (unsigned)c; ch_lim[ch_pos] = (unsigned)n; ch_pos++; ch_len = ch_pos; } return c; }
    if (ch_pos >= MAXC) { printf("FAIL choice stack overflow\n"); exit(2); }
    if (ch_pos >= ch_len) { ch_val[ch_pos] = 0; ch_len = ch_pos + 1; }
    ch_lim[ch_pos] = (unsigned)n;
    return ch_val[ch_pos++];
}
static const uint64_t TV[] = {0, 1, 2, 5, UINT64_MAX - 1, UINT64_MAX};
static unsigned n_tv = 4;
static uint64_t CHT(void) { size_t k = CH(n_tv); return n_tv == 4 ? (const uint64_t[]){0, 1, 5, UINT64_MAX}[k] : TV[k]; }
static char descbuf[MAXC * 3 + 8];
static const char *cur_desc(void) {
    char *p = descbuf;
    for (unsigned i = 0; i < ch_pos && i < MAXC; i++) p += sprintf(p, "%u,", ch_val[i]);
    *p = 0;
    return descbuf;
}
static bool next_choice(void) {
    while (ch_len > 0) {
        if (ch_val[ch_len - 1] + 1 < ch_lim[ch_len - 1]) { ch_val[ch_len - 1]++; return true; }
        ch_len--;
    }
    return false;
}
/* fail fast: a broken scheduler may loop forever in clean_up or crash; the first violated check ends the run */
static void fail_now(const char *msg) {
    printf("FAIL %s [choices %s]\nCASES %lu\n", msg, cur_desc(), n_cases + 1);
    fflush(stdout);
    _exit(1);
}
static void on_signal(int sig) {
    fail_now(sig == SIGALRM ? "watchdog: scenario does not terminate (clean_up / run_all loops forever)" : "crash (signal) inside the library");
}
int main(int argc, char **argv) {
    signal(SIGALRM, on_signal); signal(SIGSEGV, on_signal); signal(SIGBUS, on_signal); signal(SIGABRT, on_signal); signal(SIGFPE, on_signal);
    alarm(30);
    /* args: exh STEPS BUDGET NTIMES | rnd STEPS BUDGET COUNT SEED | replay STEPS BUDGET NTIMES CHOICES */
    const char *mode = argc > 1 ? argv[1] : "exh";
    SEQ_STEPS = argc > 2 ? (unsigned)atoi(argv[2]) : VERIF_SEQ_STEPS;
    SEQ_BUDGET = argc > 3 ? (unsigned)atoi(argv[3]) : VERIF_SEQ_BUDGET;
    if (SEQ_BUDGET > VERIF_SEQ_BUDGET) { printf("FAIL budget above compiled maximum\n"); return 2; }
    if (strcmp(mode, "replay") == 0) {
        /* replay STEPS BUDGET NTIMES c0,c1,c2,...  : re-run ONE scenario from the choice list printed in a FAIL line */
        n_tv = argc > 4 ? (unsigned)atoi(argv[4]) : 4;
        ch_len = 0;
        for (char *q = argc > 5 ? argv[5] : ""; *q && ch_len < MAXC;) { ch_val[ch_len++] = (unsigned)strtoul(q, &q, 10); if (*q == ',') q++; }
        ch_pos = 0; scenario(); n_cases++;
        printf("CASES %lu\nchecks %lu\n", n_cases, n_checks);
        return 0;
    }
    if (strcmp(mode, "rnd") == 0) {
        unsigned long count = argc > 4 ? strtoul(argv[4], NULL, 10) : 100000;
        rng = 0x9E3779B97F4A7C15ull ^ (argc > 5 ? strtoull(argv[5], NULL, 10) : 1);
        rnd_mode = true; n_tv = 6;
        for (unsigned long k = 0; k < count; k++) { ch_pos = 0; ch_len = 0; scenario(); n_cases++; if ((n_cases & 0xffff) == 0) alarm(30); }
    } else {
        n_tv = argc > 4 ? (unsigned)atoi(argv[4]) : 4;
        ch_len = 0;
        do { ch_pos = 0; scenario(); n_cases++; if ((n_cases & 0xffff) == 0) alarm(30); } while (next_choice());
    }
    printf("CASES %lu\nchecks %lu\n", n_cases, n_checks);
    return n_fail ? 1 : 0;
}
