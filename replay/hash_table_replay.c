/* Native replay for the C02 table units (units/C02/hash_table.c).
 *
 * A CBMC counterexample names every nondeterministic choice of the harness (r_nd0, r_nd1, ... recorded by ht_rec() in
 * contracts/hash_table.h).  This driver compiles the SAME harness code natively (the real source/hash_table.c of the
 * current working tree, ASan/UBSan on), answers the k-th ND_*() call with the recorded r_nd<k> and runs the harness
 * named by argv[1]:
 *     hash_table_replay h_iter_delete r_nd0=3 r_nd1=0 ...
 * exit 0: every obligation of the harness held natively; 1: an obligation failed ("FAIL <text>" lines; a sanitizer
 * report also ends the run with a non-zero status); 3: the recorded input does not satisfy the harness assumptions
 * (not constructible) or the harness is not replayable (DFCC units swap/move).
 * Compile-time switches of the unit (HT_NS, HT_NO_ALLOC, HT_GROW, ...) must be passed as for the unit ("replay.defines").
 */
#include <stdio.h>
#include <stdlib.h>
#include <string.h>
#include <stdbool.h>
#include <stdint.h>
#include <stddef.h>

#define HT_NATIVE_REPLAY 1
static int g_native_failed;
static void ht_native_assert(int c, const char *msg) {
    if (!c && strncmp(msg, "CANARY", 6) != 0) {
        printf("FAIL %s\n", msg);
        g_native_failed = 1;
    }
}
static void ht_native_assume(int c) {
    if (!c) {
        fflush(stdout);
        if (g_native_failed) exit(1);
        printf("recorded input does not satisfy a harness assumption\n");
        exit(3);
    }
}
#define __CPROVER_assert(c, msg) ht_native_assert(!!(c), (msg))
#define __CPROVER_assume(c) ht_native_assume(!!(c))

#define HT_ND_MAX 96
static uint64_t g_nd[HT_ND_MAX];
static size_t g_nd_next;
uint64_t ht_rec(uint64_t v) {
    (void)v;
    return g_nd_next < HT_ND_MAX ? g_nd[g_nd_next++] : 0;
}
/* the raw sources are never consulted natively: ND_*() takes the recorded value */
size_t nondet_size_t(void) { return 0; }
uint8_t nondet_u8(void) { return 0; }
uint16_t nondet_u16(void) { return 0; }
uint32_t nondet_u32(void) { return 0; }
uint64_t nondet_u64(void) { return 0; }
int nondet_int(void) { return 0; }
bool nondet_bool(void) { return 0; }
double nondet_double(void) { return 0; }
float nondet_float(void) { return 0; }
void *nondet_ptr(void) { return NULL; }

/* DFCC contract clauses on re-declarations have no native meaning */
#define __CPROVER_requires(...)
#define __CPROVER_ensures(...)
#define __CPROVER_assigns(...)
#define __CPROVER_frees(...)
#define __CPROVER_loop_invariant(...)
#define __CPROVER_decreases(...)

#include "units/C02/hash_table.c"

/* externals of source/hash_table.c that no replayed path reaches */
#include <aws/common/string.h>
bool aws_string_eq(const struct aws_string *a, const struct aws_string *b) { (void)a; (void)b; abort(); }
void aws_string_destroy(struct aws_string *s) { (void)s; abort(); }
void aws_fatal_assert(const char *c, const char *f, int l) { fprintf(stderr, "fatal assert %s %s:%d\n", c, f, l); abort(); }
#ifndef HT_NO_ALLOC
/* units that resize / init / clean up: the table's own allocator vtable (calloc/free) without source/allocator.c */
void *aws_mem_calloc(struct aws_allocator *a, size_t n, size_t s) { return a->mem_calloc(a, n, s); }
void aws_mem_release(struct aws_allocator *a, void *p) { if (p) a->mem_release(a, p); }
#endif

/* the harness tables are deliberately not released: leak reports are not findings of the replay */
const char *__asan_default_options(void) { return "detect_leaks=0"; }

int main(int argc, char **argv) {
    if (argc < 2) return 3;
    for (int i = 2; i < argc; i++) {
        unsigned k;
        unsigned long long v;
        if (sscanf(argv[i], "r_nd%u=%llu", &k, &v) == 2 && k < HT_ND_MAX) g_nd[k] = v;
        else if (sscanf(argv[i], "r_nd%u=-%llu", &k, &v) == 2 && k < HT_ND_MAX) g_nd[k] = (uint64_t)(-(int64_t)v);
    }
    static const struct { const char *name; void (*fn)(void); } table[] = {
        {"h_find", h_find}, {"h_create", h_create}, {"h_put", h_put}, {"h_remove", h_remove},
        {"h_remove_element", h_remove_element}, {"h_clear", h_clear}, {"h_iter_begin", h_iter_begin},
        {"h_iter_next", h_iter_next}, {"h_iter_delete", h_iter_delete}, {"h_foreach", h_foreach},
        {"h_update_template_size", h_update_template_size},
#ifndef HT_NO_ALLOC
        {"h_expand", h_expand}, {"h_clean_up", h_clean_up}, {"h_init", h_init},
#endif
    };
    for (size_t i = 0; i < sizeof table / sizeof table[0]; i++)
        if (!strcmp(argv[1], table[i].name)) {
            table[i].fn();
            fflush(stdout);
            return g_native_failed ? 1 : 0;
        }
    printf("harness %s is not replayable natively\n", argv[1]);
    return 3;
}
