/* Native replay driver for violations reported by the C14 units (source/log_formatter.c, source/logging.c).
 *
 *   replay <op> key=value ...
 *
 * op format_line   (units format_line, format_line_fit): aws_format_standard_log_line into a fixed-size buffer.
 *     The verifier's counterexample is phrased in terms of the assumed snprintf model (lengths of the pieces), which
 *     cannot be forced on the real libc; what is replayed is its cause: a line buffer of the reported total_length
 *     (fd_wrapper.total_length / fd.total_length, capped at 64 KiB - the property does not depend on the size) and a
 *     message that does / does not fit.  The real function from /repo is called with real snprintf/strftime and the
 *     property's postcondition is evaluated in plain C, with guard bytes behind the buffer:
 *       success => 1 <= amount_written <= total_length, line[amount_written-1] == '\n', no NUL below amount_written,
 *                  nothing stored beyond total_length.
 * op noalloc_line  the same through the public no-alloc logger (aws_logger_init_noalloc + AWS_LOGF_INFO) writing to a
 *     temporary file, with messages around MAXIMUM_NO_ALLOC_LOG_LINE_SIZE (8192): every line that reaches the file ends
 *     in exactly one '\n' and contains no NUL.
 * op bg_drain      (units background_thread, background_thread_b40): the real background channel with a capturing writer
 *     that blocks inside its FIRST write until the gate is opened.  Main thread: send line 0, wait until the background
 *     thread sits in that write, send n more lines (n = r_first_batch, the number of lines the counterexample has pending
 *     when `finished` is seen; default 40), start a helper that opens the gate after 300 ms, call
 *     aws_log_channel_clean_up (sets finished, joins).  The thread then finds n lines pending together with finished.
 *     After clean-up: all n+1 lines were handed to the writer, once each, in order (leaked lines show up in ASan's
 *     leak report as well).  If the helper fires before clean-up has set the flag the run merely passes.
 * exit 0: property held on this input; exit 1: violated (reason printed); exit 3: input not constructible.
 */
#include <aws/common/common.h>
#include <aws/common/log_channel.h>
#include <aws/common/log_formatter.h>
#include <aws/common/log_writer.h>
#include <aws/common/logging.h>
#include <aws/common/string.h>

#include <pthread.h>
#include <unistd.h>

#include <stdarg.h>
#include <stdio.h>
#include <stdlib.h>
#include <string.h>

static int s_argc;
static char **s_argv;
static int s_fail;

static int has(const char *key) {
    size_t n = strlen(key);
    for (int i = 2; i < s_argc; ++i)
        if (!strncmp(s_argv[i], key, n) && s_argv[i][n] == '=') return 1;
    return 0;
}
static uint64_t get(const char *key, uint64_t dflt) {
    size_t n = strlen(key);
    for (int i = 2; i < s_argc; ++i)
        if (!strncmp(s_argv[i], key, n) && s_argv[i][n] == '=') return strtoull(s_argv[i] + n + 1, NULL, 10);
    return dflt;
}
#define FAIL(...) do { printf("VIOLATED: "); printf(__VA_ARGS__); printf("\n"); s_fail = 1; } while (0)

static int call_format(struct aws_logging_standard_formatting_data *d, ...) {
    va_list a;
    va_start(a, d);
    int r = aws_format_standard_log_line(d, a);
    va_end(a);
    return r;
}

#define GUARD 16
static void one_format_case(size_t total, size_t msg_len, const char *subject) {
    char *buf = malloc(total + GUARD);
    char *msg = malloc(msg_len + 1);
    memset(buf, 0x5a, total + GUARD);
    memset(msg, 'm', msg_len);
    msg[msg_len] = 0;
    struct aws_logging_standard_formatting_data d = {
        .log_line_buffer = buf,
        .total_length = total,
        .level = AWS_LL_INFO,
        .subject_name = subject,
        .format = "%s",
        .date_format = AWS_DATE_FORMAT_ISO_8601,
        .allocator = aws_default_allocator(),
        .amount_written = 0,
    };
    int r = call_format(&d, msg);
    printf("total_length=%zu message=%zu bytes subject=%s -> rc=%d amount_written=%zu\n", total, msg_len,
           subject ? subject : "(none)", r, d.amount_written);
    for (size_t i = 0; i < GUARD; ++i)
        if ((unsigned char)buf[total + i] != 0x5a) FAIL("byte %zu behind the buffer was overwritten", i);
    if (r == AWS_OP_SUCCESS && total >= 2) {
        if (d.amount_written < 1 || d.amount_written > total) {
            FAIL("amount_written %zu outside [1, %zu]", d.amount_written, total);
        } else {
            if (buf[d.amount_written - 1] != '\n')
                FAIL("line does not end in a newline: last byte is 0x%02x (line[%zu])", (unsigned char)buf[d.amount_written - 1],
                     d.amount_written - 1);
            for (size_t i = 0; i < d.amount_written; ++i)
                if (buf[i] == 0) { FAIL("NUL inside the line at index %zu (amount_written %zu)", i, d.amount_written); break; }
        }
    }
    free(buf);
    free(msg);
}

static int op_format_line(void) {
    uint64_t claimed = has("fd_wrapper.total_length") ? get("fd_wrapper.total_length", 64) : get("fd.total_length", 64);
    size_t total = claimed > 65536 ? 65536 : (size_t)claimed;
    if (total != claimed) printf("note: total_length %llu replayed with %zu\n", (unsigned long long)claimed, total);
    if (total < 2) { printf("total_length < 2 is outside the claim\n"); return 3; }
    one_format_case(total, 0, "subj");           /* fits (if the buffer is large enough for the prefix) */
    one_format_case(total, total, "subj");       /* message cut */
    one_format_case(total, total + 100, NULL);   /* message cut, no subject */
    if (total > 8) one_format_case(8, 0, "subj"); /* level prefix cut */
    return s_fail;
}

static int op_noalloc_line(void) {
    char path[] = "/tmp/verif-c14-replay-XXXXXX";
    int fd = mkstemp(path);
    if (fd < 0) return 3;
    FILE *f = fdopen(fd, "w+");
    struct aws_logger logger;
    struct aws_logger_standard_options opt = {.level = AWS_LL_TRACE, .filename = NULL, .file = f};
    if (aws_logger_init_noalloc(&logger, aws_default_allocator(), &opt)) return 3;
    aws_logger_set(&logger);
    size_t lens[] = {0, 10, 8000, 8100, 8191, 8192, 8193, 20000};
    size_t n_lines = sizeof(lens) / sizeof(lens[0]);
    for (size_t k = 0; k < n_lines; ++k) {
        char *msg = malloc(lens[k] + 1);
        memset(msg, 'a' + (int)k, lens[k]);
        msg[lens[k]] = 0;
        AWS_LOGF_INFO(AWS_LS_COMMON_GENERAL, "%s", msg);
        free(msg);
    }
    aws_logger_set(NULL);
    fflush(f);
    long size = ftell(f);
    rewind(f);
    char *all = malloc((size_t)size + 1);
    size_t got = fread(all, 1, (size_t)size, f);
    size_t newlines = 0, nuls = 0;
    for (size_t i = 0; i < got; ++i) {
        newlines += all[i] == '\n';
        nuls += all[i] == 0;
    }
    printf("%zu log calls -> %zu bytes, %zu newlines, %zu NUL bytes\n", n_lines, got, newlines, nuls);
    if (nuls) FAIL("%zu NUL byte(s) reached the writer", nuls);
    if (newlines != n_lines) FAIL("%zu calls produced %zu newline-terminated lines", n_lines, newlines);
    if (got && all[got - 1] != '\n') FAIL("output does not end in a newline");
    free(all);
    aws_logger_clean_up(&logger);
    remove(path);
    return s_fail;
}

/* ---- op bg_drain */
static pthread_mutex_t s_gate_lock = PTHREAD_MUTEX_INITIALIZER;
static pthread_cond_t s_gate_cond = PTHREAD_COND_INITIALIZER;
static int s_gate_open, s_in_first_write;
static size_t s_bg_writes, s_bg_out_of_order;
static int s_bg_write(struct aws_log_writer *writer, const struct aws_string *output) {
    (void)writer;
    pthread_mutex_lock(&s_gate_lock);
    if (s_bg_writes == 0) {
        s_in_first_write = 1;
        pthread_cond_broadcast(&s_gate_cond);
        while (!s_gate_open) pthread_cond_wait(&s_gate_cond, &s_gate_lock);
    }
    char want[32];
    snprintf(want, sizeof(want), "L%zu", s_bg_writes);
    if (strcmp(want, aws_string_c_str(output)) != 0) s_bg_out_of_order++;
    s_bg_writes++;
    pthread_mutex_unlock(&s_gate_lock);
    return AWS_OP_SUCCESS;
}
static void s_bg_writer_clean_up(struct aws_log_writer *writer) { (void)writer; }
static void *s_bg_open_gate(void *arg) {
    (void)arg;
    usleep(300 * 1000);
    pthread_mutex_lock(&s_gate_lock);
    s_gate_open = 1;
    pthread_cond_broadcast(&s_gate_cond);
    pthread_mutex_unlock(&s_gate_lock);
    return NULL;
}
static int op_bg_drain(void) {
    size_t n = (size_t)get("r_first_batch", 40);
    if (n == 0 || n > 100000) n = 40;
    struct aws_allocator *alloc = aws_default_allocator();
    struct aws_log_writer_vtable vt = {.write = s_bg_write, .clean_up = s_bg_writer_clean_up};
    struct aws_log_writer writer = {.vtable = &vt, .allocator = alloc, .impl = NULL};
    struct aws_log_channel channel;
    if (aws_log_channel_init_background(&channel, alloc, &writer)) return 3;
    char text[32];
    for (size_t k = 0; k <= n; ++k) {
        snprintf(text, sizeof(text), "L%zu", k);
        struct aws_string *line = aws_string_new_from_c_str(alloc, text);
        if (channel.vtable->send(&channel, line)) return 3;
        if (k == 0) { /* wait until the background thread has taken line 0 and sits in the writer */
            pthread_mutex_lock(&s_gate_lock);
            while (!s_in_first_write) pthread_cond_wait(&s_gate_cond, &s_gate_lock);
            pthread_mutex_unlock(&s_gate_lock);
        }
    }
    pthread_t helper;
    if (pthread_create(&helper, NULL, s_bg_open_gate, NULL)) return 3;
    aws_log_channel_clean_up(&channel);
    pthread_join(helper, NULL);
    printf("%zu lines accepted before clean-up (%zu pending when finished was set), %zu handed to the writer, %zu out of order\n",
           n + 1, n, s_bg_writes, s_bg_out_of_order);
    if (s_bg_writes != n + 1) FAIL("%zu accepted lines, %zu written: clean-up did not flush everything already accepted", n + 1, s_bg_writes);
    if (s_bg_out_of_order) FAIL("%zu line(s) written out of order", s_bg_out_of_order);
    return s_fail;
}

int main(int argc, char **argv) {
    s_argc = argc;
    s_argv = argv;
    if (argc < 2) {
        fprintf(stderr, "usage: replay <op> key=value ...\n");
        return 3;
    }
    if (!strcmp(argv[1], "format_line")) return op_format_line();
    if (!strcmp(argv[1], "noalloc_line")) return op_noalloc_line();
    if (!strcmp(argv[1], "bg_drain")) return op_bg_drain();
    fprintf(stderr, "unknown op %s\n", argv[1]);
    return 3;
}
