/* Native replay driver for violations reported by the C03 units (source/allocator_sba.c).
 *
 *   replay <op> key=value ...
 *
 * tools/verif.py passes the verifier's counterexample as key=value pairs (scalar arguments as arg.<name>[_wrapper], ghost
 * scalars g_*, replay scalars r_* of the step units).  Everything goes through the PUBLIC api of the real allocator
 * (aws_small_block_allocator_new over a recording parent allocator, aws_mem_acquire / calloc / realloc / release through
 * its vtable, bytes_active / bytes_reserved), built with ASan+UBSan.
 *
 * Block layer (units sba_alloc, sba_free, mem_acquire, mem_release, mem_realloc, mem_calloc_*, find_bin): the sizes of the
 * counterexample are used as they are; the block is surrounded by live neighbours of the same class that carry a pattern;
 * checked: class rule (smallest class that holds the size / parent above 512, seen through bytes_active and the parent's
 * call record), the whole requested size is writable and disjoint from every live block, calloc memory is zero, contents
 * survive realloc, what must be released is released exactly once.
 *
 * Representation layer (units alloc_step_*, free_step_*, metrics_*, destroy_step_*): the pre-state of the step - r_na
 * exhausted pages, a working page carved up to slot r_work, the free list (page, slot) in order - is REACHED through the
 * public api (carve page after page, then release the listed chunks in list order), the step is made and its statement is
 * evaluated on what the api shows: the block handed out is none of the live blocks and lies inside a page behind the
 * header, live blocks keep their contents, bytes_active moves by exactly one class size, bytes_reserved changes by one
 * page exactly when a page must be requested / must be given back; afterwards everything is released and the allocator
 * destroyed (stale pages, double frees and reads of foreign memory are sanitizer reports).  The *_smallpage units pass
 * their AWS_SBA_PAGE_SIZE to the native build as well.
 *   exit 0: held natively   exit 1: violated (reason printed; sanitizer reports are non-zero exits too)
 *   exit 3: input not constructible (size beyond what a process can back, or a bin state that satisfies the invariant but
 *           cannot be reached through the api: a working page from which nothing has been carved yet)
 */
#include <aws/common/allocator.h>
#include <aws/common/common.h>
#include <inttypes.h>
#include <stdio.h>
#include <stdlib.h>
#include <string.h>

const char *__asan_default_options(void) { return "detect_leaks=0"; }
/* ASan's allocator statistics: pages come straight from the OS allocator (posix_memalign), not from the parent, so "every
 * page goes back" is checked by comparing the heap before new and after destroy */
size_t __sanitizer_get_current_allocated_bytes(void);
static size_t s_heap0;

#define BIG_MAX ((size_t)1 << 26) /* largest block that is really allocated */
static int s_argc;
static char **s_argv;
static int s_fail;
#define FAIL(...) do { printf("VIOLATED: "); printf(__VA_ARGS__); printf("\n"); s_fail = 1; } while (0)

static const char *raw(const char *key) {
    size_t n = strlen(key);
    for (int i = 2; i < s_argc; ++i)
        if (!strncmp(s_argv[i], key, n) && s_argv[i][n] == '=') return s_argv[i] + n + 1;
    return NULL;
}
static int has(const char *key) { return raw(key) != NULL; }
static uint64_t get(const char *key, uint64_t dflt) {
    const char *v = raw(key);
    if (!v) return dflt;
    if (!strcmp(v, "TRUE")) return 1;
    if (!strcmp(v, "FALSE")) return 0;
    return strtoull(v, NULL, 10);
}
static uint64_t get3(const char *k1, const char *k2, const char *k3, uint64_t dflt) {
    return has(k1) ? get(k1, dflt) : has(k2) ? get(k2, dflt) : k3 && has(k3) ? get(k3, dflt) : dflt;
}

/* ------------------------------------------------------------------ recording parent allocator (over malloc) */
static size_t p_acquires, p_releases, p_reallocs, p_callocs, p_last_size, p_live;
static void *p_last_released;
static int p_moves;
/* blocks above 512 bytes are page aligned, so that what s_sba_free inspects at "the page base of the block" is the block's
 * own first bytes (as in the unit's model, where a block of the parent is an object of its own) */
static void *p_malloc(size_t n) { void *p = NULL; if (n > 512) { if (posix_memalign(&p, 4096, n)) p = NULL; } else p = malloc(n); return p; }
static void *p_acquire(struct aws_allocator *a, size_t n) { (void)a; p_acquires++; p_last_size = n; p_live++; void *p = p_malloc(n); memset(p, 0xEE, n); return p; }
static void p_release(struct aws_allocator *a, void *p) { (void)a; p_releases++; p_last_released = p; p_live--; free(p); }
static void *p_realloc(struct aws_allocator *a, void *p, size_t o, size_t n) {
    (void)a;
    p_reallocs++;
    p_last_size = n;
    if (n <= o && !p_moves) return p;
    uint8_t *q = p_malloc(n);
    memset(q, 0xEE, n);
    if (p) { memcpy(q, p, o < n ? o : n); free(p); } else p_live++;
    return q;
}
static void *p_calloc(struct aws_allocator *a, size_t num, size_t size) { (void)a; p_callocs++; p_last_size = num * size; p_live++; void *p = p_malloc(num * size); memset(p, 0, num * size); return p; }
static struct aws_allocator s_parent = {.mem_acquire = p_acquire, .mem_release = p_release, .mem_realloc = p_realloc, .mem_calloc = p_calloc};

static struct aws_allocator *SBA;
static size_t PAGE;
static size_t class_of(size_t n) { return n <= 32 ? 32 : n <= 64 ? 64 : n <= 128 ? 128 : n <= 256 ? 256 : 512; }
static uintptr_t page_of(const void *p) { return (uintptr_t)p & ~(uintptr_t)(PAGE - 1); }
static void fill(void *p, size_t n, unsigned id) { for (size_t i = 0; i < n; ++i) ((uint8_t *)p)[i] = (uint8_t)(id * 37 + i * 11 + 1); }
static int intact(const void *p, size_t n, unsigned id) { for (size_t i = 0; i < n; ++i) if (((const uint8_t *)p)[i] != (uint8_t)(id * 37 + i * 11 + 1)) return 0; return 1; }
/* a small block must lie inside one page, behind the 32-byte header, at a multiple of 32 */
static void check_small_block(const void *r, size_t cls, const char *what) {
    size_t off = (uintptr_t)r - page_of(r);
    if (off < 32 || off + cls > PAGE) FAIL("%s: block at page offset %zu (+%zu) is not wholly inside its page behind the header", what, off, cls);
    if (off % 32) FAIL("%s: block at page offset %zu is not 32-byte aligned", what, off);
}

/* ------------------------------------------------------------------ block layer */
#define NNEIGH 4
struct neigh { void *p; size_t n; };
static void neighbours_make(struct neigh *nb, size_t n) {
    for (unsigned i = 0; i < NNEIGH; ++i) { nb[i].n = n; nb[i].p = aws_mem_acquire(SBA, n); fill(nb[i].p, n, i + 1); }
}
static void neighbours_check(struct neigh *nb, const void *r, size_t rn, const char *what) {
    for (unsigned i = 0; i < NNEIGH; ++i) {
        if (!intact(nb[i].p, nb[i].n, i + 1)) FAIL("%s: contents of another live block (%zu bytes) changed", what, nb[i].n);
        if (r && (const uint8_t *)r < (const uint8_t *)nb[i].p + nb[i].n && (const uint8_t *)nb[i].p < (const uint8_t *)r + rn) FAIL("%s: the block overlaps another live block", what);
    }
}
static void neighbours_drop(struct neigh *nb) { for (unsigned i = 0; i < NNEIGH; ++i) aws_mem_release(SBA, nb[i].p); }

static void op_alloc(size_t n, const char *what) {
    if (n == 0) { printf("size 0 is outside the precondition\n"); exit(3); }
    if (n > BIG_MAX) { printf("a process cannot back %zu bytes: size reduced to %zu (still served by the parent)\n", n, (size_t)BIG_MAX); n = BIG_MAX; }
    struct neigh nb[NNEIGH];
    neighbours_make(nb, n <= 512 ? class_of(n) : 600);
    void *mid = aws_mem_acquire(SBA, n <= 512 ? class_of(n) : 600); /* a hole between live neighbours to be reused */
    aws_mem_release(SBA, mid);
    size_t a0 = aws_small_block_allocator_bytes_active(SBA), pa0 = p_acquires;
    uint8_t *r = aws_mem_acquire(SBA, n);
    size_t a1 = aws_small_block_allocator_bytes_active(SBA);
    printf("%s(%zu): bytes_active %zu -> %zu, parent acquires %zu -> %zu\n", what, n, a0, a1, pa0, p_acquires);
    if (!r) { FAIL("%s returned NULL", what); return; }
    if (n <= 512) {
        if (a1 - a0 != class_of(n)) FAIL("%s(%zu): served from a class of %zu bytes, the smallest class that holds it has %zu", what, n, a1 - a0, class_of(n));
        if (p_acquires != pa0) FAIL("%s(%zu): a small size reached the parent allocator", what, n);
        check_small_block(r, n, what);
    } else {
        if (p_acquires != pa0 + 1 || p_last_size != n) FAIL("%s(%zu): the parent allocator was asked %zu time(s), last for %zu bytes; expected once for %zu", what, n, p_acquires - pa0, p_last_size, n);
        if (a1 != a0) FAIL("%s(%zu): a large block changes bytes_active", what, n);
    }
    memset(r, 0xC3, n); /* the whole requested size is ours */
    neighbours_check(nb, r, n, what);
    aws_mem_release(SBA, r);
    if (aws_small_block_allocator_bytes_active(SBA) != a0) FAIL("%s(%zu): releasing the block does not restore bytes_active", what, n);
    neighbours_check(nb, NULL, 0, "release");
    neighbours_drop(nb);
}
static void op_free(int kase, size_t bi, size_t lsz) {
    size_t a0 = aws_small_block_allocator_bytes_active(SBA), pr0 = p_releases;
    if (kase == 0) {
        SBA->mem_release(SBA, NULL);
        if (p_releases != pr0 || aws_small_block_allocator_bytes_active(SBA) != a0) FAIL("release(NULL) is not ignored");
        printf("release(NULL)\n");
    } else if (kase == 1) {
        size_t cls = (size_t)32 << (bi < 5 ? bi : 4);
        struct neigh nb[NNEIGH];
        neighbours_make(nb, cls);
        size_t a1 = aws_small_block_allocator_bytes_active(SBA);
        void *p = aws_mem_acquire(SBA, cls);
        SBA->mem_release(SBA, p);
        printf("release of a block of class %zu\n", cls);
        if (p_releases != pr0) FAIL("a small block was handed to the parent allocator");
        if (aws_small_block_allocator_bytes_active(SBA) != a1) FAIL("bytes_active is %zu after releasing the block, %zu before it was acquired", aws_small_block_allocator_bytes_active(SBA), a1);
        neighbours_check(nb, NULL, 0, "release");
        void *q = aws_mem_acquire(SBA, cls); /* the chunk is available again */
        neighbours_check(nb, q, cls, "acquire after release");
        aws_mem_release(SBA, q);
        neighbours_drop(nb);
    } else {
        if (lsz <= 512) lsz = 513;
        if (lsz > BIG_MAX) { printf("block of %zu bytes reduced to %zu\n", lsz, (size_t)BIG_MAX); lsz = BIG_MAX; }
        /* no tag pair at the start of the block: neither tag, only the first, only the second */
        for (int v = 0; v < 3; ++v) {
            uint8_t *p = aws_mem_acquire(SBA, lsz);
            memset(p, 0x11, lsz);
            const uint64_t tag = 0x736f6d6570736575ULL;
            if (v == 1) memcpy(p, &tag, 8);
            if (v == 2) memcpy(p + 24, &tag, 8);
            pr0 = p_releases;
            SBA->mem_release(SBA, p);
            printf("release of a large block of %zu bytes (%s)\n", lsz, v == 0 ? "no tag value in its first bytes" : v == 1 ? "first tag value only" : "second tag value only");
            if (p_releases != pr0 + 1 || p_last_released != p) FAIL("a block of the parent allocator was not handed back to it exactly once");
            if (aws_small_block_allocator_bytes_active(SBA) != a0) FAIL("releasing a large block changes bytes_active");
        }
    }
}
static void op_realloc(size_t o, size_t n, int moves) {
    if (o > BIG_MAX || n > BIG_MAX) { /* keep small / large and the order of the two sizes */
        size_t o2 = o > BIG_MAX ? BIG_MAX - (n > o ? 1 : 0) : o, n2 = n > BIG_MAX ? BIG_MAX - (o > n ? 1 : 0) : n;
        printf("a process cannot back %zu / %zu bytes: sizes reduced to %zu / %zu\n", o, n, o2, n2);
        o = o2; n = n2;
    }
    p_moves = moves;
    struct neigh nb[NNEIGH];
    neighbours_make(nb, n && n <= 512 ? class_of(n) : o && o <= 512 ? class_of(o) : 64);
    size_t a_base = aws_small_block_allocator_bytes_active(SBA);
    uint8_t *old = NULL;
    if (o) { old = aws_mem_acquire(SBA, o); fill(old, o, 9); }
    size_t a0 = aws_small_block_allocator_bytes_active(SBA), pa0 = p_acquires, pr0 = p_releases, pre0 = p_reallocs;
    uint8_t *r = SBA->mem_realloc(SBA, old, o, n);
    size_t a1 = aws_small_block_allocator_bytes_active(SBA);
    size_t small_o = o && o <= 512 ? class_of(o) : 0, small_n = n && n <= 512 ? class_of(n) : 0;
    printf("realloc(%zu -> %zu): result %s, bytes_active %zu -> %zu, parent acquire/release/realloc +%zu/+%zu/+%zu\n", o, n, !r ? "NULL" : r == old ? "the same block" : "another block", a0, a1,
           p_acquires - pa0, p_releases - pr0, p_reallocs - pre0);
    size_t keep = o < n ? o : n;
    if (o > 512 && n > 512) { /* the parent reallocates */
        if (p_reallocs != pre0 + 1 || p_acquires != pa0 || p_releases != pr0) FAIL("two large sizes: the parent must reallocate (exactly one realloc request)");
        if (!r) FAIL("realloc returned NULL");
    } else if (n == 0) {
        if (r) FAIL("new size 0 must return NULL");
        if (a1 != a_base) FAIL("new size 0: the old block is not released (bytes_active %zu, expected %zu)", a1, a_base);
        if (o > 512 && p_releases != pr0 + 1) FAIL("new size 0: the large old block is not handed back to the parent");
    } else if (o > n) { /* shrink: the very same block */
        if (r != old) FAIL("shrinking realloc must keep the block");
        if (a1 != a0 || p_acquires != pa0 || p_releases != pr0 || p_reallocs != pre0) FAIL("shrinking realloc must neither allocate nor release");
    } else { /* move */
        if (!r) FAIL("realloc returned NULL");
        if (r && old && r == old) FAIL("growing / same-size realloc must hand out a new block");
        if (p_reallocs != pre0) FAIL("the parent's realloc is used although one of the sizes is small");
        if (a1 != a_base + small_n) FAIL("after the move bytes_active is %zu, expected %zu (old block released, new one in the class of %zu)", a1, a_base + small_n, n);
        if (n > 512 && (p_acquires != pa0 + 1 || p_last_size != n)) FAIL("the new large block must come from the parent with exactly the new size (asked for %zu)", p_last_size);
        if (old && o > 512 && p_releases != pr0 + 1) FAIL("the large old block is not handed back to the parent exactly once");
        if (r && small_n) check_small_block(r, n, "realloc");
        (void)small_o;
    }
    if (r) {
        if (old && !intact(r, keep, 9)) FAIL("realloc: the first %zu bytes of the old contents are not preserved", keep);
        if (n > keep) memset(r + keep, 0xC3, n - keep);
        neighbours_check(nb, r, n, "realloc");
        SBA->mem_release(SBA, r);
    } else neighbours_check(nb, NULL, 0, "realloc");
    if (aws_small_block_allocator_bytes_active(SBA) != a_base) FAIL("realloc + release does not restore bytes_active (%zu, expected %zu)", aws_small_block_allocator_bytes_active(SBA), a_base);
    neighbours_drop(nb);
}
static void op_calloc(size_t num, size_t size) {
    __uint128_t tot128 = (__uint128_t)num * size;
    if (num == 0 || size == 0 || tot128 > SIZE_MAX) { printf("num * size is 0 or overflows: outside the precondition (aws_mem_calloc refuses it first)\n"); exit(3); }
    size_t tot = (size_t)tot128;
    if (tot > BIG_MAX) { printf("input not constructible natively (block of %zu bytes)\n", tot); exit(3); }
    size_t bn = tot <= 512 ? class_of(tot) : 600;
    /* dirty chunks of the classes involved, so that recycled memory is not zero by accident */
    for (size_t c = 32; c <= 512; c *= 2) {
        void *d[3];
        for (int i = 0; i < 3; ++i) { d[i] = aws_mem_acquire(SBA, c); memset(d[i], 0x77, c); }
        for (int i = 0; i < 3; ++i) aws_mem_release(SBA, d[i]);
    }
    struct neigh nb[NNEIGH];
    /* neighbours in the class of the element size as well as in the class of the total */
    for (unsigned i = 0; i < NNEIGH; ++i) { nb[i].n = i % 2 ? bn : (size <= 512 ? class_of(size) : 600); nb[i].p = aws_mem_acquire(SBA, nb[i].n); fill(nb[i].p, nb[i].n, i + 1); }
    size_t a0 = aws_small_block_allocator_bytes_active(SBA), pa0 = p_acquires + p_callocs;
    uint8_t *r = aws_mem_calloc(SBA, num, size);
    size_t a1 = aws_small_block_allocator_bytes_active(SBA);
    printf("calloc(%zu, %zu) = %zu bytes: bytes_active %zu -> %zu, parent requests +%zu\n", num, size, tot, a0, a1, p_acquires + p_callocs - pa0);
    if (!r) { FAIL("calloc returned NULL"); return; }
    for (size_t i = 0; i < tot; ++i) if (r[i]) { FAIL("calloc(%zu, %zu): byte %zu is 0x%02x, not zero", num, size, i, r[i]); break; }
    if (tot <= 512) {
        if (a1 - a0 != class_of(tot)) FAIL("calloc(%zu, %zu): served from a class of %zu bytes, the smallest class that holds %zu bytes has %zu", num, size, a1 - a0, tot, class_of(tot));
        if (p_acquires + p_callocs != pa0) FAIL("calloc(%zu, %zu): a small total reached the parent allocator", num, size);
        check_small_block(r, tot, "calloc");
    } else {
        if (p_acquires + p_callocs != pa0 + 1 || p_last_size < tot) FAIL("calloc(%zu, %zu): the parent must be asked once for at least %zu bytes (asked %zu time(s), last for %zu)", num, size, tot, p_acquires + p_callocs - pa0, p_last_size);
        if (a1 != a0) FAIL("a large calloc changes bytes_active");
    }
    neighbours_check(nb, r, tot, "calloc");
    memset(r, 0xC3, tot);
    neighbours_check(nb, r, tot, "writing the calloc block");
    aws_mem_release(SBA, r);
    if (aws_small_block_allocator_bytes_active(SBA) != a0) FAIL("releasing the calloc block does not restore bytes_active");
    neighbours_drop(nb);
}

/* ------------------------------------------------------------------ representation layer: reach the pre-state of a step unit */
#define MAXPG 8
#define MAXCH 128
static uint8_t *s_chunk[MAXPG][MAXCH]; /* [model page index][slot] */
static int s_livef[MAXPG][MAXCH];
static size_t s_cls, s_nch, s_np, s_na, s_work, s_nf, s_pages;
static unsigned chunk_id(size_t p, size_t s) { return (unsigned)(p * 131 + s + 1); }
static size_t live_count(void) { size_t n = 0; for (size_t p = 0; p < MAXPG; ++p) for (size_t s = 0; s < MAXCH; ++s) n += s_livef[p][s] != 0; return n; }
static size_t live_in_page(size_t p) { size_t n = 0; for (size_t s = 0; s < MAXCH; ++s) n += s_livef[p][s] != 0; return n; }
static void check_live_intact(const char *when) {
    for (size_t p = 0; p < MAXPG; ++p) for (size_t s = 0; s < MAXCH; ++s)
        if (s_livef[p][s] && !intact(s_chunk[p][s], s_cls, chunk_id(p, s))) { FAIL("%s: contents of a live block (page %zu slot %zu) changed", when, p, s); return; }
}
static void check_metrics(const char *when, size_t pages) {
    size_t a = aws_small_block_allocator_bytes_active(SBA), r = aws_small_block_allocator_bytes_reserved(SBA);
    if (a != live_count() * s_cls) FAIL("%s: bytes_active reports %zu, there are %zu live chunk(s) of %zu bytes (%zu)", when, a, live_count(), s_cls, live_count() * s_cls);
    if (r != pages * PAGE) FAIL("%s: bytes_reserved reports %zu, the bin must hold %zu page(s) of %zu bytes", when, r, pages, PAGE);
}
/* state used when the trace gave no values */
static size_t s_dflt_na = 1, s_dflt_nf = 0;
static uint64_t s_dflt_fp = 0, s_dflt_fs = 0;
static void build_state(void) {
    size_t bin = get("r_bin", 4);
    s_cls = (size_t)32 << (bin < 5 ? bin : 4);
    s_nch = (PAGE - 32) / s_cls;
    s_np = get("r_np", 3);
    s_na = get("r_na", s_dflt_na);
    s_work = get("r_work", 2);
    s_nf = get("r_nf", s_dflt_nf);
    if (get("r_page", PAGE) != PAGE) { printf("the unit's page size %" PRIu64 " is not the page size of this build (%zu)\n", get("r_page", 0), PAGE); exit(3); }
    if (s_np < 1 || s_np > MAXPG || s_na >= s_np || s_nch > MAXCH || s_nf > 8) { printf("input not constructible: state outside the model\n"); exit(3); }
    if (s_work != SIZE_MAX && s_work >= s_nch) { printf("input not constructible: cursor slot %zu\n", s_work); exit(3); }
    int approx = 0;
    if (s_work == 0) {
        /* a working page from which nothing has been carved satisfies the invariant but cannot be reached through the api (a
         * page is requested by the allocation that carves its first chunk).  Nearest reachable state: the first chunk carved
         * and given back, i.e. cursor on slot 1 and that chunk at the front of the free list (reused last) */
        printf("working page with nothing carved is not reachable through the api: replaced by 'first chunk carved and released'\n");
        approx = 1;
        s_work = 1;
    }
    /* carve: exhausted pages first (model pages 0..na-1), then the working page (model page np-1) */
    for (size_t p = 0; p < s_na; ++p)
        for (size_t s = 0; s < s_nch; ++s) { s_chunk[p][s] = aws_mem_acquire(SBA, s_cls); s_livef[p][s] = 1; fill(s_chunk[p][s], s_cls, chunk_id(p, s)); }
    if (s_work != SIZE_MAX)
        for (size_t s = 0; s < s_work; ++s) { s_chunk[s_np - 1][s] = aws_mem_acquire(SBA, s_cls); s_livef[s_np - 1][s] = 1; fill(s_chunk[s_np - 1][s], s_cls, chunk_id(s_np - 1, s)); }
    if (approx) { aws_mem_release(SBA, s_chunk[s_np - 1][0]); s_livef[s_np - 1][0] = 0; }
    /* the free list, in list order */
    uint64_t fp = get("r_fp", s_dflt_fp), fs = get("r_fs", s_dflt_fs);
    for (size_t i = 0; i < s_nf; ++i) {
        size_t p = (fp >> (4 * i)) & 15, s = (fs >> (8 * i)) & 255;
        if (p >= MAXPG || s >= MAXCH || !s_livef[p][s]) { printf("input not constructible: free-list entry %zu (page %zu slot %zu) is not a carved chunk\n", i, p, s); exit(3); }
        if (p < s_na && live_in_page(p) == 1) { printf("input not constructible: free-list entry %zu would empty an exhausted page\n", i); exit(3); }
        aws_mem_release(SBA, s_chunk[p][s]);
        s_livef[p][s] = 0;
    }
    if (approx) s_nf++;
    s_pages = s_na + (s_work != SIZE_MAX);
    printf("class %zu (%zu chunks per %zu-byte page): %zu exhausted page(s), ", s_cls, s_nch, PAGE, s_na);
    if (s_work != SIZE_MAX) printf("working page carved up to slot %zu, ", s_work); else printf("no working page, ");
    printf("%zu free chunk(s), %zu live\n", s_nf, live_count());
    for (size_t p = 0; p < MAXPG; ++p) for (size_t s = 1; s < MAXCH; ++s)
        if (s_chunk[p][s] && page_of(s_chunk[p][s]) != page_of(s_chunk[p][0])) { FAIL("setting up: chunks %zu and 0 of page %zu do not share a page", s, p); return; }
}
static void check_all_returned(void) {
    if (p_live != 0) FAIL("destroy: %zu block(s) of the parent allocator were not given back", p_live);
    size_t h = __sanitizer_get_current_allocated_bytes();
    if (h > s_heap0) FAIL("destroy: %zu bytes that the allocator took from the OS (pages of %zu bytes) were not given back", h - s_heap0, PAGE);
}
/* the allocator still works: enough further blocks to use up the free list and carve / open a page; each is none of the live
 * blocks (nor of the other new ones), lies inside a page and is writable (a chunk left on the free list, a chunk of a page
 * that went back to the OS, or a cursor that was not advanced by a whole chunk shows here) */
static void follow_up(const char *what) {
    uint8_t *q[12];
    size_t n = s_nf + 3 <= 12 ? s_nf + 3 : 12;
    for (size_t i = 0; i < n; ++i) {
        q[i] = aws_mem_acquire(SBA, s_cls);
        check_small_block(q[i], s_cls, what);
        for (size_t p = 0; p < MAXPG; ++p) for (size_t s = 0; s < MAXCH; ++s)
            if (s_livef[p][s] && q[i] < s_chunk[p][s] + s_cls && s_chunk[p][s] < q[i] + s_cls) { FAIL("%s: the block overlaps a live block (page %zu slot %zu)", what, p, s); p = MAXPG; break; }
        for (size_t j = 0; j < i; ++j) if (q[i] < q[j] + s_cls && q[j] < q[i] + s_cls) FAIL("%s: two live blocks overlap", what);
        memset(q[i], 0xC3, s_cls);
    }
    check_live_intact(what);
    for (size_t i = 0; i < n; ++i) aws_mem_release(SBA, q[i]);
    check_live_intact(what);
}
static void release_all_and_destroy(void) {
    for (size_t p = 0; p < MAXPG; ++p) for (size_t s = 0; s < MAXCH; ++s)
        if (s_livef[p][s]) { aws_mem_release(SBA, s_chunk[p][s]); s_livef[p][s] = 0; }
    size_t a = aws_small_block_allocator_bytes_active(SBA), r = aws_small_block_allocator_bytes_reserved(SBA);
    if (a != 0) FAIL("after releasing every block bytes_active is %zu", a);
    if (r > PAGE) FAIL("after releasing every block the bin still reserves %zu bytes: with nothing live it may keep at most its working page", r);
    aws_small_block_allocator_destroy(SBA);
    SBA = NULL;
    check_all_returned();
}

int main(int argc, char **argv) {
    s_argc = argc;
    s_argv = argv;
    if (argc < 2) return 2;
    const char *op = argv[1];
    printf("replay of %s\n", op);
    fflush(stdout);
    s_heap0 = __sanitizer_get_current_allocated_bytes();
    SBA = aws_small_block_allocator_new(&s_parent, false);
    if (!SBA) { printf("VIOLATED: aws_small_block_allocator_new failed\n"); return 1; }
    PAGE = aws_small_block_allocator_page_size(SBA);

    if (!strcmp(op, "alloc")) {
        if (has("arg.size") || has("arg.size_wrapper") || has("r_size")) op_alloc(get3("arg.size", "arg.size_wrapper", "r_size", 0), "acquire");
        else { static const size_t sizes[] = {1, 32, 33, 64, 65, 128, 129, 256, 257, 512, 513, 5000}; for (unsigned i = 0; i < 12; ++i) op_alloc(sizes[i], "acquire"); }
    } else if (!strcmp(op, "free") || !strcmp(op, "release")) {
        if (!strcmp(op, "free") && has("g_case")) op_free((int)get("g_case", 1), get("g_bi", 0), get("g_lsz", 600));
        else { op_free(0, 0, 0); for (size_t b = 0; b < 5; ++b) op_free(1, b, 0); op_free(2, 0, 600); op_free(2, 0, 70000); }
    } else if (!strcmp(op, "realloc")) {
        if (has("arg.old_size") || has("arg.new_size") || has("arg.old_size_wrapper")) op_realloc(get3("arg.old_size", "arg.old_size_wrapper", "r_old", 0), get3("arg.new_size", "arg.new_size_wrapper", "r_new", 1), (int)get("g_vt_moves", 0));
        else {
            static const size_t cases[][2] = {{0, 10}, {10, 10}, {10, 40}, {40, 10}, {100, 512}, {512, 513}, {513, 512}, {600, 100}, {600, 5000}, {5000, 600}, {5000, 513}, {300, 0}, {0, 0}, {600, 0}, {33, 64}};
            for (unsigned i = 0; i < sizeof cases / sizeof *cases; ++i) for (int mv = 0; mv < 2; ++mv) op_realloc(cases[i][0], cases[i][1], mv);
        }
    } else if (!strcmp(op, "calloc")) {
        if (has("arg.num") || has("arg.num_wrapper") || has("arg.size") || has("arg.size_wrapper")) op_calloc(get3("arg.num", "arg.num_wrapper", "r_num", 1), get3("arg.size", "arg.size_wrapper", "r_size", 1));
        else { static const size_t cases[][2] = {{1, 1}, {3, 16}, {2, 16}, {3, 100}, {7, 24}, {1, 512}, {2, 300}, {16, 32}, {100, 100}}; for (unsigned i = 0; i < 9; ++i) op_calloc(cases[i][0], cases[i][1]); }
    } else if (!strcmp(op, "new_destroy")) {
        for (int mt = 0; mt < 2; ++mt) {
            size_t live0 = p_live;
            struct aws_allocator *a = aws_small_block_allocator_new(&s_parent, mt);
            if (!a) { FAIL("new failed"); continue; }
            if (aws_small_block_allocator_bytes_active(a) || aws_small_block_allocator_bytes_reserved(a)) FAIL("a new allocator reports active / reserved bytes");
            void *p = aws_mem_acquire(a, 40);
            if (aws_small_block_allocator_bytes_active(a) != 64 || aws_small_block_allocator_bytes_reserved(a) != PAGE) FAIL("first block of 40 bytes: active %zu reserved %zu", aws_small_block_allocator_bytes_active(a), aws_small_block_allocator_bytes_reserved(a));
            aws_mem_release(a, p);
            aws_small_block_allocator_destroy(a);
            if (p_live != live0) FAIL("new + destroy (%s) leaves %zu parent block(s)", mt ? "multi-threaded" : "single-threaded", p_live - live0);
        }
        aws_small_block_allocator_destroy(NULL);
        printf("new / destroy checked\n");
    } else if (!strcmp(op, "alloc_step") || !strcmp(op, "free_step") || !strcmp(op, "metrics") || !strcmp(op, "destroy_step")) {
        if (!strcmp(op, "free_step") && !has("r_na")) { /* no witness: the release that empties an exhausted page (page 1 of 2) */
            s_dflt_na = 2; s_dflt_nf = 6; s_dflt_fp = 0x111111; s_dflt_fs = 0x050403020100ULL;
        }
        build_state();
        if (s_fail) return 1;
        check_live_intact("pre-state");
        if (!strcmp(op, "metrics")) {
            check_metrics("metrics", s_pages);
            if (aws_small_block_allocator_page_size_available(SBA) != PAGE - 32) FAIL("usable page size");
            check_metrics("metrics, second query (read-only)", s_pages);
        } else if (!strcmp(op, "alloc_step")) {
            size_t live0 = live_count();
            uint8_t *r = aws_mem_acquire(SBA, s_cls);
            printf("step: acquire -> %p\n", (void *)r);
            if (!r) { FAIL("alloc returned NULL"); return 1; }
            check_small_block(r, s_cls, "alloc");
            size_t rp = MAXPG, rs = MAXCH;
            for (size_t p = 0; p < MAXPG; ++p) for (size_t s = 0; s < MAXCH; ++s)
                if (s_chunk[p][s]) {
                    if (s_livef[p][s] && r < s_chunk[p][s] + s_cls && s_chunk[p][s] < r + s_cls) FAIL("alloc: the returned block overlaps a block that was already live (page %zu slot %zu)", p, s);
                    if (s_chunk[p][s] == r) { rp = p; rs = s; }
                }
            size_t pages1 = s_pages;
            if (s_nf > 0) { if (rp == MAXPG) FAIL("alloc: a free chunk must be reused before anything is carved"); }
            else if (s_work != SIZE_MAX) {
                if (rp != MAXPG || page_of(r) != page_of(s_chunk[s_np - 1][0])) FAIL("alloc: the next chunk of the working page must be carved");
                if (s_work + 1 == s_nch) { /* last chunk: the page becomes an exhausted page, no working page any more */ }
                rp = s_np - 1; rs = s_work;
            } else { pages1 = s_pages + 1; if (rp != MAXPG) FAIL("alloc: nothing was free, yet an old chunk came back"); rp = s_np < MAXPG ? s_np : MAXPG - 1; rs = 0; }
            fill(r, s_cls, chunk_id(rp, rs));
            s_chunk[rp][rs] = r;
            s_livef[rp][rs] = 1;
            check_live_intact("alloc");
            if (live_count() != live0 + 1) FAIL("alloc: bookkeeping of the replay lost a block");
            check_metrics("after alloc", pages1);
            /* the allocator still works: the next block is none of the live ones either (a chunk left on the free list or a
             * cursor that was not advanced by a whole chunk shows here) */
            follow_up("further alloc");
        } else if (!strcmp(op, "free_step")) {
            size_t ap = get("r_ap", has("r_na") ? 0 : 1), as = get("r_as", has("r_na") ? 0 : 6);
            if (ap >= MAXPG || as >= MAXCH || !s_livef[ap][as]) { printf("input not constructible: the block to release (page %zu slot %zu) is not live\n", ap, as); return 3; }
            int retire = ap < s_na && live_in_page(ap) == 1;
            aws_mem_release(SBA, s_chunk[ap][as]);
            s_livef[ap][as] = 0;
            printf("step: release of page %zu slot %zu%s\n", ap, as, retire ? " (last live chunk of an exhausted page: the page must go back to the OS)" : "");
            if (retire) for (size_t s = 0; s < MAXCH; ++s) s_chunk[ap][s] = NULL;
            check_live_intact("free");
            check_metrics("after free", s_pages - (retire ? 1 : 0));
            /* the allocator still works: a new block is none of the live ones */
            follow_up("acquire after the release");
        } else {
            printf("step: destroy with %zu live chunk(s)\n", live_count());
            aws_small_block_allocator_destroy(SBA);
            check_all_returned();
            goto done;
        }
        release_all_and_destroy();
        goto done;
    } else {
        printf("no native replay for op %s\n", op);
        return 3;
    }
    if (aws_small_block_allocator_bytes_active(SBA) != 0) FAIL("bytes_active is %zu after everything was released", aws_small_block_allocator_bytes_active(SBA));
    aws_small_block_allocator_destroy(SBA);
    if (p_live != 0) FAIL("destroy: %zu block(s) of the parent allocator were not given back", p_live);
done:
    if (s_fail) return 1;
    printf("held natively on this input\n");
    return 0;
}
