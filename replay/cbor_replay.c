/* Native replay driver for violations reported by the C10 units (source/cbor.c and the libcbor leaf encoders).
 *
 *   replay <op> key=value ...          op = unit name (write_uint, write_float_double, pop_bytes_val, rt_negint, ...)
 *
 * Replay variables (contracts/cbor.h "replay variables", units/C10/cbor.c):
 *   encoder units   r_len / r_cap = fill level and capacity of the encoder's buffer before the call; the value written:
 *                   arg.value / arg.tag_number / arg.number_entries (arg.<name>_wrapper = the DFCC wrapper's copy),
 *                   r_bits = bit pattern of the float / double argument, r_from_len = length of the string argument;
 *                   g_k / g_old = position and value of one byte written earlier
 *   decoder units   r_src_len = bytes left, r_b0..r_b8 = the first nine of them (the longest head), r_err = sticky
 *                   error, r_ctype / r_cu64 = cached element (type; integer value / boolean / double bits / string length)
 *   leaf units      arg.value, arg.buffer_size, arg.offset
 *   rt_* units      r_v, r_v2 (operands), r_bits, r_from_len
 * The input is rebuilt natively and the REAL functions are called; the expected bytes / values are computed here from
 * RFC 8949 section 3 (shortest head, big-endian argument), independently of libcbor.
 *
 * The encoder struct is private to source/cbor.c.  An encoder is created with aws_cbor_encoder_new and its buffer is
 * then replaced by one of exactly r_cap bytes with r_len of them filled, through a shadow declaration of the struct
 * (allocator, encoded_buf); the shadow is checked against what aws_cbor_encoder_new must have produced (the allocator
 * twice, length 0, capacity 256) before it is used (exit 3 if the layout does not match).  Decoder states are reached through the public API only:
 * a cached element by aws_cbor_decoder_peek_type on an item built from (r_ctype, r_cu64) that is put in front of the
 * input, a sticky error by peeking at a malformed byte (the only sticky error the API can produce is
 * AWS_ERROR_INVALID_CBOR; any other recorded value is replaced by it, the contracts treat all non-zero values alike).
 * Sizes that cannot be backed by memory are shortened in a way that keeps what the code compares (room left against
 * the bytes reserved, string length against the bytes left); the output says so.
 *
 * exit 0: held on this input; 1: violated (reason printed); 3: input not constructible natively.
 * Built with -fsanitize=address,undefined: a sanitizer report is a non-zero exit as well. */
#include <aws/common/byte_buf.h>
#include <aws/common/cbor.h>
#include <aws/common/common.h>
#include <aws/common/error.h>
#include <math.h>
#include <stdio.h>
#include <stdlib.h>
#include <string.h>

#define REAL_MAX ((size_t)1 << 20)

const char *__asan_default_options(void) { return "detect_leaks=0"; }

/* non-static in source/cbor.c, not declared in the public header */
void aws_cbor_encoder_write_single_float(struct aws_cbor_encoder *encoder, float value);
/* libcbor leaf encoders (source/external/libcbor/cbor/internal/encoders.h) */
size_t _cbor_encode_uint8(uint8_t value, unsigned char *buffer, size_t buffer_size, uint8_t offset);
size_t _cbor_encode_uint32(uint32_t value, unsigned char *buffer, size_t buffer_size, uint8_t offset);
size_t _cbor_encode_uint64(uint64_t value, unsigned char *buffer, size_t buffer_size, uint8_t offset);
size_t _cbor_encode_uint(uint64_t value, unsigned char *buffer, size_t buffer_size, uint8_t offset);
size_t _cbor_encode_byte(uint8_t value, unsigned char *buffer, size_t buffer_size);

static int s_argc;
static char **s_argv;
static int s_fail;

static const char *gets_(const char *key) {
    size_t n = strlen(key);
    for (int i = 2; i < s_argc; ++i)
        if (!strncmp(s_argv[i], key, n) && s_argv[i][n] == '=') return s_argv[i] + n + 1;
    return NULL;
}
static int has(const char *key) { return gets_(key) != NULL; }
static uint64_t get(const char *key, uint64_t dflt) {
    const char *v = gets_(key);
    if (!v) return dflt;
    if (!strcmp(v, "TRUE")) return 1;
    if (!strcmp(v, "FALSE")) return 0;
    if (v[0] == '-') return (uint64_t)strtoll(v, NULL, 10);
    return strtoull(v, NULL, 10);
}
static uint64_t arg(const char *name, uint64_t dflt) {
    char k[80];
    snprintf(k, sizeof k, "arg.%s_wrapper", name);
    if (has(k)) return get(k, dflt);
    snprintf(k, sizeof k, "arg.%s", name);
    return get(k, dflt);
}

#define FAIL(...) do { printf("VIOLATED: "); printf(__VA_ARGS__); printf("\n"); s_fail = 1; } while (0)
#define CANNOT(...) do { printf("input not constructible natively: "); printf(__VA_ARGS__); printf("\n"); exit(3); } while (0)

static uint8_t pat(size_t i, unsigned seed) {
    uint32_t x = (uint32_t)i * 2654435761u + seed * 40503u + 777u;
    return (uint8_t)((x >> 11) ^ (x >> 23));
}
static void hex(const char *what, const uint8_t *p, size_t n) {
    printf("%s", what);
    for (size_t i = 0; i < n && i < 40; ++i) printf(" %02x", p[i]);
    printf("%s\n", n > 40 ? " ..." : "");
}

/* ------------------------------------------------------------------ RFC 8949 section 3, written independently */
static size_t spec_head(uint8_t major, uint64_t v, uint8_t *out) {
    uint8_t b0 = (uint8_t)(major << 5);
    if (v < 24) { out[0] = (uint8_t)(b0 | v); return 1; }
    size_t w = v <= 0xFF ? 1 : v <= 0xFFFF ? 2 : v <= 0xFFFFFFFFull ? 4 : 8;
    out[0] = (uint8_t)(b0 | (w == 1 ? 24 : w == 2 ? 25 : w == 4 ? 26 : 27));
    for (size_t i = 0; i < w; ++i) out[1 + i] = (uint8_t)(v >> (8 * (w - 1 - i)));
    return 1 + w;
}
static size_t spec_fixed(uint8_t b0, size_t w, uint64_t bits, uint8_t *out) {
    out[0] = b0;
    for (size_t i = 0; i < w; ++i) out[1 + i] = (uint8_t)(bits >> (8 * (w - 1 - i)));
    return 1 + w;
}
static uint64_t f64_bits(double d) { uint64_t u; memcpy(&u, &d, 8); return u; }
static double bits_f64(uint64_t u) { double d; memcpy(&d, &u, 8); return d; }
static uint32_t f32_bits(float f) { uint32_t u; memcpy(&u, &f, 4); return u; }
static float bits_f32(uint32_t u) { float f; memcpy(&f, &u, 4); return f; }

/* what a reader sees at p (n bytes available) */
struct item { int ok; enum aws_cbor_type type; uint64_t argv; uint8_t ai; size_t headlen, elemlen; };
static struct item spec_read(const uint8_t *p, size_t n) {
    struct item it;
    memset(&it, 0, sizeof it);
    if (n < 1) return it;
    uint8_t mt = p[0] >> 5, ai = p[0] & 31;
    it.ai = ai;
    int accept = (mt == 0 || mt == 1 || mt == 6) ? ai <= 27 : (mt >= 2 && mt <= 5) ? (ai <= 27 || ai == 31)
                                                              : ((ai >= 20 && ai <= 23) || (ai >= 25 && ai <= 27) || ai == 31);
    if (!accept) return it;
    size_t al = ai < 24 ? 0 : ai == 24 ? 1 : ai == 25 ? 2 : ai == 26 ? 4 : ai == 27 ? 8 : 0;
    it.headlen = 1 + al;
    if (n < it.headlen) return it;
    it.argv = ai;
    if (al) { it.argv = 0; for (size_t i = 0; i < al; ++i) it.argv = (it.argv << 8) | p[1 + i]; }
    int is_string = (mt == 2 || mt == 3) && ai <= 27;
    if (is_string && it.argv > n - it.headlen) return it;
    it.elemlen = it.headlen + (is_string ? (size_t)it.argv : 0);
    it.type = mt == 0 ? AWS_CBOR_TYPE_UINT : mt == 1 ? AWS_CBOR_TYPE_NEGINT
            : mt == 2 ? (ai == 31 ? AWS_CBOR_TYPE_INDEF_BYTES_START : AWS_CBOR_TYPE_BYTES)
            : mt == 3 ? (ai == 31 ? AWS_CBOR_TYPE_INDEF_TEXT_START : AWS_CBOR_TYPE_TEXT)
            : mt == 4 ? (ai == 31 ? AWS_CBOR_TYPE_INDEF_ARRAY_START : AWS_CBOR_TYPE_ARRAY_START)
            : mt == 5 ? (ai == 31 ? AWS_CBOR_TYPE_INDEF_MAP_START : AWS_CBOR_TYPE_MAP_START)
            : mt == 6 ? AWS_CBOR_TYPE_TAG
            : ai <= 21 ? AWS_CBOR_TYPE_BOOL : ai == 22 ? AWS_CBOR_TYPE_NULL : ai == 23 ? AWS_CBOR_TYPE_UNDEFINED
            : ai == 31 ? AWS_CBOR_TYPE_BREAK : AWS_CBOR_TYPE_FLOAT;
    it.ok = 1;
    return it;
}
/* length of a whole data item (with its children), 0 if malformed / truncated */
static size_t spec_whole(const uint8_t *p, size_t n, int depth) {
    struct item it = spec_read(p, n);
    if (!it.ok || depth > 64 || it.type == AWS_CBOR_TYPE_BREAK) return 0;
    size_t off = it.elemlen;
    uint64_t kids = 0;
    int indef = 0;
    switch (it.type) {
        case AWS_CBOR_TYPE_TAG: kids = 1; break;
        case AWS_CBOR_TYPE_ARRAY_START: kids = it.argv; break;
        case AWS_CBOR_TYPE_MAP_START: kids = 2 * it.argv; break;
        case AWS_CBOR_TYPE_INDEF_BYTES_START: case AWS_CBOR_TYPE_INDEF_TEXT_START: case AWS_CBOR_TYPE_INDEF_ARRAY_START: case AWS_CBOR_TYPE_INDEF_MAP_START: indef = 1; break;
        default: return off;
    }
    if (indef) {
        for (;;) {
            if (off >= n) return 0;
            if (p[off] == 0xFF) return off + 1;
            size_t l = spec_whole(p + off, n - off, depth + 1);
            if (!l) return 0;
            off += l;
        }
    }
    for (uint64_t i = 0; i < kids; ++i) { size_t l = spec_whole(p + off, n - off, depth + 1); if (!l) return 0; off += l; }
    return off;
}

/* ------------------------------------------------------------------ encoder with a chosen buffer state */
struct enc_shadow { struct aws_allocator *allocator; struct aws_byte_buf encoded_buf; };
struct enc {
    struct aws_cbor_encoder *e;
    struct enc_shadow *sh;
    size_t old_len, old_cap;
    uint8_t *old_buf, *snap;
};
static int s_room_lt_reserve = -1; /* set when the string argument was shortened: the recorded relation room < reservation */
static struct enc mkenc(size_t reserve) {
    struct aws_allocator *alloc = aws_default_allocator();
    struct enc x;
    memset(&x, 0, sizeof x);
    /* r_len / r_cap are tied to the buffer only in the units whose harness sets r_who = R_ENC (1); elsewhere the object's
     * own fields are used (units whose function does not change them) */
    int tied = has("r_len") && has("r_cap") && (!has("r_who") || get("r_who", 0) == 1);
    size_t len = tied ? get("r_len", 0) : get("encoder.encoded_buf.len", 3), cap = tied ? get("r_cap", 0) : get("encoder.encoded_buf.capacity", len > 256 ? len : 256);
    if (len > cap) CANNOT("len %zu > capacity %zu (not a valid buffer)", len, cap);
    int shortened = 0;
    if (s_room_lt_reserve >= 0 && ((cap - len < reserve) != s_room_lt_reserve)) {
        size_t cap2 = s_room_lt_reserve ? len + reserve - 1 : len + reserve + 16;
        printf("note: capacity %zu->%zu so that the room left stays %s the reservation of %zu\n", cap, cap2, s_room_lt_reserve ? "below" : "at or above", reserve);
        cap = cap2;
    }
    if (cap > REAL_MAX) {
        /* keep the room left exactly when it is what decides (up to the reservation and a little more), cut the filled part */
        size_t room = cap - len, room2 = room > reserve + 32 ? reserve + 32 : room, len2 = len > 32 ? 32 : len;
        printf("note: a buffer of %zu bytes cannot be backed by memory; replaying with len %zu->%zu, room left %zu->%zu (reservation %zu)\n", cap, len, len2, room, room2, reserve);
        len = len2; cap = len2 + room2; shortened = 1;
    }
    x.e = aws_cbor_encoder_new(alloc);
    x.sh = (struct enc_shadow *)x.e;
    /* layout check: both allocator fields, the zero length and the 256-byte capacity must sit where the shadow expects them */
    if (x.sh->allocator != alloc || x.sh->encoded_buf.allocator != alloc || x.sh->encoded_buf.len != 0 || x.sh->encoded_buf.capacity != 256 || x.sh->encoded_buf.buffer == NULL)
        CANNOT("struct aws_cbor_encoder does not have the expected layout (allocator, encoded_buf) or a new encoder is not empty with 256 bytes");
    aws_mem_release(alloc, x.sh->encoded_buf.buffer);
    x.sh->encoded_buf.buffer = cap ? aws_mem_acquire(alloc, cap) : NULL;
    x.sh->encoded_buf.capacity = cap;
    x.sh->encoded_buf.len = len;
    for (size_t i = 0; i < cap; ++i) x.sh->encoded_buf.buffer[i] = pat(i, 1);
    if (!shortened && get("g_on", 0) && has("g_k") && get("g_k", 0) < len) x.sh->encoded_buf.buffer[get("g_k", 0)] = (uint8_t)get("g_old", 0);
    x.old_len = len; x.old_cap = cap; x.old_buf = x.sh->encoded_buf.buffer;
    x.snap = malloc(len ? len : 1);
    if (len) memcpy(x.snap, x.old_buf, len);
    return x;
}
/* the frame and shape every aws_cbor_encoder_write_* promises, and the appended bytes */
static void check_appended(struct enc *x, const char *op, const uint8_t *want, size_t n, size_t reserve) {
    struct aws_byte_buf *b = &x->sh->encoded_buf;
    struct aws_byte_cursor c = aws_cbor_encoder_get_encoded_data(x->e);
    if (c.len != x->old_len + n) {
        FAIL("%s: %zu byte(s) appended (encoded length %zu -> %zu), expected %zu; buffer had len %zu of capacity %zu", op, c.len - x->old_len, x->old_len, c.len, n, x->old_len, x->old_cap);
        return;
    }
    if (b->len > b->capacity || b->capacity < x->old_cap) FAIL("%s: len %zu capacity %zu afterwards (capacity was %zu)", op, b->len, b->capacity, x->old_cap);
    if (x->old_cap - x->old_len >= reserve && (b->capacity != x->old_cap || b->buffer != x->old_buf)) FAIL("%s re-allocated although %zu bytes were left and it reserves %zu", op, x->old_cap - x->old_len, reserve);
    /* the other half of the contract's storage clause: with less room than the reservation the storage is a new block */
    if (x->old_cap - x->old_len < reserve && b->buffer == x->old_buf)
        FAIL("%s kept the old storage although only %zu byte(s) were left and it has to reserve %zu (capacity %zu -> %zu)", op, x->old_cap - x->old_len, reserve, x->old_cap, b->capacity);
    if (s_fail) return;
    for (size_t i = 0; i < x->old_len; ++i) if (c.ptr[i] != x->snap[i]) { FAIL("%s: byte %zu written earlier changed (%u -> %u)", op, i, x->snap[i], c.ptr[i]); return; }
    for (size_t i = 0; i < n; ++i)
        if (c.ptr[x->old_len + i] != want[i]) {
            FAIL("%s: appended byte %zu is %02x, RFC 8949 encoding has %02x", op, i, c.ptr[x->old_len + i], want[i]);
            hex("  appended:", c.ptr + x->old_len, n); hex("  expected:", want, n);
            return;
        }
}
static struct aws_cbor_decoder *decoder_on_appended(struct enc *x) {
    struct aws_byte_cursor c = aws_cbor_encoder_get_encoded_data(x->e);
    if (c.len < x->old_len) { FAIL("encoded data shrank"); exit(1); }
    c.ptr += x->old_len; c.len -= x->old_len;
    return aws_cbor_decoder_new(aws_default_allocator(), c);
}
static void expect_end(struct aws_cbor_decoder *d, const char *op) {
    if (aws_cbor_decoder_get_remaining_length(d) != 0) FAIL("%s: %zu byte(s) of the appended item are left after decoding it", op, aws_cbor_decoder_get_remaining_length(d));
}

/* aws_cbor_encoder_write_float: "smallest form that loses nothing, never a half" */
enum { FL_INT, FL_SINGLE, FL_DOUBLE };
static int float_regime(double v) {
    if (isfinite(v) && v >= -9223372036854775808.0 && v < 9223372036854775808.0 && (double)(int64_t)v == v) return FL_INT;
    if (!isfinite(v) || (double)(float)v == v) return FL_SINGLE;
    return FL_DOUBLE;
}
static int same_double(double a, double b) { return (isnan(a) && isnan(b)) || a == b; }

/* ------------------------------------------------------------------ decoder */
/* "the cache is empty": the next peek has to decode the element at the input position `rest` (rest_len bytes left) -
 * a stale cached element would be reported again without the position moving */
static void check_cache_empty(struct aws_cbor_decoder *d, const uint8_t *rest, size_t rest_len, const char *op) {
    struct item nx = spec_read(rest, rest_len);
    enum aws_cbor_type t = AWS_CBOR_TYPE_UNKNOWN;
    int r = aws_cbor_decoder_peek_type(d, &t);
    size_t rem = aws_cbor_decoder_get_remaining_length(d);
    if (nx.ok ? (r != AWS_OP_SUCCESS || t != nx.type || rem != rest_len - nx.elemlen) : (r != AWS_OP_ERR || rem != rest_len))
        FAIL("%s did not empty the cache: the next peek returns %d / %s with %zu byte(s) left, the input position holds %s (%zu byte(s) left before)", op, r,
             aws_cbor_type_cstr(t), rem, nx.ok ? aws_cbor_type_cstr(nx.type) : "no complete element", rest_len);
}

static int run_u64_round_trip(const char *op, uint64_t v) {
    /* rt_uint / rt_negint / rt_tag / rt_array_start / rt_map_start: real encoder, real decoder, back to back */
    struct aws_allocator *alloc = aws_default_allocator();
    struct aws_cbor_encoder *e = aws_cbor_encoder_new(alloc);
    uint8_t want[9]; size_t n; uint64_t out = ~v; int r;
    if (!strcmp(op, "rt_uint")) { aws_cbor_encoder_write_uint(e, v); n = spec_head(0, v, want); }
    else if (!strcmp(op, "rt_negint")) { aws_cbor_encoder_write_negint(e, v); n = spec_head(1, v, want); }
    else if (!strcmp(op, "rt_tag")) { aws_cbor_encoder_write_tag(e, v); n = spec_head(6, v, want); }
    else if (!strcmp(op, "rt_array_start")) { aws_cbor_encoder_write_array_start(e, v); n = spec_head(4, v, want); }
    else { aws_cbor_encoder_write_map_start(e, v); n = spec_head(5, v, want); }
    struct aws_byte_cursor c = aws_cbor_encoder_get_encoded_data(e);
    if (c.len != n || memcmp(c.ptr, want, n)) { FAIL("%s(%llu): encoded bytes are not the shortest RFC 8949 head", op, (unsigned long long)v); hex("  encoded: ", c.ptr, c.len); hex("  expected:", want, n); }
    struct aws_cbor_decoder *d = aws_cbor_decoder_new(alloc, c);
    r = !strcmp(op, "rt_uint") ? aws_cbor_decoder_pop_next_unsigned_int_val(d, &out) : !strcmp(op, "rt_negint") ? aws_cbor_decoder_pop_next_negative_int_val(d, &out)
      : !strcmp(op, "rt_tag") ? aws_cbor_decoder_pop_next_tag_val(d, &out) : !strcmp(op, "rt_array_start") ? aws_cbor_decoder_pop_next_array_start(d, &out) : aws_cbor_decoder_pop_next_map_start(d, &out);
    if (r != AWS_OP_SUCCESS || out != v) FAIL("%s: wrote %llu, decoding gives %s / %llu", op, (unsigned long long)v, r ? "an error" : "success", (unsigned long long)out);
    expect_end(d, op);
    return 0;
}

/* run another op of this driver (the rt_* units are the write_* replays on an empty encoder) */
int main(int argc, char **argv);
static int sub(int argc, char **argv) {
    int sc = s_argc;
    char **sv = s_argv;
    int rc = main(argc, argv);
    s_argc = sc;
    s_argv = sv;
    return rc;
}

int main(int argc, char **argv) {
    s_argc = argc;
    s_argv = argv;
    if (argc < 2) return 2;
    const char *op = argv[1];
    struct aws_allocator *alloc = aws_default_allocator();
    aws_common_library_init(alloc);
    uint8_t want[16];
    size_t n = 0;

    /* ---------------------------------------------------------------- libcbor leaf encoders */
    if (!strncmp(op, "libcbor_cbor_encode_", 20)) {
        const char *k = op + 20;
        uint64_t v = arg("value", 0x1234);
        size_t size = arg("buffer_size", 9);
        uint8_t offset = (uint8_t)arg("offset", 0);
        if (!strcmp(k, "uint")) n = spec_head(0, v, want);
        else if (!strcmp(k, "uint8")) { v &= 0xFF; n = spec_head(0, v, want); }
        else if (!strcmp(k, "uint32")) { v &= 0xFFFFFFFFull; n = spec_fixed(0x1A, 4, v, want); }
        else if (!strcmp(k, "uint64")) n = spec_fixed(0x1B, 8, v, want);
        else if (!strcmp(k, "byte")) { v &= 0xFF; want[0] = (uint8_t)v; n = 1; offset = 0; }
        else { printf("no native replay for op %s\n", op); return 3; }
        want[0] = (uint8_t)(want[0] + offset);
        if (size > REAL_MAX) { printf("note: buffer_size %zu shortened to 64 (only compared with the %zu bytes of the head)\n", size, n); size = 64; }
        uint8_t *buf = malloc(size ? size : 1), *snap = malloc(size ? size : 1);
        for (size_t i = 0; i < size; ++i) snap[i] = buf[i] = pat(i, 3);
        uint8_t *p = size ? buf : buf + 1; /* zero-sized window: any access is flagged by ASan */
        size_t r = !strcmp(k, "uint") ? _cbor_encode_uint(v, p, size, offset) : !strcmp(k, "uint8") ? _cbor_encode_uint8((uint8_t)v, p, size, offset)
                 : !strcmp(k, "uint32") ? _cbor_encode_uint32((uint32_t)v, p, size, offset) : !strcmp(k, "uint64") ? _cbor_encode_uint64(v, p, size, offset) : _cbor_encode_byte((uint8_t)v, p, size);
        size_t want_r = size >= n ? n : 0;
        if (r != want_r) FAIL("_cbor_encode_%s(value %llu, buffer_size %zu, offset %u) returned %zu, expected %zu", k, (unsigned long long)v, size, offset, r, want_r);
        else if (r && memcmp(buf, want, n)) { FAIL("_cbor_encode_%s(value %llu, offset %u): wrong head", k, (unsigned long long)v, offset); hex("  written: ", buf, n); hex("  expected:", want, n); }
        if (!s_fail && memcmp(buf + want_r, snap + want_r, size - want_r)) FAIL("_cbor_encode_%s wrote outside the %zu byte(s) of the head", k, want_r);

    /* ---------------------------------------------------------------- encoder: heads */
    } else if (!strcmp(op, "write_uint") || !strcmp(op, "write_negint") || !strcmp(op, "write_tag") || !strcmp(op, "write_array_start") || !strcmp(op, "write_map_start")) {
        struct enc x = mkenc(9);
        uint64_t v = !strcmp(op, "write_tag") ? arg("tag_number", 7) : (!strcmp(op, "write_uint") || !strcmp(op, "write_negint")) ? arg("value", 7) : arg("number_entries", 7);
        uint64_t out = ~v; int r; struct aws_cbor_decoder *d;
        if (!strcmp(op, "write_uint")) { aws_cbor_encoder_write_uint(x.e, v); n = spec_head(0, v, want); check_appended(&x, op, want, n, 9); if (s_fail) return 1; d = decoder_on_appended(&x); r = aws_cbor_decoder_pop_next_unsigned_int_val(d, &out); }
        else if (!strcmp(op, "write_negint")) { aws_cbor_encoder_write_negint(x.e, v); n = spec_head(1, v, want); check_appended(&x, op, want, n, 9); if (s_fail) return 1; d = decoder_on_appended(&x); r = aws_cbor_decoder_pop_next_negative_int_val(d, &out); }
        else if (!strcmp(op, "write_tag")) { aws_cbor_encoder_write_tag(x.e, v); n = spec_head(6, v, want); check_appended(&x, op, want, n, 9); if (s_fail) return 1; d = decoder_on_appended(&x); r = aws_cbor_decoder_pop_next_tag_val(d, &out); }
        else if (!strcmp(op, "write_array_start")) { aws_cbor_encoder_write_array_start(x.e, v); n = spec_head(4, v, want); check_appended(&x, op, want, n, 9); if (s_fail) return 1; d = decoder_on_appended(&x); r = aws_cbor_decoder_pop_next_array_start(d, &out); }
        else { aws_cbor_encoder_write_map_start(x.e, v); n = spec_head(5, v, want); check_appended(&x, op, want, n, 9); if (s_fail) return 1; d = decoder_on_appended(&x); r = aws_cbor_decoder_pop_next_map_start(d, &out); }
        if (r != AWS_OP_SUCCESS || out != v) FAIL("%s(%llu): the appended item decodes to %s / %llu", op, (unsigned long long)v, r ? "an error" : "success", (unsigned long long)out);
        expect_end(d, op);

    /* ---------------------------------------------------------------- encoder: one-byte items */
    } else if (!strcmp(op, "write_bool") || !strcmp(op, "write_null") || !strcmp(op, "write_undefined") || !strcmp(op, "write_break") || !strncmp(op, "write_indef_", 12)) {
        struct enc x = mkenc(1);
        int bv = arg("value", 1) != 0;
        enum aws_cbor_type et, got = AWS_CBOR_TYPE_UNKNOWN;
        if (!strcmp(op, "write_bool")) { aws_cbor_encoder_write_bool(x.e, bv); want[0] = bv ? 0xF5 : 0xF4; et = AWS_CBOR_TYPE_BOOL; }
        else if (!strcmp(op, "write_null")) { aws_cbor_encoder_write_null(x.e); want[0] = 0xF6; et = AWS_CBOR_TYPE_NULL; }
        else if (!strcmp(op, "write_undefined")) { aws_cbor_encoder_write_undefined(x.e); want[0] = 0xF7; et = AWS_CBOR_TYPE_UNDEFINED; }
        else if (!strcmp(op, "write_break")) { aws_cbor_encoder_write_break(x.e); want[0] = 0xFF; et = AWS_CBOR_TYPE_BREAK; }
        else if (!strcmp(op, "write_indef_bytes_start")) { aws_cbor_encoder_write_indef_bytes_start(x.e); want[0] = 0x5F; et = AWS_CBOR_TYPE_INDEF_BYTES_START; }
        else if (!strcmp(op, "write_indef_text_start")) { aws_cbor_encoder_write_indef_text_start(x.e); want[0] = 0x7F; et = AWS_CBOR_TYPE_INDEF_TEXT_START; }
        else if (!strcmp(op, "write_indef_array_start")) { aws_cbor_encoder_write_indef_array_start(x.e); want[0] = 0x9F; et = AWS_CBOR_TYPE_INDEF_ARRAY_START; }
        else if (!strcmp(op, "write_indef_map_start")) { aws_cbor_encoder_write_indef_map_start(x.e); want[0] = 0xBF; et = AWS_CBOR_TYPE_INDEF_MAP_START; }
        else { printf("no native replay for op %s\n", op); return 3; }
        check_appended(&x, op, want, 1, 1);
        if (s_fail) return 1;
        struct aws_cbor_decoder *d = decoder_on_appended(&x);
        if (aws_cbor_decoder_peek_type(d, &got) != AWS_OP_SUCCESS || got != et) FAIL("%s: the appended byte decodes to %s, expected %s", op, aws_cbor_type_cstr(got), aws_cbor_type_cstr(et));
        if (et == AWS_CBOR_TYPE_BOOL) { bool b = !bv; if (aws_cbor_decoder_pop_next_boolean_val(d, &b) || b != (bool)bv) FAIL("write_bool(%d) decodes to %d", bv, b); }
        expect_end(d, op);

    /* ---------------------------------------------------------------- encoder: floats */
    } else if (!strcmp(op, "write_single_float")) {
        struct enc x = mkenc(5);
        if (!has("r_bits")) CANNOT("bit pattern of the argument (r_bits) missing");
        float f = bits_f32((uint32_t)get("r_bits", 0));
        aws_cbor_encoder_write_single_float(x.e, f);
        n = spec_fixed(0xFA, 4, f32_bits(f), want);
        check_appended(&x, op, want, n, 5);
        if (s_fail) return 1;
        struct aws_cbor_decoder *d = decoder_on_appended(&x); double out = 0;
        if (aws_cbor_decoder_pop_next_float_val(d, &out) || !same_double(out, (double)f)) FAIL("write_single_float(%a) decodes to %a", (double)f, out);
        expect_end(d, op);
    } else if (!strncmp(op, "write_float", 11)) {
        if (!has("r_bits")) CANNOT("bit pattern of the argument (r_bits) missing");
        double v = bits_f64(get("r_bits", 0));
        int reg = float_regime(v);
        size_t reserve = reg == FL_SINGLE ? 5 : 9;
        struct enc x = mkenc(reserve);
        printf("write_float(%a = %.17g, bits %016llx): %s\n", v, v, (unsigned long long)f64_bits(v), reg == FL_INT ? "an integer in the int64 range: integer item" : reg == FL_SINGLE ? "exact as a single (or not finite): single" : "needs a double");
        aws_cbor_encoder_write_float(x.e, v);
        uint64_t ia = 0;
        if (reg == FL_INT) { int64_t i = (int64_t)v; ia = i < 0 ? (uint64_t)(-1 - i) : (uint64_t)i; n = spec_head(i < 0 ? 1 : 0, ia, want); }
        else if (reg == FL_SINGLE) n = spec_fixed(0xFA, 4, f32_bits((float)v), want);
        else n = spec_fixed(0xFB, 8, f64_bits(v), want);
        check_appended(&x, op, want, n, reserve);
        /* the property itself: what was written decodes to the same number */
        struct aws_cbor_decoder *d = decoder_on_appended(&x);
        enum aws_cbor_type t = AWS_CBOR_TYPE_UNKNOWN;
        if (aws_cbor_decoder_peek_type(d, &t)) FAIL("write_float(%a): the appended bytes do not decode", v);
        else if (t == AWS_CBOR_TYPE_FLOAT) { double out = 0; aws_cbor_decoder_pop_next_float_val(d, &out); if (!same_double(out, v)) FAIL("write_float(%a = %.17g) decodes to the float %a = %.17g: the value was narrowed with loss", v, v, out, out); }
        else if (t == AWS_CBOR_TYPE_UINT) { uint64_t u = 0; aws_cbor_decoder_pop_next_unsigned_int_val(d, &u); if ((double)u != v) FAIL("write_float(%a = %.17g) decodes to the unsigned integer %llu", v, v, (unsigned long long)u); }
        else if (t == AWS_CBOR_TYPE_NEGINT) { uint64_t u = 0; aws_cbor_decoder_pop_next_negative_int_val(d, &u); if (u > (uint64_t)INT64_MAX || (double)(-1 - (int64_t)u) != v) FAIL("write_float(%a = %.17g) decodes to the negative integer -1 - %llu", v, v, (unsigned long long)u); }
        else FAIL("write_float(%a) wrote an item of type %s", v, aws_cbor_type_cstr(t));
        if (!s_fail) expect_end(d, op);

    /* ---------------------------------------------------------------- encoder: strings */
    } else if (!strcmp(op, "write_bytes") || !strcmp(op, "write_text")) {
        size_t fl = get("r_from_len", 5);
        if (fl > REAL_MAX && fl <= 0xFFFFFFFFull) {
            /* same head width (four-byte length), same relation between the room left and the reservation */
            size_t fl2 = 65536 + (fl & 0xFFF), len0 = get("r_len", 3), cap0 = get("r_cap", 256);
            printf("note: a string of %zu bytes cannot be backed by memory; replaying with %zu (same head width)\n", fl, fl2);
            if (len0 <= cap0) s_room_lt_reserve = cap0 - len0 < 9 + fl;
            fl = fl2;
        }
        if (fl > REAL_MAX) CANNOT("string of %zu bytes", fl);
        struct enc x = mkenc(9 + fl);
        uint8_t *payload = malloc(fl ? fl : 1);
        for (size_t i = 0; i < fl; ++i) payload[i] = pat(i, 9);
        struct aws_byte_cursor from = {.len = fl, .ptr = fl ? payload : NULL}, out = {0};
        int text = !strcmp(op, "write_text");
        if (text) aws_cbor_encoder_write_text(x.e, from); else aws_cbor_encoder_write_bytes(x.e, from);
        uint8_t *w = malloc(9 + fl);
        n = spec_head(text ? 3 : 2, fl, w);
        if (fl) memcpy(w + n, payload, fl);
        check_appended(&x, op, w, n + fl, 9 + fl);
        if (s_fail) return 1;
        struct aws_cbor_decoder *d = decoder_on_appended(&x);
        int r = text ? aws_cbor_decoder_pop_next_text_val(d, &out) : aws_cbor_decoder_pop_next_bytes_val(d, &out);
        if (r || out.len != fl || (fl && memcmp(out.ptr, payload, fl))) FAIL("%s: the appended string of %zu bytes decodes to %s / %zu bytes", op, fl, r ? "an error" : "success", out.len);
        expect_end(d, op);

    /* ---------------------------------------------------------------- construction / observation */
    } else if (!strcmp(op, "get_encoded_data") || !strcmp(op, "encoder_reset")) {
        struct enc x = mkenc(0);
        if (!strcmp(op, "encoder_reset")) aws_cbor_encoder_reset(x.e);
        struct aws_byte_cursor c = aws_cbor_encoder_get_encoded_data(x.e);
        size_t want_len = !strcmp(op, "encoder_reset") ? 0 : x.old_len;
        if (c.len != want_len || (c.ptr != x.old_buf && !(c.ptr == NULL && want_len == 0))) FAIL("%s: encoded data is %zu byte(s) at %s, expected %zu at the start of the buffer", op, c.len, c.ptr == x.old_buf ? "the start of the buffer" : "another address", want_len);
        if (x.sh->encoded_buf.capacity != x.old_cap || x.sh->encoded_buf.buffer != x.old_buf) FAIL("%s changed the storage", op);
    } else if (!strcmp(op, "encoder_new")) {
        struct aws_cbor_encoder *e = aws_cbor_encoder_new(alloc);
        struct enc_shadow *sh = (struct enc_shadow *)e;
        struct aws_byte_cursor c = aws_cbor_encoder_get_encoded_data(e);
        if (c.len != 0) FAIL("a new encoder holds %zu encoded byte(s)", c.len);
        if (sh->allocator != alloc || sh->encoded_buf.allocator != alloc || sh->encoded_buf.len != 0 || sh->encoded_buf.capacity != 256 || !sh->encoded_buf.buffer)
            FAIL("a new encoder: allocator %s, buffer allocator %s, len %zu, capacity %zu (expected the given allocator, 0, 256)", sh->allocator == alloc ? "ok" : "wrong", sh->encoded_buf.allocator == alloc ? "ok" : "wrong", sh->encoded_buf.len, sh->encoded_buf.capacity);
        else memset(sh->encoded_buf.buffer, 0x11, 256); /* all of it writable (ASan) */
    } else if (!strcmp(op, "decoder_new")) {
        static const uint8_t in[3] = {0x01, 0x02, 0x03};
        for (size_t l = 0; l <= 3 && !s_fail; ++l) { /* the by-value cursor argument is not recorded: lengths 0..3 */
            uint8_t *h = malloc(l ? l : 1); memcpy(h, in, l);
            struct aws_cbor_decoder *d = aws_cbor_decoder_new(alloc, aws_byte_cursor_from_array(h, l));
            uint64_t v = 99;
            if (aws_cbor_decoder_get_remaining_length(d) != l) FAIL("a new decoder over %zu byte(s) reports %zu left", l, aws_cbor_decoder_get_remaining_length(d));
            int r = aws_cbor_decoder_pop_next_unsigned_int_val(d, &v);
            if (l ? (r != AWS_OP_SUCCESS || v != 1) : (r != AWS_OP_ERR)) FAIL("a new decoder over %zu byte(s) does not start empty and error-free at the first byte", l);
        }

    /* ---------------------------------------------------------------- decoder */
    } else if (!strcmp(op, "decode_next_element") || !strncmp(op, "pop_", 4) || !strcmp(op, "peek_type") || !strcmp(op, "consume_next_single_element") || !strcmp(op, "get_remaining_length")) {
        if (has("r_who") && get("r_who", 0) != 2) CANNOT("the decoder's pre-state was not recorded (r_who != R_DEC)");
        size_t len = get("r_src_len", get("decoder.src.len", 1));
        int err = (int)get("r_err", 0), ctype = (int)get("r_ctype", 0);
        uint64_t cu = get("r_cu64", 0);
        uint8_t head[9];
        for (int i = 0; i < 9; ++i) { char k[8]; snprintf(k, sizeof k, "r_b%d", i); head[i] = (uint8_t)get(k, i == 0 ? 0x01 : 0); }
        if (!strcmp(op, "decode_next_element")) { err = 0; ctype = 0; }
        if (err == 0 && (ctype < 0 || ctype > AWS_CBOR_TYPE_INDEF_MAP_START)) {
            /* the verifier's enum field is any int; the API can only cache real types.  Such a value is "an element of
             * another type than the one asked for" to every contract: replay it as one */
            int sub = !strcmp(op, "pop_unsigned_int_val") ? AWS_CBOR_TYPE_NULL : AWS_CBOR_TYPE_UINT;
            printf("note: recorded cached type %d is not a value of enum aws_cbor_type; replaying with a cached %s\n", ctype, aws_cbor_type_cstr((enum aws_cbor_type)sub));
            ctype = sub;
        }
        /* the element as the reader-side specification sees it (claimed length) */
        struct item it = spec_read(head, len);
        if (len > REAL_MAX) {
            size_t len2 = it.ok ? (it.elemlen + 16 < len ? it.elemlen + 16 : len) : 64;
            if (len2 > REAL_MAX) CANNOT("an element of %zu bytes", it.elemlen);
            printf("note: %zu input bytes cannot be backed by memory; replaying with %zu (the element at the front is %s)\n", len, len2, it.ok ? "complete" : "malformed or truncated");
            len = len2;
            struct item it2 = spec_read(head, len);
            if (it2.ok != it.ok) CANNOT("shortening the input changes whether the element is complete");
            it = it2;
        }
        /* cached element: an item of that type and value in front of the input, then peek */
        uint8_t pre[16]; size_t pn = 0, ppay = 0;
        if (err == 0 && ctype != AWS_CBOR_TYPE_UNKNOWN) {
            switch (ctype) {
                case AWS_CBOR_TYPE_UINT: pn = spec_head(0, cu, pre); break;
                case AWS_CBOR_TYPE_NEGINT: pn = spec_head(1, cu, pre); break;
                case AWS_CBOR_TYPE_FLOAT: pn = spec_fixed(0xFB, 8, cu, pre); break;
                case AWS_CBOR_TYPE_BYTES: case AWS_CBOR_TYPE_TEXT: if (cu > 4096) { printf("note: cached string of %llu bytes shortened to 40\n", (unsigned long long)cu); cu = 40; } pn = spec_head(ctype == AWS_CBOR_TYPE_BYTES ? 2 : 3, cu, pre); ppay = (size_t)cu; break;
                case AWS_CBOR_TYPE_ARRAY_START: pn = spec_head(4, cu, pre); break;
                case AWS_CBOR_TYPE_MAP_START: pn = spec_head(5, cu, pre); break;
                case AWS_CBOR_TYPE_TAG: pn = spec_head(6, cu, pre); break;
                case AWS_CBOR_TYPE_BOOL: cu = (cu & 0xFF) != 0; pre[0] = cu ? 0xF5 : 0xF4; pn = 1; break;
                case AWS_CBOR_TYPE_NULL: pre[0] = 0xF6; pn = 1; break;
                case AWS_CBOR_TYPE_UNDEFINED: pre[0] = 0xF7; pn = 1; break;
                case AWS_CBOR_TYPE_BREAK: pre[0] = 0xFF; pn = 1; break;
                case AWS_CBOR_TYPE_INDEF_BYTES_START: pre[0] = 0x5F; pn = 1; break;
                case AWS_CBOR_TYPE_INDEF_TEXT_START: pre[0] = 0x7F; pn = 1; break;
                case AWS_CBOR_TYPE_INDEF_ARRAY_START: pre[0] = 0x9F; pn = 1; break;
                case AWS_CBOR_TYPE_INDEF_MAP_START: pre[0] = 0xBF; pn = 1; break;
                default: CANNOT("cached element of type %d (not a value of enum aws_cbor_type)", ctype);
            }
        } else if (err != 0) { pre[0] = 0x1C; pn = 1; /* reserved additional information: malformed */ }
        size_t total = pn + ppay + len;
        uint8_t *buf = malloc(total ? total : 1);
        memcpy(buf, pre, pn);
        for (size_t i = 0; i < ppay; ++i) buf[pn + i] = pat(i, 5);
        uint8_t *src = buf + pn + ppay;
        for (size_t i = 0; i < len; ++i) src[i] = i < 9 ? head[i] : pat(i, 6);
        uint8_t *snap = malloc(total ? total : 1);
        memcpy(snap, buf, total);
        struct aws_cbor_decoder *d = aws_cbor_decoder_new(alloc, aws_byte_cursor_from_array(buf, total));
        enum aws_cbor_type t0 = AWS_CBOR_TYPE_UNKNOWN;
        int sticky = 0;
        if (err != 0) {
            if (aws_cbor_decoder_peek_type(d, &t0) == AWS_OP_SUCCESS) CANNOT("could not put the decoder into the failed state");
            sticky = aws_last_error();
            if (err != sticky) printf("note: recorded sticky error %d replaced by %d (%s), the only one the API can produce\n", err, sticky, aws_error_name(sticky));
            len = aws_cbor_decoder_get_remaining_length(d); /* the refused byte stays in front of the input */
            src = buf + (total - len);
        } else if (ctype != AWS_CBOR_TYPE_UNKNOWN) {
            if (aws_cbor_decoder_peek_type(d, &t0) || (int)t0 != ctype || aws_cbor_decoder_get_remaining_length(d) != len) CANNOT("could not cache an element of type %s", aws_cbor_type_cstr((enum aws_cbor_type)ctype));
        }
        hex("input at the decoder's position:", src, len);
        printf("  %zu byte(s) left, %s, %s%s\n", len, err ? "decoder has failed before" : "no error", ctype && !err ? "cached element of type " : "nothing cached", ctype && !err ? aws_cbor_type_cstr((enum aws_cbor_type)ctype) : "");
        aws_raise_error(AWS_ERROR_UNKNOWN);

        enum aws_cbor_type expected = AWS_CBOR_TYPE_UNKNOWN;
        const char *k = op + 4;
        int is_pop = !strncmp(op, "pop_", 4);
        if (is_pop) expected = !strcmp(k, "unsigned_int_val") ? AWS_CBOR_TYPE_UINT : !strcmp(k, "negative_int_val") ? AWS_CBOR_TYPE_NEGINT : !strcmp(k, "tag_val") ? AWS_CBOR_TYPE_TAG
                             : !strcmp(k, "array_start") ? AWS_CBOR_TYPE_ARRAY_START : !strcmp(k, "map_start") ? AWS_CBOR_TYPE_MAP_START : !strcmp(k, "boolean_val") ? AWS_CBOR_TYPE_BOOL
                             : !strcmp(k, "float_val") ? AWS_CBOR_TYPE_FLOAT : !strcmp(k, "bytes_val") ? AWS_CBOR_TYPE_BYTES : !strcmp(k, "text_val") ? AWS_CBOR_TYPE_TEXT : AWS_CBOR_TYPE_UNKNOWN;
        if (is_pop && expected == AWS_CBOR_TYPE_UNKNOWN) { printf("no native replay for op %s\n", op); return 3; }

        uint64_t o64 = 0x5a5a5a5a5a5a5a5aull; bool ob = false; double od = -1234.5; struct aws_byte_cursor oc = {0}; enum aws_cbor_type ot = AWS_CBOR_TYPE_UNKNOWN;
        int r;
        if (!strcmp(op, "get_remaining_length")) {
            size_t rem = aws_cbor_decoder_get_remaining_length(d);
            if (rem != len) FAIL("get_remaining_length returned %zu, %zu byte(s) are left", rem, len);
            goto done;
        }
        if (is_pop) {
            switch (expected) {
                case AWS_CBOR_TYPE_UINT: r = aws_cbor_decoder_pop_next_unsigned_int_val(d, &o64); break;
                case AWS_CBOR_TYPE_NEGINT: r = aws_cbor_decoder_pop_next_negative_int_val(d, &o64); break;
                case AWS_CBOR_TYPE_TAG: r = aws_cbor_decoder_pop_next_tag_val(d, &o64); break;
                case AWS_CBOR_TYPE_ARRAY_START: r = aws_cbor_decoder_pop_next_array_start(d, &o64); break;
                case AWS_CBOR_TYPE_MAP_START: r = aws_cbor_decoder_pop_next_map_start(d, &o64); break;
                case AWS_CBOR_TYPE_BOOL: r = aws_cbor_decoder_pop_next_boolean_val(d, &ob); break;
                case AWS_CBOR_TYPE_FLOAT: r = aws_cbor_decoder_pop_next_float_val(d, &od); break;
                case AWS_CBOR_TYPE_BYTES: r = aws_cbor_decoder_pop_next_bytes_val(d, &oc); break;
                default: r = aws_cbor_decoder_pop_next_text_val(d, &oc); break;
            }
        } else if (!strcmp(op, "consume_next_single_element")) r = aws_cbor_decoder_consume_next_single_element(d);
        else r = aws_cbor_decoder_peek_type(d, &ot);
        int e = aws_last_error();
        size_t rem = aws_cbor_decoder_get_remaining_length(d);
        if (memcmp(buf, snap, total)) FAIL("%s wrote to its input", op);

        if (err != 0) {                                         /* failed before: every call fails with that error, nothing moves */
            if (r != AWS_OP_ERR || e != sticky) FAIL("%s on a failed decoder returned %d / error %s, expected AWS_OP_ERR / %s", op, r, aws_error_name(e), aws_error_name(sticky));
            if (rem != len) FAIL("%s on a failed decoder moved the input position", op);
        } else if (ctype != AWS_CBOR_TYPE_UNKNOWN) {            /* served from the cache, the input position does not move */
            if (rem != len) FAIL("%s with a cached element moved the input position (%zu -> %zu bytes left)", op, len, rem);
            enum aws_cbor_type again = AWS_CBOR_TYPE_UNKNOWN;
            if (!is_pop && strcmp(op, "consume_next_single_element")) {
                if (r != AWS_OP_SUCCESS || (int)ot != ctype) FAIL("peek_type with a cached %s returned %d / %s", aws_cbor_type_cstr((enum aws_cbor_type)ctype), r, aws_cbor_type_cstr(ot));
            } else if (!is_pop) {
                if (r != AWS_OP_SUCCESS) FAIL("consume_next_single_element with a cached element failed (%s)", aws_error_name(e));
                else check_cache_empty(d, src, len, op);
            } else if ((int)expected == ctype) {
                if (r != AWS_OP_SUCCESS) FAIL("%s with a cached %s failed (%s)", op, aws_cbor_type_cstr(expected), aws_error_name(e));
                else if (expected == AWS_CBOR_TYPE_BOOL ? ob != (bool)cu : expected == AWS_CBOR_TYPE_FLOAT ? f64_bits(od) != cu
                         : (expected == AWS_CBOR_TYPE_BYTES || expected == AWS_CBOR_TYPE_TEXT) ? (oc.len != cu || oc.ptr != buf + pn) : o64 != cu)
                    FAIL("%s: value handed out differs from the cached %s (cached %llu)", op, aws_cbor_type_cstr(expected), (unsigned long long)cu);
                if (!s_fail) check_cache_empty(d, src, len, op);
            } else {
                if (r != AWS_OP_ERR || e != AWS_ERROR_CBOR_UNEXPECTED_TYPE) FAIL("%s with a cached %s returned %d / %s, expected AWS_ERROR_CBOR_UNEXPECTED_TYPE", op, aws_cbor_type_cstr((enum aws_cbor_type)ctype), r, aws_error_name(e));
                if (aws_cbor_decoder_peek_type(d, &again) || (int)again != ctype || aws_cbor_decoder_get_remaining_length(d) != len) FAIL("%s: the cached %s was lost on a type mismatch", op, aws_cbor_type_cstr((enum aws_cbor_type)ctype));
            }
        } else if (!it.ok) {                                    /* malformed / truncated: refused, sticky, nothing consumed */
            if (r != AWS_OP_ERR || e != AWS_ERROR_INVALID_CBOR) FAIL("%s on a malformed or truncated element returned %d / %s, expected AWS_ERROR_INVALID_CBOR", op, r, aws_error_name(e));
            if (rem != len) FAIL("%s consumed %zu byte(s) of an element it refused", op, len - rem);
        } else {                                                /* one complete element */
            if (rem != len - it.elemlen) FAIL("%s consumed %zu byte(s), the element at the front has %zu (%s, head %zu)", op, len - rem, it.elemlen, aws_cbor_type_cstr(it.type), it.headlen);
            enum aws_cbor_type again = AWS_CBOR_TYPE_UNKNOWN;
            if (!is_pop && strcmp(op, "consume_next_single_element")) {
                if (r != AWS_OP_SUCCESS || ot != it.type) FAIL("%s returned %d / %s, the element is a %s", op, r, aws_cbor_type_cstr(ot), aws_cbor_type_cstr(it.type));
            } else if (!is_pop) {
                if (r != AWS_OP_SUCCESS) FAIL("consume_next_single_element failed on a complete element (%s)", aws_error_name(e));
                else if (!s_fail) check_cache_empty(d, src + it.elemlen, len - it.elemlen, op);
            } else if (expected == it.type) {
                if (r != AWS_OP_SUCCESS) FAIL("%s failed on a complete %s (%s)", op, aws_cbor_type_cstr(it.type), aws_error_name(e));
                else switch (expected) {
                    case AWS_CBOR_TYPE_BOOL: if (ob != (it.ai == 21)) FAIL("pop_boolean_val gives %d for initial byte %02x", ob, head[0]); break;
                    case AWS_CBOR_TYPE_FLOAT:
                        if (it.ai == 27 && f64_bits(od) != it.argv) FAIL("pop_float_val gives bits %016llx for the double %016llx", (unsigned long long)f64_bits(od), (unsigned long long)it.argv);
                        if (it.ai == 26 && f64_bits(od) != f64_bits((double)bits_f32((uint32_t)it.argv))) FAIL("pop_float_val gives %a for the single with bits %08llx", od, (unsigned long long)it.argv);
                        break;
                    case AWS_CBOR_TYPE_BYTES: case AWS_CBOR_TYPE_TEXT:
                        if (oc.len != it.argv || oc.ptr != src + it.headlen) FAIL("%s gives a view of %zu bytes at offset %td, the string has %llu bytes at offset %zu", op, oc.len, oc.ptr - src, (unsigned long long)it.argv, it.headlen);
                        break;
                    default: if (o64 != it.argv) FAIL("%s gives %llu, the head carries %llu", op, (unsigned long long)o64, (unsigned long long)it.argv); break;
                }
                if (r == AWS_OP_SUCCESS && !s_fail) check_cache_empty(d, src + it.elemlen, len - it.elemlen, op);
            } else {
                if (r != AWS_OP_ERR || e != AWS_ERROR_CBOR_UNEXPECTED_TYPE) FAIL("%s on a %s returned %d / %s, expected AWS_ERROR_CBOR_UNEXPECTED_TYPE", op, aws_cbor_type_cstr(it.type), r, aws_error_name(e));
                if (aws_cbor_decoder_peek_type(d, &again) || again != it.type || aws_cbor_decoder_get_remaining_length(d) != rem) FAIL("%s: the decoded %s was not kept for the matching pop", op, aws_cbor_type_cstr(it.type));
            }
        }
    done:;

    /* ---------------------------------------------------------------- round trips through the real code on both sides */
    } else if (!strcmp(op, "rt_uint") || !strcmp(op, "rt_negint") || !strcmp(op, "rt_tag") || !strcmp(op, "rt_array_start") || !strcmp(op, "rt_map_start")) {
        if (has("r_v")) run_u64_round_trip(op, get("r_v", 0));
        else { /* no operand recorded (the trace pass of the check failed): the head-width boundaries */
            static const uint64_t samples[] = {0, 1, 23, 24, 25, 255, 256, 65535, 65536, 0xFFFFFFFFull, 0x100000000ull, 0x7FFFFFFFFFFFFFFFull, 0x8000000000000000ull, UINT64_MAX};
            printf("note: no operand recorded; running %zu boundary values\n", sizeof samples / sizeof *samples);
            for (size_t k = 0; k < sizeof samples / sizeof *samples && !s_fail; ++k) run_u64_round_trip(op, samples[k]);
        }
    } else if (!strcmp(op, "rt_sequence")) {
        uint64_t v1 = get("r_v", 1), v2 = get("r_v2", 2), o1 = 0, o2 = 0;
        struct aws_cbor_encoder *e = aws_cbor_encoder_new(alloc);
        aws_cbor_encoder_write_negint(e, v1); aws_cbor_encoder_write_uint(e, v2);
        struct aws_cbor_decoder *d = aws_cbor_decoder_new(alloc, aws_cbor_encoder_get_encoded_data(e));
        if (aws_cbor_decoder_pop_next_negative_int_val(d, &o1) || o1 != v1) FAIL("rt_sequence: first item %llu decodes to %llu", (unsigned long long)v1, (unsigned long long)o1);
        if (aws_cbor_decoder_pop_next_unsigned_int_val(d, &o2) || o2 != v2) FAIL("rt_sequence: second item %llu decodes to %llu", (unsigned long long)v2, (unsigned long long)o2);
        expect_end(d, op);
    } else if (!strcmp(op, "rt_simple")) {
        static const char *const names[8] = {"write_bool", "write_null", "write_undefined", "write_break", "write_indef_bytes_start", "write_indef_text_start", "write_indef_array_start", "write_indef_map_start"};
        if (!has("r_v")) { /* no operand recorded: all of them */
            for (int w = 0; w < 9; ++w) {
                char *av[5] = {argv[0], (char *)names[w < 8 ? w : 0], w == 8 ? "arg.value=0" : "arg.value=1", "r_len=0", "r_cap=16"};
                int rc = sub(5, av);
                if (rc) return rc;
            }
            return 0;
        }
        uint64_t which = get("r_v", 0);
        char *av[5] = {argv[0], (char *)names[which < 8 ? which : 7], get("r_v2", 1) ? "arg.value=1" : "arg.value=0", "r_len=0", "r_cap=16"};
        printf("rt_simple -> %s\n", av[1]);
        return sub(5, av);
    } else if (!strcmp(op, "rt_bytes") || !strcmp(op, "rt_text")) {
        static const unsigned lens[] = {0, 1, 23, 24, 25, 40};
        for (size_t k = 0; k < (has("r_from_len") ? 1 : sizeof lens / sizeof *lens); ++k) { /* no length recorded: the head-width boundaries */
            char l[40]; snprintf(l, sizeof l, "r_from_len=%llu", (unsigned long long)get("r_from_len", lens[k]));
            char *av[5] = {argv[0], !strcmp(op, "rt_bytes") ? "write_bytes" : "write_text", l, "r_len=0", "r_cap=80"};
            int rc = sub(5, av);
            if (rc) return rc;
        }
        return 0;
    } else if (!strncmp(op, "rt_float", 8) || !strcmp(op, "rt_single_float")) {
        /* no operand recorded (the trace pass of the check failed): values at the edges of the three regimes of
         * write_float - one ulp beside a single / beside an integer, 2^63, -2^63, the ends of the single range, -0, NaN, inf */
        static const uint64_t dsamples[] = {
            0x3FF0000000000001ull /* 1 + ulp */, 0x3FEFFFFFFFFFFFFFull /* 1 - ulp */, 0x3FB99999A0000001ull /* 0.1f + ulp */, 0x3FF8000000000000ull /* 1.5 */,
            0x3FB999999999999Aull /* 0.1 */, 0x4320000000000001ull /* 2^51 + 0.5 */, 0x432FFFFFFFFFFFFFull /* 2^52 - 0.5 */, 0x4330000000000000ull /* 2^52 */,
            0x43E0000000000000ull /* 2^63 */, 0xC3E0000000000000ull /* -2^63 */, 0xC3E0000000000001ull, 0x43DFFFFFFFFFFFFFull, 0x47EFFFFFE0000000ull /* FLT_MAX */,
            0x47EFFFFFE0000001ull, 0x36A0000000000000ull /* smallest subnormal single */, 0x36A0000000000001ull, 0x0000000000000001ull, 0x7FEFFFFFFFFFFFFFull,
            0x8000000000000000ull /* -0 */, 0x0ull, 0x7FF0000000000000ull, 0xFFF0000000000000ull, 0x7FF8000000000000ull, 0xC008000000000000ull /* -3 */, 0x4059000000000000ull /* 100 */};
        static const uint64_t fsamples[] = {0x3F800000, 0x3DCCCCCD, 0x7F800000, 0xFF800000, 0x7FC00000, 0x00000001, 0x7F7FFFFF, 0x80000000, 0x5F000000};
        int single = !strcmp(op, "rt_single_float");
        size_t cnt = has("r_bits") ? 1 : single ? sizeof fsamples / sizeof *fsamples : sizeof dsamples / sizeof *dsamples;
        if (!has("r_bits")) printf("note: no operand recorded; running %zu values at the edges of the float regimes\n", cnt);
        for (size_t k = 0; k < cnt; ++k) {
            char l[40]; snprintf(l, sizeof l, "r_bits=%llu", (unsigned long long)get("r_bits", single ? fsamples[k] : dsamples[k]));
            char *av[5] = {argv[0], single ? "write_single_float" : "write_float", l, "r_len=0", "r_cap=16"};
            int rc = sub(5, av);
            if (rc) return rc;
        }
        return 0;

    /* ---------------------------------------------------------------- skipping a whole data item (unit skip_whole_item_native is a
     * native run already and records no variables): a fixed set of small nestings, empty containers included */
    } else if (!strcmp(op, "skip_whole_item_native")) {
        static const char *const items[] = {
            "00", "1818", "f5", "f6", "fb3ff8000000000000", "40", "43010203", "60", "6161", "c100", "80", "8100", "820102", "a0", "a10102",
            "9fff", "bfff", "5fff", "7fff", "9f00ff", "9f9fffff", "9f9fff00ff", "819fff", "a1009fff", "a19fff00", "bf009fffff", "c19fff", "9fbfffbfffff",
            "5f4100ff", "5f40ff", "7f6161ff", "9f5fffff", "9f7fff01ff", "82 9fff 9f01ff", "9f8000ff", "d8649fff", "bf616100ff", "9f9f9fffffff", "83bfff5fff7fff"};
        unsigned cases = 0;
        for (size_t k = 0; k < sizeof items / sizeof *items; ++k) {
            uint8_t b[64]; size_t bl = 0;
            for (const char *p = items[k]; *p;) { if (*p == ' ') { ++p; continue; } unsigned x; sscanf(p, "%2x", &x); b[bl++] = (uint8_t)x; p += 2; }
            size_t item_len = bl;
            static const uint8_t sentinel[9] = {0x1B, 0x11, 0x22, 0x33, 0x44, 0x55, 0x66, 0x77, 0x88};
            memcpy(b + bl, sentinel, 9); bl += 9;
            if (spec_whole(b, bl, 0) != item_len) { printf("driver error: sample %s is not one well-formed item\n", items[k]); return 3; }
            for (int cached = 0; cached < 2; ++cached, ++cases) {
                uint8_t *heap = malloc(bl); memcpy(heap, b, bl);
                struct aws_cbor_decoder *d = aws_cbor_decoder_new(alloc, aws_byte_cursor_from_array(heap, bl));
                enum aws_cbor_type t; uint64_t v = 0;
                if (cached && aws_cbor_decoder_peek_type(d, &t)) { FAIL("peek before the skip failed"); hex("  item:", b, item_len); continue; }
                if (aws_cbor_decoder_consume_next_whole_data_item(d) != AWS_OP_SUCCESS) { FAIL("skipping a well-formed item reported %s", aws_error_name(aws_last_error())); hex("  item:", b, item_len); }
                else if (aws_cbor_decoder_get_remaining_length(d) != 9) { FAIL("the skip consumed %zu byte(s), the item has %zu", bl - aws_cbor_decoder_get_remaining_length(d), item_len); hex("  item:", b, item_len); }
                else if (aws_cbor_decoder_pop_next_unsigned_int_val(d, &v) || v != 0x1122334455667788ull) { FAIL("the element after the skipped item is not the one that follows it"); hex("  item:", b, item_len); }
                aws_cbor_decoder_destroy(d); free(heap);
                if (s_fail) break;
            }
            if (s_fail) break;
        }
        printf("%u cases\n", cases);
    } else {
        printf("no native replay for op %s\n", op);
        return 3;
    }
    if (s_fail) return 1;
    printf("held natively on this input\n");
    return 0;
}
