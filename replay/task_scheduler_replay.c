/* Native replay driver for violations reported by the C07 units about the ORDERING FUNCTION of the timed-task heap
 * (source/task_scheduler.c: s_compare_timestamps, and that aws_task_scheduler_init builds the heap with it).
 *
 *   replay <op> key=value ...
 *
 *   op                    keys
 *   compare_timestamps    r_ta r_tb     the two time stamps of the verifier's counterexample (harness replay variables);
 *                                       absent: boundary samples (0, equal, 2^63 apart, UINT64_MAX)
 *   init                  -             the same samples (the counterexample of unit init is "another function was handed
 *                                       to aws_priority_queue_init_dynamic": observable natively only through its results)
 *
 * The static comparator is reached through the REAL public API: a scheduler is initialised with the real
 * aws_task_scheduler_init and the predicate it stored in its heap (timed_queue.pred) is called on two heap slots, exactly
 * as source/priority_queue.c calls it.  Checked, from the property statement ("timed tasks in non-decreasing time order",
 * "next-task-time reports the earliest pending time", all time stamps incl. 0, equal, UINT64_MAX):
 *      pred(a, b) > 0  <=>  time(a) > time(b)
 * and end to end for the same two times: with both tasks scheduled, has_tasks reports the smaller time and run_all(smaller)
 * runs the earlier task and (when the times differ) not the later one.
 *   exit 0: held on this input      exit 1: violated (reason printed; a sanitizer report is a non-zero exit too) */
#include <aws/common/task_scheduler.h>

#include <inttypes.h>
#include <stdio.h>
#include <stdlib.h>
#include <string.h>

static int s_fail;
#define FAIL(...) do { printf("VIOLATED: "); printf(__VA_ARGS__); printf("\n"); fflush(stdout); s_fail = 1; } while (0)

static int s_argc;
static char **s_argv;
static int get(const char *key, uint64_t *out) {
    size_t n = strlen(key);
    for (int i = 2; i < s_argc; ++i)
        if (!strncmp(s_argv[i], key, n) && s_argv[i][n] == '=') { *out = strtoull(s_argv[i] + n + 1, NULL, 0); return 1; }
    return 0;
}

static int s_runs[2];
static void s_fn(struct aws_task *task, void *arg, enum aws_task_status status) {
    (void)task;
    if (status == AWS_TASK_STATUS_RUN_READY) s_runs[(size_t)arg]++;
}

static void check_pair(uint64_t ta, uint64_t tb) {
    struct aws_task_scheduler s;
    if (aws_task_scheduler_init(&s, aws_default_allocator())) { printf("init failed\n"); exit(3); }
    printf("times a=%" PRIu64 " b=%" PRIu64 "\n", ta, tb);
    if (s.timed_queue.pred == NULL) { FAIL("the heap has no ordering function"); return; }
    struct aws_task a, b;
    aws_task_init(&a, s_fn, (void *)0, "a");
    aws_task_init(&b, s_fn, (void *)1, "b");
    a.timestamp = ta; b.timestamp = tb;
    struct aws_task *sa = &a, *sb = &b;
    int r = s.timed_queue.pred(&sa, &sb), r2 = s.timed_queue.pred(&sb, &sa), r3 = s.timed_queue.pred(&sa, &sa);
    if ((r > 0) != (ta > tb)) FAIL("pred(a, b) = %d, but time(a) %s time(b)", r, ta > tb ? ">" : "<=");
    if ((r2 > 0) != (tb > ta)) FAIL("pred(b, a) = %d, but time(b) %s time(a)", r2, tb > ta ? ">" : "<=");
    if (r3 > 0) FAIL("pred(a, a) = %d: a task is ordered behind itself", r3);
    /* end to end */
    s_runs[0] = s_runs[1] = 0;
    aws_task_scheduler_schedule_future(&s, &a, ta);
    aws_task_scheduler_schedule_future(&s, &b, tb);
    uint64_t lo = ta < tb ? ta : tb, next = 1;
    if (!aws_task_scheduler_has_tasks(&s, &next) || next != lo) FAIL("next task time %" PRIu64 ", the earliest pending time is %" PRIu64, next, lo);
    aws_task_scheduler_run_all(&s, lo);
    if (s_runs[ta <= tb ? 0 : 1] != 1) FAIL("run_all(%" PRIu64 ") did not run the task that is due at %" PRIu64, lo, lo);
    if (ta != tb && s_runs[ta <= tb ? 1 : 0] != 0) FAIL("run_all(%" PRIu64 ") ran the task due at %" PRIu64 " early", lo, ta < tb ? tb : ta);
    aws_task_scheduler_clean_up(&s);
}

int main(int argc, char **argv) {
    s_argc = argc; s_argv = argv;
    if (argc < 2) return 2;
    uint64_t ta, tb;
    if (!strcmp(argv[1], "compare_timestamps") && get("r_ta", &ta) && get("r_tb", &tb)) check_pair(ta, tb);
    if (!s_fail) {
        static const uint64_t v[] = {0, 1, 100, (UINT64_C(1) << 63) - 1, UINT64_C(1) << 63, (UINT64_C(1) << 63) + 1, UINT64_MAX - 1, UINT64_MAX};
        for (size_t i = 0; i < sizeof v / sizeof *v && !s_fail; ++i)
            for (size_t j = 0; j < sizeof v / sizeof *v && !s_fail; ++j) check_pair(v[i], v[j]);
    }
    return s_fail ? 1 : 0;
}
