/* Native replay driver for violations reported by the C17 units (source/memtrace.c).
 *
 *   replay <op> key=value ...
 *
 * tools/verif.py passes the verifier's counterexample as key=value pairs (scalar arguments as arg.<name>[_wrapper], fields
 * of the tracer object as tracer.<field> / tracer_wrapper.<field>, ghost scalars g_*).  The scenario is rebuilt through
 * the PUBLIC api: a tracing allocator (aws_mem_tracer_new) at the counterexample's level / frames_per_stack over a
 * recording wrapped allocator, a few live blocks so that the table is not empty, then the operation of the unit with the
 * counterexample's sizes.  The property's postcondition is evaluated in plain C against an independent reference (list of
 * live blocks with their requested sizes, arithmetic mod 2^64):
 *     aws_mem_tracer_bytes == sum of the requested sizes of the live blocks, aws_mem_tracer_count == their number
 *     (0 / 0 at level NONE); exactly one request with exactly the caller's arguments reaches the wrapped allocator;
 *     calloc memory is zero; contents survive realloc; a dump changes nothing.
 * The wrapped allocator CLAIMS the requested size but backs at most 64 KiB of it (the tracer itself never touches the
 * blocks), so sizes of 2^31 .. 2^64-1 bytes are constructible; fresh memory from its acquire/realloc is filled with 0xEE.
 *   exit 0: property held on this input   exit 1: violated (reason printed; sanitizer reports are non-zero exits too)
 *   exit 3: input not constructible.   A level that the trace does not give is replaced by all three levels.
 *
 *   op        keys
 *   acquire   arg.size                              (units track, track_fps1, acquire)
 *   calloc    arg.num arg.size                      (units calloc_*)
 *   release   g_mt_size = recorded size of the block released (units untrack, release)
 *   realloc   arg.old_size arg.new_size g_vt_moves  (unit realloc)
 *   query     -                                     (units bytes, count)
 *   new       arg.level arg.frames_per_stack        (units init, new, destroy)
 *   dump      -                                     (units dump, cb_*)
 *   all ops:  tracer.level | tracer_wrapper.level | arg.level,  tracer.frames_per_stack | tracer_wrapper.frames_per_stack
 *   (linked with -Wl,--wrap=aws_backtrace: the tracer's backtraces come from the scripted __wrap_aws_backtrace below)
 */
#include <aws/common/allocator.h>
#include <aws/common/common.h>
#include <inttypes.h>
#include <stdio.h>
#include <stdlib.h>
#include <string.h>

/* The depth of the backtrace is an input of the tracer at level STACKS (the units leave it arbitrary: 1..requested frames).
 * The replay entry links with -Wl,--wrap=aws_backtrace, so the calls that source/memtrace.c makes to aws_backtrace reach
 * this scripted one: depth and call site are chosen by the scenario. */
static size_t s_bt_depth = 64;
static uintptr_t s_bt_site = 1;
size_t __wrap_aws_backtrace(void **frames, size_t num) {
    size_t n = s_bt_depth < num ? s_bt_depth : num;
    for (size_t i = 0; i < n; ++i) frames[i] = (void *)(0x100000 * s_bt_site + 16 * i + 8);
    return n;
}

const char *__asan_default_options(void) { return "detect_leaks=0"; }

#define REAL_MAX ((size_t)1 << 16)
static int s_argc;
static char **s_argv;
static int s_fail;
#define FAIL(...) do { printf("VIOLATED: "); printf(__VA_ARGS__); printf("\n"); s_fail = 1; } while (0)

static const char *raw(const char *key) {
    size_t n = strlen(key);
    for (int i = 2; i < s_argc; ++i)
        if (!strncmp(s_argv[i], key, n) && s_argv[i][n] == '=') return s_argv[i] + n + 1;
    return NULL;
}
static int has(const char *key) { return raw(key) != NULL; }
static uint64_t get(const char *key, uint64_t dflt) {
    const char *v = raw(key);
    if (!v) return dflt;
    if (!strcmp(v, "TRUE")) return 1;
    if (!strcmp(v, "FALSE")) return 0;
    return strtoull(v, NULL, 10);
}
static uint64_t get3(const char *k1, const char *k2, const char *k3, uint64_t dflt) {
    return has(k1) ? get(k1, dflt) : has(k2) ? get(k2, dflt) : k3 && has(k3) ? get(k3, dflt) : dflt;
}
/* enum values arrive as the text cbmc prints: "AWS_MEMTRACE_BYTES" (after a comment marker) or a number */
static int level_of(const char *v) {
    if (!v) return -1;
    if (strstr(v, "AWS_MEMTRACE_NONE")) return AWS_MEMTRACE_NONE;
    if (strstr(v, "AWS_MEMTRACE_BYTES")) return AWS_MEMTRACE_BYTES;
    if (strstr(v, "AWS_MEMTRACE_STACKS")) return AWS_MEMTRACE_STACKS;
    if (v[0] >= '0' && v[0] <= '9') { int l = atoi(v); return l >= 0 && l <= 2 ? l : -1; }
    return -1;
}
static int level_key(void) {
    static const char *keys[] = {"tracer.level", "tracer_wrapper.level", "arg.level", "arg.level_wrapper", "r_level"};
    for (unsigned i = 0; i < sizeof keys / sizeof *keys; ++i)
        if (has(keys[i])) return level_of(raw(keys[i]));
    return -1;
}

/* ------------------------------------------------------------------ the wrapped allocator: records every request */
struct blk_hdr { size_t claimed, real; uint64_t magic; uint64_t pad; };
#define MAGIC 0xC17C17C17C17ULL
static size_t w_calls, w_a, w_b;
static const void *w_ptr;
static const char *w_what = "";
static int w_moves;
static size_t real_of(size_t n) { return n < REAL_MAX ? n : REAL_MAX; }
static void *w_new(size_t claimed, int fill) {
    size_t r = real_of(claimed);
    struct blk_hdr *h = malloc(sizeof *h + (r ? r : 1));
    h->claimed = claimed; h->real = r; h->magic = MAGIC;
    memset(h + 1, fill, r ? r : 1);
    return h + 1;
}
static void w_free(void *p) {
    struct blk_hdr *h = (struct blk_hdr *)p - 1;
    if (h->magic != MAGIC) { FAIL("the wrapped allocator got back a pointer it never handed out (or twice): %p", p); return; }
    h->magic = 0;
    free(h);
}
static void w_rec(const char *what, const void *p, size_t a, size_t b) { w_calls++; w_what = what; w_ptr = p; w_a = a; w_b = b; }
static void *w_acquire(struct aws_allocator *al, size_t n) { (void)al; w_rec("acquire", NULL, n, 0); return w_new(n, 0xEE); }
static void w_release(struct aws_allocator *al, void *p) { (void)al; w_rec("release", p, 0, 0); w_free(p); }
static void *w_calloc(struct aws_allocator *al, size_t num, size_t size) { (void)al; w_rec("calloc", NULL, num, size); return w_new(num * size, 0x00); }
static void *w_realloc(struct aws_allocator *al, void *p, size_t o, size_t n) {
    (void)al;
    w_rec("realloc", p, o, n);
    if (p == NULL) { if (o != 0) FAIL("realloc of NULL reaches the wrapped allocator with old size %zu", o); return w_new(n, 0xEE); }
    struct blk_hdr *h = (struct blk_hdr *)p - 1;
    if (h->magic != MAGIC) { FAIL("the wrapped allocator is asked to resize a pointer it never handed out: %p", p); return p; }
    if (o != h->claimed) FAIL("realloc reaches the wrapped allocator with old size %zu, the block has %zu", o, h->claimed);
    if (n <= o && !w_moves) { h->claimed = n; return p; } /* in place (the backed part stays as it is) */
    uint8_t *q = w_new(n, 0xEE);
    size_t keep = real_of(o < n ? o : n);
    memcpy(q, p, keep < h->real ? keep : h->real);
    w_free(p);
    return q;
}
static struct aws_allocator s_inner = {.mem_acquire = w_acquire, .mem_release = w_release, .mem_realloc = w_realloc, .mem_calloc = w_calloc};

/* ------------------------------------------------------------------ reference: the live blocks */
#define MAXB 16
static struct { void *p; size_t size; } s_live[MAXB];
static size_t s_nlive;
static void ref_add(void *p, size_t n) { s_live[s_nlive].p = p; s_live[s_nlive].size = n; s_nlive++; }
static void ref_del(void *p) {
    for (size_t i = 0; i < s_nlive; ++i) if (s_live[i].p == p) { s_live[i] = s_live[--s_nlive]; return; }
}
static size_t ref_bytes(void) { size_t s = 0; for (size_t i = 0; i < s_nlive; ++i) s += s_live[i].size; return s; }
static void check_totals(struct aws_allocator *t, int level, const char *when) {
    size_t b = aws_mem_tracer_bytes(t), c = aws_mem_tracer_count(t);
    size_t wb = level == AWS_MEMTRACE_NONE ? 0 : ref_bytes(), wc = level == AWS_MEMTRACE_NONE ? 0 : s_nlive;
    if (b != wb) FAIL("%s: aws_mem_tracer_bytes reports %zu, the %zu live block(s) were requested with %zu bytes in total", when, b, s_nlive, wb);
    if (c != wc) FAIL("%s: aws_mem_tracer_count reports %zu, there are %zu live block(s)", when, c, wc);
}
static void expect_call(size_t before, const char *what, const void *p, size_t a, size_t b, const char *when) {
    if (w_calls != before + 1) FAIL("%s: %zu request(s) reached the wrapped allocator, expected exactly one", when, w_calls - before);
    else if (strcmp(w_what, what) || w_ptr != p || w_a != a || w_b != b)
        FAIL("%s: the wrapped allocator saw %s(%p, %zu, %zu), expected %s(%p, %zu, %zu)", when, w_what, w_ptr, w_a, w_b, what, p, a, b);
}
/* a dump walks every recorded stack (level STACKS) and must leave the accounting alone */
static void dump_and_check(struct aws_allocator *t, int level, const char *when) {
    aws_mem_tracer_dump(t);
    check_totals(t, level, when);
}
static const char *lname(int l) { return l == AWS_MEMTRACE_NONE ? "NONE" : l == AWS_MEMTRACE_BYTES ? "BYTES" : "STACKS"; }

static void scenario(const char *op, int level, size_t fps) {
    s_nlive = 0;
    w_calls = 0;
    struct aws_allocator *t = aws_mem_tracer_new(&s_inner, NULL, (enum aws_mem_trace_level)level, fps);
    if (!t) { FAIL("aws_mem_tracer_new returned NULL"); return; }
    printf("level %s, frames_per_stack %zu: ", lname(level), fps);
    check_totals(t, level, "new tracer");
    if (!strcmp(op, "new")) {
        size_t c0 = w_calls;
        void *p = aws_mem_acquire(t, 40);
        expect_call(c0, "acquire", NULL, 40, 0, "acquire on a new tracer (it must wrap the allocator it was given)");
        ref_add(p, 40);
        check_totals(t, level, "after the first acquire");
        aws_mem_release(t, p);
        ref_del(p);
        check_totals(t, level, "after releasing it");
        struct aws_allocator *back = aws_mem_tracer_destroy(t);
        if (back != &s_inner) FAIL("aws_mem_tracer_destroy returns %p, the wrapped allocator is %p", (void *)back, (void *)&s_inner);
        printf("new/destroy checked\n");
        return;
    }
    /* a table that is not empty: three live blocks from different call sites */
    void *pre[3];
    static const size_t pre_size[3] = {24, 1000, 7};
    s_bt_site = 2; pre[0] = aws_mem_acquire(t, pre_size[0]); ref_add(pre[0], pre_size[0]);
    s_bt_site = 3; pre[1] = aws_mem_calloc(t, 10, 100); ref_add(pre[1], pre_size[1]);
    s_bt_site = 2; pre[2] = aws_mem_acquire(t, pre_size[2]); ref_add(pre[2], pre_size[2]); /* a known stack */
    s_bt_site = 4;
    check_totals(t, level, "after three allocations");

    if (!strcmp(op, "acquire")) {
        size_t n = get3("arg.size", "arg.size_wrapper", "r_size", 3ull << 30);
        if (n == 0) { printf("size 0 is outside the precondition\n"); exit(3); }
        size_t c0 = w_calls;
        uint8_t *p = aws_mem_acquire(t, n);
        printf("acquire(%zu)\n", n);
        expect_call(c0, "acquire", NULL, n, 0, "acquire");
        if (!p) FAIL("acquire returned NULL");
        else { memset(p, 0x5A, real_of(n)); ref_add(p, n); }
        check_totals(t, level, "after acquire");
        dump_and_check(t, level, "after a dump that follows the acquire");
        if (p) { aws_mem_release(t, p); ref_del(p); check_totals(t, level, "after releasing the block again"); }
    } else if (!strcmp(op, "calloc")) {
        size_t num = get3("arg.num", "arg.num_wrapper", "r_num", 8), size = get3("arg.size", "arg.size_wrapper", "r_size", 512);
        __uint128_t tot = (__uint128_t)num * size;
        if (num == 0 || size == 0 || tot > SIZE_MAX) { printf("num * size is 0 or overflows: outside the precondition (aws_mem_calloc refuses it before the tracer is reached)\n"); exit(3); }
        /* recycle: a block of the same size that was filled with garbage and released, as in a long-running process */
        if ((size_t)tot <= REAL_MAX) { void *g = aws_mem_acquire(t, (size_t)tot); memset(g, 0x77, (size_t)tot); aws_mem_release(t, g); }
        size_t c0 = w_calls;
        uint8_t *p = aws_mem_calloc(t, num, size);
        printf("calloc(%zu, %zu)\n", num, size);
        expect_call(c0, "calloc", NULL, num, size, "calloc");
        if (!p) FAIL("calloc returned NULL");
        else {
            for (size_t i = 0; i < real_of((size_t)tot); ++i) if (p[i]) { FAIL("calloc(%zu, %zu): byte %zu of the block is 0x%02x, not zero", num, size, i, p[i]); break; }
            ref_add(p, (size_t)tot);
        }
        check_totals(t, level, "after calloc");
        dump_and_check(t, level, "after a dump that follows the calloc");
        if (p) { aws_mem_release(t, p); ref_del(p); check_totals(t, level, "after releasing the block again"); }
    } else if (!strcmp(op, "release")) {
        size_t n = get3("g_mt_size", "r_size", NULL, 5ull << 30);
        if (n == 0) n = 1;
        uint8_t *p = aws_mem_acquire(t, n);
        ref_add(p, n);
        check_totals(t, level, "after acquiring the block to be released");
        size_t c0 = w_calls;
        aws_mem_release(t, p);
        printf("release of a block of %zu bytes\n", n);
        expect_call(c0, "release", p, 0, 0, "release");
        ref_del(p);
        check_totals(t, level, "after release");
        /* an address the tracer never saw: nothing changes */
        void *alien = w_new(64, 1);
        c0 = w_calls;
        aws_mem_release(t, alien);
        expect_call(c0, "release", alien, 0, 0, "release of an untracked block");
        check_totals(t, level, "after releasing a block the tracer never saw");
    } else if (!strcmp(op, "realloc")) {
        size_t o = get3("arg.old_size", "arg.old_size_wrapper", "arg.oldsize", 300), n = get3("arg.new_size", "arg.new_size_wrapper", "arg.newsize", 40);
        if (n == 0) { printf("new size 0 is a release (aws_mem_realloc), outside the precondition\n"); exit(3); }
        w_moves = (int)get("g_vt_moves", 0);
        uint8_t *p = NULL;
        if (o) { p = aws_mem_acquire(t, o); for (size_t i = 0; i < real_of(o); ++i) p[i] = (uint8_t)(i * 31 + 7); ref_add(p, o); }
        check_totals(t, level, "before realloc");
        size_t c0 = w_calls;
        void *q = p, *oldp = p;
        int r = aws_mem_realloc(t, &q, o, n);
        printf("realloc(%zu -> %zu), wrapped allocator %s\n", o, n, w_moves ? "always moves" : "keeps shrinking blocks in place");
        if (r != AWS_OP_SUCCESS || !q) FAIL("realloc failed");
        expect_call(c0, "realloc", oldp, o, n, "realloc");
        if (oldp) ref_del(oldp);
        if (q) {
            ref_add(q, n);
            size_t keep = real_of(o < n ? o : n);
            for (size_t i = 0; i < keep; ++i) if (((uint8_t *)q)[i] != (uint8_t)(i * 31 + 7)) { FAIL("realloc: byte %zu of the old contents lost", i); break; }
        }
        check_totals(t, level, "after realloc");
        dump_and_check(t, level, "after a dump that follows the realloc");
        if (q) { aws_mem_release(t, q); ref_del(q); check_totals(t, level, "after releasing the resized block"); }
    } else if (!strcmp(op, "query")) {
        printf("queries\n");
        check_totals(t, level, "first query");
        check_totals(t, level, "second query (queries are read-only)");
    } else if (!strcmp(op, "dump")) {
        printf("dump with %zu live blocks\n", s_nlive);
        aws_mem_tracer_dump(t);
        check_totals(t, level, "after a dump");
        void *p = aws_mem_acquire(t, 99);
        ref_add(p, 99);
        check_totals(t, level, "after an acquire that follows a dump");
        aws_mem_tracer_dump(t);
        aws_mem_release(t, p);
        ref_del(p);
        check_totals(t, level, "after a release that follows a dump");
    } else {
        printf("no native replay for op %s\n", op);
        exit(3);
    }
    for (int i = 0; i < 3; ++i) { aws_mem_release(t, pre[i]); ref_del(pre[i]); }
    check_totals(t, level, "after everything was released");
    struct aws_allocator *back = aws_mem_tracer_destroy(t);
    if (back != &s_inner) FAIL("aws_mem_tracer_destroy returns %p, the wrapped allocator is %p", (void *)back, (void *)&s_inner);
}

int main(int argc, char **argv) {
    s_argc = argc;
    s_argv = argv;
    if (argc < 2) return 2;
    const char *op = argv[1];
    int level = level_key();
    size_t fps = get3("tracer.frames_per_stack", "tracer_wrapper.frames_per_stack", "arg.frames_per_stack", 8);
    if (fps > 1000) fps = 200; /* clamped to 128 by the tracer anyway */
    for (int l = AWS_MEMTRACE_NONE; l <= AWS_MEMTRACE_STACKS; ++l) {
        if (level >= 0 && l != level) continue; /* a level that the trace does not give: all three */
        if (l != AWS_MEMTRACE_STACKS) { scenario(op, l, fps); continue; }
        /* level STACKS: backtraces of every interesting depth (full, exactly the two skipped frames, one frame, one more
         * than is kept), and frames_per_stack == 1 as a case of its own (unit track_fps1) */
        size_t eff = fps == 0 ? 8 : fps > 128 ? 128 : fps;
        size_t depths[4] = {eff + 2, 2, 1, eff + 1};
        for (int d = 0; d < 4 && !s_fail; ++d) { s_bt_depth = depths[d]; printf("[backtrace depth %zu] ", s_bt_depth); scenario(op, l, fps); }
        if (fps != 1)
            for (size_t d = 1; d <= 3 && !s_fail; ++d) { s_bt_depth = d; printf("[backtrace depth %zu] ", s_bt_depth); scenario(op, l, 1); }
    }
    if (s_fail) return 1;
    printf("held natively on this input\n");
    return 0;
}
