/* Native replay driver for violations reported by the C09 array-list units (include/aws/common/array_list.inl,
 * source/array_list.c).
 *
 *   replay <op> key=value ...          op = unit name, e.g. set_at_s3, mem_swap_slots_01_s128 (suffix _s<n> = element size)
 *
 * tools/verif.py extracts the verifier's counterexample from the trace:
 *   r_length, r_current_size, r_dynamic   the list's pre-state (ghosts tied to the list by AL_REQ_OK in
 *                                         contracts/array_list.h; r_length2, ... = the second list of copy (to) and
 *                                         swap_contents (list_b)).  The object fields list.length, ... that the trace
 *                                         also yields are their LAST values, i.e. the post-state: only a fall-back
 *   arg.index, arg.n, arg.a, arg.b, ...   scalar arguments (arg.<name>_wrapper = the DFCC wrapper's copy, preferred)
 *   g_k / g_old, g_j, g_va / g_vb         ghost witnesses: offset and old value of one byte of the storage; offset of a
 *                                         byte inside one element and that byte of elements a / b (swap)
 * The list is rebuilt natively with exactly those field values: the storage is a real block of current_size bytes
 * (acquired from the default allocator for a dynamic list, malloc'ed for a list over caller-provided storage, so ASan
 * flags any access outside it), pattern-filled, with the witnessed bytes at the witnessed offsets.  The REAL function is
 * called and the property's postcondition is evaluated in plain C against a reference sequence computed here
 * (byte-vector model; size arithmetic in 128 bits).
 * A list that is too large to be backed by memory (the verifier likes 2^50 elements) is replayed shortened: same order
 * and same small distances between length, capacity and the index / count arguments, larger gaps cut to 4 elements;
 * the output says so (see maybe_reduce).
 * exit 0: property held on this input; exit 1: violated (reason printed); exit 3: input not constructible natively
 * (growth to 2^50 bytes, ...).  Built with -fsanitize=address,undefined: a sanitizer report is a non-zero exit too.
 *
 * aws_array_list_mem_swap is static in source/array_list.c: the mem_swap_* units are replayed through its only caller
 * aws_array_list_swap on a three-element list of the unit's element size (slots a, b as in the unit's name; the
 * two-separate-objects unit uses slots 0 and 2). */
#include <aws/common/array_list.h>
#include <aws/common/private/array_list.h>
#include <aws/common/common.h>
#include <aws/common/error.h>
#include <ctype.h>
#include <stdio.h>
#include <stdlib.h>
#include <string.h>

#define REAL_MAX ((size_t)1 << 20)
typedef unsigned __int128 u128;

const char *__asan_default_options(void) { return "detect_leaks=0"; }

static int s_argc;
static char **s_argv;
static int s_fail;

static const char *gets_(const char *key) {
    size_t n = strlen(key);
    for (int i = 2; i < s_argc; ++i)
        if (!strncmp(s_argv[i], key, n) && s_argv[i][n] == '=') return s_argv[i] + n + 1;
    return NULL;
}
static int has(const char *key) { return gets_(key) != NULL; }
static uint64_t get(const char *key, uint64_t dflt) {
    const char *v = gets_(key);
    if (!v) return dflt;
    if (!strcmp(v, "TRUE")) return 1;
    if (!strcmp(v, "FALSE")) return 0;
    return strtoull(v, NULL, 10);
}
/* scalar argument <name>: the enforced function's wrapper copy first (unambiguous), then the plain name */
static uint64_t arg(const char *name, uint64_t dflt) {
    char k[80];
    snprintf(k, sizeof k, "arg.%s_wrapper", name);
    if (has(k)) return get(k, dflt);
    snprintf(k, sizeof k, "arg.%s", name);
    return get(k, dflt);
}
/* a pointer-valued trace variable: NULL or not */
static int ptr_is_null(const char *key, int dflt) {
    const char *v = gets_(key);
    if (!v) return dflt;
    return strstr(v, "NULL") != NULL || !strcmp(v, "0");
}

#define FAIL(...) do { printf("VIOLATED: "); printf(__VA_ARGS__); printf("\n"); s_fail = 1; } while (0)
#define CANNOT(...) do { printf("input not constructible natively: "); printf(__VA_ARGS__); printf("\n"); exit(3); } while (0)

static uint8_t pat(size_t i, unsigned seed) {
    uint32_t x = (uint32_t)i * 2654435761u + seed * 40503u + 12345u;
    return (uint8_t)((x >> 11) ^ (x >> 23));
}

static size_t s_isz;

struct built {
    struct aws_array_list l;   /* the list handed to the library */
    struct aws_array_list old; /* its fields before the call */
    uint8_t *snap;             /* copy of the storage before the call (real bytes) */
    size_t real;               /* bytes really backing the storage */
};

/* list descriptor as recorded in the counterexample, in element units (cap * size + rem = current_size) */
struct lin { const char *name; size_t length, cap, rem; int dynamic; };
static struct lin s_lin[2];
static int s_nlin, s_reduced;

static struct lin *rdlist(const char *name) {
    char k[80];
    /* pre-state ghosts r_length, r_current_size, r_dynamic (first list) / r_length2, ... (second list: to, list_b); the
     * object fields <name>.* found in the trace are the LAST values, i.e. the post-state, and only a fall-back */
    const char *suf = s_nlin == 0 ? "" : "2";
    struct lin *d = &s_lin[s_nlin++];
    d->name = name;
    snprintf(k, sizeof k, "r_length%s", suf);
    if (!has(k)) snprintf(k, sizeof k, "%s.length", name);
    d->length = get(k, 3);
    snprintf(k, sizeof k, "r_current_size%s", suf);
    if (!has(k)) snprintf(k, sizeof k, "%s.current_size", name);
    size_t cur = has(k) ? get(k, 0) : (d->length + 1) * s_isz;
    snprintf(k, sizeof k, "r_dynamic%s", suf);
    if (has(k)) d->dynamic = get(k, 0) != 0;
    else { snprintf(k, sizeof k, "%s.alloc", name); d->dynamic = !ptr_is_null(k, 0); }
    snprintf(k, sizeof k, "%s.item_size", name);
    if (has(k) && get(k, 0) != s_isz) CANNOT("%s = %llu but the unit is instantiated for element size %zu", k, (unsigned long long)get(k, 0), s_isz);
    if ((u128)d->length * s_isz > cur) CANNOT("%s: length %zu * %zu exceeds current_size %zu (not a valid list)", name, d->length, s_isz, cur);
    d->cap = cur / s_isz;
    d->rem = cur % s_isz;
    return d;
}
static size_t lin_bytes(const struct lin *d) { return d->cap * s_isz + d->rem; }

/* The verifier is free to pick a list of 2^50 elements; a process cannot back that.  The case is then replayed with the
 * SAME ORDER between all quantities that the operation compares (lengths, capacities, the index / count arguments,
 * zero) and the same small distances between them, but with every gap larger than GAP elements shortened to GAP.
 * Values within GAP of the arithmetic limit SIZE_MAX / size (where (index+1)*size stops fitting size_t) are kept as
 * they are: they are compared, never backed by storage.  A violation found on the shortened input is a native failing
 * input of the same property; it is reported as such ("shortened"). */
#define GAP 4
static void maybe_reduce(size_t *x1, size_t *x2) {
    size_t *v[8];
    int n = 0;
    size_t limit = SIZE_MAX / s_isz, big = REAL_MAX / s_isz / 2;
    for (int k = 0; k < s_nlin; ++k) { v[n++] = &s_lin[k].length; v[n++] = &s_lin[k].cap; }
    if (x1) v[n++] = x1;
    if (x2) v[n++] = x2;
    int need = 0;
    for (int k = 0; k < n; ++k) if (*v[k] > big && *v[k] < limit - GAP) need = 1;
    if (!need) return;
    for (int a = 1; a < n; ++a) /* sort the pointers by value */
        for (int c = a; c > 0 && *v[c - 1] > *v[c]; --c) { size_t *t = v[c]; v[c] = v[c - 1]; v[c - 1] = t; }
    size_t prev_old = 0, prev_new = 0;
    printf("note: the recorded input is too large to be backed by memory; replaying it shortened (same order and small distances between all quantities):");
    for (int k = 0; k < n; ++k) {
        size_t old = *v[k];
        if (old >= limit - GAP) continue; /* at the arithmetic limit: kept */
        size_t gap = old - prev_old;
        *v[k] = prev_new + (gap > GAP ? GAP : gap);
        prev_old = old; prev_new = *v[k];
        printf(" %zu->%zu", old, *v[k]);
    }
    printf("\n");
    s_reduced = 1;
}

/* rebuild the list object of the counterexample */
static struct built mklist(const struct lin *d, unsigned seed, int allow_huge) {
    struct built b;
    memset(&b, 0, sizeof b);
    size_t cur = lin_bytes(d);
    if (cur > REAL_MAX && !allow_huge) CANNOT("%s: storage of %zu bytes", d->name, cur);
    b.real = cur < REAL_MAX ? cur : REAL_MAX;
    struct aws_allocator *alloc = aws_default_allocator();
    uint8_t *data = NULL;
    if (cur) {
        data = d->dynamic ? aws_mem_acquire(alloc, b.real) : malloc(b.real);
        for (size_t i = 0; i < b.real; ++i) data[i] = pat(i, seed);
    }
    b.l.alloc = d->dynamic ? alloc : NULL;
    b.l.current_size = cur;
    b.l.length = d->length;
    b.l.item_size = s_isz;
    b.l.data = data;
    return b;
}
static void plant(struct built *b, size_t off, uint8_t v) { if (off < b->real) ((uint8_t *)b->l.data)[off] = v; }
static void freeze(struct built *b) {
    b->old = b->l;
    b->snap = malloc(b->real ? b->real : 1);
    if (b->real) memcpy(b->snap, b->l.data, b->real);
}
/* the g_k / g_old witness of the storage */
static void plant_witness(struct built *b) { if (!s_reduced && get("g_on", 1) && has("g_k") && has("g_old")) plant(b, get("g_k", 0), (uint8_t)get("g_old", 0)); }

static uint8_t *mkval(unsigned seed) {
    uint8_t *v = malloc(s_isz ? s_isz : 1);
    for (size_t i = 0; i < s_isz; ++i) v[i] = pat(i, seed);
    return v;
}

static void check_inv(const struct aws_array_list *l, const char *what) {
    if (l->item_size != s_isz) FAIL("%s: item_size became %zu", what, l->item_size);
    if ((l->current_size == 0) != (l->data == NULL)) FAIL("%s: data %s but current_size = %zu", what, l->data ? "non-NULL" : "NULL", l->current_size);
    if ((u128)l->length * s_isz > l->current_size) FAIL("%s: length %zu elements of %zu bytes do not fit current_size %zu", what, l->length, s_isz, l->current_size);
}
static void check_same_fields(const struct built *b, const char *what) {
    if (b->l.length != b->old.length || b->l.current_size != b->old.current_size || b->l.data != b->old.data || b->l.alloc != b->old.alloc ||
        b->l.item_size != b->old.item_size)
        FAIL("%s changed the list (length %zu->%zu, current_size %zu->%zu, data %s)", what, b->old.length, b->l.length, b->old.current_size,
             b->l.current_size, b->l.data == b->old.data ? "same" : "moved");
}
/* bytes [from, to) of the storage equal the snapshot shifted by `shift` (new[i] == old[i + shift]) */
static void check_bytes(const struct built *b, size_t from, size_t to, ptrdiff_t shift, const char *what) {
    const uint8_t *d = b->l.data;
    for (size_t i = from; i < to; ++i) {
        size_t o = (size_t)((ptrdiff_t)i + shift);
        if (o >= b->real) break;
        if (d[i] != b->snap[o]) { FAIL("%s: byte %zu (element %zu) is %u, expected old byte %zu = %u", what, i, i / s_isz, d[i], o, b->snap[o]); return; }
    }
}
static void check_elem(const struct built *b, size_t index, const uint8_t *val, const char *what) {
    const uint8_t *d = (const uint8_t *)b->l.data + index * s_isz;
    for (size_t j = 0; j < s_isz; ++j)
        if (d[j] != val[j]) { FAIL("%s: byte %zu of element %zu is %u, expected %u", what, j, index, d[j], val[j]); return; }
}
static void expect_err(int r, int code, const char *what) {
    if (r != AWS_OP_ERR) FAIL("%s returned %d, expected AWS_OP_ERR", what, r);
    else if (aws_last_error() != code) FAIL("%s failed with error %d (%s), expected %d (%s)", what, aws_last_error(), aws_error_name(aws_last_error()), code, aws_error_name(code));
}
#define SENTINEL_ERR AWS_ERROR_UNKNOWN
static void expect_ok(int r, const char *what) {
    if (r != AWS_OP_SUCCESS) FAIL("%s returned %d (error %s), expected success", what, r, aws_error_name(aws_last_error()));
    else if (aws_last_error() != SENTINEL_ERR) FAIL("%s succeeded but raised error %d (%s)", what, aws_last_error(), aws_error_name(aws_last_error()));
}

/* (index + 1) * item size fits size_t */
static int need_ok(size_t index, size_t *need) {
    u128 n = ((u128)index + 1) * s_isz;
    if (n > SIZE_MAX) return 0;
    *need = (size_t)n;
    return 1;
}

/* shared by ensure_capacity / set_at / push_back / push_front: what growing so that `index` exists must do */
static int grow_expect(struct built *b, size_t index, int *grows, size_t *newsize) {
    size_t need = 0;
    *grows = 0;
    *newsize = b->old.current_size;
    if (!need_ok(index, &need)) return 0;
    if (b->old.current_size >= need) return 1;
    if (!b->old.alloc) return 0;
    size_t dbl = b->old.current_size << 1;
    *newsize = dbl > need ? dbl : need;
    *grows = 1;
    return 1;
}
static void check_storage_after(struct built *b, int ok, int grows, size_t newsize, const char *what) {
    if (b->l.alloc != b->old.alloc) FAIL("%s changed the allocator field", what);
    if (ok && grows) {
        if (b->l.current_size != newsize) FAIL("%s grew the storage to %zu bytes, expected %zu (doubling or exact)", what, b->l.current_size, newsize);
    } else if (b->l.current_size != b->old.current_size || b->l.data != b->old.data)
        FAIL("%s must not re-allocate here (current_size %zu->%zu, data %s)", what, b->old.current_size, b->l.current_size, b->l.data == b->old.data ? "same" : "moved");
}

static int cmp_bytes(const void *a, const void *b) { return memcmp(a, b, s_isz); }

int main(int argc, char **argv) {
    s_argc = argc;
    s_argv = argv;
    if (argc < 2) return 2;
    char fn[96];
    snprintf(fn, sizeof fn, "%s", argv[1]);
    char *us = strrchr(fn, '_');
    if (us && us[1] == 's' && isdigit((unsigned char)us[2])) { s_isz = strtoull(us + 2, NULL, 10); *us = 0; }
    s_isz = get("list.item_size", get("from.item_size", get("list_a.item_size", s_isz)));
    if (!strncmp(fn, "mem_swap", 8) || !strncmp(fn, "init_", 5)) s_isz = arg("item_size", s_isz);
    if (s_isz == 0 || s_isz > 4096) CANNOT("element size %zu", s_isz);
    struct aws_allocator *alloc = aws_default_allocator();
    aws_common_library_init(alloc); /* error names */
    aws_raise_error(SENTINEL_ERR); /* "no error raised" is observable as: the slot still holds this value */

    if (!strcmp(fn, "length") || !strcmp(fn, "capacity")) {
        struct built b = mklist(rdlist("list"), 1, 1); freeze(&b);
        size_t r = !strcmp(fn, "length") ? aws_array_list_length(&b.l) : aws_array_list_capacity(&b.l);
        size_t want = !strcmp(fn, "length") ? b.old.length : b.old.current_size / s_isz;
        if (r != want) FAIL("%s returned %zu, expected %zu (length %zu, current_size %zu)", fn, r, want, b.old.length, b.old.current_size);
        check_same_fields(&b, fn);
    } else if (!strcmp(fn, "get_at") || !strcmp(fn, "front") || !strcmp(fn, "back")) {
        struct lin *d = rdlist("list");
        size_t i = arg("index", 0);
        maybe_reduce(!strcmp(fn, "get_at") ? &i : NULL, NULL);
        struct built b = mklist(d, 1, 0); plant_witness(&b); freeze(&b);
        i = !strcmp(fn, "get_at") ? i : !strcmp(fn, "front") ? 0 : b.old.length - 1;
        int ok = !strcmp(fn, "get_at") ? i < b.old.length : b.old.length > 0;
        uint8_t *v = mkval(77), *v0 = mkval(77);
        int r = !strcmp(fn, "get_at") ? aws_array_list_get_at(&b.l, v, i) : !strcmp(fn, "front") ? aws_array_list_front(&b.l, v) : aws_array_list_back(&b.l, v);
        if (ok) { expect_ok(r, fn); if (memcmp(v, b.snap + i * s_isz, s_isz)) FAIL("%s: value read differs from element %zu", fn, i); }
        else { expect_err(r, !strcmp(fn, "get_at") ? AWS_ERROR_INVALID_INDEX : AWS_ERROR_LIST_EMPTY, fn); if (memcmp(v, v0, s_isz)) FAIL("%s failed but wrote the output", fn); }
        check_same_fields(&b, fn); check_bytes(&b, 0, b.real, 0, fn);
    } else if (!strcmp(fn, "get_at_ptr")) {
        struct built b = mklist(rdlist("list"), 1, 1); freeze(&b);
        size_t i = arg("index", 0);
        void *p = (void *)&b, *p0 = p;
        int r = aws_array_list_get_at_ptr(&b.l, &p, i);
        if (i < b.old.length) { expect_ok(r, fn); if (p != (uint8_t *)b.old.data + i * s_isz) FAIL("get_at_ptr(%zu): pointer is data%+td, expected data+%zu", i, (uint8_t *)p - (uint8_t *)b.old.data, i * s_isz); }
        else { expect_err(r, AWS_ERROR_INVALID_INDEX, fn); if (p != p0) FAIL("get_at_ptr failed but wrote *val"); }
        check_same_fields(&b, fn);
    } else if (!strcmp(fn, "calc_necessary_size")) {
        struct built b = mklist(rdlist("list"), 1, 1); freeze(&b);
        size_t i = arg("index", 0), out = 0x5a5a5a5a, need = 0;
        int ok = need_ok(i, &need);
        int r = aws_array_list_calc_necessary_size(&b.l, i, &out);
        if (ok) { expect_ok(r, fn); if (out != need) FAIL("calc_necessary_size(index %zu, element size %zu) = %zu, expected %zu", i, s_isz, out, need); }
        else {
            if (r == AWS_OP_SUCCESS) FAIL("calc_necessary_size(index %zu, element size %zu) succeeded with %zu although (index + 1) * size does not fit size_t (SIZE_MAX / size = %zu)", i, s_isz, out, SIZE_MAX / s_isz);
            else expect_err(r, AWS_ERROR_OVERFLOW_DETECTED, fn);
        }
        check_same_fields(&b, fn);
    } else if (!strcmp(fn, "ensure_capacity") || !strcmp(fn, "set_at") || !strcmp(fn, "push_back") || !strcmp(fn, "push_front")) {
        int push = !strncmp(fn, "push", 4);
        /* a list whose claimed storage is huge can still be asked about an index that does not fit: nothing is touched then */
        struct lin *d = rdlist("list");
        size_t i = arg("index", 0);
        maybe_reduce(push ? NULL : &i, NULL);
        struct built b = mklist(d, 1, 1);
        if (push) i = b.l.length;
        int grows; size_t newsize;
        plant_witness(&b); freeze(&b);
        int ok = grow_expect(&b, i, &grows, &newsize);
        if (b.old.current_size > REAL_MAX && ok) CANNOT("storage of %zu bytes", b.old.current_size);
        if (ok && grows && newsize > REAL_MAX) CANNOT("growth to %zu bytes", newsize);
        uint8_t *v = mkval(77);
        int r = !strcmp(fn, "ensure_capacity") ? aws_array_list_ensure_capacity(&b.l, i) : !strcmp(fn, "set_at") ? aws_array_list_set_at(&b.l, v, i)
              : !strcmp(fn, "push_back") ? aws_array_list_push_back(&b.l, v) : aws_array_list_push_front(&b.l, v);
        size_t dummy;
        if (ok) expect_ok(r, fn);
        else expect_err(r, !need_ok(i, &dummy) ? AWS_ERROR_OVERFLOW_DETECTED : push ? AWS_ERROR_LIST_EXCEEDS_MAX_SIZE : AWS_ERROR_INVALID_INDEX, fn);
        check_storage_after(&b, ok, grows, newsize, fn);
        if (s_fail) return 1; /* the content checks below rely on the shape */
        check_inv(&b.l, fn);
        size_t want_len = !ok ? b.old.length : !strcmp(fn, "ensure_capacity") ? b.old.length : push ? b.old.length + 1 : (i >= b.old.length ? i + 1 : b.old.length);
        if (b.l.length != want_len) FAIL("%s: length is %zu, expected %zu (old length %zu, index %zu)", fn, b.l.length, want_len, b.old.length, i);
        if (s_fail) return 1;
        if (!ok || !strcmp(fn, "ensure_capacity")) check_bytes(&b, 0, b.old.current_size, 0, fn);
        else if (!strcmp(fn, "push_front")) { check_elem(&b, 0, v, fn); check_bytes(&b, s_isz, (b.old.length + 1) * s_isz, -(ptrdiff_t)s_isz, fn); }
        else { check_elem(&b, i, v, fn); check_bytes(&b, 0, i * s_isz < b.old.current_size ? i * s_isz : b.old.current_size, 0, fn);
               if ((i + 1) * s_isz < b.old.current_size) check_bytes(&b, (i + 1) * s_isz, b.old.current_size, 0, fn); }
    } else if (!strcmp(fn, "pop_back") || !strcmp(fn, "pop_front") || !strcmp(fn, "pop_front_n") || !strcmp(fn, "erase") || !strcmp(fn, "clear")) {
        struct lin *d = rdlist("list");
        size_t n = arg("n", 1), i = arg("index", 0);
        maybe_reduce(!strcmp(fn, "pop_front_n") ? &n : !strcmp(fn, "erase") ? &i : NULL, NULL);
        struct built b = mklist(d, 1, 0); plant_witness(&b); freeze(&b);
        size_t len = b.old.length;
        int r = 0;
        if (!strcmp(fn, "pop_back")) {
            r = aws_array_list_pop_back(&b.l);
            if (len) { expect_ok(r, fn); check_bytes(&b, 0, (len - 1) * s_isz, 0, fn); } else expect_err(r, AWS_ERROR_LIST_EMPTY, fn);
            if (b.l.length != len - (len ? 1 : 0)) FAIL("pop_back: length %zu -> %zu", len, b.l.length);
            check_bytes(&b, len * s_isz, b.real, 0, "pop_back (bytes behind the live range)");
        } else if (!strcmp(fn, "clear")) {
            aws_array_list_clear(&b.l);
            if (b.l.length != 0) FAIL("clear: length %zu -> %zu", len, b.l.length);
        } else if (!strcmp(fn, "erase")) {
            r = aws_array_list_erase(&b.l, i);
            if (i < len) {
                expect_ok(r, fn);
                if (b.l.length != len - 1) FAIL("erase(%zu): length %zu -> %zu", i, len, b.l.length);
                check_bytes(&b, 0, i * s_isz, 0, "erase (elements in front of the erased one)");
                check_bytes(&b, i * s_isz, (len - 1) * s_isz, (ptrdiff_t)s_isz, "erase (elements behind the erased one move down)");
            } else { expect_err(r, AWS_ERROR_INVALID_INDEX, fn); if (b.l.length != len) FAIL("erase failed but length %zu -> %zu", len, b.l.length); check_bytes(&b, 0, b.real, 0, fn); }
            check_bytes(&b, len * s_isz, b.real, 0, "erase (bytes behind the live range)");
        } else {
            if (!strcmp(fn, "pop_front")) { n = 1; r = aws_array_list_pop_front(&b.l); if (len) expect_ok(r, fn); else expect_err(r, AWS_ERROR_LIST_EMPTY, fn); }
            else aws_array_list_pop_front_n(&b.l, n);
            size_t want = n >= len ? 0 : len - n;
            if (b.l.length != want) FAIL("%s(%zu): length %zu -> %zu, expected %zu", fn, n, len, b.l.length, want);
            if (n < len) check_bytes(&b, 0, want * s_isz, (ptrdiff_t)(n * s_isz), fn);
            check_bytes(&b, len * s_isz, b.real, 0, "pop_front (bytes behind the live range)");
        }
        if (b.l.current_size != b.old.current_size || b.l.data != b.old.data || b.l.alloc != b.old.alloc) FAIL("%s changed the storage descriptor", fn);
        check_inv(&b.l, fn);
    } else if (!strcmp(fn, "swap") || !strncmp(fn, "mem_swap", 8)) {
        struct built b;
        size_t a, c;
        if (!strcmp(fn, "swap")) {
            struct lin *d = rdlist("list");
            a = arg("a", 0); c = arg("b", 0);
            maybe_reduce(&a, &c);
            b = mklist(d, 1, 0);
            if (a >= b.l.length || c >= b.l.length) CANNOT("swap indices %zu, %zu outside a list of %zu elements", a, c, b.l.length);
        } else {
            /* mem_swap_slots_<a><b> / mem_swap_two_objects: via aws_array_list_swap on a three-element list */
            a = 0; c = 2;
            if (!strncmp(fn, "mem_swap_slots_", 15) && isdigit((unsigned char)fn[15]) && isdigit((unsigned char)fn[16])) { a = (size_t)(fn[15] - '0'); c = (size_t)(fn[16] - '0'); }
            memset(&b, 0, sizeof b);
            b.real = 3 * s_isz;
            b.l.data = malloc(b.real);
            for (size_t i = 0; i < b.real; ++i) ((uint8_t *)b.l.data)[i] = pat(i, 1);
            b.l.current_size = b.real; b.l.length = 3; b.l.item_size = s_isz; b.l.alloc = NULL;
        }
        if (get("g_on", 1) && has("g_j") && get("g_j", 0) < s_isz && a != c) {
            if (has("g_va")) plant(&b, a * s_isz + get("g_j", 0), (uint8_t)get("g_va", 0));
            if (has("g_vb")) plant(&b, c * s_isz + get("g_j", 0), (uint8_t)get("g_vb", 0));
        }
        freeze(&b);
        aws_array_list_swap(&b.l, a, c);
        check_same_fields(&b, fn);
        const uint8_t *d = b.l.data;
        for (size_t e = 0; e < b.old.length && (e + 1) * s_isz <= b.real; ++e) {
            size_t src = e == a ? c : e == c ? a : e;
            for (size_t j = 0; j < s_isz; ++j)
                if (d[e * s_isz + j] != b.snap[src * s_isz + j]) {
                    FAIL("swap(%zu, %zu) with element size %zu: byte %zu of element %zu is %u, expected byte %zu of old element %zu = %u", a, c, s_isz, j, e,
                         d[e * s_isz + j], j, src, b.snap[src * s_isz + j]);
                    e = b.old.length; break;
                }
        }
        if (!s_fail) check_bytes(&b, b.old.length * s_isz, b.real, 0, "swap (bytes behind the live range)");
    } else if (!strcmp(fn, "copy")) {
        struct lin *df = rdlist("from"), *dt = rdlist("to");
        maybe_reduce(NULL, NULL);
        struct built f = mklist(df, 1, 0), t = mklist(dt, 50, 0);
        if (!f.l.data) CANNOT("copy from a list without storage (excluded by the library's precondition)");
        plant_witness(&t);
        freeze(&f); freeze(&t);
        size_t bytes = f.old.length * s_isz;
        int fits = t.old.current_size >= bytes, ok = fits || t.old.alloc != NULL;
        int r = aws_array_list_copy(&f.l, &t.l);
        check_same_fields(&f, "copy (source list)"); check_bytes(&f, 0, f.real, 0, "copy (source list)");
        if (ok) {
            expect_ok(r, fn);
            if (t.l.length != f.old.length) FAIL("copy: destination length %zu, expected %zu", t.l.length, f.old.length);
            if (fits) { if (t.l.current_size != t.old.current_size || t.l.data != t.old.data) FAIL("copy re-allocated a destination that was large enough"); }
            else if (t.l.current_size != bytes) FAIL("copy: destination re-allocated to %zu bytes, expected %zu", t.l.current_size, bytes);
            check_inv(&t.l, fn);
            if (!s_fail && bytes && memcmp(t.l.data, f.snap, bytes)) FAIL("copy: destination content differs from the source");
            if (!s_fail && fits) check_bytes(&t, bytes, t.real, 0, "copy (destination bytes behind the copied range)");
        } else { expect_err(r, AWS_ERROR_DEST_COPY_TOO_SMALL, fn); check_same_fields(&t, "copy (refused)"); check_bytes(&t, 0, t.real, 0, "copy (refused)"); }
        if (t.l.alloc != t.old.alloc) FAIL("copy changed the destination's allocator field");
    } else if (!strcmp(fn, "shrink_to_fit")) {
        struct lin *d = rdlist("list");
        maybe_reduce(NULL, NULL);
        struct built b = mklist(d, 1, 0); plant_witness(&b); freeze(&b);
        int r = aws_array_list_shrink_to_fit(&b.l);
        if (b.old.alloc) {
            expect_ok(r, fn);
            if (b.l.current_size != b.old.length * s_isz) FAIL("shrink_to_fit: current_size %zu, expected %zu", b.l.current_size, b.old.length * s_isz);
            if (b.old.current_size == b.old.length * s_isz && b.l.data != b.old.data) FAIL("shrink_to_fit re-allocated an already tight list");
            check_inv(&b.l, fn);
            if (!s_fail) check_bytes(&b, 0, b.old.length * s_isz, 0, fn);
        } else { expect_err(r, AWS_ERROR_LIST_STATIC_MODE_CANT_SHRINK, fn); check_same_fields(&b, fn); check_bytes(&b, 0, b.real, 0, fn); }
        if (b.l.length != b.old.length || b.l.alloc != b.old.alloc) FAIL("shrink_to_fit changed length or allocator");
    } else if (!strcmp(fn, "swap_contents")) {
        struct built a = mklist(rdlist("list_a"), 1, 1), c = mklist(rdlist("list_b"), 50, 1);
        a.l.alloc = c.l.alloc = alloc; /* the library demands two dynamic lists of one allocator */
        freeze(&a); freeze(&c);
        aws_array_list_swap_contents(&a.l, &c.l);
        if (memcmp(&a.l, &c.old, sizeof a.l) || memcmp(&c.l, &a.old, sizeof a.l)) FAIL("swap_contents: the two descriptors were not exchanged (a.length %zu->%zu, b.length %zu->%zu)", a.old.length, a.l.length, c.old.length, c.l.length);
    } else if (!strcmp(fn, "init_dynamic")) {
        size_t n = arg("initial_item_allocation", 2);
        struct aws_array_list l; memset(&l, 0xAB, sizeof l);
        maybe_reduce(&n, NULL);
        int ok = (u128)n * s_isz <= SIZE_MAX;
        if (ok && n * s_isz > REAL_MAX) CANNOT("initial allocation of %zu bytes", n * s_isz);
        int r = aws_array_list_init_dynamic(&l, alloc, n, s_isz);
        if (ok) { expect_ok(r, fn); if (l.alloc != alloc || l.length != 0 || l.item_size != s_isz || l.current_size != n * s_isz || (n == 0) != (l.data == NULL)) FAIL("init_dynamic(%zu x %zu): length %zu item_size %zu current_size %zu data %p", n, s_isz, l.length, l.item_size, l.current_size, l.data);
                  if (!s_fail && l.data) memset(l.data, 0x11, l.current_size); /* the whole capacity must be writable (ASan) */ }
        else { expect_err(r, AWS_ERROR_OVERFLOW_DETECTED, fn); if (l.alloc || l.length || l.item_size || l.current_size || l.data) FAIL("init_dynamic failed but left a non-zero list"); }
    } else if (!strcmp(fn, "init_static") || !strcmp(fn, "init_static_from_initialized")) {
        size_t n = arg("item_count", 2);
        if (n == 0 || (u128)n * s_isz > SIZE_MAX) CANNOT("item_count %zu (excluded by the library's precondition)", n);
        size_t bytes = n * s_isz;
        void *raw = malloc(bytes < REAL_MAX ? bytes : REAL_MAX);
        struct aws_array_list l; memset(&l, 0xAB, sizeof l);
        if (!strcmp(fn, "init_static")) aws_array_list_init_static(&l, raw, n, s_isz); else aws_array_list_init_static_from_initialized(&l, raw, n, s_isz);
        size_t want_len = !strcmp(fn, "init_static") ? 0 : n;
        if (l.alloc != NULL || l.length != want_len || l.item_size != s_isz || l.current_size != bytes || l.data != raw)
            FAIL("%s(%zu x %zu): alloc %p length %zu item_size %zu current_size %zu (expected %zu) data %s", fn, n, s_isz, (void *)l.alloc, l.length, l.item_size, l.current_size, bytes, l.data == raw ? "ok" : "wrong");
    } else if (!strcmp(fn, "clean_up")) {
        struct lin *d = rdlist("list");
        maybe_reduce(NULL, NULL);
        struct built b = mklist(d, 1, 0);
        aws_array_list_clean_up(&b.l);
        if (b.l.alloc || b.l.length || b.l.item_size || b.l.current_size || b.l.data) FAIL("clean_up left a non-zero list (length %zu current_size %zu data %p)", b.l.length, b.l.current_size, b.l.data);
    } else if (!strcmp(fn, "sort")) {
        struct lin *d = rdlist("list");
        maybe_reduce(NULL, NULL);
        struct built b = mklist(d, 1, 0); freeze(&b);
        if (b.old.length > 4096) CANNOT("reference sort of %zu elements", b.old.length);
        aws_array_list_sort(&b.l, cmp_bytes);
        check_same_fields(&b, fn);
        size_t len = b.old.length;
        uint8_t *ref = malloc(b.real ? b.real : 1);
        if (b.real) memcpy(ref, b.snap, b.real);
        for (size_t x = 1; x < len; ++x) /* insertion sort as the reference */
            for (size_t y = x; y > 0 && memcmp(ref + (y - 1) * s_isz, ref + y * s_isz, s_isz) > 0; --y)
                for (size_t j = 0; j < s_isz; ++j) { uint8_t tmp = ref[(y - 1) * s_isz + j]; ref[(y - 1) * s_isz + j] = ref[y * s_isz + j]; ref[y * s_isz + j] = tmp; }
        if (len && memcmp(b.l.data, ref, len * s_isz)) FAIL("sort: the live range is not the sorted permutation of the old elements (%zu elements of %zu bytes)", len, s_isz);
        check_bytes(&b, len * s_isz, b.real, 0, "sort (bytes behind the live range)");
    } else {
        printf("no native replay for op %s\n", argv[1]);
        return 3;
    }
    if (s_fail) return 1;
    printf("held natively on this input\n");
    return 0;
}
