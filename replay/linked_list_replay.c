/* Native replay driver for violations reported by the C09 linked-list units (include/aws/common/linked_list.inl).
 *
 *   replay ll_<operation> r_ll_k=<free nodes> r_ll_nl=<lists> r_nx<i>=.. r_pv<i>=.. r_p0=.. r_p1=..
 *
 * The units run every operation on a closed universe of nodes (contracts/linked_list.h): r_ll_k free nodes, the
 * head/tail sentinels of r_ll_nl lists and one outside node, N = k + 2*nl + 1 in all; every link is NULL (index N) or
 * a universe node.  The counterexample carries the whole pre-state in index form (r_nx<i> / r_pv<i> = next / prev of
 * node i) and the operation's arguments (r_p0, r_p1 = node or list indices).  The universe is rebuilt here from real
 * struct aws_linked_list_node / struct aws_linked_list objects with exactly those links, the REAL operation is called,
 * and the result is compared with the reference result of the abstract sequence operation (computed here on the index
 * form): every link of every node (so "nothing else changed" is part of it), the mirror invariant
 * n->next->prev == n / n->prev->next == n, and - where the list is well formed - that a forward and a backward walk
 * are mirror images.
 * exit 0: held on this input; 1: violated (reason printed); 3: the recorded input does not satisfy the operation's
 * precondition / is incomplete.  Built with ASan/UBSan: a sanitizer report is a non-zero exit as well. */
#include <aws/common/linked_list.h>
#include <stdio.h>
#include <stdlib.h>
#include <string.h>

const char *__asan_default_options(void) { return "detect_leaks=0"; }

#define MAXN 12
static int s_argc;
static char **s_argv;
static int s_fail;
static size_t K, NL, N;
#define NONE N
#define HEAD(l) (K + 2 * (l))
#define TAIL(l) (K + 2 * (l) + 1)
#define OUTSIDE (K + 2 * NL)

static struct aws_linked_list_node s_node[MAXN];
static struct aws_linked_list s_list[MAXN];
static struct aws_linked_list_node s_outside;
static size_t nx[MAXN + 1], pv[MAXN + 1], ex_nx[MAXN + 1], ex_pv[MAXN + 1];

#define FAIL(...) do { printf("VIOLATED: "); printf(__VA_ARGS__); printf("\n"); s_fail = 1; } while (0)
#define CANNOT(...) do { printf("input not usable: "); printf(__VA_ARGS__); printf("\n"); exit(3); } while (0)

static int has(const char *key) {
    size_t n = strlen(key);
    for (int i = 2; i < s_argc; ++i)
        if (!strncmp(s_argv[i], key, n) && s_argv[i][n] == '=') return 1;
    return 0;
}
static uint64_t get(const char *key, uint64_t dflt) {
    size_t n = strlen(key);
    for (int i = 2; i < s_argc; ++i)
        if (!strncmp(s_argv[i], key, n) && s_argv[i][n] == '=') return strtoull(s_argv[i] + n + 1, NULL, 10);
    return dflt;
}
static struct aws_linked_list_node *u(size_t i) {
    if (i < K) return &s_node[i];
    if (i == OUTSIDE) return &s_outside;
    if (i >= N) return NULL;
    return ((i - K) & 1) ? &s_list[(i - K) >> 1].tail : &s_list[(i - K) >> 1].head;
}
static size_t idx(const struct aws_linked_list_node *p) {
    if (!p) return NONE;
    for (size_t i = 0; i < N; ++i) if (u(i) == p) return i;
    return N + 1; /* a pointer that leaves the universe */
}
static const char *name(size_t i) {
    static char buf[8][24]; static int k;
    char *b = buf[k++ & 7];
    if (i == NONE) snprintf(b, 24, "NULL");
    else if (i > N) snprintf(b, 24, "<outside the universe>");
    else if (i < K) snprintf(b, 24, "node%zu", i);
    else if (i == OUTSIDE) snprintf(b, 24, "outside");
    else snprintf(b, 24, "list%zu.%s", (i - K) >> 1, ((i - K) & 1) ? "tail" : "head");
    return b;
}
static int is_client(size_t i) { return i < K || i == OUTSIDE; }
static int list_ok(size_t l) {
    size_t f = nx[HEAD(l)], b = pv[TAIL(l)];
    return pv[HEAD(l)] == NONE && nx[TAIL(l)] == NONE && f != NONE && b != NONE && (f == TAIL(l) || is_client(f)) && (b == HEAD(l) || is_client(b));
}
/* mirror invariant on the pre-state, for every node except `skip` */
static int pre_inv(size_t skip) {
    for (size_t i = 0; i < N; ++i) {
        if (i == skip) continue;
        if (nx[i] != NONE && pv[nx[i]] != i) return 0;
        if (pv[i] != NONE && nx[pv[i]] != i) return 0;
    }
    return 1;
}
static int detached(size_t t) {
    for (size_t i = 0; i < N; ++i) if (i != t && (nx[i] == t || pv[i] == t)) return 0;
    return 1;
}
static void ref_insert_between(size_t p, size_t t, size_t n) { ex_nx[p] = t; ex_pv[t] = p; ex_nx[t] = n; ex_pv[n] = t; }
static void ref_remove(size_t x) { size_t p = ex_pv[x], n = ex_nx[x]; ex_nx[p] = n; ex_pv[n] = p; ex_nx[x] = NONE; ex_pv[x] = NONE; }
static void ref_make_empty(size_t l) { ex_nx[HEAD(l)] = TAIL(l); ex_pv[TAIL(l)] = HEAD(l); }

static void show_list(size_t l) {
    printf("  list%zu forward :", l);
    size_t steps = 0;
    for (const struct aws_linked_list_node *p = s_list[l].head.next; p && p != &s_list[l].tail && steps < 2 * MAXN; p = p->next, ++steps) printf(" %s", name(idx(p)));
    printf("\n  list%zu backward:", l);
    steps = 0;
    for (const struct aws_linked_list_node *p = s_list[l].tail.prev; p && p != &s_list[l].head && steps < 2 * MAXN; p = p->prev, ++steps) printf(" %s", name(idx(p)));
    printf("\n");
}
/* every list of the universe: the forward walk head -> tail and the backward walk tail -> head visit the same nodes in
 * opposite order */
static int walks_mirror(void) {
    for (size_t l = 0; l < NL; ++l) {
        size_t fw[2 * MAXN], bw[2 * MAXN], nf = 0, nb = 0;
        const struct aws_linked_list_node *p;
        for (p = s_list[l].head.next; p && p != &s_list[l].tail && nf < 2 * MAXN; p = p->next) fw[nf++] = idx(p);
        if (p != &s_list[l].tail) return 0;
        for (p = s_list[l].tail.prev; p && p != &s_list[l].head && nb < 2 * MAXN; p = p->prev) bw[nb++] = idx(p);
        if (p != &s_list[l].head || nf != nb) return 0;
        for (size_t i = 0; i < nf; ++i) if (fw[i] != bw[nf - 1 - i]) return 0;
    }
    return 1;
}
static int s_pre_mirror;
static void check_post(const char *op) {
    for (size_t i = 0; i < N && !s_fail; ++i) {
        size_t gn = idx(u(i)->next), gp = idx(u(i)->prev);
        if (gn != ex_nx[i]) FAIL("%s: %s->next is %s, the reference result is %s", op, name(i), name(gn), name(ex_nx[i]));
        else if (gp != ex_pv[i]) FAIL("%s: %s->prev is %s, the reference result is %s", op, name(i), name(gp), name(ex_pv[i]));
    }
    for (size_t i = 0; i < N; ++i) {
        const struct aws_linked_list_node *n = u(i);
        if (n->next && idx(n->next) <= N && n->next->prev != n) { FAIL("%s: mirror invariant broken: %s->next->prev is %s", op, name(i), name(idx(n->next->prev))); break; }
        if (n->prev && idx(n->prev) <= N && n->prev->next != n) { FAIL("%s: mirror invariant broken: %s->prev->next is %s", op, name(i), name(idx(n->prev->next))); break; }
    }
    /* forward and backward walks of every list are mirror images (checked when they were before the call: the
     * universe may hold lists whose interior is not connected, the units only constrain what the operation touches) */
    if (s_pre_mirror && !walks_mirror()) FAIL("%s: forward and backward walks of a list are not mirror images any more", op);
    if (s_fail) for (size_t l = 0; l < NL; ++l) show_list(l);
}

int main(int argc, char **argv) {
    s_argc = argc;
    s_argv = argv;
    if (argc < 2) return 2;
    const char *op = argv[1];
    if (strncmp(op, "ll_", 3)) { printf("no native replay for op %s\n", op); return 3; }
    op += 3;
    if (!has("r_ll_k") || !has("r_ll_nl")) CANNOT("universe shape r_ll_k / r_ll_nl missing");
    K = get("r_ll_k", 0); NL = get("r_ll_nl", 0); N = K + 2 * NL + 1;
    if (N > MAXN) CANNOT("universe of %zu nodes", N);
    for (size_t i = 0; i < N; ++i) {
        char k[24];
        snprintf(k, sizeof k, "r_nx%zu", i); if (!has(k)) CANNOT("%s missing", k); nx[i] = get(k, 0);
        snprintf(k, sizeof k, "r_pv%zu", i); if (!has(k)) CANNOT("%s missing", k); pv[i] = get(k, 0);
        if (nx[i] > N || pv[i] > N) CANNOT("link of node %zu outside the universe", i);
    }
    nx[N] = pv[N] = N;
    for (size_t i = 0; i < N; ++i) { u(i)->next = u(nx[i]); u(i)->prev = u(pv[i]); ex_nx[i] = nx[i]; ex_pv[i] = pv[i]; }
    s_pre_mirror = NL > 0 && walks_mirror();
    size_t p0 = get("r_p0", NONE), p1 = get("r_p1", NONE);
    {
        /* which arguments are list indices */
        int l0 = !strcmp(op, "init") || !strncmp(op, "push", 4) || !strncmp(op, "pop", 3) || !strcmp(op, "swap_contents") || !strncmp(op, "move_all", 8) || !strcmp(op, "observers");
        int l1 = !strcmp(op, "swap_contents") || !strncmp(op, "move_all", 8);
        char a0[24], a1[24];
        if (l0) snprintf(a0, sizeof a0, "list%zu", p0); else snprintf(a0, sizeof a0, "%s", name(p0));
        if (l1) snprintf(a1, sizeof a1, "list%zu", p1); else snprintf(a1, sizeof a1, "%s", name(p1));
        printf("universe: %zu free nodes, %zu lists; %s(%s%s%s)\n", K, NL, op, a0, p1 != NONE ? ", " : "", p1 != NONE ? a1 : "");
    }
    for (size_t i = 0; i < N; ++i) printf("  %-10s next=%-10s prev=%s\n", name(i), name(nx[i]), name(pv[i]));

#define NEED_NODE(x) do { if ((x) >= N) CANNOT("node argument missing"); } while (0)
#define NEED_LIST(x) do { if ((x) >= NL) CANNOT("list argument missing"); } while (0)
    if (!strcmp(op, "init")) {
        NEED_LIST(p0);
        aws_linked_list_init(&s_list[p0]);
        ex_nx[HEAD(p0)] = TAIL(p0); ex_pv[HEAD(p0)] = NONE; ex_pv[TAIL(p0)] = HEAD(p0); ex_nx[TAIL(p0)] = NONE;
        check_post(op);
        if (!aws_linked_list_empty(&s_list[p0])) FAIL("init: list not empty");
    } else if (!strcmp(op, "node_reset")) {
        NEED_NODE(p0);
        aws_linked_list_node_reset(u(p0));
        ex_nx[p0] = NONE; ex_pv[p0] = NONE;
        check_post(op);
    } else if (!strcmp(op, "insert_after") || !strcmp(op, "insert_before")) {
        NEED_NODE(p0); NEED_NODE(p1);
        int after = !strcmp(op, "insert_after");
        if (p0 == p1 || (after ? nx[p0] : pv[p0]) == NONE || !pre_inv(p1) || !detached(p1)) CANNOT("precondition of %s does not hold", op);
        if (after) { aws_linked_list_insert_after(u(p0), u(p1)); ref_insert_between(p0, p1, nx[p0]); }
        else { aws_linked_list_insert_before(u(p0), u(p1)); ref_insert_between(pv[p0], p1, p0); }
        check_post(op);
    } else if (!strcmp(op, "remove")) {
        NEED_NODE(p0);
        if (nx[p0] == NONE || pv[p0] == NONE || !pre_inv(NONE)) CANNOT("precondition of remove does not hold");
        aws_linked_list_remove(u(p0));
        ref_remove(p0);
        check_post(op);
        for (size_t i = 0; i < N; ++i) if (u(i)->next == u(p0) || u(i)->prev == u(p0)) { FAIL("remove: %s still links to the removed node", name(i)); break; }
    } else if (!strcmp(op, "swap_nodes")) {
        NEED_NODE(p0); NEED_NODE(p1);
        size_t a = p0, b = p1;
        if (nx[a] == NONE || pv[a] == NONE || nx[b] == NONE || pv[b] == NONE || !pre_inv(NONE)) CANNOT("precondition of swap_nodes does not hold");
        size_t pa = pv[a], na = nx[a], pb = pv[b], nb = nx[b];
        aws_linked_list_swap_nodes(u(a), u(b));
        if (a == b) {
        } else if (na == b) { ex_nx[pa] = b; ex_pv[b] = pa; ex_nx[b] = a; ex_pv[a] = b; ex_nx[a] = nb; ex_pv[nb] = a;
        } else if (nb == a) { ex_nx[pb] = a; ex_pv[a] = pb; ex_nx[a] = b; ex_pv[b] = a; ex_nx[b] = na; ex_pv[na] = b;
        } else { ex_nx[pa] = b; ex_pv[b] = pa; ex_nx[b] = na; ex_pv[na] = b; ex_nx[pb] = a; ex_pv[a] = pb; ex_nx[a] = nb; ex_pv[nb] = a; }
        check_post(op);
    } else if (!strcmp(op, "push_back") || !strcmp(op, "push_front")) {
        NEED_LIST(p0); NEED_NODE(p1);
        if (!list_ok(p0) || !is_client(p1) || !pre_inv(p1) || !detached(p1)) CANNOT("precondition of %s does not hold", op);
        if (!strcmp(op, "push_back")) { aws_linked_list_push_back(&s_list[p0], u(p1)); ref_insert_between(pv[TAIL(p0)], p1, TAIL(p0)); if (s_list[p0].tail.prev != u(p1)) FAIL("push_back: node is not the last element"); }
        else { aws_linked_list_push_front(&s_list[p0], u(p1)); ref_insert_between(HEAD(p0), p1, nx[HEAD(p0)]); if (s_list[p0].head.next != u(p1)) FAIL("push_front: node is not the first element"); }
        check_post(op);
    } else if (!strcmp(op, "pop_back") || !strcmp(op, "pop_front")) {
        NEED_LIST(p0);
        int back = !strcmp(op, "pop_back");
        size_t x = back ? pv[TAIL(p0)] : nx[HEAD(p0)];
        if (!list_ok(p0) || !pre_inv(NONE) || nx[HEAD(p0)] == TAIL(p0) || (back ? pv[x] : nx[x]) == NONE) CANNOT("precondition of %s does not hold", op);
        struct aws_linked_list_node *r = back ? aws_linked_list_pop_back(&s_list[p0]) : aws_linked_list_pop_front(&s_list[p0]);
        if (r != u(x)) FAIL("%s returned %s, expected %s", op, name(idx(r)), name(x));
        ref_remove(x);
        check_post(op);
        if (r && (r->next || r->prev)) FAIL("%s: popped node still has links", op);
    } else if (!strcmp(op, "swap_contents")) {
        NEED_LIST(p0); NEED_LIST(p1);
        size_t a = p0, b = p1;
        if (a == b || !list_ok(a) || !list_ok(b) || !pre_inv(NONE)) CANNOT("precondition of swap_contents does not hold");
        size_t af = nx[HEAD(a)], al = pv[TAIL(a)], bf = nx[HEAD(b)], bl = pv[TAIL(b)];
        int a_empty = af == TAIL(a), b_empty = bf == TAIL(b);
        aws_linked_list_swap_contents(&s_list[a], &s_list[b]);
        if (b_empty) ref_make_empty(a); else { ex_nx[HEAD(a)] = bf; ex_pv[bf] = HEAD(a); ex_pv[TAIL(a)] = bl; ex_nx[bl] = TAIL(a); }
        if (a_empty) ref_make_empty(b); else { ex_nx[HEAD(b)] = af; ex_pv[af] = HEAD(b); ex_pv[TAIL(b)] = al; ex_nx[al] = TAIL(b); }
        check_post(op);
    } else if (!strcmp(op, "move_all_back") || !strcmp(op, "move_all_front")) {
        NEED_LIST(p0); NEED_LIST(p1);
        size_t d = p0, s = p1;
        if (d == s || !list_ok(d) || !list_ok(s) || !pre_inv(NONE)) CANNOT("precondition of %s does not hold", op);
        size_t sf = nx[HEAD(s)], sl = pv[TAIL(s)], dl = pv[TAIL(d)], df = nx[HEAD(d)];
        if (!strcmp(op, "move_all_back")) {
            aws_linked_list_move_all_back(&s_list[d], &s_list[s]);
            if (sf != TAIL(s)) { ex_nx[dl] = sf; ex_pv[sf] = dl; ex_pv[TAIL(d)] = sl; ex_nx[sl] = TAIL(d); ref_make_empty(s); }
        } else {
            aws_linked_list_move_all_front(&s_list[d], &s_list[s]);
            if (sf != TAIL(s)) { ex_nx[HEAD(d)] = sf; ex_pv[sf] = HEAD(d); ex_nx[sl] = df; ex_pv[df] = sl; ref_make_empty(s); }
        }
        check_post(op);
    } else if (!strcmp(op, "observers")) {
        NEED_LIST(p0); NEED_NODE(p1);
        size_t l = p0, x = p1;
        if (!list_ok(l) || !pre_inv(NONE)) CANNOT("precondition of the observers does not hold");
        const struct aws_linked_list *list = &s_list[l];
        if (!aws_linked_list_is_valid(list)) FAIL("is_valid is false on a valid list");
        if (aws_linked_list_empty(list) != (nx[HEAD(l)] == TAIL(l))) FAIL("empty() disagrees with head.next == tail");
        if (aws_linked_list_begin(list) != u(nx[HEAD(l)])) FAIL("begin() is not head.next");
        if (aws_linked_list_end(list) != u(TAIL(l))) FAIL("end() is not the tail sentinel");
        if (aws_linked_list_rbegin(list) != u(pv[TAIL(l)])) FAIL("rbegin() is not tail.prev");
        if (aws_linked_list_rend(list) != u(HEAD(l))) FAIL("rend() is not the head sentinel");
        if (nx[HEAD(l)] != TAIL(l)) {
            if (aws_linked_list_front(list) != u(nx[HEAD(l)])) FAIL("front() is not the first element");
            if (aws_linked_list_back(list) != u(pv[TAIL(l)])) FAIL("back() is not the last element");
        }
        if (aws_linked_list_node_next_is_valid(u(x)) != (nx[x] != NONE)) FAIL("node_next_is_valid wrong");
        if (aws_linked_list_node_prev_is_valid(u(x)) != (pv[x] != NONE)) FAIL("node_prev_is_valid wrong");
        if (aws_linked_list_node_is_in_list(u(x)) != (nx[x] != NONE && pv[x] != NONE)) FAIL("node_is_in_list wrong");
        if (nx[x] != NONE && (aws_linked_list_next(u(x)) != u(nx[x]) || aws_linked_list_prev(u(nx[x])) != u(x))) FAIL("prev(next(x)) != x");
        if (pv[x] != NONE && (aws_linked_list_prev(u(x)) != u(pv[x]) || aws_linked_list_next(u(pv[x])) != u(x))) FAIL("next(prev(x)) != x");
        check_post(op);
    } else {
        printf("no native replay for op ll_%s\n", op);
        return 3;
    }
    if (s_fail) return 1;
    printf("held natively on this input\n");
    return 0;
}
